#!/bin/bash
# Builds bin/kafcheck from the vendored checker module, offline, with the pre-installed go1.26.8.
set -e
cd "$(dirname "$0")/checker"
export PATH=/opt/veriftools/go1.26.8/bin:$PATH GOFLAGS=-mod=vendor GOPROXY=off GOSUMDB=off GOTOOLCHAIN=local GOWORK=off
mkdir -p ../bin ../evidence
go build -o ../bin/kafcheck ./cmd/kafcheck
