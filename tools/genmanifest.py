#!/usr/bin/env python3
"""Regenerates /verif/MANIFEST.json from tools/claims.json and the list of properties kafcheck implements.

claims.json: { "Cxx": {"text": ..., "note": ..., "technique": ..., "design_ref": ..., "category": "other"} }
Properties without an implemented check are listed under not_applicable with the reason given in
claims.json["_not_applicable"] or a generic "no check built yet" reason.
"""
import json, os, subprocess, sys

V = os.path.dirname(os.path.dirname(os.path.abspath(__file__)))
claims = {}
for f in sorted(os.listdir(os.path.join(V, "tools", "claims"))):
    if f.endswith(".json"):
        claims[f[:-5]] = json.load(open(os.path.join(V, "tools", "claims", f)))
props = [json.loads(l)["id"] for l in open(os.path.join(V, "properties.jsonl"))]
try:
    impl = subprocess.check_output([os.path.join(V, "bin", "kafcheck"), "-list"], text=True).split()
except Exception as e:
    print("kafcheck not built:", e, file=sys.stderr)
    sys.exit(1)

na_reasons = claims.get("_not_applicable", {})
checks, na = [], []
for p in props:
    if p in impl and p in claims and p not in na_reasons:
        c = claims[p]
        checks.append({
            "property_id": p,
            "quick_cmd": f"bin/kafcheck -q -p {p} -tier quick",
            "thorough_cmd": f"bin/kafcheck -q -p {p} -tier thorough",
            "evidence_file": f"evidence/{p}.json",
            "replay_cmd_template": "bin/kafcheck explain {path}",
            "engine": "kafcheck",
            "level_claimed": {
                "category": c.get("category", "other"),
                "text": c["text"],
                "design_ref": c.get("design_ref", f"DESIGN.md §3 {p}"),
            },
            "level_note": c["note"],
            "technique": c.get("technique", "static analysis over go/ssa"),
        })
    else:
        na.append({"property_id": p, "reason": na_reasons.get(p, "no static check built for this property yet; not claimed")})

manifest = {
    "version": 1,
    "setup_cmd": "./build.sh && bin/kafcheck warm",
    "hooks": {
        "guard": "verif",
        "enable": "none needed: static analysis reads /repo's source as it is; no hooks or instrumentation were added",
        "baseline_off_cmd": "tools/baseline.sh",
        "source_commits": [],
        "add_only": True,
    },
    "engines": [{
        "name": "kafcheck",
        "path": "checker/cmd/kafcheck",
        "serves_properties": [c["property_id"] for c in checks],
        "kind_free_text": "repository-specific static analyser: go/packages type-checked syntax + go/ssa; CFG path search with guard atoms (must-pass), lockset dataflow, who-may-write tables, value provenance, decoded-length taint, constant-table agreement, demand-driven context-sensitive points-to (may-write) analysis; before any rule runs, functions that did not exist at the pinned commit are folded into their callers at SSA level (inliner + jump threading added to the vendored go/ssa; anchors/known_funcs.txt) so that rules anchored on a function see through helpers split out of it. Never executes repository code.",
    }],
    "checks": checks,
    "not_applicable": na,
    "notes": "All checks are static: bin/kafcheck loads /repo's current working tree with go/packages on every run (go1.26.8, offline), builds SSA and evaluates the rule instances of the property; exit 0 = every obligation discharged (KNOWN-FINDING lines allowed), exit 1 + VIOLATION line = a rule is violated by a construct not in known_findings.json, exit 2 = undecided/unresolved anchor (never expected on the unchanged tree). thorough additionally replays, in memory (packages overlay), the sensitivity controls in controls/*.json and the 133 independently seeded breaking changes in seeded/ (the named rule must fire on each) and the 50 behaviour- or property-preserving patches in refactors/ (the check must stay quiet on each); a missed control or a false alarm on a negative control fails the run.",
}
json.dump(manifest, open(os.path.join(V, "MANIFEST.json"), "w"), indent=1)
print(f"MANIFEST.json: {len(checks)} checks, {len(na)} not_applicable")
