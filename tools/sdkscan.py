#!/usr/bin/env python3
"""sdkscan.py <repo-root>

Static extraction (no SDK code is executed or imported) of the LFS envelope *detector spec* and the
envelope field tables from the Python and TypeScript client SDKs. Prints JSON:

  {"python": {"detector": {...}, "fields": [...], "required": [...]},
   "ts":     {"detector": {...}, "fields": [...], "required": [...]}}

detector = {"found": bool, "min_len": int, "first_byte": int, "window": int, "marker": str,
            "domain": "bytes" | "utf8-replace" | "utf8-ignore" | "utf8-strict" | "unknown",
            "unrecognised": [source fragments of conditions the extractor does not understand]}

Python is read with the `ast` module; the single TypeScript function with a small tokenizer.
"""
import ast
import json
import os
import re
import sys


def py_spec(path):
    out = {"detector": {"found": False, "min_len": 0, "first_byte": -1, "window": -1, "marker": "",
                        "domain": "unknown", "unrecognised": []},
           "fields": [], "required": [], "optional_default_none": []}
    if not os.path.exists(path):
        return out
    src = open(path, encoding="utf-8").read()
    tree = ast.parse(src)
    for node in tree.body:
        if isinstance(node, ast.ClassDef) and node.name == "LfsEnvelope":
            for st in node.body:
                if isinstance(st, ast.AnnAssign) and isinstance(st.target, ast.Name):
                    out["fields"].append(st.target.id)
                    if st.value is not None:
                        out["optional_default_none"].append(st.target.id)
        if isinstance(node, ast.FunctionDef) and node.name == "decode_envelope":
            for sub in ast.walk(node):
                if isinstance(sub, ast.Call) and isinstance(sub.func, ast.Attribute) and sub.func.attr == "get" and sub.args:
                    a = sub.args[0]
                    if isinstance(a, ast.Constant) and isinstance(a.value, str) and a.value not in out["required"]:
                        out["required"].append(a.value)
        if isinstance(node, ast.FunctionDef) and node.name == "is_lfs_envelope":
            d = out["detector"]
            d["found"] = True
            param = node.args.args[0].arg if node.args.args else "value"
            d["domain"] = "bytes"
            for sub in ast.walk(node):
                # .decode(..., errors=...)
                if isinstance(sub, ast.Call) and isinstance(sub.func, ast.Attribute) and sub.func.attr == "decode":
                    mode = "utf8-strict"
                    for kw in sub.keywords:
                        if kw.arg == "errors" and isinstance(kw.value, ast.Constant):
                            mode = {"ignore": "utf8-ignore", "replace": "utf8-replace"}.get(kw.value.value, "unknown")
                    d["domain"] = mode

            def window_of(e):
                # value[:K]
                if isinstance(e, ast.Subscript) and isinstance(e.slice, ast.Slice) and e.slice.lower is None \
                        and isinstance(e.slice.upper, ast.Constant):
                    return e.slice.upper.value
                if isinstance(e, ast.Call) and isinstance(e.func, ast.Attribute) and e.func.attr == "decode":
                    return window_of(e.func.value)
                if isinstance(e, ast.Name):
                    # a local assigned from a slice
                    for sub in ast.walk(node):
                        if isinstance(sub, ast.Assign) and len(sub.targets) == 1 and isinstance(sub.targets[0], ast.Name) \
                                and sub.targets[0].id == e.id:
                            return window_of(sub.value)
                return None

            def cond(test):
                """classify one rejecting condition (an `if <test>: return False`)"""
                if isinstance(test, ast.BoolOp) and isinstance(test.op, ast.Or):
                    for v in test.values:
                        cond(v)
                    return
                # not value
                if isinstance(test, ast.UnaryOp) and isinstance(test.op, ast.Not) and isinstance(test.operand, ast.Name):
                    d["min_len"] = max(d["min_len"], 1)
                    return
                if isinstance(test, ast.Compare) and len(test.ops) == 1:
                    l, op, rgt = test.left, test.ops[0], test.comparators[0]
                    # len(value) < K
                    if isinstance(l, ast.Call) and isinstance(l.func, ast.Name) and l.func.id == "len" \
                            and isinstance(rgt, ast.Constant) and isinstance(op, (ast.Lt, ast.LtE, ast.Eq)):
                        k = rgt.value
                        if isinstance(op, ast.LtE):
                            k += 1
                        if isinstance(op, ast.Eq):
                            k = 1 if k == 0 else None
                        if k is not None:
                            d["min_len"] = max(d["min_len"], k)
                            return
                    # value[:1] != b"{"   /  value[0] != 123
                    if isinstance(op, ast.NotEq) and isinstance(l, ast.Subscript) and isinstance(rgt, ast.Constant):
                        v = rgt.value
                        if isinstance(v, bytes) and len(v) == 1:
                            d["first_byte"] = v[0]
                            return
                        if isinstance(v, int):
                            d["first_byte"] = v
                            return
                d["unrecognised"].append(ast.unparse(test))

            for st in node.body:
                if isinstance(st, ast.If) and len(st.body) == 1 and isinstance(st.body[0], ast.Return) \
                        and isinstance(st.body[0].value, ast.Constant) and st.body[0].value.value is False:
                    cond(st.test)
                elif isinstance(st, ast.Return):
                    v = st.value
                    # MARKER in WINDOW
                    if isinstance(v, ast.Compare) and len(v.ops) == 1 and isinstance(v.ops[0], ast.In) \
                            and isinstance(v.left, ast.Constant):
                        mk = v.left.value
                        d["marker"] = mk.decode("latin-1") if isinstance(mk, bytes) else mk
                        if isinstance(mk, str) and d["domain"] == "bytes":
                            d["domain"] = "unknown"
                        w = window_of(v.comparators[0])
                        if w is not None:
                            d["window"] = w
                    else:
                        d["unrecognised"].append(ast.unparse(st))
                elif isinstance(st, (ast.Assign, ast.Expr, ast.AnnAssign)):
                    continue
                else:
                    d["unrecognised"].append(ast.unparse(st))
    return out


def ts_spec(path):
    out = {"detector": {"found": False, "min_len": 0, "first_byte": -1, "window": -1, "marker": "",
                        "domain": "unknown", "unrecognised": []},
           "fields": [], "required": [], "optional_default_none": []}
    if not os.path.exists(path):
        return out
    src = open(path, encoding="utf-8").read()
    # strip comments
    src = re.sub(r"/\*.*?\*/", "", src, flags=re.S)
    src = re.sub(r"//[^\n]*", "", src)
    m = re.search(r"export\s+interface\s+LfsEnvelope\s*\{(.*?)\}", src, flags=re.S)
    if m:
        for fm in re.finditer(r"^\s*([A-Za-z_][A-Za-z0-9_]*)(\?)?\s*:", m.group(1), flags=re.M):
            out["fields"].append(fm.group(1))
            if fm.group(2):
                out["optional_default_none"].append(fm.group(1))

    def body_of(name):
        mm = re.search(r"export\s+function\s+" + name + r"\s*\([^)]*\)[^{]*\{", src)
        if not mm:
            return None
        i = mm.end()
        depth = 1
        j = i
        while j < len(src) and depth > 0:
            if src[j] == "{":
                depth += 1
            elif src[j] == "}":
                depth -= 1
            j += 1
        return src[i:j - 1]

    dec = body_of("decodeEnvelope")
    if dec:
        for fm in re.finditer(r"!\s*env\.([A-Za-z_][A-Za-z0-9_]*)", dec):
            if fm.group(1) not in out["required"]:
                out["required"].append(fm.group(1))
    body = body_of("isLfsEnvelope")
    if body is None:
        return out
    d = out["detector"]
    d["found"] = True
    d["domain"] = "bytes"
    stmts = [s.strip() for s in re.split(r";|\n", body) if s.strip()]
    for s in stmts:
        mm = re.fullmatch(r"if\s*\((.*)\)\s*return\s+false", s)
        if mm:
            for c in [x.strip() for x in mm.group(1).split("||")]:
                if re.fullmatch(r"!\s*value", c):
                    d["min_len"] = max(d["min_len"], 1)
                elif re.fullmatch(r"value\.length\s*===?\s*0", c):
                    d["min_len"] = max(d["min_len"], 1)
                elif (k := re.fullmatch(r"value\.length\s*<\s*(\d+)", c)):
                    d["min_len"] = max(d["min_len"], int(k.group(1)))
                elif (k := re.fullmatch(r"value\.length\s*<=\s*(\d+)", c)):
                    d["min_len"] = max(d["min_len"], int(k.group(1)) + 1)
                elif (k := re.fullmatch(r"value\[0\]\s*!==?\s*(\d+|0x[0-9a-fA-F]+)", c)):
                    d["first_byte"] = int(k.group(1), 0)
                else:
                    d["unrecognised"].append(c)
            continue
        if "TextDecoder" in s:
            if re.search(r"fatal\s*:\s*true", s):
                d["domain"] = "utf8-strict"
            else:
                d["domain"] = "utf8-replace"
        elif (dm := re.search(r"([A-Za-z_$][A-Za-z0-9_$]*)\.decode\(", s)):
            # a decoder held in a variable: resolve its construction at module or function level
            ident = dm.group(1)
            cm = re.search(r"(?:const|let|var)\s+" + re.escape(ident) + r"\s*=\s*new\s+TextDecoder\(([^;]*?)\)\s*;", src)
            if not cm:
                d["unrecognised"].append("decoder " + ident + " is not a resolvable TextDecoder")
            elif re.search(r"fatal\s*:\s*true", cm.group(1)):
                d["domain"] = "utf8-strict"
            else:
                d["domain"] = "utf8-replace"
        w = re.search(r"slice\(\s*0\s*,\s*Math\.min\(\s*(\d+)\s*,\s*value\.length\s*\)\s*\)", s) or \
            re.search(r"slice\(\s*0\s*,\s*Math\.min\(\s*value\.length\s*,\s*(\d+)\s*\)\s*\)", s) or \
            re.search(r"(?:slice|subarray)\(\s*0\s*,\s*(\d+)\s*\)", s)
        if w:
            d["window"] = int(w.group(1))
        mk = re.search(r"includes\(\s*'([^']*)'\s*\)", s) or re.search(r'includes\(\s*"((?:[^"\\]|\\.)*)"\s*\)', s)
        if mk:
            d["marker"] = mk.group(1).replace('\\"', '"')
        if not (mm or "TextDecoder" in s or ".decode(" in s or w or mk or s.startswith("const ") or s.startswith("return ")):
            d["unrecognised"].append(s)
    return out


def main():
    root = sys.argv[1] if len(sys.argv) > 1 else "/repo"
    # optional overrides "<repo-relative path>=<file holding the replacement text>" (used by the
    # checker's in-memory sensitivity controls; nothing is written into the repository)
    over = dict(a.split("=", 1) for a in sys.argv[2:] if "=" in a)
    pyf = "lfs-client-sdk/python/lfs_sdk/envelope.py"
    tsf = "lfs-client-sdk/js/src/envelope.ts"
    res = {
        "python": py_spec(over.get(pyf, os.path.join(root, pyf))),
        "ts": ts_spec(over.get(tsf, os.path.join(root, tsf))),
    }
    json.dump(res, sys.stdout, indent=1)
    print()


if __name__ == "__main__":
    main()
