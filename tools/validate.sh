#!/bin/bash
# Validates MANIFEST.json and every evidence file against the schemas.
cd "$(dirname "$0")/.."
python3-vt - <<'PY'
import json,jsonschema,glob,sys
ok=True
try:
    jsonschema.validate(json.load(open('MANIFEST.json')),json.load(open('/root/.vp/MANIFEST.schema.json')))
except Exception as e:
    ok=False; print('MANIFEST invalid:',str(e)[:300])
es=json.load(open('/root/.vp/EVIDENCE.schema.json'))
for f in sorted(glob.glob('evidence/C*.json')):
    try: jsonschema.validate(json.load(open(f)),es)
    except Exception as e:
        ok=False; print(f,'invalid:',str(e)[:300])
print('valid' if ok else 'INVALID')
sys.exit(0 if ok else 1)
PY
