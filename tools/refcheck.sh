#!/bin/bash
# usage: refcheck.sh <tag>  — apply a behaviour-preserving refactoring patch to /repo, run every quick check,
# print what fired (each line is a false alarm to be understood), undo.
TAG=$1
P=/tmp/seed/ref-$TAG/out/patch.diff
mkdir -p /verif/refactors/$TAG && cp $P /verif/refactors/$TAG/patch.diff && cp /tmp/seed/ref-$TAG/out/notes.json /verif/refactors/$TAG/ 2>/dev/null
git -C /repo apply $P || { echo "PATCH DOES NOT APPLY"; exit 1; }
(cd /verif && bin/kafcheck -p all -evidence-dir /tmp/ev 2>&1 | grep -v "^KNOWN\|^  ok \|^  info" | grep -A2 "VIOLATED\|UNDECIDED\|UNRESOLVED\| quick:" | grep -v "^--\|^VIOLATION" | grep -v " 0 violated, 0 undecided" | cut -c1-600)
git -C /repo checkout -- .
git -C /repo status --short | head -3
