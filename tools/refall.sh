#!/bin/bash
# usage: refall.sh [props] — every kept refactoring (refactors/ and refactors-heavy/) against the quick checks; prints what fires
PROPS=${1:-all}
for d in /verif/refactors/*/; do
  t=$(basename $d)
  git -C /repo apply $d/patch.diff || { echo "== $t PATCH DOES NOT APPLY"; continue; }
  out=$(cd /verif && bin/kafcheck -q -p $PROPS -evidence-dir /tmp/ev 2>&1 | grep -v "^KNOWN\|conda\|0 violated, 0 undecided\|^VIOLATION" | cut -c1-330 | head -${REFALL_LINES:-12})
  git -C /repo checkout -- .
  echo "== $t $( [ -z "$out" ] && echo quiet )"; [ -n "$out" ] && echo "$out"
done
git -C /repo status --short | head -3
