#!/bin/bash
# usage: wk.sh <patch.diff> <props> [extra kafcheck args] — run checks on a scratch copy of /repo with a patch applied (leaves /repo alone)
P=$1; PROPS=$2; shift 2
rsync -a --delete --exclude .git /repo/ /tmp/wk/
(cd /tmp/wk && git apply $P) || { echo "PATCH DOES NOT APPLY"; exit 1; }
cd /verif && bin/kafcheck -p $PROPS -repo /tmp/wk -evidence-dir /tmp/ev "$@" 2>&1 | grep -v "^KNOWN\|conda\|^VIOLATION\|^  ok\|^  info" | cut -c1-400 | head -${WK_LINES:-20}
