#!/bin/bash
# usage: seedcheck.sh <seed-name> <worktree> <property-id> <pkg-test-path (rel to module)> [module-subdir]
# Confirms a seeded change (patch applies, existing tests pass with it, demo fails with / passes without it),
# runs the property's quick check against /repo with the patch applied, and files it under /verif/seeded/<seed-name>/.
# seedcheck2: like seedcheck.sh, but the checks run on a clean export of /repo HEAD (safe while /repo is in use)
# (never uses git stash: the stash is shared between worktrees of one repository)
set -u
NAME=$1; WT=$2; PROP=$3; PKG=$4; MOD=${5:-.}
OUT=/verif/seeded/$NAME
mkdir -p $OUT
cp $WT/out/patch.diff $OUT/patch.diff
for f in $WT/out/*; do case $(basename $f) in patch.diff|meta.json) ;; *) cp $f $OUT/;; esac; done
cd $WT
# normalise the worktree: tracked files = HEAD + patch
git checkout -q -- . ; git apply $OUT/patch.diff || { echo "PATCH DOES NOT APPLY"; exit 1; }
echo "== existing tests with change (demo skipped)"; (cd $MOD && go test -count=1 -skip 'Seed|seed|Demo|ZZ' $PKG 2>&1 | tail -3)
echo "== demo with change (must fail)"; (cd $MOD && go test ${SEED_TEST_FLAGS:-} -count=1 -run "Seed|seed|Demo|ZZ" $PKG 2>&1 | tail -5)
git apply -R $OUT/patch.diff
echo "== demo without change (must pass)"; (cd $MOD && go test ${SEED_TEST_FLAGS:-} -count=1 -run "Seed|seed|Demo|ZZ" $PKG 2>&1 | tail -3)
git apply $OUT/patch.diff
echo "== kafcheck on a clean export of /repo HEAD with the patch applied"
W=/tmp/wk-$NAME; rm -rf $W; mkdir -p $W; git -C /repo archive HEAD | tar -x -C $W; (cd $W && git apply $OUT/patch.diff) || echo "PATCH DOES NOT APPLY TO EXPORT"
(cd /verif && bin/kafcheck -q -p $PROP -repo $W -evidence-dir /tmp/ev-$NAME 2>&1 | grep -v "^KNOWN" | cut -c1-400); rm -rf $W /tmp/ev-$NAME
