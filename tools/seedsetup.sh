#!/bin/bash
# usage: seedsetup.sh <property-id> [suffix]   → creates worktree /tmp/seed/<id><suffix> and prints the prompt file path
set -e
ID=$1; SUF=${2:-}
D=/tmp/seed/$ID$SUF
mkdir -p /tmp/seed
git -C /repo worktree remove --force $D 2>/dev/null || true
rm -rf $D
git -C /repo worktree add -q --detach $D HEAD
mkdir -p $D/out
python3 - "$ID" "$D" <<'PY'
import json,sys
id,d=sys.argv[1:3]
for l in open('/verif/properties.jsonl'):
    p=json.loads(l)
    if p['id']==id:
        txt=json.dumps({k:p[k] for k in ('id','title','statement','quantifier','why_tests_cant','anchors')},indent=1)
t=open('/verif/tools/seed_prompt.tmpl').read().replace('__DIR__',d).replace('__PROP__',txt)
open(d+'.prompt.txt','w').write(t)
print(d+'.prompt.txt')
PY
