#!/bin/bash
# usage: refheavy.sh <tag> [props] — apply a structural refactoring from refactors-heavy/ to /repo, run quick checks, undo
TAG=$1; PROPS=${2:-all}
git -C /repo apply /verif/refactors-heavy/$TAG/patch.diff || { echo "PATCH DOES NOT APPLY"; exit 1; }
(cd /verif && bin/kafcheck -p $PROPS -evidence-dir /tmp/ev 2>&1 | grep -v "^KNOWN\|^  ok \|^  info" | grep -A2 "VIOLATED\|UNDECIDED\|UNRESOLVED\| quick:\|^fold\|inconsistent" | grep -v "^--\|^VIOLATION" | grep -v " 0 violated, 0 undecided" | cut -c1-500)
git -C /repo checkout -- .
git -C /repo status --short | head -3
