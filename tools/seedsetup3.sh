#!/bin/bash
# usage: seedsetup3.sh <property-id>  → round-3 seed: worktree /tmp/seed/<id>r3, prompt with the "additive change" constraint
set -e
ID=$1
/verif/tools/seedsetup.sh $ID r3 >/dev/null
cat >> /tmp/seed/${ID}r3.prompt.txt <<'EOT'


Additional constraint for this task: do NOT break the property by deleting or weakening an existing check, flipping a comparison, or dropping an error. Instead make an ADDITIVE or RESTRUCTURING change of the kind a maintainer makes when adding a feature or an optimisation: a new fast path / cache / memo / early return that bypasses the mechanism the property relies on; a new second writer or caller of something that so far had exactly one; work moved to a different goroutine, a different lock scope or a different point in the sequence; a data structure, key or ordering swapped for a "simpler" one; a new helper that looks equivalent but is not for some input. The change may be up to ~25 lines and may add one new private function.
EOT
echo /tmp/seed/${ID}r3.prompt.txt
