#!/bin/bash
# Runs the repository's pinned baseline test suite (guard off: there are no hooks) and prints pass/fail counts.
# usage: baseline.sh [repo-dir]   (default /repo)
REPO=${1:-/repo}
OUT=$(mktemp /tmp/baseline.XXXXXX.json)
for m in $(cat /w/out/gomods.txt); do
  MF=$(cd $REPO/$m && . /w/out/goenv.sh && gomodflag)
  (cd $REPO/$m && go test $MF -json -vet=off -count=1 -timeout 25m ./...)
done > $OUT 2>/tmp/baseline.err
python3 - $OUT <<'PY'
import json,sys
p=f=0; failed=[]
for l in open(sys.argv[1]):
    try: e=json.loads(l)
    except: continue
    if e.get('Test') and e.get('Action') in('pass','fail'):
        if '/' in e['Test']: continue
        if e['Action']=='pass': p+=1
        else: f+=1; failed.append(e['Package']+'::'+e['Test'])
    elif not e.get('Test') and e.get('Action')=='fail':
        failed.append('PKG '+e.get('Package',''))
print('top-level pass',p,'fail',f)
for x in failed: print('FAIL',x)
sys.exit(1 if failed else 0)
PY
rc=$?
rm -f $OUT
exit $rc
