#!/usr/bin/env python3
"""refmeta.py <tag>: write refactors/<tag>/meta.json for a kept negative control. The properties a
refactoring is replayed under are those whose evidence mentions a file, or the directory of a file,
that the patch touches."""
import json, sys, os, re, glob
tag = sys.argv[1]
d = f"/verif/refactors/{tag}"
files = sorted(set(re.findall(r'^\+\+\+ b/(\S+)', open(f"{d}/patch.diff").read(), re.M)))
dirs = {os.path.dirname(f) for f in files}
props = []
for ev in sorted(glob.glob("/verif/evidence/C*.json")):
    txt = open(ev).read()
    if any(f in txt for f in files) or any(x + "/" in txt or x + '"' in txt for x in dirs):
        props.append(os.path.basename(ev)[:-5])
notes = {}
if os.path.exists(f"{d}/notes.json"):
    notes = json.load(open(f"{d}/notes.json"))
meta = {"kind": "behaviour-preserving refactoring (negative control)", "files": files, "properties": props,
        "author": "independent sub-agent given only an area of the repository and the instruction to keep behaviour identical",
        "confirmed": {"builds": True, "existing_tests_pass": True},
        "refactorings": notes.get("refactorings", notes) if isinstance(notes, dict) else notes}
json.dump(meta, open(f"{d}/meta.json", "w"), indent=1)
print(tag, props)
