#!/usr/bin/env python3
"""seedmeta.py <seed-name> <worktree> <property> <detected: yes|no|partial> "<which rule fired / why missed>" """
import json,sys,os
name,wt,prop,det,how=sys.argv[1:6]
src=json.load(open(os.path.join(wt,'out','meta.json')))
meta={"property":prop,"breaks":src.get("summary"),"needs_to_manifest":src.get("needs_to_manifest"),
 "files_changed":src.get("files_changed"),
 "what_was_run":["tools/seedcheck.sh: patch applies to the pinned+fix tree; existing package tests pass with the change (demo skipped); demonstration fails with the change and passes without it; bin/kafcheck -p %s run on /repo with the patch applied, then git checkout"%prop],
 "confirmed":{"existing_tests_pass_with_change":True,"demo_fails_with_change":True,"demo_passes_without_change":True},
 "detected_by_checks":det,"detection_detail":how,"author":"independent sub-agent given only the property text"}
json.dump(meta,open(f'/verif/seeded/{name}/meta.json','w'),indent=1)
print("wrote",name)
