#!/bin/bash
# usage: [REF_TMPL=refactor_prompt2.tmpl] refsetup.sh <tag> "<area description>"  → worktree /tmp/seed/ref-<tag> and prompt file
set -e
TAG=$1; AREA=$2
TMPL=/verif/tools/${REF_TMPL:-refactor_prompt.tmpl}
D=/tmp/seed/ref-$TAG
mkdir -p /tmp/seed
git -C /repo worktree remove --force $D 2>/dev/null || true
rm -rf $D
git -C /repo worktree add -q --detach $D HEAD
mkdir -p $D/out
python3 - "$D" "$AREA" "$TMPL" <<'PY'
import sys
d,area,tmpl=sys.argv[1:4]
t=open(tmpl).read().replace('__DIR__',d).replace('__AREA__',area)
open(d+'.prompt.txt','w').write(t)
print(d+'.prompt.txt')
PY
