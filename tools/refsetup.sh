#!/bin/bash
# usage: refsetup.sh <tag> "<area description>"  → worktree /tmp/seed/ref-<tag> and prompt file
set -e
TAG=$1; AREA=$2
D=/tmp/seed/ref-$TAG
mkdir -p /tmp/seed
git -C /repo worktree remove --force $D 2>/dev/null || true
rm -rf $D
git -C /repo worktree add -q --detach $D HEAD
mkdir -p $D/out
python3 - "$D" "$AREA" <<'PY'
import sys
d,area=sys.argv[1:3]
t=open('/verif/tools/refactor_prompt.tmpl').read().replace('__DIR__',d).replace('__AREA__',area)
open(d+'.prompt.txt','w').write(t)
print(d+'.prompt.txt')
PY
