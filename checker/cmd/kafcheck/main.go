// kafcheck decides structural necessary conditions of the KafScale properties from /repo's source.
// It never executes repository code: packages are type-checked, lowered to SSA and inspected.
package main

import (
	"encoding/json"
	"flag"
	"fmt"
	"os"
	"path/filepath"
	"runtime/debug"
	"sort"
	"strconv"
	"strings"
	"time"

	"golang.org/x/tools/go/ssa"
)

var (
	repoRoot  = "/repo"
	verifRoot = "/verif"
)

type Status string

const (
	OK         Status = "ok"
	Violation  Status = "violation"
	Undecided  Status = "undecided"
	Unresolved Status = "unresolved"
	Known      Status = "known-finding"
	Info       Status = "info"
)

// Result is the verdict for one rule instance. Identity = Rule + Construct (never a line number).
type Result struct {
	Rule      string `json:"rule"`
	Construct string `json:"construct"`
	Pos       string `json:"pos,omitempty"`
	Status    Status `json:"status"`
	Detail    string `json:"detail,omitempty"`
}

// Report collects everything one property check did.
type Report struct {
	Prop        string
	Results     []Result
	Funcs       map[string]bool
	CallSites   int
	Packages    map[string]bool
	Floors      map[string]int // rule → minimum instance count
	Explanation string
	NotCovered  string
	RuleDocs    map[string]string
	Assumptions []string
	Extra       map[string]any
}

func newReport(p string) *Report {
	return &Report{Prop: p, Funcs: map[string]bool{}, Packages: map[string]bool{}, Floors: map[string]int{},
		RuleDocs: map[string]string{}, Extra: map[string]any{}}
}

func (r *Report) add(rule, construct, pos string, st Status, detail string) {
	// constructs are unique per rule: repeated names get an ordinal in order of appearance
	n := 1
	for _, x := range r.Results {
		if x.Rule == rule && (x.Construct == construct || strings.HasPrefix(x.Construct, construct+" [")) {
			n++
		}
	}
	if n > 1 {
		construct = fmt.Sprintf("%s [%d]", construct, n)
	}
	r.Results = append(r.Results, Result{Rule: rule, Construct: construct, Pos: pos, Status: st, Detail: detail})
}
func (r *Report) ok(rule, construct, pos, detail string) { r.add(rule, construct, pos, OK, detail) }
func (r *Report) viol(rule, construct, pos, detail string) {
	r.add(rule, construct, pos, Violation, detail)
}
func (r *Report) undecided(rule, construct, pos, detail string) {
	r.add(rule, construct, pos, Undecided, detail)
}
func (r *Report) unresolved(rule, construct, detail string) {
	r.add(rule, construct, "", Unresolved, detail)
}
func (r *Report) fn(f *ssa.Function) {
	if f != nil {
		r.Funcs[funcName(f)] = true
		if p := fnPkg(f); p != nil {
			r.Packages[p.Path()] = true
		}
	}
}
func (r *Report) rule(id, doc string, floor int) {
	r.RuleDocs[id] = doc
	r.Floors[id] = floor
}

// Ctx gives property checks access to lazily loaded modules.
type Ctx struct {
	Repo    string
	Tier    string
	Overlay map[string][]byte
	mods    map[string]*Module
	LoadS   float64
}

func (c *Ctx) Mod(name string) (*Module, error) {
	if m, ok := c.mods[name]; ok {
		return m, nil
	}
	t0 := time.Now()
	m, err := loadModule(c.Repo, name, c.Overlay)
	c.LoadS += time.Since(t0).Seconds()
	if err != nil {
		return nil, err
	}
	c.mods[name] = m
	return m, nil
}

type propCheck struct {
	ID    string
	Level string
	Run   func(c *Ctx, r *Report)
}

var registry = map[string]*propCheck{}

func register(id, level string, run func(c *Ctx, r *Report)) {
	registry[id] = &propCheck{ID: id, Level: level, Run: run}
}

// ---------------------------------------------------------------------------------------------

type knownFinding struct {
	Property  string `json:"property"`
	Rule      string `json:"rule"`
	Construct string `json:"construct"`
	What      string `json:"what"`
}
type knownFile struct {
	Findings []knownFinding `json:"findings"`
	Fixed    []string       `json:"fixed"`
}

func loadKnown() knownFile {
	var k knownFile
	b, err := os.ReadFile(filepath.Join(verifRoot, "known_findings.json"))
	if err != nil {
		return k
	}
	if err := json.Unmarshal(b, &k); err != nil {
		fmt.Fprintf(os.Stderr, "known_findings.json: %v\n", err)
		os.Exit(2)
	}
	return k
}

// runProp executes one property check, with panic protection. Returns the report.
func runProp(c *Ctx, id string) (rep *Report) {
	rep = newReport(id)
	pc := registry[id]
	defer func() {
		if e := recover(); e != nil {
			rep.add(id+".internal", "checker panic", "", Undecided, fmt.Sprintf("%v\n%s", e, debug.Stack()))
		}
	}()
	pc.Run(c, rep)
	// what helper folding did to the loaded modules (E12): part of "what was analysed"
	{
		folded := map[string]any{}
		names := make([]string, 0, len(c.mods))
		for name := range c.mods {
			names = append(names, name)
		}
		sort.Strings(names)
		for _, name := range names {
			if fl := c.mods[name].Folded; len(fl) > 0 {
				folded[name] = fl
			}
		}
		rep.Extra["helper_folding"] = map[string]any{
			"anchors":        "anchors/known_funcs.txt",
			"rule":           "unexported functions absent from the anchor list are inlined into their callers before any rule runs (fold.go)",
			"folded_helpers": folded,
		}
	}
	// vacuity floors
	counts := map[string]int{}
	for _, r := range rep.Results {
		if r.Status != Info {
			counts[r.Rule]++
		}
	}
	rules := make([]string, 0, len(rep.Floors))
	for rule := range rep.Floors {
		rules = append(rules, rule)
	}
	sort.Strings(rules)
	for _, rule := range rules {
		if counts[rule] < rep.Floors[rule] {
			rep.add(rule, "vacuity floor", "", Undecided,
				fmt.Sprintf("rule matched %d instances, floor confirmed by hand is %d", counts[rule], rep.Floors[rule]))
		}
	}
	return rep
}

func applyKnown(rep *Report, k knownFile) {
	for i := range rep.Results {
		r := &rep.Results[i]
		if r.Status != Violation {
			continue
		}
		for _, f := range k.Findings {
			if f.Property == rep.Prop && f.Rule == r.Rule && f.Construct == r.Construct {
				r.Status = Known
				r.Detail = f.What + " || " + r.Detail
			}
		}
	}
}

func main() {
	var props, tier, repo, out, overlayJSON string
	var quiet, list bool
	flag.StringVar(&props, "p", "", "comma separated property ids (or 'all')")
	flag.StringVar(&tier, "tier", "", "quick|thorough (default: $VERIF_TIER or quick)")
	flag.StringVar(&repo, "repo", "", "repository root (default /repo or $KAFCHECK_REPO)")
	flag.StringVar(&out, "evidence-dir", "", "evidence directory (default /verif/evidence)")
	flag.StringVar(&overlayJSON, "overlay", "", "JSON file {abs file: replacement file} applied in memory")
	flag.BoolVar(&quiet, "q", false, "print only verdict lines")
	flag.BoolVar(&list, "list", false, "list registered properties")
	flag.Parse()

	if flag.NArg() >= 2 && flag.Arg(0) == "explain" {
		b, err := os.ReadFile(flag.Arg(1))
		if err != nil {
			fmt.Fprintln(os.Stderr, err)
			os.Exit(2)
		}
		os.Stdout.Write(b)
		return
	}
	if v := os.Getenv("KAFCHECK_VERIF"); v != "" {
		verifRoot = v
	} else if exe, err := os.Executable(); err == nil {
		// bin/kafcheck → verif root is the parent of bin
		if d := filepath.Dir(filepath.Dir(exe)); fileExists(filepath.Join(d, "properties.jsonl")) {
			verifRoot = d
		}
	}
	if flag.NArg() >= 1 && flag.Arg(0) == "listfuncs" {
		// kafcheck listfuncs: every named function of every module (writes anchors/known_funcs.txt's
		// content to stdout; run once on the pinned commit, see fold.go)
		r := os.Getenv("KAFCHECK_REPO")
		if r == "" {
			r = "/repo"
		}
		repoRoot = r
		os.Setenv("KAFCHECK_NOFOLD", "1")
		seen := map[string]bool{}
		for _, name := range []string{"root", "iceberg", "sql", "skeleton"} {
			m, err := loadModule(r, name, nil)
			if err != nil {
				fmt.Fprintln(os.Stderr, "listfuncs:", err)
				os.Exit(2)
			}
			for _, fn := range namedLocalFuncs(m) {
				seen[fn.String()+"\t"+sigKey(fn)] = true
			}
		}
		var names []string
		for n := range seen {
			names = append(names, n)
		}
		sort.Strings(names)
		fmt.Println("# functions and methods of KafScale/platform the rules may be anchored on; anything else unexported is folded into its callers (fold.go)")
		for _, n := range names {
			fmt.Println(n)
		}
		return
	}
	if flag.NArg() >= 1 && flag.Arg(0) == "warm" {
		// kafcheck warm: load every module once so that `go list -export` has compiled the
		// dependencies' export data into the build cache (used by setup_cmd; a cold iceberg
		// module otherwise costs minutes on the first check that needs it).
		r := os.Getenv("KAFCHECK_REPO")
		if r == "" {
			r = "/repo"
		}
		repoRoot = r
		for _, name := range []string{"root", "iceberg", "sql", "skeleton"} {
			t0 := time.Now()
			m, err := loadModule(r, name, nil)
			if err != nil {
				fmt.Fprintln(os.Stderr, "warm:", err)
				os.Exit(2)
			}
			fmt.Printf("warm %s: %d packages, %d functions, %.1fs\n", name, len(m.Pkgs), len(m.AllFuncs), time.Since(t0).Seconds())
		}
		return
	}
	if flag.NArg() >= 3 && flag.Arg(0) == "dump" {
		// kafcheck dump <module> <pkgpath> <func>   (debug aid: print SSA)
		r := os.Getenv("KAFCHECK_REPO")
		if r == "" {
			r = "/repo"
		}
		repoRoot = r
		var dov map[string][]byte
		if overlayJSON != "" {
			dov = map[string][]byte{}
			var mm map[string]string
			if b, err := os.ReadFile(overlayJSON); err == nil && json.Unmarshal(b, &mm) == nil {
				for k, v := range mm {
					if c, err := os.ReadFile(v); err == nil {
						dov[k] = c
					}
				}
			}
		}
		m, err := loadModule(r, flag.Arg(1), dov)
		if err != nil {
			fmt.Fprintln(os.Stderr, err)
			os.Exit(2)
		}
		fn := m.Func(flag.Arg(2), flag.Arg(3))
		if fn == nil {
			fmt.Fprintln(os.Stderr, "no such function")
			os.Exit(2)
		}
		for _, f := range withAnon(fn) {
			f.WriteTo(os.Stdout)
		}
		return
	}
	if list {
		ids := sortedProps()
		fmt.Println(strings.Join(ids, " "))
		return
	}
	if repo == "" {
		repo = os.Getenv("KAFCHECK_REPO")
	}
	if repo == "" {
		repo = "/repo"
	}
	repoRoot = repo
	if tier == "" {
		tier = os.Getenv("VERIF_TIER")
	}
	if tier != "thorough" {
		tier = "quick"
	}
	if out == "" {
		out = filepath.Join(verifRoot, "evidence")
	}
	seed := 0
	if s := os.Getenv("VERIF_SEED"); s != "" {
		seed, _ = strconv.Atoi(s)
	}
	var ids []string
	if props == "all" {
		ids = sortedProps()
	} else {
		for _, p := range strings.Split(props, ",") {
			p = strings.TrimSpace(p)
			if p == "" {
				continue
			}
			if registry[p] == nil {
				fmt.Fprintf(os.Stderr, "unknown property %s\n", p)
				os.Exit(2)
			}
			ids = append(ids, p)
		}
	}
	if len(ids) == 0 {
		fmt.Fprintln(os.Stderr, "usage: kafcheck -p C01[,C02…]|all [-tier quick|thorough]")
		os.Exit(2)
	}
	var overlay map[string][]byte
	if overlayJSON != "" {
		overlay = map[string][]byte{}
		var m map[string]string
		b, err := os.ReadFile(overlayJSON)
		if err == nil {
			err = json.Unmarshal(b, &m)
		}
		if err != nil {
			fmt.Fprintln(os.Stderr, "overlay:", err)
			os.Exit(2)
		}
		for k, v := range m {
			c, err := os.ReadFile(v)
			if err != nil {
				fmt.Fprintln(os.Stderr, "overlay:", err)
				os.Exit(2)
			}
			overlay[k] = c
		}
	}
	known := loadKnown()
	ctx := &Ctx{Repo: repo, Tier: tier, Overlay: overlay, mods: map[string]*Module{}}
	exit := 0
	for _, id := range ids {
		t0 := time.Now()
		rep := runProp(ctx, id)
		applyKnown(rep, known)
		var controls []controlResult
		if tier == "thorough" && overlay == nil {
			controls = runControls(ctx, id, rep)
		}
		wall := time.Since(t0).Seconds()
		code := emit(rep, registry[id].Level, tier, seed, wall, out, quiet, controls)
		if code > exit {
			exit = code
		}
	}
	os.Exit(exit)
}

func fileExists(p string) bool { _, err := os.Stat(p); return err == nil }

func sortedProps() []string {
	ids := make([]string, 0, len(registry))
	for id := range registry {
		ids = append(ids, id)
	}
	sort.Strings(ids)
	return ids
}

// emit prints the verdict, writes the evidence file and any violation replay files.
func emit(rep *Report, level, tier string, seed int, wall float64, outDir string, quiet bool, controls []controlResult) int {
	sort.SliceStable(rep.Results, func(i, j int) bool {
		a, b := rep.Results[i], rep.Results[j]
		if a.Rule != b.Rule {
			return a.Rule < b.Rule
		}
		return a.Construct < b.Construct
	})
	nOK, nViol, nUnd, nKnown := 0, 0, 0, 0
	for _, r := range rep.Results {
		switch r.Status {
		case OK:
			nOK++
		case Violation:
			nViol++
		case Undecided, Unresolved:
			nUnd++
		case Known:
			nKnown++
		}
	}
	nUndRes := nUnd
	for _, c := range controls {
		if c.Status == "missed" || c.Status == "base-not-silent" || c.Status == "false-alarm" {
			nUnd++
		}
	}
	os.MkdirAll(filepath.Join(outDir, "violations"), 0o755)
	// stale violation files of this property are removed
	if old, _ := filepath.Glob(filepath.Join(outDir, "violations", rep.Prop+"-*.json")); old != nil {
		for _, f := range old {
			os.Remove(f)
		}
	}
	exit := 0
	vi := 0
	for _, r := range rep.Results {
		switch r.Status {
		case Violation:
			vi++
			path := filepath.Join(outDir, "violations", fmt.Sprintf("%s-%d.json", rep.Prop, vi))
			b, _ := json.MarshalIndent(map[string]any{"property": rep.Prop, "rule": r.Rule, "rule_doc": rep.RuleDocs[r.Rule],
				"construct": r.Construct, "pos": r.Pos, "detail": r.Detail}, "", " ")
			os.WriteFile(path, append(b, '\n'), 0o644)
			fmt.Printf("%s %s | %s | %s\n    %s\n", r.Rule, r.Pos, r.Construct, "VIOLATED", r.Detail)
			fmt.Printf("VIOLATION property=%s replay=%s\n", rep.Prop, path)
			exit = 1
		case Known:
			fmt.Printf("KNOWN-FINDING: property=%s %s | %s | %s\n", rep.Prop, r.Rule, r.Construct, r.Detail)
		case Undecided, Unresolved:
			// fail closed: a rule instance the checker cannot decide at an anchored site (unlisted idiom,
			// vanished anchor, vacuity floor) is reported like a violation, with its own replay file
			vi++
			path := filepath.Join(outDir, "violations", fmt.Sprintf("%s-%d.json", rep.Prop, vi))
			b, _ := json.MarshalIndent(map[string]any{"property": rep.Prop, "rule": r.Rule, "rule_doc": rep.RuleDocs[r.Rule],
				"construct": r.Construct, "pos": r.Pos, "status": r.Status, "detail": r.Detail}, "", " ")
			os.WriteFile(path, append(b, '\n'), 0o644)
			fmt.Printf("%s property=%s %s | %s | %s %s\n", strings.ToUpper(string(r.Status)), rep.Prop, r.Rule, r.Construct, r.Pos, r.Detail)
			fmt.Printf("VIOLATION property=%s replay=%s\n", rep.Prop, path)
			exit = 1
		default:
			if !quiet {
				fmt.Printf("  %-8s %-4s %s | %s %s\n", r.Status, r.Rule, r.Construct, r.Pos, r.Detail)
			}
		}
	}
	for _, c := range controls {
		fmt.Printf("  control %-10s %s: %s\n", c.Status, c.Name, c.Detail)
	}
	if nUnd > 0 && exit == 0 {
		exit = 2 // only sensitivity controls can get here (a control that missed)
	}
	// evidence
	samples := []any{}
	perRule := map[string]int{}
	for _, r := range rep.Results {
		if perRule[r.Rule] < 6 || r.Status != OK {
			samples = append(samples, r)
		}
		perRule[r.Rule]++
	}
	funcs := make([]string, 0, len(rep.Funcs))
	for f := range rep.Funcs {
		funcs = append(funcs, f)
	}
	sort.Strings(funcs)
	pkgs := make([]string, 0, len(rep.Packages))
	for p := range rep.Packages {
		pkgs = append(pkgs, p)
	}
	sort.Strings(pkgs)
	obligations := nOK + nViol + nUnd + nKnown
	cov := map[string]any{
		"explanation":        rep.Explanation,
		"not_covered":        rep.NotCovered,
		"rules":              rep.RuleDocs,
		"rule":               "every instance of every rule is enumerated from the type-checked SSA program of /repo's current tree; an instance is identified by rule + construct (function / call site / field), never by line",
		"obligations":        obligations,
		"discharged":         nOK,
		"known_findings":     nKnown,
		"violations":         nViol,
		"undecided":          nUnd,
		"evaluations":        obligations,
		"distinct_nontrivial": len(distinctConstructs(rep)),
		"samples":            samples,
		"functions_analysed": funcs,
		"call_sites":         rep.CallSites,
		"packages":           pkgs,
		"instances_per_rule": perRule,
		"floors":             rep.Floors,
		"exhaustive":         true,
		"checker_cmd":        "bin/kafcheck -p " + rep.Prop + " -tier " + tier,
		"trusted_base":       []string{"go/types + go/ssa (golang.org/x/tools v0.50.0)", "go1.26.8 front end", "rule tables in checker/cmd/kafcheck/" + strings.ToLower(rep.Prop) + ".go"},
	}
	if controls != nil {
		cov["sensitivity_controls"] = controls
	}
	for k, v := range rep.Extra {
		cov[k] = v
	}
	ev := map[string]any{
		"property_id": rep.Prop, "tier": tier, "seed": seed, "level": level,
		"coverage": cov, "assumptions": rep.Assumptions, "wall_s": wall, "violations": nViol + nUndRes,
	}
	if rep.Assumptions == nil {
		ev["assumptions"] = []string{}
	}
	b, _ := json.MarshalIndent(ev, "", " ")
	if err := os.WriteFile(filepath.Join(outDir, rep.Prop+".json"), append(b, '\n'), 0o644); err != nil {
		fmt.Fprintln(os.Stderr, "evidence:", err)
		if exit == 0 {
			exit = 2
		}
	}
	fmt.Printf("%s %s: %d obligations, %d discharged, %d known, %d violated, %d undecided (%.1fs)\n",
		rep.Prop, tier, obligations, nOK, nKnown, nViol, nUnd, wall)
	return exit
}

func distinctConstructs(rep *Report) map[string]bool {
	d := map[string]bool{}
	for _, r := range rep.Results {
		d[r.Rule+"|"+r.Construct] = true
	}
	return d
}
