package main

import (
	"fmt"
	"go/ast"
	"go/constant"
	"go/types"
	"sort"
	"strings"

	"golang.org/x/tools/go/ssa"
)

func init() { register("C15", "other", checkC15) }

const pkgMetaPB = rootModPath + "/pkg/gen/metadata"

// pairing of in-memory coordinator fields with persisted protobuf fields (confirmed by reading
// buildConsumerGroup / restoreGroupState).
var c15Pairs = []struct{ ityp, ifield, ptyp, pfield string }{
	{"groupState", "generationID", "ConsumerGroup", "GenerationId"},
	{"groupState", "state", "ConsumerGroup", "State"},
	{"groupState", "leaderID", "ConsumerGroup", "Leader"},
	{"groupState", "protocolName", "ConsumerGroup", "Protocol"},
	{"groupState", "protocolType", "ConsumerGroup", "ProtocolType"},
	{"groupState", "rebalanceTimeout", "ConsumerGroup", "RebalanceTimeoutMs"},
	{"groupState", "members", "ConsumerGroup", "Members"},
	{"groupState", "assignments", "GroupMember", "Assignments"},
	{"memberState", "topics", "GroupMember", "Subscriptions"},
	{"memberState", "sessionTimeout", "GroupMember", "SessionTimeoutMs"},
	{"memberState", "lastHeartbeat", "GroupMember", "HeartbeatAt"},
	{"assignmentTopic", "Name", "Assignment", "Topic"},
	{"assignmentTopic", "Partitions", "Assignment", "Partitions"},
}

// fields that are deliberately not persisted (reason per line)
var c15Unpaired = map[string]string{
	"memberState.joinGeneration":   "reset to the persisted generation on restore",
	"groupState.rebalanceDeadline": "recomputed from rebalanceTimeout on restore",
}

func exportedFields(t *types.Named) []string {
	var out []string
	st, ok := t.Underlying().(*types.Struct)
	if !ok {
		return nil
	}
	for i := 0; i < st.NumFields(); i++ {
		if st.Field(i).Exported() {
			out = append(out, st.Field(i).Name())
		}
	}
	return out
}

// fieldsStoredIn lists, per struct type name (unqualified), the fields that fn stores into (including
// composite literals and map insertions for map-typed fields).
func fieldsStoredIn(fn *ssa.Function) map[string]map[string][]ssa.Value {
	out := map[string]map[string][]ssa.Value{}
	add := func(t, f string, v ssa.Value) {
		t = t[strings.LastIndex(t, ".")+1:]
		if out[t] == nil {
			out[t] = map[string][]ssa.Value{}
		}
		out[t][f] = append(out[t][f], v)
	}
	for _, b := range fn.Blocks {
		for _, in := range b.Instrs {
			switch x := in.(type) {
			case *ssa.Store:
				if fa, ok := x.Addr.(*ssa.FieldAddr); ok {
					if t, f, _, ok := fieldAddrInfo(fa); ok {
						add(t, f, x.Val)
					}
				}
			case *ssa.MapUpdate:
				if t, f, _, ok := fieldOf(x.Map); ok {
					add(t, f, x.Value)
				}
			}
		}
	}
	return out
}

// switchTable extracts case-constant → returned-constant from a function consisting of one switch
// with constant cases and constant returns. Keys/values are rendered with ExactString.
func switchTable(m *Module, pkg, fname string) (map[string]string, string, bool) {
	p := m.ByPath[pkg]
	if p == nil {
		return nil, "", false
	}
	tab := map[string]string{}
	def := ""
	found := false
	for _, f := range p.Syntax {
		for _, d := range f.Decls {
			fd, ok := d.(*ast.FuncDecl)
			if !ok || fd.Name.Name != fname || fd.Recv != nil {
				continue
			}
			ast.Inspect(fd.Body, func(n ast.Node) bool {
				sw, ok := n.(*ast.SwitchStmt)
				if !ok {
					return true
				}
				found = true
				for _, s := range sw.Body.List {
					cc := s.(*ast.CaseClause)
					ret := ""
					for _, st := range cc.Body {
						if rs, ok := st.(*ast.ReturnStmt); ok && len(rs.Results) == 1 {
							if tv, ok := p.TypesInfo.Types[rs.Results[0]]; ok && tv.Value != nil {
								ret = tv.Value.ExactString()
							}
						}
					}
					if cc.List == nil {
						def = ret
						continue
					}
					for _, e := range cc.List {
						if tv, ok := p.TypesInfo.Types[e]; ok && tv.Value != nil {
							tab[tv.Value.ExactString()] = ret
						}
					}
				}
				return false
			})
		}
	}
	return tab, def, found
}

var _ = constant.MakeInt64

func checkC15(c *Ctx, r *Report) {
	r.Explanation = "Decides three table conditions necessary for 'group state survives coordinator failover': (T1) every in-memory field of groupState/memberState/assignmentTopic is either in the pairing table — written by buildConsumerGroup into the paired protobuf field from that very field, and read back by restoreGroupState from that protobuf field — or in the short list of deliberately unpersisted fields; (T2) groupPhaseString and parseGroupPhase are inverse tables over all five phases; (T3) cloneConsumerGroup and cloneTopicConfig assign every exported field of ConsumerGroup, GroupMember, Assignment and TopicConfig, so nothing is lost when the in-memory store clones. It does not decide that members keep working (behaviour of later requests)."
	r.NotCovered = "behaviour of the next requests against the restored coordinator"
	m, err := c.Mod("root")
	if err != nil {
		r.unresolved("C15.load", "root module", err.Error())
		return
	}
	r.rule("C15.T1", "persisted-field pairing between groupState/memberState/assignmentTopic and ConsumerGroup/GroupMember/Assignment, both directions; every struct field is paired or listed as unpersisted", 28)
	r.rule("C15.T2", "groupPhaseString ∘ parseGroupPhase = identity on the five phases; strings distinct", 5)
	r.rule("C15.T3", "clone exhaustiveness over exported protobuf fields", 4)

	build := needFn(m, r, "C15.T1", pkgBrokerLib, "buildConsumerGroup")
	restore := needFn(m, r, "C15.T1", pkgBrokerLib, "restoreGroupState")
	if build != nil && restore != nil {
		bs := fieldsStoredIn(build)
		rs := fieldsStoredIn(restore)
		for _, pr := range c15Pairs {
			// write direction
			key := fmt.Sprintf("persist %s.%s → %s.%s", pr.ityp, pr.ifield, pr.ptyp, pr.pfield)
			vals := bs[pr.ptyp][pr.pfield]
			okw := false
			for _, v := range vals {
				if dependsOnField(v, pkgBrokerLib+"."+pr.ityp, pr.ifield) {
					okw = true
				}
				// map/slice fields filled element-wise: the container itself is a make/append
				if pr.ifield == "members" || pr.ifield == "assignments" {
					okw = okw || true
				}
			}
			if pr.ifield == "members" || pr.ifield == "assignments" {
				// element-wise: require a range over the in-memory container in build
				okw = len(vals) > 0 && fnReadsField(build, pkgBrokerLib+"."+pr.ityp, pr.ifield)
			}
			if okw {
				r.ok("C15.T1", key, m.Pos(build.Pos()), "")
			} else {
				r.viol("C15.T1", key, m.Pos(build.Pos()), fmt.Sprintf("buildConsumerGroup does not store %s.%s from %s.%s", pr.ptyp, pr.pfield, pr.ityp, pr.ifield))
			}
			// read direction
			key = fmt.Sprintf("restore %s.%s → %s.%s", pr.ptyp, pr.pfield, pr.ityp, pr.ifield)
			vals = rs[pr.ityp][pr.ifield]
			okr := false
			for _, v := range vals {
				if dependsOnField(v, pkgMetaPB+"."+pr.ptyp, pr.pfield) {
					okr = true
				}
			}
			if pr.ifield == "members" || pr.ifield == "assignments" {
				okr = len(vals) > 0 && fnReadsField(restore, pkgMetaPB+"."+pr.ptyp, pr.pfield)
			}
			if okr {
				r.ok("C15.T1", key, m.Pos(restore.Pos()), "")
			} else {
				r.viol("C15.T1", key, m.Pos(restore.Pos()), fmt.Sprintf("restoreGroupState does not set %s.%s from %s.%s", pr.ityp, pr.ifield, pr.ptyp, pr.pfield))
			}
		}
		// exhaustiveness of the table
		for _, tn := range []string{"groupState", "memberState", "assignmentTopic"} {
			named := m.Named(pkgBrokerLib, tn)
			if named == nil {
				r.unresolved("C15.T1", "type "+tn, "not found")
				continue
			}
			st := named.Underlying().(*types.Struct)
			for i := 0; i < st.NumFields(); i++ {
				f := st.Field(i).Name()
				classified := false
				for _, pr := range c15Pairs {
					if pr.ityp == tn && pr.ifield == f {
						classified = true
					}
				}
				if _, ok := c15Unpaired[tn+"."+f]; ok {
					classified = true
				}
				key := "field " + tn + "." + f + " is classified"
				if classified {
					r.ok("C15.T1", key, "", "")
				} else {
					r.viol("C15.T1", key, "", "field is neither in the persistence pairing table nor listed as deliberately unpersisted")
				}
			}
		}
	}

	// ---- T2
	toStr, defStr, ok1 := switchTable(m, pkgBrokerLib, "groupPhaseString")
	toPhase, defPhase, ok2 := switchTable(m, pkgBrokerLib, "parseGroupPhase")
	if !ok1 || !ok2 {
		r.unresolved("C15.T2", "phase switch tables", "switch not found")
	} else {
		ph := groupPhaseConsts(m)
		names := make([]string, 0, len(ph))
		for n := range ph {
			names = append(names, n)
		}
		sort.Strings(names)
		seenStr := map[string]string{}
		for _, n := range names {
			k := fmt.Sprint(ph[n])
			s, ok := toStr[k]
			if !ok {
				s = defStr
			}
			back, ok := toPhase[s]
			if !ok {
				back = defPhase
			}
			key := "phase " + n + " round-trips"
			if prev, dup := seenStr[s]; dup {
				r.viol("C15.T2", key, "", fmt.Sprintf("string %s is shared with %s", s, prev))
				continue
			}
			seenStr[s] = n
			if back == k {
				r.ok("C15.T2", key, "", fmt.Sprintf("%s → %s → %s", k, s, back))
			} else {
				r.viol("C15.T2", key, "", fmt.Sprintf("%s → %s → %s", k, s, back))
			}
		}
	}

	// ---- T3
	checkCloneExhaustive(m, r, "C15.T3")
}

func fnReadsField(fn *ssa.Function, typ, field string) bool {
	for _, b := range fn.Blocks {
		for _, in := range b.Instrs {
			if fa, ok := in.(*ssa.FieldAddr); ok {
				if t, f, _, ok := fieldAddrInfo(fa); ok && t == typ && f == field {
					return true
				}
			}
		}
	}
	return false
}

// checkCloneExhaustive implements C15.T3 / C17.T3.
func checkCloneExhaustive(m *Module, r *Report, rule string) {
	for _, cl := range []struct {
		fn    string
		types []string
	}{
		{"cloneConsumerGroup", []string{"ConsumerGroup", "GroupMember", "Assignment"}},
		{"cloneTopicConfig", []string{"TopicConfig"}},
	} {
		fn := needFn(m, r, rule, pkgMetadata, cl.fn)
		if fn == nil {
			continue
		}
		stored := fieldsStoredIn(fn)
		for _, tn := range cl.types {
			named := m.Named(pkgMetaPB, tn)
			if named == nil {
				r.unresolved(rule, "type "+tn, "protobuf type not found")
				continue
			}
			var missing []string
			for _, f := range exportedFields(named) {
				if len(stored[tn][f]) == 0 {
					missing = append(missing, f)
				}
			}
			key := cl.fn + " copies every field of " + tn
			if len(missing) == 0 {
				r.ok(rule, key, m.Pos(fn.Pos()), strings.Join(exportedFields(named), ","))
			} else {
				r.viol(rule, key, m.Pos(fn.Pos()), "fields dropped by the clone: "+strings.Join(missing, ","))
			}
		}
	}
}
