package main

import (
	"go/token"
	"fmt"
	"go/ast"
	"go/constant"
	"go/types"
	"sort"
	"strings"

	"golang.org/x/tools/go/ssa"
)

func init() { register("C15", "other", checkC15) }

const pkgMetaPB = rootModPath + "/pkg/gen/metadata"

// pairing of in-memory coordinator fields with persisted protobuf fields (confirmed by reading
// buildConsumerGroup / restoreGroupState).
var c15Pairs = []struct{ ityp, ifield, ptyp, pfield string }{
	{"groupState", "generationID", "ConsumerGroup", "GenerationId"},
	{"groupState", "state", "ConsumerGroup", "State"},
	{"groupState", "leaderID", "ConsumerGroup", "Leader"},
	{"groupState", "protocolName", "ConsumerGroup", "Protocol"},
	{"groupState", "protocolType", "ConsumerGroup", "ProtocolType"},
	{"groupState", "rebalanceTimeout", "ConsumerGroup", "RebalanceTimeoutMs"},
	{"groupState", "members", "ConsumerGroup", "Members"},
	{"groupState", "assignments", "GroupMember", "Assignments"},
	{"memberState", "topics", "GroupMember", "Subscriptions"},
	{"memberState", "sessionTimeout", "GroupMember", "SessionTimeoutMs"},
	{"memberState", "lastHeartbeat", "GroupMember", "HeartbeatAt"},
	{"assignmentTopic", "Name", "Assignment", "Topic"},
	{"assignmentTopic", "Partitions", "Assignment", "Partitions"},
}

// fields that are deliberately not persisted (reason per line)
var c15Unpaired = map[string]string{
	"memberState.joinGeneration":   "reset to the persisted generation on restore",
	"groupState.rebalanceDeadline": "recomputed from rebalanceTimeout on restore",
}

func exportedFields(t *types.Named) []string {
	var out []string
	st, ok := t.Underlying().(*types.Struct)
	if !ok {
		return nil
	}
	for i := 0; i < st.NumFields(); i++ {
		if st.Field(i).Exported() {
			out = append(out, st.Field(i).Name())
		}
	}
	return out
}

// fieldsStoredIn lists, per struct type name (unqualified), the fields that fn stores into (including
// composite literals and map insertions for map-typed fields).
func fieldsStoredIn(fn *ssa.Function) map[string]map[string][]ssa.Value {
	out := map[string]map[string][]ssa.Value{}
	add := func(t, f string, v ssa.Value) {
		t = t[strings.LastIndex(t, ".")+1:]
		if out[t] == nil {
			out[t] = map[string][]ssa.Value{}
		}
		out[t][f] = append(out[t][f], v)
	}
	for _, b := range fn.Blocks {
		for _, in := range b.Instrs {
			switch x := in.(type) {
			case *ssa.Store:
				if fa, ok := x.Addr.(*ssa.FieldAddr); ok {
					if t, f, _, ok := fieldAddrInfo(fa); ok {
						add(t, f, x.Val)
					}
				}
			case *ssa.MapUpdate:
				if t, f, _, ok := fieldOf(x.Map); ok {
					add(t, f, x.Value)
				}
			}
		}
	}
	return out
}

// switchTable extracts case-constant → returned-constant from a function consisting of one switch
// with constant cases and constant returns. Keys/values are rendered with ExactString.
func switchTable(m *Module, pkg, fname string) (map[string]string, string, bool) {
	p := m.ByPath[pkg]
	if p == nil {
		return nil, "", false
	}
	tab := map[string]string{}
	def := ""
	found := false
	for _, f := range p.Syntax {
		for _, d := range f.Decls {
			fd, ok := d.(*ast.FuncDecl)
			if !ok || fd.Name.Name != fname || fd.Recv != nil {
				continue
			}
			ast.Inspect(fd.Body, func(n ast.Node) bool {
				sw, ok := n.(*ast.SwitchStmt)
				if !ok {
					return true
				}
				found = true
				for _, s := range sw.Body.List {
					cc := s.(*ast.CaseClause)
					ret := ""
					for _, st := range cc.Body {
						if rs, ok := st.(*ast.ReturnStmt); ok && len(rs.Results) == 1 {
							if tv, ok := p.TypesInfo.Types[rs.Results[0]]; ok && tv.Value != nil {
								ret = tv.Value.ExactString()
							}
						}
					}
					if cc.List == nil {
						def = ret
						continue
					}
					for _, e := range cc.List {
						if tv, ok := p.TypesInfo.Types[e]; ok && tv.Value != nil {
							tab[tv.Value.ExactString()] = ret
						}
					}
				}
				return false
			})
		}
	}
	return tab, def, found
}

var _ = constant.MakeInt64

func checkC15(c *Ctx, r *Report) {
	r.Explanation = "Decides three table conditions necessary for 'group state survives coordinator failover': (T1) every in-memory field of groupState/memberState/assignmentTopic is either in the pairing table — written by buildConsumerGroup into the paired protobuf field from that very field, and read back by restoreGroupState from that protobuf field — or in the short list of deliberately unpersisted fields; (T2) groupPhaseString and parseGroupPhase are inverse tables over all five phases; (T3) cloneConsumerGroup and cloneTopicConfig assign every exported field of ConsumerGroup, GroupMember, Assignment and TopicConfig, so nothing is lost when the in-memory store clones. It does not decide that members keep working (behaviour of later requests)."
	r.NotCovered = "behaviour of the next requests against the restored coordinator"
	m, err := c.Mod("root")
	if err != nil {
		r.unresolved("C15.load", "root module", err.Error())
		return
	}
	r.rule("C15.T1", "persisted-field pairing between groupState/memberState/assignmentTopic and ConsumerGroup/GroupMember/Assignment, both directions; every struct field is paired or listed as unpersisted", 28)
	r.rule("C15.T2", "groupPhaseString ∘ parseGroupPhase = identity on the five phases; strings distinct", 5)
	r.rule("C15.T3", "clone exhaustiveness over exported protobuf fields", 4)

	build := needFn(m, r, "C15.T1", pkgBrokerLib, "buildConsumerGroup")
	restore := needFn(m, r, "C15.T1", pkgBrokerLib, "restoreGroupState")
	if build != nil && restore != nil {
		// both functions are taken together with the private helpers they own
		merge := func(fns []*ssa.Function) map[string]map[string][]ssa.Value {
			out := map[string]map[string][]ssa.Value{}
			for _, f := range fns {
				for t, fm := range fieldsStoredIn(f) {
					if out[t] == nil {
						out[t] = map[string][]ssa.Value{}
					}
					for fl, vs := range fm {
						out[t][fl] = append(out[t][fl], vs...)
					}
				}
			}
			return out
		}
		buildFam, restoreFam := fnFamily(m, build), fnFamily(m, restore)
		famReads := func(fns []*ssa.Function, typ, field string) bool {
			for _, f := range fns {
				if fnReadsField(f, typ, field) {
					return true
				}
			}
			return false
		}
		bs := merge(buildFam)
		rs := merge(restoreFam)
		for _, pr := range c15Pairs {
			// write direction
			key := fmt.Sprintf("persist %s.%s → %s.%s", pr.ityp, pr.ifield, pr.ptyp, pr.pfield)
			vals := bs[pr.ptyp][pr.pfield]
			okw := false
			for _, v := range vals {
				if dependsOnField(v, pkgBrokerLib+"."+pr.ityp, pr.ifield) {
					okw = true
				}
				// map/slice fields filled element-wise: the container itself is a make/append
				if pr.ifield == "members" || pr.ifield == "assignments" {
					okw = okw || true
				}
			}
			if pr.ifield == "members" || pr.ifield == "assignments" {
				// element-wise: require a range over the in-memory container in build
				okw = len(vals) > 0 && famReads(buildFam, pkgBrokerLib+"."+pr.ityp, pr.ifield)
			}
			if okw {
				r.ok("C15.T1", key, m.Pos(build.Pos()), "")
			} else {
				r.viol("C15.T1", key, m.Pos(build.Pos()), fmt.Sprintf("buildConsumerGroup does not store %s.%s from %s.%s", pr.ptyp, pr.pfield, pr.ityp, pr.ifield))
			}
			// read direction
			key = fmt.Sprintf("restore %s.%s → %s.%s", pr.ptyp, pr.pfield, pr.ityp, pr.ifield)
			vals = rs[pr.ityp][pr.ifield]
			okr := false
			for _, v := range vals {
				if dependsOnField(v, pkgMetaPB+"."+pr.ptyp, pr.pfield) {
					okr = true
				}
			}
			if pr.ifield == "members" || pr.ifield == "assignments" {
				okr = len(vals) > 0 && famReads(restoreFam, pkgMetaPB+"."+pr.ptyp, pr.pfield)
			}
			if okr {
				r.ok("C15.T1", key, m.Pos(restore.Pos()), "")
			} else {
				r.viol("C15.T1", key, m.Pos(restore.Pos()), fmt.Sprintf("restoreGroupState does not set %s.%s from %s.%s", pr.ityp, pr.ifield, pr.ptyp, pr.pfield))
			}
		}
		// exhaustiveness of the table
		for _, tn := range []string{"groupState", "memberState", "assignmentTopic"} {
			named := m.Named(pkgBrokerLib, tn)
			if named == nil {
				r.unresolved("C15.T1", "type "+tn, "not found")
				continue
			}
			st := named.Underlying().(*types.Struct)
			for i := 0; i < st.NumFields(); i++ {
				f := st.Field(i).Name()
				classified := false
				for _, pr := range c15Pairs {
					if pr.ityp == tn && pr.ifield == f {
						classified = true
					}
				}
				if _, ok := c15Unpaired[tn+"."+f]; ok {
					classified = true
				}
				key := "field " + tn + "." + f + " is classified"
				inferred := ""
				if !classified {
					// a field the table does not know is paired in fact when buildConsumerGroup stores a
					// value derived from it into some field of the persisted record and
					// restoreGroupState sets it back from that same field
					for ptyp, fm := range bs {
						for pfield, vals := range fm {
							wrote := false
							for _, v := range vals {
								if dependsOnField(v, pkgBrokerLib+"."+tn, f) {
									wrote = true
								}
							}
							if !wrote {
								continue
							}
							for _, v2 := range rs[tn][f] {
								if dependsOnField(v2, pkgMetaPB+"."+ptyp, pfield) {
									inferred = ptyp + "." + pfield
								}
							}
						}
					}
				}
				if classified {
					r.ok("C15.T1", key, "", "")
				} else if inferred != "" {
					r.ok("C15.T1", key, "", "paired with "+inferred+" in buildConsumerGroup and restoreGroupState (inferred)")
				} else {
					r.viol("C15.T1", key, "", "field is neither in the persistence pairing table nor listed as deliberately unpersisted")
				}
			}
		}
	}

	// ---- T2
	toStr, defStr, ok1 := switchTable(m, pkgBrokerLib, "groupPhaseString")
	toPhase, defPhase, ok2 := switchTable(m, pkgBrokerLib, "parseGroupPhase")
	if !ok1 || !ok2 {
		r.unresolved("C15.T2", "phase switch tables", "switch not found")
	} else {
		ph := groupPhaseConsts(m)
		names := make([]string, 0, len(ph))
		for n := range ph {
			names = append(names, n)
		}
		sort.Strings(names)
		seenStr := map[string]string{}
		for _, n := range names {
			k := fmt.Sprint(ph[n])
			s, ok := toStr[k]
			if !ok {
				s = defStr
			}
			back, ok := toPhase[s]
			if !ok {
				back = defPhase
			}
			key := "phase " + n + " round-trips"
			if prev, dup := seenStr[s]; dup {
				r.viol("C15.T2", key, "", fmt.Sprintf("string %s is shared with %s", s, prev))
				continue
			}
			seenStr[s] = n
			if back == k {
				r.ok("C15.T2", key, "", fmt.Sprintf("%s → %s → %s", k, s, back))
			} else {
				r.viol("C15.T2", key, "", fmt.Sprintf("%s → %s → %s", k, s, back))
			}
		}
	}

	// ---- T3
	checkCloneExhaustive(m, r, "C15.T3")

	// ---- R4: what is persisted is the state the coordinator keeps working with
	checkPersistAfterMutation(m, r, "C15.R4")
}

// persistedField: is (type, field) a coordinator field that buildConsumerGroup persists?
func persistedField(typ, field string) bool {
	short := typ[strings.LastIndex(typ, ".")+1:]
	for _, p := range c15Pairs {
		if p.ityp == short && p.ifield == field {
			return true
		}
	}
	return false
}

// mutatesPersisted: the instruction writes a persisted coordinator field (store, map update or
// delete through such a field), or calls a groupState method that does (transitively).
func mutatesPersisted(m *Module, in ssa.Instruction, memo map[*ssa.Function]int) (bool, string) {
	switch x := in.(type) {
	case *ssa.Store:
		if fa, ok := x.Addr.(*ssa.FieldAddr); ok {
			if t, f, _, ok := fieldAddrInfo(fa); ok && strings.HasPrefix(t, pkgBrokerLib+".") && persistedField(t, f) {
				return true, "store to " + t[strings.LastIndex(t, ".")+1:] + "." + f
			}
		}
	case *ssa.MapUpdate:
		if t, f, _, ok := fieldOf(x.Map); ok && strings.HasPrefix(t, pkgBrokerLib+".") && persistedField(t, f) {
			return true, "insert into " + f
		}
	case *ssa.Call:
		if bi, ok := x.Call.Value.(*ssa.Builtin); ok && bi.Name() == "delete" {
			if t, f, _, ok := fieldOf(x.Call.Args[0]); ok && strings.HasPrefix(t, pkgBrokerLib+".") && persistedField(t, f) {
				return true, "delete from " + f
			}
			return false, ""
		}
		if callee, _ := calleeOf(&x.Call); callee != nil && callee.Blocks != nil && callee.Signature.Recv() != nil &&
			strings.HasSuffix(callee.Signature.Recv().Type().String(), "broker.groupState") {
			if fnMutatesPersisted(m, callee, memo) {
				return true, "call " + callee.Name()
			}
		}
	}
	return false, ""
}

func fnMutatesPersisted(m *Module, fn *ssa.Function, memo map[*ssa.Function]int) bool {
	if v, ok := memo[fn]; ok {
		return v == 1
	}
	memo[fn] = 0
	for _, b := range fn.Blocks {
		for _, in := range b.Instrs {
			if ok, _ := mutatesPersisted(m, in, memo); ok {
				memo[fn] = 1
				return true
			}
		}
	}
	return false
}

// checkPersistAfterMutation: in every coordinator entry point that persists the group, no mutation
// of a persisted field may be followed by a return without a persistGroupLocked call in between —
// otherwise the stored group lags behind the one the coordinator answers from, and a failover
// restores the older one.
func checkPersistAfterMutation(m *Module, r *Report, rule string) {
	r.rule(rule, "in JoinGroup / SyncGroup / Heartbeat / LeaveGroup / cleanupGroups every mutation of a persisted group field is followed, on every path to a return, by persistGroupLocked", 10)
	persist := "(*" + pkgBrokerLib + ".GroupCoordinator).persistGroupLocked"
	memo := map[*ssa.Function]int{}
	for _, name := range []string{"JoinGroup", "SyncGroup", "Heartbeat", "LeaveGroup", "cleanupGroups"} {
		fn := needFn(m, r, rule, pkgBrokerLib, "(*GroupCoordinator)."+name)
		if fn == nil {
			continue
		}
		n := 0
		for _, b := range fn.Blocks {
			for _, in := range b.Instrs {
				ok, what := mutatesPersisted(m, in, memo)
				if !ok {
					continue
				}
				n++
				key := fmt.Sprintf("%s: %s is persisted before returning", name, what)
				target := func(x ssa.Instruction) bool {
					if _, isRet := x.(*ssa.Return); isRet {
						return true
					}
					// cleanupGroups: moving on to the next group is the end of this group's turn
					return name == "cleanupGroups" && x != in && isCallTo(x, "(*"+pkgBrokerLib+".groupState).removeExpiredMembers")
				}
				// infeasible / no-change edges:
				//  (a) a sweep helper that returns false changed nothing (C12.R3 / C43.R2 decide that a
				//      removal is always reported), so its "false" edge needs no persist;
				//  (b) right after markStable() the phase is Stable, so a branch on state != Stable taken
				//      in the same straight-line region cannot be taken.
				removed := map[edge]bool{}
				if cv, ok := in.(*ssa.Call); ok {
					if bt, ok := cv.Type().Underlying().(*types.Basic); ok && bt.Kind() == types.Bool {
						for e := range passEdges(fn, []Atom{atomBool("unchanged", vmIs(cv), false)}) {
							removed[e] = true
						}
					}
				}
				stableAfter := false
				seenIn := false
				for _, x := range b.Instrs {
					if x == in {
						seenIn = true
					}
					if seenIn && isCallTo(x, "(*"+pkgBrokerLib+".groupState).markStable") {
						stableAfter = true
					}
				}
				if stableAfter {
					stable := groupPhaseConsts(m)["groupStateStable"]
					for e := range passEdges(fn, []Atom{atomCmp("state != Stable", vmField("broker.groupState", "state"), token.NEQ, vmConstInt(stable))}) {
						// only while no other phase write intervenes: the edge's block must be reached from b
						// without passing a store to groupState.state or a call that mutates it
						reach, _, _ := search(SearchSpec{Start: nextLoc(in), Target: func(x ssa.Instruction) bool { return x.Block() == e.from && x == e.from.Instrs[len(e.from.Instrs)-1] },
							Blocker: func(x ssa.Instruction) bool {
								if x == in || isCallTo(x, "(*"+pkgBrokerLib+".groupState).markStable") {
									return false
								}
								ok, what := mutatesPersisted(m, x, memo)
								return ok && (strings.Contains(what, "groupState.state") || strings.HasPrefix(what, "call "))
							}})
						if reach {
							removed[e] = true
						}
					}
				}
				found, tgt, path := search(SearchSpec{Start: nextLoc(in), Target: target,
					Removed: func(bb *ssa.BasicBlock, si int) bool { return removed[edge{bb, si}] },
					Blocker: func(x ssa.Instruction) bool { return isCallTo(x, persist) }})
				if found {
					r.viol(rule, key, m.Pos(in.Pos()), "the in-memory group changes here and the function can return at "+m.Pos(tgt.Pos())+" without persisting it again: after a failover the group is restored from the older snapshot: "+renderPath(m, path))
				} else {
					r.ok(rule, key, m.Pos(in.Pos()), "")
				}
			}
		}
		if n == 0 {
			r.add(rule, name+": mutations of persisted fields", m.Pos(fn.Pos()), Info, "none")
		}
	}
}

func fnReadsField(fn *ssa.Function, typ, field string) bool {
	for _, b := range fn.Blocks {
		for _, in := range b.Instrs {
			if fa, ok := in.(*ssa.FieldAddr); ok {
				if t, f, _, ok := fieldAddrInfo(fa); ok && t == typ && f == field {
					return true
				}
			}
		}
	}
	return false
}

// checkCloneExhaustive implements C15.T3 / C17.T3.
func checkCloneExhaustive(m *Module, r *Report, rule string) {
	for _, cl := range []struct {
		fn    string
		types []string
	}{
		{"cloneConsumerGroup", []string{"ConsumerGroup", "GroupMember", "Assignment"}},
		{"cloneTopicConfig", []string{"TopicConfig"}},
	} {
		fn := needFn(m, r, rule, pkgMetadata, cl.fn)
		if fn == nil {
			continue
		}
		stored := fieldsStoredIn(fn)
		for _, tn := range cl.types {
			named := m.Named(pkgMetaPB, tn)
			if named == nil {
				r.unresolved(rule, "type "+tn, "protobuf type not found")
				continue
			}
			var missing []string
			for _, f := range exportedFields(named) {
				if len(stored[tn][f]) == 0 {
					missing = append(missing, f)
				}
			}
			key := cl.fn + " copies every field of " + tn
			if len(missing) == 0 {
				r.ok(rule, key, m.Pos(fn.Pos()), strings.Join(exportedFields(named), ","))
			} else {
				r.viol(rule, key, m.Pos(fn.Pos()), "fields dropped by the clone: "+strings.Join(missing, ","))
			}
		}
	}
}
