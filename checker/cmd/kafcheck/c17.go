package main

import (
	"fmt"
	"go/token"
	"go/types"
	"sort"
	"strings"

	"golang.org/x/tools/go/ssa"
)

func init() {
	register("C17", "other", checkC17)
	register("C16", "other", checkC16)
}

const (
	tInMemoryStore = pkgMetadata + ".InMemoryStore"
	tEtcdStore     = pkgMetadata + ".EtcdStore"
)

// in-memory field → state family
var memFamilies = map[string]string{
	"state": "topics", "offsets": "partition-offsets", "consumerOffsets": "consumer-offsets", "consumerMeta": "consumer-offsets",
	"consumerGroups": "consumer-groups", "topicConfigs": "topic-configs",
}

// etcd key builder → state family ("" = etcd-only bookkeeping, ignored in the comparison)
var etcdKeyFamilies = map[string]string{
	pkgMetadata + ".offsetKey":         "partition-offsets",
	pkgMetadata + ".consumerOffsetKey": "consumer-offsets",
	pkgMetadata + ".ConsumerOffsetKey": "consumer-offsets",
	pkgMetadata + ".ConsumerGroupKey":  "consumer-groups",
	pkgMetadata + ".TopicConfigKey":    "topic-configs",
	pkgMetadata + ".snapshotKey":       "topics",
	pkgMetadata + ".PartitionStateKey": "",
}

// literal key prefixes used by the bulk deletes (confirmed by reading deleteTopicOffsets / deleteConsumerOffsets)
var etcdPrefixFamilies = map[string][]string{
	"/kafscale/topics/%s/": {"partition-offsets", "topic-configs"},
	"/kafscale/consumers/": {"consumer-offsets"},
}

// storeMethods lists the methods of the metadata.Store interface.
func storeMethods(m *Module) []string {
	named := m.Named(pkgMetadata, "Store")
	if named == nil {
		return nil
	}
	it, ok := named.Underlying().(*types.Interface)
	if !ok {
		return nil
	}
	var out []string
	for i := 0; i < it.NumMethods(); i++ {
		out = append(out, it.Method(i).Name())
	}
	sort.Strings(out)
	return out
}

// memEffects: families written by an InMemoryStore method, following static calls inside pkg/metadata.
func memEffects(m *Module, fn *ssa.Function, seen map[*ssa.Function]bool) map[string]bool {
	out := map[string]bool{}
	if fn == nil || seen[fn] {
		return out
	}
	seen[fn] = true
	for _, b := range fn.Blocks {
		for _, in := range b.Instrs {
			switch x := in.(type) {
			case *ssa.Store:
				if fa, ok := x.Addr.(*ssa.FieldAddr); ok {
					if t, f, _, ok := fieldAddrInfo(fa); ok && t == tInMemoryStore {
						if fam, ok := memFamilies[f]; ok {
							out[fam] = true
						}
					}
					// s.state.Topics = …
					if t, _, base, ok := fieldAddrInfo(fa); ok && strings.HasSuffix(t, "metadata.ClusterMetadata") {
						if bfa, ok := base.(*ssa.FieldAddr); ok {
							if t2, f2, _, ok := fieldAddrInfo(bfa); ok && t2 == tInMemoryStore && f2 == "state" {
								out["topics"] = true
							}
						}
					}
				}
				// element stores into s.state.Topics[i]… (partition growth)
				if dependsOnInMemoryState(x.Addr) {
					out["topics"] = true
				}
			case *ssa.MapUpdate:
				if t, f, _, ok := fieldOf(x.Map); ok && t == tInMemoryStore {
					if fam, ok := memFamilies[f]; ok {
						out[fam] = true
					}
				}
			case *ssa.Call:
				if bi, ok := x.Call.Value.(*ssa.Builtin); ok && bi.Name() == "delete" {
					if t, f, _, ok := fieldOf(x.Call.Args[0]); ok && t == tInMemoryStore {
						if fam, ok := memFamilies[f]; ok {
							out[fam] = true
						}
					}
				}
				if f, _ := calleeOf(&x.Call); f != nil && f.Blocks != nil && fnPkg(f) != nil && fnPkg(f).Path() == pkgMetadata {
					if f.Signature.Recv() != nil && strings.HasSuffix(f.Signature.Recv().Type().String(), "metadata.InMemoryStore") {
						for k := range memEffects(m, f, seen) {
							out[k] = true
						}
					}
				}
			}
		}
	}
	return out
}

func dependsOnInMemoryState(addr ssa.Value) bool {
	hit := false
	n := 0
	backSlice(addr, false, func(v ssa.Value) {
		n++
		if fa, ok := v.(*ssa.FieldAddr); ok {
			if t, f, _, ok := fieldAddrInfo(fa); ok && t == tInMemoryStore && f == "state" {
				hit = true
			}
		}
	})
	_, isIdx := addr.(*ssa.IndexAddr)
	_, isFA := addr.(*ssa.FieldAddr)
	return hit && (isIdx || isFA) && n > 2
}

// etcdEffects: families written by an EtcdStore method: delegation to the embedded in-memory store,
// plus etcd writes classified by their key builder / literal prefix.
func etcdEffects(m *Module, fn *ssa.Function, seen map[*ssa.Function]bool) map[string]bool {
	out := map[string]bool{}
	if fn == nil || seen[fn] {
		return out
	}
	seen[fn] = true
	for _, call := range callsIn(fn) {
		cc := call.Common()
		name := calleeName(cc)
		if f, _ := calleeOf(cc); f != nil && f.Blocks != nil && fnPkg(f) != nil && fnPkg(f).Path() == pkgMetadata {
			if f.Signature.Recv() != nil {
				rt := f.Signature.Recv().Type().String()
				if strings.HasSuffix(rt, "metadata.InMemoryStore") {
					for k := range memEffects(m, f, map[*ssa.Function]bool{}) {
						out[k] = true
					}
				} else if strings.HasSuffix(rt, "metadata.EtcdStore") {
					for k := range etcdEffects(m, f, seen) {
						out[k] = true
					}
				}
			}
			continue
		}
		isWrite := strings.HasSuffix(name, "KV).Put") || strings.HasSuffix(name, "KV).Delete") || strings.HasSuffix(name, "client/v3.OpPut") || strings.HasSuffix(name, "client/v3.OpDelete")
		if !isWrite {
			continue
		}
		keyArg := cc.Args[0]
		if strings.HasSuffix(name, "KV).Put") || strings.HasSuffix(name, "KV).Delete") {
			keyArg = cc.Args[1]
		}
		classified := false
		for kb, fam := range etcdKeyFamilies {
			if dependsOnCall(keyArg, kb) {
				classified = true
				if fam != "" {
					out[fam] = true
				}
			}
		}
		if !classified {
			// literal prefixes
			backSlice(keyArg, true, func(v ssa.Value) {
				if s, ok := constString(v); ok {
					for pre, fams := range etcdPrefixFamilies {
						if strings.HasPrefix(s, pre) || s == pre {
							classified = true
							for _, f := range fams {
								out[f] = true
							}
						}
					}
				}
			})
		}
		if !classified {
			// the key as a flattened expression (Sprintf, path.Join or plain concatenation): classify by
			// its leading literal
			shape := mergeLits(strShape(m, keyArg, 2))
			if len(shape) > 0 && shape[0].Var == nil {
				for pre, fams := range etcdPrefixFamilies {
					lit := strings.TrimSuffix(strings.TrimSuffix(pre, "/"), "%s")
					if strings.HasPrefix(shape[0].Lit, lit) {
						classified = true
						for _, f := range fams {
							out[f] = true
						}
					}
				}
			}
		}
		if !classified {
			// deleteConsumerOffsets deletes keys listed under the consumers prefix
			if strings.Contains(funcName(fn), "deleteConsumerOffsets") {
				out["consumer-offsets"] = true
				classified = true
			}
		}
		if !classified {
			out["?unclassified write at "+m.Pos(call.Pos())] = true
		}
	}
	return out
}

// sentinels: package sentinel errors a function may return (following delegation inside pkg/metadata).
func sentinels(m *Module, fn *ssa.Function, seen map[*ssa.Function]bool) map[string]bool {
	out := map[string]bool{}
	if fn == nil || fn.Blocks == nil || seen[fn] {
		return out
	}
	seen[fn] = true
	for _, b := range fn.Blocks {
		for _, in := range b.Instrs {
			ret, ok := in.(*ssa.Return)
			if !ok || len(ret.Results) == 0 {
				continue
			}
			ev := ret.Results[len(ret.Results)-1]
			if !isErrorType(ev.Type()) {
				continue
			}
			for _, o := range origins(ev) {
				if u, ok := o.(*ssa.UnOp); ok && u.Op == token.MUL {
					if g, ok := u.X.(*ssa.Global); ok && strings.HasPrefix(g.Name(), "Err") {
						out[g.Name()] = true
					}
				}
				if co := callOrigin(o); co != nil {
					if f, _ := calleeOf(&co.Call); f != nil && fnPkg(f) != nil && fnPkg(f).Path() == pkgMetadata {
						for k := range sentinels(m, f, seen) {
							out[k] = true
						}
					}
				}
			}
		}
	}
	return out
}

func setString(s map[string]bool) string {
	ks := make([]string, 0, len(s))
	for k := range s {
		ks = append(ks, k)
	}
	sort.Strings(ks)
	return "{" + strings.Join(ks, ",") + "}"
}

func checkC17(c *Ctx, r *Report) {
	r.Explanation = "Decides four sibling-agreement conditions necessary for the in-memory and etcd stores to behave the same: per metadata.Store method, (T1) the set of state families each implementation mutates (topics, partition offsets, consumer offsets, consumer groups, topic configs — in-memory fields and etcd key builders are mapped to families by table) is equal; (T2) the set of package sentinel errors each can return, including through delegation to the embedded in-memory store, is equal; (T3) the in-memory store's clones copy every exported protobuf field (etcd stores the whole message); (T4) both FetchConsumerOffset implementations answer 'nothing committed' with the same value. It does not decide equality of results on arbitrary histories."
	r.NotCovered = "equivalence of results on arbitrary operation histories; transport errors (etcd-only by nature)"
	m, err := c.Mod("root")
	if err != nil {
		r.unresolved("C17.load", "root module", err.Error())
		return
	}
	methods := storeMethods(m)
	r.rule("C17.T1", "per Store method: families mutated by InMemoryStore == families mutated by EtcdStore", len(methods))
	r.rule("C17.T2", "per Store method: sentinel errors returnable by both implementations are equal", len(methods))
	r.rule("C17.T3", "clone exhaustiveness over exported protobuf fields", 4)
	r.rule("C17.T4", "FetchConsumerOffset not-found value agrees between the stores", 1)
	r.rule("C17.T6", "an EtcdStore method reports success only after talking to etcd in that call: no success return is reachable without an etcd client operation (a process-local memo answering for etcd diverges from the in-memory store as soon as another writer, a delete or a restart changes etcd)", 8)
	r.rule("C17.T5", "key and match strings of the metadata package delimit the topic name (C22.R2 re-evaluated): an unterminated prefix or match string makes the etcd store touch keys of sibling topics that the map-keyed in-memory store leaves alone", 5)
	{
		sub := newReport("C22")
		checkC22(c, sub)
		for _, x := range sub.Results {
			if x.Status == Info || x.Rule != "C22.R2" || !strings.Contains(x.Pos, "pkg/metadata/") {
				continue
			}
			r.add("C17.T5", x.Construct, x.Pos, x.Status, x.Detail)
		}
	}
	if len(methods) == 0 {
		r.unresolved("C17.T1", "metadata.Store interface", "not found")
		return
	}
	checkEtcdAnswersFromEtcd(m, r, methods)
	for _, name := range methods {
		mf := m.Func(pkgMetadata, "(*InMemoryStore)."+name)
		ef := m.Func(pkgMetadata, "(*EtcdStore)."+name)
		if mf == nil || ef == nil {
			r.unresolved("C17.T1", "Store."+name, "implementation not found in both stores")
			continue
		}
		r.fn(mf)
		r.fn(ef)
		me := memEffects(m, mf, map[*ssa.Function]bool{})
		ee := etcdEffects(m, ef, map[*ssa.Function]bool{})
		if setString(me) == setString(ee) {
			r.ok("C17.T1", "Store."+name+" effect families", m.Pos(ef.Pos()), setString(me))
		} else {
			r.viol("C17.T1", "Store."+name+" effect families", m.Pos(ef.Pos()), fmt.Sprintf("in-memory mutates %s, etcd mutates %s", setString(me), setString(ee)))
		}
		ms := sentinels(m, mf, map[*ssa.Function]bool{})
		es := sentinels(m, ef, map[*ssa.Function]bool{})
		if setString(ms) == setString(es) {
			r.ok("C17.T2", "Store."+name+" sentinel errors", m.Pos(ef.Pos()), setString(ms))
		} else {
			r.viol("C17.T2", "Store."+name+" sentinel errors", m.Pos(ef.Pos()), fmt.Sprintf("in-memory returns %s, etcd returns %s", setString(ms), setString(es)))
		}
	}
	checkCloneExhaustive(m, r, "C17.T3")
	// T4
	mv, mok := notFoundOffsetMem(m)
	ev, eok := notFoundOffsetEtcd(m)
	if !mok || !eok {
		r.undecided("C17.T4", "FetchConsumerOffset not-found value", "", fmt.Sprintf("could not extract (mem ok=%v, etcd ok=%v)", mok, eok))
	} else if mv == ev {
		r.ok("C17.T4", "FetchConsumerOffset not-found value", "", fmt.Sprintf("both %d", mv))
	} else {
		r.viol("C17.T4", "FetchConsumerOffset not-found value", "", fmt.Sprintf("in-memory %d, etcd %d", mv, ev))
	}
}

// notFoundOffsetMem: value returned by InMemoryStore.FetchConsumerOffset when the key is absent:
// the zero default of a plain map lookup, or the constant on the !ok branch.
func notFoundOffsetMem(m *Module) (int64, bool) {
	fn := m.Func(pkgMetadata, "(*InMemoryStore).FetchConsumerOffset")
	if fn == nil {
		return 0, false
	}
	for _, b := range fn.Blocks {
		for _, in := range b.Instrs {
			ret, ok := in.(*ssa.Return)
			if !ok || len(ret.Results) != 3 || !alwaysNil(ret.Results[2]) {
				continue
			}
			for _, o := range origins(ret.Results[0]) {
				if lk, ok := o.(*ssa.Lookup); ok && !lk.CommaOk {
					return 0, true // zero default
				}
			}
		}
	}
	// comma-ok form: constant returned when !ok
	for _, b := range fn.Blocks {
		for _, in := range b.Instrs {
			ret, ok := in.(*ssa.Return)
			if !ok || len(ret.Results) != 3 || !alwaysNil(ret.Results[2]) {
				continue
			}
			if k, ok := constInt(ret.Results[0]); ok {
				return k, true
			}
		}
	}
	return 0, false
}

func notFoundOffsetEtcd(m *Module) (int64, bool) {
	fn := m.Func(pkgMetadata, "(*EtcdStore).FetchConsumerOffset")
	if fn == nil {
		return 0, false
	}
	g := Guard{cl(atomFn("len(resp.Kvs)==0", func(l Lit) bool {
		if l.Op != token.EQL {
			return false
		}
		k, ok := constInt(l.Y)
		lc, ok2 := l.X.(*ssa.Call)
		return ok && k == 0 && ok2 && calleeName(&lc.Call) == "builtin.len"
	}))}
	for _, b := range fn.Blocks {
		for _, in := range b.Instrs {
			ret, ok := in.(*ssa.Return)
			if !ok || len(ret.Results) != 3 {
				continue
			}
			if b != fn.Blocks[0] && len(b.Preds) == 0 {
				continue // recover block: not reachable from entry
			}
			if res := checkGuarded(m, fn, ret, g); res.OK {
				for _, o := range origins(ret.Results[0]) {
					if k, ok := constInt(o); ok {
						return k, true
					}
				}
			}
		}
	}
	return 0, false
}

// ---------------------------------------------------------------------------------------------

func checkC16(c *Ctx, r *Report) {
	r.Explanation = "Decides three structural necessary conditions of 'committed offsets read back exactly; never-committed reads as -1': (R1) the not-found sentinel: somewhere between the store and the OffsetFetch response a missing commit must become -1 (today it is the map's zero default / a literal 0 — KNOWN-FINDING K3); (R2) key injectivity by format: a key format that interpolates two free-form strings is injective only if at most one of them can contain the separator; topic names are validated ([a-zA-Z0-9._-]) but group ids are not, which is enough for consumerKey and consumerOffsetKey only if every commit path validates the topic (it does not — KNOWN-FINDING K4); (R3) identity: the response entry is built for the same (topic, partition) that was passed to FetchConsumerOffset, and CommitConsumerOffset stores its offset/metadata parameters unmodified in both stores. It does not decide 'last successful commit' over histories."
	r.NotCovered = "'last successful commit' across histories and failures"
	m, err := c.Mod("root")
	if err != nil {
		r.unresolved("C16.load", "root module", err.Error())
		return
	}
	r.rule("C16.R1", "a never-committed partition reads as -1: OffsetFetch maps 'no commit' to -1, or both FetchConsumerOffset implementations return -1 when nothing is stored", 1)
	r.rule("C16.R2", "consumer offset key formats are injective: the topic interpolated next to a free-form group id is validated on every commit path, or the components are escaped; no normalising builder (path.Join/Clean, case folding, trimming) is applied to a free-form component", 3)
	r.rule("C16.R3", "identity of (group, topic, partition, offset, metadata) between request, store call and response; both stores overwrite offset and metadata together", 6)

	// ---- R1
	of := needFn(m, r, "C16.R1", pkgBrokerLib, "(*GroupCoordinator).OffsetFetch")
	if of != nil {
		coordOK := false
		for _, st := range storesToField(of, "kmsg.OffsetFetchResponseTopicPartition", "Offset") {
			for _, o := range origins(st.Val) {
				if k, ok := constInt(o); ok && k == -1 {
					coordOK = true
				}
			}
		}
		mv, mok := notFoundOffsetMem(m)
		ev, eok := notFoundOffsetEtcd(m)
		storesOK := mok && eok && mv == -1 && ev == -1
		key := "never-committed offset reads as -1"
		if coordOK || storesOK {
			r.ok("C16.R1", key, m.Pos(of.Pos()), "")
		} else {
			r.viol("C16.R1", key, m.Pos(of.Pos()), fmt.Sprintf("OffsetFetch copies the store value unchanged; in-memory store yields %d (ok=%v) and etcd store yields %d (ok=%v) for a missing commit, the Kafka protocol requires -1", mv, mok, ev, eok))
		}
	}

	// ---- R2
	commitValidatesTopic := false
	if oc := m.Func(pkgBrokerLib, "(*GroupCoordinator).OffsetCommit"); oc != nil {
		commits := findCalls(oc, "~metadata.Store).CommitConsumerOffset")
		commitValidatesTopic = len(commits) > 0
		for _, cm := range commits {
			// the validated string must be the topic that is committed
			topicArg := cm.Common().Args[2]
			g := Guard{cl(atomBool("ValidTopicName(topic)", func(v ssa.Value) bool {
				vc, ok := v.(*ssa.Call)
				return ok && calleeName(&vc.Call) == pkgMetadata+".ValidTopicName" && vkeySame(vc.Call.Args[0], topicArg)
			}, true))}
			if res := checkGuarded(m, oc, cm, g); !res.OK {
				commitValidatesTopic = false
			}
		}
	}
	for _, kf := range []string{"consumerKey", "consumerOffsetKey", "ConsumerOffsetKey"} {
		fn := needFn(m, r, "C16.R2", pkgMetadata, kf)
		if fn == nil {
			continue
		}
		key := kf + " format is injective"
		var ret *ssa.Return
		nRet := 0
		for _, b := range fn.Blocks {
			if rt, ok := b.Instrs[len(b.Instrs)-1].(*ssa.Return); ok {
				ret = rt
				nRet++
			}
		}
		if nRet != 1 || len(ret.Results) != 1 {
			r.undecided("C16.R2", key, m.Pos(fn.Pos()), "key builder is not a single-expression function")
			continue
		}
		shape := mergeLits(strShape(m, ret.Results[0], 1))
		escaped, cleans := false, ""
		for _, call := range callsIn(fn) {
			n := calleeName(call.Common())
			if strings.HasPrefix(n, "net/url.") || strings.Contains(n, "Escape") || strings.Contains(n, "base64") {
				escaped = true
			}
			switch n {
			case "path.Join", "path.Clean", "path/filepath.Join", "path/filepath.Clean", "strings.ToLower", "strings.ToUpper", "strings.TrimSpace", "strings.Trim", "strings.TrimSuffix", "strings.TrimPrefix", "strings.Title":
				cleans = n
			}
		}
		nFree := 0
		for _, cpt := range shape {
			if cpt.Var == nil || cpt.Num {
				continue
			}
			if cpt.Topic && commitValidatesTopic {
				continue
			}
			nFree++
		}
		desc := shapeString(shape)
		switch {
		case cleans != "" && nFree > 0 && !escaped:
			r.viol("C16.R2", key, m.Pos(ret.Pos()), fmt.Sprintf("key %s is built with %s, which normalises the free-form group id: distinct groups (\"a/b\" and \"a//b\", \"g\" and \"g/\") share one key and read each other's offsets", desc, cleans))
		case nFree <= 1 || escaped:
			why := "at most one free-form component"
			if commitValidatesTopic {
				why = "topic validated on the commit path, only the group is free-form"
			}
			r.ok("C16.R2", key, m.Pos(ret.Pos()), desc+": "+why)
		default:
			r.viol("C16.R2", key, m.Pos(ret.Pos()), fmt.Sprintf("key %s interpolates %d free-form strings without escaping; (\"g:x\",\"t\") and (\"g\",\"x:t\") — resp. (\"g/offsets/x\",\"t\") and (\"g\",\"x/offsets/t\") — share a key", desc, nFree))
		}
	}

	// ---- R3
	if of != nil {
		for _, call := range findCalls(of, "~metadata.Store).FetchConsumerOffset") {
			args := call.Common().Args // ctx, group, topic, partition
			ok := len(args) == 4
			why := ""
			if ok {
				if _, f, _, okf := fieldOf(args[1]); !okf || f != "Group" {
					ok, why = false, "group argument is "+describe(args[1])
				}
				if _, f, _, okf := fieldOf(args[2]); !okf || f != "Topic" {
					ok, why = false, "topic argument is "+describe(args[2])
				}
			}
			// response partition = same value as the partition argument
			for _, st := range storesToField(of, "kmsg.OffsetFetchResponseTopicPartition", "Partition") {
				if ok && strip(st.Val) != strip(args[3]) {
					ok, why = false, "response Partition "+describe(st.Val)+" differs from the fetched partition"
				}
			}
			for _, st := range storesToField(of, "kmsg.OffsetFetchResponseTopicPartition", "Offset") {
				if ok && !allOrigins(st.Val, func(v ssa.Value) bool {
					if k, isC := constInt(v); isC && k == -1 {
						return true
					}
					return callOrigin(v) == call.(*ssa.Call)
				}) {
					ok, why = false, "response Offset is "+describe(st.Val)
				}
			}
			if ok {
				r.ok("C16.R3", "OffsetFetch response entry matches the fetched (group, topic, partition)", m.Pos(call.Pos()), "")
			} else {
				r.viol("C16.R3", "OffsetFetch response entry matches the fetched (group, topic, partition)", m.Pos(call.Pos()), why)
			}
		}
	}
	if oc := needFn(m, r, "C16.R3", pkgBrokerLib, "(*GroupCoordinator).OffsetCommit"); oc != nil {
		for _, call := range findCalls(oc, "~metadata.Store).CommitConsumerOffset") {
			args := call.Common().Args // ctx, group, topic, partition, offset, metadata
			want := []string{"", "Group", "Topic", "Partition", "Offset"}
			ok := len(args) == 6
			why := ""
			for i := 1; ok && i <= 4; i++ {
				if _, f, _, okf := fieldOf(args[i]); !okf || f != want[i] {
					ok, why = false, fmt.Sprintf("argument %d is %s, expected the request's %s", i, describe(args[i]), want[i])
				}
			}
			if ok {
				r.ok("C16.R3", "OffsetCommit passes the request's group/topic/partition/offset", m.Pos(call.Pos()), "")
			} else {
				r.viol("C16.R3", "OffsetCommit passes the request's group/topic/partition/offset", m.Pos(call.Pos()), why)
			}
		}
	}
	for _, impl := range []string{"(*InMemoryStore).CommitConsumerOffset", "(*EtcdStore).CommitConsumerOffset"} {
		fn := needFn(m, r, "C16.R3", pkgMetadata, impl)
		if fn == nil {
			continue
		}
		// key built from (group, topic, partition) params in order; stored offset is the offset param
		okKey, okVal := false, false
		for _, call := range callsIn(fn) {
			n := calleeName(call.Common())
			if n == pkgMetadata+".consumerKey" || n == pkgMetadata+".consumerOffsetKey" {
				a := call.Common().Args
				if len(a) == 3 && isParamNamed(a[0], "group") && isParamNamed(a[1], "topic") && isParamNamed(a[2], "partition") {
					okKey = true
				}
			}
		}
		for _, b := range fn.Blocks {
			for _, in := range b.Instrs {
				switch x := in.(type) {
				case *ssa.MapUpdate:
					if _, f, _, ok := fieldOf(x.Map); ok && f == "consumerOffsets" && isParamNamed(x.Value, "offset") {
						okVal = true
					}
				case *ssa.Store:
					if fa, ok := x.Addr.(*ssa.FieldAddr); ok {
						if _, f, _, ok := fieldAddrInfo(fa); ok && f == "Offset" && isParamNamed(x.Val, "offset") {
							okVal = true
						}
					}
				}
			}
		}
		// the metadata of the same commit is stored too, and both writes are unconditional: a commit
		// that keeps the previous metadata reads back something that was never committed together
		var writes []ssa.Instruction
		okMeta := false
		for _, b := range fn.Blocks {
			for _, in := range b.Instrs {
				switch x := in.(type) {
				case *ssa.MapUpdate:
					if _, f, _, ok := fieldOf(x.Map); ok && (f == "consumerOffsets" || f == "consumerMeta") {
						writes = append(writes, in)
						if f == "consumerMeta" && isParamNamed(x.Value, "metadata") {
							okMeta = true
						}
					}
				case *ssa.Store:
					if fa, ok := x.Addr.(*ssa.FieldAddr); ok {
						if t, f, _, ok := fieldAddrInfo(fa); ok && strings.HasSuffix(t, "consumerOffsetRecord") && (f == "Offset" || f == "Metadata") {
							writes = append(writes, in)
							if f == "Metadata" && isParamNamed(x.Val, "metadata") {
								okMeta = true
							}
						}
					}
				}
			}
		}
		skipped := ""
		for _, w := range writes {
			w := w
			if found, _, path := search(SearchSpec{Start: Loc{fn.Blocks[0], 0},
				Target: func(t ssa.Instruction) bool {
					ret, ok := t.(*ssa.Return)
					if !ok {
						return false
					}
					for _, o := range origins(ret.Results[len(ret.Results)-1]) {
						if isNilConst(o) {
							return true
						}
						if ex, ok := strip(o).(*ssa.Extract); ok {
							// the error of the final Put: success is one of its outcomes
							if c, ok := ex.Tuple.(*ssa.Call); ok && strings.Contains(calleeName(&c.Call), ".Put") {
								return true
							}
						}
					}
					return false
				},
				Blocker: func(t ssa.Instruction) bool { return t == w }}); found {
				skipped = "a successful commit can skip the write at " + m.Pos(w.Pos()) + ": " + renderPath(m, path)
			}
		}
		keyM := impl + " overwrites offset and metadata together on every successful commit"
		switch {
		case !okMeta:
			r.viol("C16.R3", keyM, m.Pos(fn.Pos()), "the metadata argument is not stored")
		case skipped != "":
			r.viol("C16.R3", keyM, m.Pos(fn.Pos()), skipped+" — the previous commit's value survives and is read back with the new offset")
		default:
			r.ok("C16.R3", keyM, m.Pos(fn.Pos()), fmt.Sprintf("%d unconditional writes", len(writes)))
		}
		key := impl + " stores the committed offset under the (group, topic, partition) key"
		if okKey && okVal {
			r.ok("C16.R3", key, m.Pos(fn.Pos()), "")
		} else {
			r.viol("C16.R3", key, m.Pos(fn.Pos()), fmt.Sprintf("key from params=%v, offset param stored unmodified=%v", okKey, okVal))
		}
	}
}

func isParamNamed(v ssa.Value, name string) bool {
	v = strip(v)
	if p, ok := v.(*ssa.Parameter); ok {
		return p.Name() == name
	}
	// spilled parameter
	if u, ok := v.(*ssa.UnOp); ok && u.Op == token.MUL {
		if a, ok := u.X.(*ssa.Alloc); ok {
			for _, s := range storesTo(a) {
				if p, ok := s.(*ssa.Parameter); ok && p.Name() == name {
					return true
				}
			}
		}
	}
	return false
}


// checkEtcdAnswersFromEtcd (C17.T6): for every metadata.Store method of *EtcdStore, each return whose
// error can be the nil constant is reached only through an etcd client operation (directly or in a
// callee). Methods that are served from the watched snapshot by design are listed with the reason.
func checkEtcdAnswersFromEtcd(m *Module, r *Report, methods []string) {
	fromSnapshot := map[string]string{
		"Metadata": "served from the snapshot the store keeps current by watching etcd (refreshed on demand)",
	}
	isEtcdOp := func(n string) bool {
		if !strings.Contains(n, "go.etcd.io/etcd/client/v3") {
			return false
		}
		for _, suf := range []string{".Get", ".Put", ".Delete", ".Commit", ".Do"} {
			if strings.HasSuffix(n, suf) {
				return true
			}
		}
		return false
	}
	touches := map[*ssa.Function]bool{}
	fns := m.FuncsInPkg(pkgMetadata)
	for changed := true; changed; {
		changed = false
		for _, fn := range fns {
			if touches[fn] {
				continue
			}
			for _, call := range callsIn(fn) {
				if isEtcdOp(calleeName(call.Common())) {
					touches[fn] = true
				} else if g := call.Common().StaticCallee(); g != nil && touches[g] {
					touches[fn] = true
				}
			}
			if touches[fn] {
				changed = true
			}
		}
	}
	pass := func(in ssa.Instruction) bool {
		ci, ok := in.(ssa.CallInstruction)
		if !ok {
			return false
		}
		if _, isDefer := in.(*ssa.Defer); isDefer {
			return false
		}
		if isEtcdOp(calleeName(ci.Common())) {
			return true
		}
		g := ci.Common().StaticCallee()
		return g != nil && touches[g]
	}
	for _, name := range methods {
		ef := m.Func(pkgMetadata, "(*EtcdStore)."+name)
		if ef == nil {
			continue
		}
		key := "EtcdStore." + name + " reports success only after an etcd operation"
		if why, ok := fromSnapshot[name]; ok {
			r.add("C17.T6", key, m.Pos(ef.Pos()), Info, "exempt: "+why)
			continue
		}
		bad := ""
		n := 0
		for _, b := range ef.Blocks {
			ret, ok := b.Instrs[len(b.Instrs)-1].(*ssa.Return)
			if !ok || len(ret.Results) == 0 {
				continue
			}
			yieldsNil := false
			for _, o := range origins(ret.Results[len(ret.Results)-1]) {
				if c, isC := o.(*ssa.Const); isC && c.Value == nil {
					yieldsNil = true
				}
			}
			if !yieldsNil || nilness(ret.Results[len(ret.Results)-1], b) == isNonNil {
				continue
			}
			n++
			if ok, path := mustPassBefore(m, ef, ret, pass); !ok {
				bad = "success at " + m.Pos(ret.Pos()) + " without any etcd operation: " + path
			}
		}
		switch {
		case bad != "":
			r.viol("C17.T6", key, m.Pos(ef.Pos()), bad)
		case n == 0:
			r.add("C17.T6", key, m.Pos(ef.Pos()), Info, "no constant-nil success return")
		default:
			r.ok("C17.T6", key, m.Pos(ef.Pos()), fmt.Sprintf("%d success return(s)", n))
		}
	}
}
