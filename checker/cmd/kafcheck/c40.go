package main

import (
	"fmt"
	"go/token"
	"go/types"
	"sort"
	"strings"

	"golang.org/x/tools/go/ssa"
)

func init() { register("C40", "other", checkC40) }

const pkgMCP = rootModPath + "/internal/mcpserver"

// implementers: concrete methods (in module-local packages) that an interface method call can
// dispatch to — class-hierarchy analysis over every named type of the module.
func implementers(m *Module, recv types.Type, method *types.Func) []*ssa.Function {
	iface, ok := recv.Underlying().(*types.Interface)
	if !ok {
		return nil
	}
	var out []*ssa.Function
	seen := map[*ssa.Function]bool{}
	for _, p := range m.Pkgs {
		sc := p.Types.Scope()
		for _, name := range sc.Names() {
			tn, ok := sc.Lookup(name).(*types.TypeName)
			if !ok || tn.IsAlias() {
				continue
			}
			if _, isIface := tn.Type().Underlying().(*types.Interface); isIface {
				continue
			}
			for _, T := range []types.Type{tn.Type(), types.NewPointer(tn.Type())} {
				if !types.Implements(T, iface) {
					continue
				}
				sel := m.Prog.MethodSets.MethodSet(T).Lookup(method.Pkg(), method.Name())
				if sel == nil {
					continue
				}
				if f := m.Prog.MethodValue(sel); f != nil && !seen[f] {
					seen[f] = true
					out = append(out, f)
				}
			}
		}
	}
	return out
}

type reachInfo struct {
	fn    *ssa.Function
	via   *ssa.Function
	site  token.Pos
	depth int
}

// reachFrom computes everything callable from the roots inside the module: static calls, closures
// created in reachable code, and interface calls resolved by CHA. Library functions are leaves.
func reachFrom(m *Module, roots []*ssa.Function) map[*ssa.Function]reachInfo {
	out := map[*ssa.Function]reachInfo{}
	var work []*ssa.Function
	add := func(f, via *ssa.Function, pos token.Pos) {
		if f == nil || f.Blocks == nil {
			return
		}
		if p := fnPkg(f); p == nil || !m.isLocalPkg(p) {
			return
		}
		if _, ok := out[f]; ok {
			return
		}
		d := 0
		if via != nil {
			d = out[via].depth + 1
		}
		out[f] = reachInfo{f, via, pos, d}
		work = append(work, f)
	}
	for _, r := range roots {
		add(r, nil, token.NoPos)
	}
	for len(work) > 0 {
		f := work[0]
		work = work[1:]
		for _, b := range f.Blocks {
			for _, in := range b.Instrs {
				switch x := in.(type) {
				case *ssa.MakeClosure:
					if g, ok := x.Fn.(*ssa.Function); ok {
						add(g, f, x.Pos())
					}
				case ssa.CallInstruction:
					cc := x.Common()
					if cc.IsInvoke() {
						for _, g := range implementers(m, cc.Value.Type(), cc.Method) {
							add(g, f, x.Pos())
						}
						continue
					}
					if g, _ := calleeOf(cc); g != nil {
						add(g, f, x.Pos())
					}
				}
				// function values taken (method values, function references) are treated as callable
				for _, op := range in.Operands(nil) {
					if op == nil || *op == nil {
						continue
					}
					if g, ok := (*op).(*ssa.Function); ok {
						add(g, f, in.Pos())
					}
				}
			}
		}
	}
	return out
}

func chainTo(ri map[*ssa.Function]reachInfo, f *ssa.Function) string {
	var parts []string
	for g := f; g != nil; g = ri[g].via {
		parts = append([]string{g.Name()}, parts...)
		if len(parts) > 12 {
			break
		}
	}
	return strings.Join(parts, " → ")
}

var storeMutators = map[string]bool{
	"UpdateOffsets": true, "CommitConsumerOffset": true, "PutConsumerGroup": true, "DeleteConsumerGroup": true,
	"UpdateTopicConfig": true, "CreatePartitions": true, "CreateTopic": true, "DeleteTopic": true,
}

func checkC40(c *Ctx, r *Report) {
	r.Explanation = "Effect proof that no ops MCP tool changes cluster state. Obligations, all discharged by call-graph and write-set analysis of the current source: (O1) from the handler registered by each mcp.AddTool call, over static calls, closures, function values and interface calls resolved by class-hierarchy analysis across every type of the module, no call site is reachable whose callee is a metadata.Store mutator (UpdateOffsets, CommitConsumerOffset, PutConsumerGroup, DeleteConsumerGroup, UpdateTopicConfig, CreatePartitions, CreateTopic, DeleteTopic — interface or implementation), InMemoryStore.Update, or an etcd write (KV.Put/Delete/Txn/Compact, Lease.*); (O2) every write site in the reachable set — stores, map updates, delete/clear/copy, and reference arguments handed to library functions outside a read-only table — is judged by a demand-driven points-to analysis (memflow.go: allocation sites, loads resolved through what was stored, returned pointers followed into callees with the call site as context, interface calls by CHA, first-level field sensitivity for struct copies): no written memory may be reachable through a field of InMemoryStore or EtcdStore (the mutexes and EtcdStore.available/lastError are the named exemptions); functions writing through a parameter are judged at each of their call sites; so neither a direct write, nor a getter that hands out internal memory combined with a tool that edits what it got, escapes, while editing a clone is accepted; (O3) the reachable set contains no reflect call, unsafe pointer conversion or linkname. Trusted base: go/types and go/ssa, soundness of CHA for Go code without reflection, the etcd client's read calls (Get, Watch) being read-only."
	r.NotCovered = "state outside the metadata store (metrics counters, logs); behaviour of the etcd server itself"
	r.Assumptions = []string{
		"class-hierarchy analysis over the module's types over-approximates every dynamic dispatch (no reflection, unsafe or linkname in the reachable set: obligation O4)",
		"etcd client read calls (KV.Get, Watcher.Watch) do not modify the key space",
		"library code called from the reachable set does not call back into repository mutators (library functions are leaves; the only repository callbacks passed to libraries are the tool handlers themselves)",
	}
	m, err := c.Mod("root")
	if err != nil {
		r.unresolved("C40.load", "root module", err.Error())
		return
	}
	r.rule("C40.O1", "per tool: no Store mutator / InMemoryStore.Update / etcd write is reachable from the handler", 8)
	r.rule("C40.O2", "no write in the reachable set can land in memory held by InMemoryStore / EtcdStore (points-to judgement of every write site)", 1)
	r.rule("C40.O3", "no reflection / unsafe in the reachable set", 1)

	rt := needFn(m, r, "C40.O1", pkgMCP, "registerTools")
	if rt == nil {
		return
	}
	type tool struct {
		name    string
		handler *ssa.Function
		pos     token.Pos
	}
	var tools []tool
	for _, call := range callsIn(rt) {
		n := calleeName(call.Common())
		if !strings.Contains(n, "go-sdk/mcp.AddTool") {
			continue
		}
		args := call.Common().Args
		tname := "?"
		backSlice(args[1], false, func(v ssa.Value) {
			if al, ok := v.(*ssa.Alloc); ok {
				for _, st := range fieldStores(al)["Name"] {
					if s, ok := constString(st.Val); ok {
						tname = s
					}
				}
			}
		})
		// handler: the closure returned by xHandler(opts)
		var h *ssa.Function
		if hc := callOrigin(args[2]); hc != nil {
			if f, _ := calleeOf(&hc.Call); f != nil {
				// the factory returns a closure: take the factory itself as root (its closures are followed)
				h = f
			}
		}
		if mc, ok := strip(args[2]).(*ssa.MakeClosure); ok {
			h, _ = mc.Fn.(*ssa.Function)
		}
		if h == nil {
			r.unresolved("C40.O1", "tool "+tname+" handler", "handler value not resolved: "+describe(args[2]))
			continue
		}
		tools = append(tools, tool{tname, h, call.Pos()})
	}
	if len(tools) == 0 {
		r.unresolved("C40.O1", "registered tools", "no mcp.AddTool call found")
		return
	}
	all := map[*ssa.Function]reachInfo{}
	var allRoots []*ssa.Function
	for _, t := range tools {
		allRoots = append(allRoots, t.handler)
		ri := reachFrom(m, []*ssa.Function{t.handler})
		bad := ""
		nSites := 0
		storeCalls := map[string]bool{}
		for f := range ri {
			for _, call := range callsIn(f) {
				nSites++
				cc := call.Common()
				n := calleeName(cc)
				mname := ""
				if cc.IsInvoke() {
					mname = cc.Method.Name()
					if strings.HasSuffix(cc.Value.Type().String(), "metadata.Store") {
						storeCalls[mname] = true
						if storeMutators[mname] {
							bad = fmt.Sprintf("Store.%s is called at %s (%s)", mname, m.Pos(call.Pos()), chainTo(ri, f))
						}
					}
					if strings.Contains(cc.Value.Type().String(), "client/v3.KV") || strings.Contains(cc.Value.Type().String(), "client/v3.Lease") {
						switch mname {
						case "Put", "Delete", "Txn", "Compact", "Grant", "Revoke", "KeepAlive", "KeepAliveOnce":
							bad = fmt.Sprintf("etcd %s at %s (%s)", mname, m.Pos(call.Pos()), chainTo(ri, f))
						}
					}
					continue
				}
				if g, _ := calleeOf(cc); g != nil {
					gn := funcName(g)
					short := gn[strings.LastIndex(gn, ".")+1:]
					if (strings.Contains(gn, "metadata.InMemoryStore)") || strings.Contains(gn, "metadata.EtcdStore)")) && (storeMutators[short] || short == "Update") {
						bad = fmt.Sprintf("%s is called at %s (%s)", gn, m.Pos(call.Pos()), chainTo(ri, f))
					}
				}
				if strings.Contains(n, "client/v3.Client).Put") || strings.Contains(n, "client/v3.Client).Delete") || strings.Contains(n, "client/v3.Client).Txn") ||
					strings.HasSuffix(n, "client/v3.OpPut") || strings.HasSuffix(n, "client/v3.OpDelete") {
					bad = fmt.Sprintf("etcd write %s at %s (%s)", n, m.Pos(call.Pos()), chainTo(ri, f))
				}
			}
		}
		r.CallSites += nSites
		var sc []string
		for k := range storeCalls {
			sc = append(sc, k)
		}
		sort.Strings(sc)
		key := "tool " + t.name + " reaches no mutator"
		if bad == "" {
			r.ok("C40.O1", key, m.Pos(t.pos), fmt.Sprintf("%d functions, %d call sites explored; Store methods used: %s", len(ri), nSites, strings.Join(sc, ",")))
		} else {
			r.viol("C40.O1", key, m.Pos(t.pos), bad)
		}
		for f, i := range ri {
			if _, ok := all[f]; !ok {
				all[f] = i
			}
			r.fn(f)
		}
	}
	r.Extra["tools"] = len(tools)
	r.Extra["reachable_functions"] = len(all)

	// ---- O2 / O3: may-write analysis over the reachable set
	isStoreType := func(t string) bool {
		return strings.HasSuffix(t, "metadata.InMemoryStore") || strings.HasSuffix(t, "metadata.EtcdStore")
	}
	heldField := func(v ssa.Value) (string, bool) {
		fa, ok := v.(*ssa.FieldAddr)
		if !ok {
			return "", false
		}
		t, f, _, ok := fieldAddrInfo(fa)
		if !ok || !isStoreType(t) {
			return "", false
		}
		// named exemptions: the mutexes (locked by readers) and the health flag / last error of the
		// last etcd round trip, which are not topics/offsets/groups/configuration
		if f == "mu" || f == "persistMu" {
			return "", false
		}
		if strings.HasSuffix(t, "EtcdStore") && (f == "available" || f == "lastError") {
			return "", false
		}
		// … and, by kind rather than by name, any field whose type is one of sync/atomic's cells: an
		// atomic counter or flag is bookkeeping (request, error and retry counts), never the place
		// where topics, offsets, groups or configuration are kept — those live in maps and messages
		if pt, ok := fa.Type().Underlying().(*types.Pointer); ok {
			if nt, ok := pt.Elem().(*types.Named); ok && nt.Obj().Pkg() != nil && nt.Obj().Pkg().Path() == "sync/atomic" {
				return "", false
			}
		}
		return t[strings.LastIndex(t, ".")+1:] + "." + f, true
	}
	eng := newPtsEngine(m, nil)
	eng.mark = func(v ssa.Value) bool { _, ok := heldField(v); return ok }
	libReadOnly := func(n string) bool {
		for _, p := range []string{"(*sync.RWMutex).", "(*sync.Mutex).", "context.", "(context.", "fmt.", "strings.", "strconv.", "errors.", "sync/atomic.Load",
			"(*go.etcd.io/etcd/client/v3.Client).Get", "(go.etcd.io/etcd/client/v3.KV).Get", "encoding/json.Marshal", "(*log/slog.Logger).", "log/slog.", "time.", "(time.",
			"google.golang.org/protobuf/proto.Clone", "google.golang.org/protobuf/proto.Marshal", "slices.Clone", "maps.Clone", "slices.Contains", "slices.Index", "bytes.Equal"} {
			if strings.HasPrefix(n, p) {
				return true
			}
		}
		return false
	}
	var sites []refSite
	for f := range all {
		for _, b := range f.Blocks {
			for _, in := range b.Instrs {
				switch x := in.(type) {
				case *ssa.Store:
					if _, local := x.Addr.(*ssa.Alloc); local {
						continue
					}
					sites = append(sites, refSite{f, in, x.Addr, "store"})
				case *ssa.MapUpdate:
					sites = append(sites, refSite{f, in, x.Map, "map update"})
				case ssa.CallInstruction:
					cc := x.Common()
					if bi, ok := cc.Value.(*ssa.Builtin); ok {
						switch bi.Name() {
						case "delete", "clear", "copy":
							sites = append(sites, refSite{f, in, cc.Args[0], bi.Name()})
						}
						continue
					}
					// library callee (no body in the module): a reference argument may be written
					// unless the callee is in the read-only table
					localTarget := false
					if cc.IsInvoke() {
						localTarget = len(implementers(m, cc.Value.Type(), cc.Method)) > 0
					} else if g, _ := calleeOf(cc); g != nil {
						localTarget = g.Blocks != nil && fnPkg(g) != nil && m.isLocalPkg(fnPkg(g))
					} else {
						localTarget = true // dynamic call of a function value: closures are in the reachable set
					}
					n := calleeName(cc)
					if localTarget || libReadOnly(n) {
						continue
					}
					args := cc.Args
					if cc.IsInvoke() {
						args = append([]ssa.Value{cc.Value}, args...)
					}
					for _, a := range args {
						if mi, ok := a.(*ssa.MakeInterface); ok {
							a = mi.X
						}
						if !refCarrying(a.Type()) {
							continue
						}
						if _, isFn := a.Type().Underlying().(*types.Signature); isFn {
							continue
						}
						sites = append(sites, refSite{f, in, a, "argument of library function " + n})
					}
				}
			}
		}
	}
	writes, nArgs := judgeRefSites(m, eng, all, sites, func(v ssa.Value) string { w, _ := heldField(v); return "memory held in " + w }, "can reach")
	r.Extra["write_sites_judged"] = len(sites)
	r.Extra["arguments_to_writing_callees_judged"] = nArgs
	r.Extra["values_inspected"] = eng.Visited
	if len(writes) == 0 {
		r.ok("C40.O2", "no reachable write can land in memory held by the store", "", fmt.Sprintf("%d reachable functions, %d write sites, %d values inspected", len(all), len(sites), eng.Visited))
	} else {
		r.viol("C40.O2", "no reachable write can land in memory held by the store", "", strings.Join(writes, "; "))
	}

	// ---- O4
	var refl []string
	for f := range all {
		for _, call := range callsIn(f) {
			n := calleeName(call.Common())
			if strings.HasPrefix(n, "(reflect.Value).Call") || strings.HasPrefix(n, "(reflect.Value).Method") || strings.HasPrefix(n, "reflect.") && strings.Contains(n, "Call") {
				refl = append(refl, m.Pos(call.Pos())+": "+n+" in "+f.Name())
			}
		}
		for _, b := range f.Blocks {
			for _, in := range b.Instrs {
				if cv, ok := in.(*ssa.Convert); ok {
					if bt, ok := cv.X.Type().Underlying().(*types.Basic); ok && bt.Kind() == types.UnsafePointer {
						refl = append(refl, m.Pos(cv.Pos())+": unsafe.Pointer conversion in "+f.Name())
					}
				}
			}
		}
	}
	sort.Strings(refl)
	if len(refl) == 0 {
		r.ok("C40.O3", "no reflection or unsafe in the reachable set", "", "")
	} else {
		r.viol("C40.O3", "no reflection or unsafe in the reachable set", "", strings.Join(refl, "; "))
	}
}

