package main

import (
	"fmt"
	"go/token"
	"go/types"
	"sort"
	"strings"

	"golang.org/x/tools/go/ssa"
)

func init() { register("C40", "other", checkC40) }

const pkgMCP = rootModPath + "/internal/mcpserver"

// implementers: concrete methods (in module-local packages) that an interface method call can
// dispatch to — class-hierarchy analysis over every named type of the module.
func implementers(m *Module, recv types.Type, method *types.Func) []*ssa.Function {
	iface, ok := recv.Underlying().(*types.Interface)
	if !ok {
		return nil
	}
	var out []*ssa.Function
	seen := map[*ssa.Function]bool{}
	for _, p := range m.Pkgs {
		sc := p.Types.Scope()
		for _, name := range sc.Names() {
			tn, ok := sc.Lookup(name).(*types.TypeName)
			if !ok || tn.IsAlias() {
				continue
			}
			if _, isIface := tn.Type().Underlying().(*types.Interface); isIface {
				continue
			}
			for _, T := range []types.Type{tn.Type(), types.NewPointer(tn.Type())} {
				if !types.Implements(T, iface) {
					continue
				}
				sel := m.Prog.MethodSets.MethodSet(T).Lookup(method.Pkg(), method.Name())
				if sel == nil {
					continue
				}
				if f := m.Prog.MethodValue(sel); f != nil && !seen[f] {
					seen[f] = true
					out = append(out, f)
				}
			}
		}
	}
	return out
}

type reachInfo struct {
	fn    *ssa.Function
	via   *ssa.Function
	site  token.Pos
	depth int
}

// reachFrom computes everything callable from the roots inside the module: static calls, closures
// created in reachable code, and interface calls resolved by CHA. Library functions are leaves.
func reachFrom(m *Module, roots []*ssa.Function) map[*ssa.Function]reachInfo {
	out := map[*ssa.Function]reachInfo{}
	var work []*ssa.Function
	add := func(f, via *ssa.Function, pos token.Pos) {
		if f == nil || f.Blocks == nil {
			return
		}
		if p := fnPkg(f); p == nil || !m.isLocalPkg(p) {
			return
		}
		if _, ok := out[f]; ok {
			return
		}
		d := 0
		if via != nil {
			d = out[via].depth + 1
		}
		out[f] = reachInfo{f, via, pos, d}
		work = append(work, f)
	}
	for _, r := range roots {
		add(r, nil, token.NoPos)
	}
	for len(work) > 0 {
		f := work[0]
		work = work[1:]
		for _, b := range f.Blocks {
			for _, in := range b.Instrs {
				switch x := in.(type) {
				case *ssa.MakeClosure:
					if g, ok := x.Fn.(*ssa.Function); ok {
						add(g, f, x.Pos())
					}
				case ssa.CallInstruction:
					cc := x.Common()
					if cc.IsInvoke() {
						for _, g := range implementers(m, cc.Value.Type(), cc.Method) {
							add(g, f, x.Pos())
						}
						continue
					}
					if g, _ := calleeOf(cc); g != nil {
						add(g, f, x.Pos())
					}
				}
				// function values taken (method values, function references) are treated as callable
				for _, op := range in.Operands(nil) {
					if op == nil || *op == nil {
						continue
					}
					if g, ok := (*op).(*ssa.Function); ok {
						add(g, f, in.Pos())
					}
				}
			}
		}
	}
	return out
}

func chainTo(ri map[*ssa.Function]reachInfo, f *ssa.Function) string {
	var parts []string
	for g := f; g != nil; g = ri[g].via {
		parts = append([]string{g.Name()}, parts...)
		if len(parts) > 12 {
			break
		}
	}
	return strings.Join(parts, " → ")
}

var storeMutators = map[string]bool{
	"UpdateOffsets": true, "CommitConsumerOffset": true, "PutConsumerGroup": true, "DeleteConsumerGroup": true,
	"UpdateTopicConfig": true, "CreatePartitions": true, "CreateTopic": true, "DeleteTopic": true,
}

func checkC40(c *Ctx, r *Report) {
	r.Explanation = "Effect proof that no ops MCP tool changes cluster state. Obligations, all discharged by call-graph and write-set analysis of the current source: (O1) from the handler registered by each mcp.AddTool call, over static calls, closures, function values and interface calls resolved by class-hierarchy analysis across every type of the module, no call site is reachable whose callee is a metadata.Store mutator (UpdateOffsets, CommitConsumerOffset, PutConsumerGroup, DeleteConsumerGroup, UpdateTopicConfig, CreatePartitions, CreateTopic, DeleteTopic — interface or implementation), InMemoryStore.Update, or an etcd write (KV.Put/Delete/Txn/Compact, Lease.*); (O2) no reachable function stores to a field of InMemoryStore or EtcdStore, nor updates or deletes from a map held in one (so 'no mutator reachable' cannot be bypassed by a direct write); (O3) inside internal/mcpserver every store goes to memory allocated in that function (locals, fresh slices/maps, new objects), never through a pointer obtained from the metadata store, so results handed out by the store are not modified; (O4) the reachable set contains no reflect call, unsafe pointer conversion or linkname. Trusted base: go/types and go/ssa, soundness of CHA for Go code without reflection, the etcd client's read calls (Get, Watch) being read-only."
	r.NotCovered = "state outside the metadata store (metrics counters, logs); behaviour of the etcd server itself"
	r.Assumptions = []string{
		"class-hierarchy analysis over the module's types over-approximates every dynamic dispatch (no reflection, unsafe or linkname in the reachable set: obligation O4)",
		"etcd client read calls (KV.Get, Watcher.Watch) do not modify the key space",
		"library code called from the reachable set does not call back into repository mutators (library functions are leaves; the only repository callbacks passed to libraries are the tool handlers themselves)",
	}
	m, err := c.Mod("root")
	if err != nil {
		r.unresolved("C40.load", "root module", err.Error())
		return
	}
	r.rule("C40.O1", "per tool: no Store mutator / InMemoryStore.Update / etcd write is reachable from the handler", 8)
	r.rule("C40.O2", "no reachable function writes a field or map of InMemoryStore / EtcdStore", 1)
	r.rule("C40.O3", "stores inside internal/mcpserver go to function-local allocations only", 1)
	r.rule("C40.O4", "no reflection / unsafe in the reachable set", 1)

	rt := needFn(m, r, "C40.O1", pkgMCP, "registerTools")
	if rt == nil {
		return
	}
	type tool struct {
		name    string
		handler *ssa.Function
		pos     token.Pos
	}
	var tools []tool
	for _, call := range callsIn(rt) {
		n := calleeName(call.Common())
		if !strings.Contains(n, "go-sdk/mcp.AddTool") {
			continue
		}
		args := call.Common().Args
		tname := "?"
		backSlice(args[1], false, func(v ssa.Value) {
			if al, ok := v.(*ssa.Alloc); ok {
				for _, st := range fieldStores(al)["Name"] {
					if s, ok := constString(st.Val); ok {
						tname = s
					}
				}
			}
		})
		// handler: the closure returned by xHandler(opts)
		var h *ssa.Function
		if hc := callOrigin(args[2]); hc != nil {
			if f, _ := calleeOf(&hc.Call); f != nil {
				// the factory returns a closure: take the factory itself as root (its closures are followed)
				h = f
			}
		}
		if mc, ok := strip(args[2]).(*ssa.MakeClosure); ok {
			h, _ = mc.Fn.(*ssa.Function)
		}
		if h == nil {
			r.unresolved("C40.O1", "tool "+tname+" handler", "handler value not resolved: "+describe(args[2]))
			continue
		}
		tools = append(tools, tool{tname, h, call.Pos()})
	}
	if len(tools) == 0 {
		r.unresolved("C40.O1", "registered tools", "no mcp.AddTool call found")
		return
	}
	all := map[*ssa.Function]reachInfo{}
	var allRoots []*ssa.Function
	for _, t := range tools {
		allRoots = append(allRoots, t.handler)
		ri := reachFrom(m, []*ssa.Function{t.handler})
		bad := ""
		nSites := 0
		storeCalls := map[string]bool{}
		for f := range ri {
			for _, call := range callsIn(f) {
				nSites++
				cc := call.Common()
				n := calleeName(cc)
				mname := ""
				if cc.IsInvoke() {
					mname = cc.Method.Name()
					if strings.HasSuffix(cc.Value.Type().String(), "metadata.Store") {
						storeCalls[mname] = true
						if storeMutators[mname] {
							bad = fmt.Sprintf("Store.%s is called at %s (%s)", mname, m.Pos(call.Pos()), chainTo(ri, f))
						}
					}
					if strings.Contains(cc.Value.Type().String(), "client/v3.KV") || strings.Contains(cc.Value.Type().String(), "client/v3.Lease") {
						switch mname {
						case "Put", "Delete", "Txn", "Compact", "Grant", "Revoke", "KeepAlive", "KeepAliveOnce":
							bad = fmt.Sprintf("etcd %s at %s (%s)", mname, m.Pos(call.Pos()), chainTo(ri, f))
						}
					}
					continue
				}
				if g, _ := calleeOf(cc); g != nil {
					gn := funcName(g)
					short := gn[strings.LastIndex(gn, ".")+1:]
					if (strings.Contains(gn, "metadata.InMemoryStore)") || strings.Contains(gn, "metadata.EtcdStore)")) && (storeMutators[short] || short == "Update") {
						bad = fmt.Sprintf("%s is called at %s (%s)", gn, m.Pos(call.Pos()), chainTo(ri, f))
					}
				}
				if strings.Contains(n, "client/v3.Client).Put") || strings.Contains(n, "client/v3.Client).Delete") || strings.Contains(n, "client/v3.Client).Txn") ||
					strings.HasSuffix(n, "client/v3.OpPut") || strings.HasSuffix(n, "client/v3.OpDelete") {
					bad = fmt.Sprintf("etcd write %s at %s (%s)", n, m.Pos(call.Pos()), chainTo(ri, f))
				}
			}
		}
		r.CallSites += nSites
		var sc []string
		for k := range storeCalls {
			sc = append(sc, k)
		}
		sort.Strings(sc)
		key := "tool " + t.name + " reaches no mutator"
		if bad == "" {
			r.ok("C40.O1", key, m.Pos(t.pos), fmt.Sprintf("%d functions, %d call sites explored; Store methods used: %s", len(ri), nSites, strings.Join(sc, ",")))
		} else {
			r.viol("C40.O1", key, m.Pos(t.pos), bad)
		}
		for f, i := range ri {
			if _, ok := all[f]; !ok {
				all[f] = i
			}
			r.fn(f)
		}
	}
	r.Extra["tools"] = len(tools)
	r.Extra["reachable_functions"] = len(all)

	// ---- O2
	var writes []string
	isStoreType := func(t string) bool {
		return strings.HasSuffix(t, "metadata.InMemoryStore") || strings.HasSuffix(t, "metadata.EtcdStore")
	}
	throughStore := func(addr ssa.Value) (bool, string) {
		hit, which := false, ""
		addrChain(addr, func(v ssa.Value) {
			if fa, ok := v.(*ssa.FieldAddr); ok {
				if t, f, _, ok := fieldAddrInfo(fa); ok && isStoreType(t) {
					// one named exemption: the health flag / last error of the last etcd round trip are not
					// topics/offsets/groups/configuration and every read records it
					if strings.HasSuffix(t, "EtcdStore") && (f == "available" || f == "lastError") {
						return
					}
					hit, which = true, t[strings.LastIndex(t, ".")+1:]+"."+f
				}
			}
		})
		return hit, which
	}
	for f := range all {
		for _, b := range f.Blocks {
			for _, in := range b.Instrs {
				switch x := in.(type) {
				case *ssa.Store:
					if ok, w := throughStore(x.Addr); ok {
						writes = append(writes, fmt.Sprintf("%s: store to %s in %s", m.Pos(x.Pos()), w, f.Name()))
					}
				case *ssa.MapUpdate:
					if ok, w := throughStore(x.Map); ok {
						writes = append(writes, fmt.Sprintf("%s: map update of %s in %s", m.Pos(x.Pos()), w, f.Name()))
					}
				case *ssa.Call:
					if bi, ok := x.Call.Value.(*ssa.Builtin); ok && (bi.Name() == "delete" || bi.Name() == "clear") {
						if ok, w := throughStore(x.Call.Args[0]); ok {
							writes = append(writes, fmt.Sprintf("%s: %s on %s in %s", m.Pos(x.Pos()), bi.Name(), w, f.Name()))
						}
					}
				}
			}
		}
	}
	// interprocedural part: (a) a reachable function that writes through one of its parameters must
	// not be handed store-held memory; (b) store-held memory passed to library code is listed and
	// must be a known read-only use.
	paramWrites := map[*ssa.Function]map[int]bool{}
	rootParams := func(addr ssa.Value) []*ssa.Parameter {
		var ps []*ssa.Parameter
		addrChain(addr, func(v ssa.Value) {
			if p, ok := v.(*ssa.Parameter); ok {
				ps = append(ps, p)
			}
		})
		return ps
	}
	markParam := func(f *ssa.Function, p *ssa.Parameter) bool {
		for i, q := range f.Params {
			if q == p {
				if paramWrites[f] == nil {
					paramWrites[f] = map[int]bool{}
				}
				if !paramWrites[f][i] {
					paramWrites[f][i] = true
					return true
				}
			}
		}
		return false
	}
	for f := range all {
		for _, b := range f.Blocks {
			for _, in := range b.Instrs {
				var addr ssa.Value
				switch x := in.(type) {
				case *ssa.Store:
					addr = x.Addr
				case *ssa.MapUpdate:
					addr = x.Map
				case *ssa.Call:
					if bi, ok := x.Call.Value.(*ssa.Builtin); ok && (bi.Name() == "delete" || bi.Name() == "clear" || bi.Name() == "copy") {
						addr = x.Call.Args[0]
					}
				}
				if addr != nil {
					for _, p := range rootParams(addr) {
						markParam(f, p)
					}
				}
			}
		}
	}
	isRef := func(t types.Type) bool {
		switch u := t.Underlying().(type) {
		case *types.Pointer, *types.Slice, *types.Map:
			return true
		case *types.Struct:
			// a struct passed by value still shares the memory behind its slice/map/pointer fields
			for i := 0; i < u.NumFields(); i++ {
				switch u.Field(i).Type().Underlying().(type) {
				case *types.Pointer, *types.Slice, *types.Map:
					return true
				}
			}
		}
		return false
	}
	libReadOnly := func(n string) bool {
		for _, p := range []string{"(*sync.RWMutex).", "(*sync.Mutex).", "context.", "(context.", "fmt.", "strings.", "strconv.", "errors.", "sync/atomic.Load", "(*go.etcd.io/etcd/client/v3.Client).Get", "(go.etcd.io/etcd/client/v3.KV).Get"} {
			if strings.HasPrefix(n, p) {
				return true
			}
		}
		return false
	}
	nArgs := 0
	for changed := true; changed; {
		changed = false
		for f := range all {
			for _, call := range callsIn(f) {
				cc := call.Common()
				var targets []*ssa.Function
				if cc.IsInvoke() {
					targets = implementers(m, cc.Value.Type(), cc.Method)
				} else if g, _ := calleeOf(cc); g != nil {
					targets = []*ssa.Function{g}
				}
				for ai, a := range cc.Args {
					if mi, ok := a.(*ssa.MakeInterface); ok {
						a = mi.X
					}
					if !isRef(a.Type()) {
						continue
					}
					for _, g := range targets {
						pi := ai
						if cc.IsInvoke() {
							pi = ai + 1
						}
						if paramWrites[g][pi] {
							for _, p := range rootParams(a) {
								if markParam(f, p) {
									changed = true
								}
							}
						}
					}
				}
			}
		}
	}
	for f := range all {
		for _, call := range callsIn(f) {
			cc := call.Common()
			if _, isBuiltin := cc.Value.(*ssa.Builtin); isBuiltin {
				continue
			}
			var targets []*ssa.Function
			if cc.IsInvoke() {
				targets = implementers(m, cc.Value.Type(), cc.Method)
			} else if g, _ := calleeOf(cc); g != nil {
				targets = []*ssa.Function{g}
			}
			n := calleeName(cc)
			for ai, a := range cc.Args {
				if mi, ok := a.(*ssa.MakeInterface); ok {
					a = mi.X
				}
				if !isRef(a.Type()) {
					continue
				}
				held, w := throughStore(a)
				if !held {
					continue
				}
				nArgs++
				local := false
				for _, g := range targets {
					if g.Blocks != nil && fnPkg(g) != nil && m.isLocalPkg(fnPkg(g)) {
						local = true
						pi := ai
						if cc.IsInvoke() {
							pi = ai + 1
						}
						if paramWrites[g][pi] {
							writes = append(writes, fmt.Sprintf("%s: %s passes %s to %s, which writes through that parameter", m.Pos(call.Pos()), f.Name(), w, g.Name()))
						}
					}
				}
				if !local && !libReadOnly(n) {
					writes = append(writes, fmt.Sprintf("%s: %s passes store-held %s to library function %s (not in the read-only table)", m.Pos(call.Pos()), f.Name(), w, n))
				}
			}
		}
	}
	r.Extra["store_held_arguments_checked"] = nArgs
	sort.Strings(writes)
	if len(writes) == 0 {
		r.ok("C40.O2", "no reachable function writes store state", "", fmt.Sprintf("%d reachable functions scanned", len(all)))
	} else {
		r.viol("C40.O2", "no reachable function writes store state", "", strings.Join(writes, "; "))
	}

	// ---- O3
	var shared []string
	nStores := 0
	for f := range all {
		if p := fnPkg(f); p == nil || p.Path() != pkgMCP {
			continue
		}
		for _, b := range f.Blocks {
			for _, in := range b.Instrs {
				var addr ssa.Value
				switch x := in.(type) {
				case *ssa.Store:
					addr = x.Addr
				case *ssa.MapUpdate:
					addr = x.Map
				default:
					continue
				}
				nStores++
				root := addr
				for {
					switch y := root.(type) {
					case *ssa.FieldAddr:
						root = y.X
						continue
					case *ssa.IndexAddr:
						root = y.X
						continue
					case *ssa.Slice:
						root = y.X
						continue
					}
					break
				}
				okRoot := false
				switch y := strip(root).(type) {
				case *ssa.Alloc, *ssa.MakeSlice, *ssa.MakeMap:
					okRoot = true
				case *ssa.FreeVar:
					okRoot = true // captured locals of the enclosing handler factory
				case *ssa.Phi:
					okRoot = true
					for _, o := range origins(y) {
						switch oo := strip(o).(type) {
						case *ssa.Alloc, *ssa.MakeSlice, *ssa.MakeMap:
						case *ssa.Call:
							if calleeName(&oo.Call) != "builtin.append" {
								okRoot = false
							}
						case *ssa.Const:
						default:
							okRoot = false
						}
					}
				case *ssa.Call:
					okRoot = calleeName(&y.Call) == "builtin.append"
				case *ssa.UnOp:
					// load of a local holding a fresh allocation
					okRoot = true
					for _, o := range origins(y) {
						switch oo := strip(o).(type) {
						case *ssa.Alloc, *ssa.MakeSlice, *ssa.MakeMap, *ssa.Const:
						case *ssa.Call:
							if calleeName(&oo.Call) != "builtin.append" && !strings.HasPrefix(calleeName(&oo.Call), pkgMCP+".") {
								okRoot = false
							}
						default:
							okRoot = false
						}
					}
				}
				if !okRoot {
					shared = append(shared, fmt.Sprintf("%s: %s writes through %s", m.Pos(in.Pos()), f.Name(), describe(root)))
				}
			}
		}
	}
	sort.Strings(shared)
	if len(shared) == 0 {
		r.ok("C40.O3", "tool code writes only into its own allocations", "", fmt.Sprintf("%d stores inspected", nStores))
	} else {
		r.viol("C40.O3", "tool code writes only into its own allocations", "", strings.Join(shared, "; "))
	}

	// ---- O4
	var refl []string
	for f := range all {
		for _, call := range callsIn(f) {
			n := calleeName(call.Common())
			if strings.HasPrefix(n, "(reflect.Value).Call") || strings.HasPrefix(n, "(reflect.Value).Method") || strings.HasPrefix(n, "reflect.") && strings.Contains(n, "Call") {
				refl = append(refl, m.Pos(call.Pos())+": "+n+" in "+f.Name())
			}
		}
		for _, b := range f.Blocks {
			for _, in := range b.Instrs {
				if cv, ok := in.(*ssa.Convert); ok {
					if bt, ok := cv.X.Type().Underlying().(*types.Basic); ok && bt.Kind() == types.UnsafePointer {
						refl = append(refl, m.Pos(cv.Pos())+": unsafe.Pointer conversion in "+f.Name())
					}
				}
			}
		}
	}
	sort.Strings(refl)
	if len(refl) == 0 {
		r.ok("C40.O4", "no reflection or unsafe in the reachable set", "", "")
	} else {
		r.viol("C40.O4", "no reflection or unsafe in the reachable set", "", strings.Join(refl, "; "))
	}
}

// addrChain visits the values an address is computed from: the containing object of a field or
// element, the location a pointer / slice / map header was loaded from, and for locals the values
// stored into them. Unlike backSlice it never follows the value being written.
func addrChain(addr ssa.Value, visit func(ssa.Value)) {
	seen := map[ssa.Value]bool{}
	var walk func(v ssa.Value)
	walk = func(v ssa.Value) {
		if v == nil || seen[v] {
			return
		}
		seen[v] = true
		visit(v)
		switch x := v.(type) {
		case *ssa.FieldAddr:
			walk(x.X)
		case *ssa.IndexAddr:
			walk(x.X)
		case *ssa.Field:
			walk(x.X)
		case *ssa.Slice:
			walk(x.X)
		case *ssa.ChangeType:
			walk(x.X)
		case *ssa.Convert:
			walk(x.X)
		case *ssa.Phi:
			for _, e := range x.Edges {
				walk(e)
			}
		case *ssa.UnOp:
			if x.Op != token.MUL {
				return
			}
			// a load: the pointer / slice / map header read here is whatever was stored in that
			// location. For locals that is the stored values (field-sensitive for local structs,
			// including whole-struct copies such as spilled by-value parameters); for any other
			// location the chain continues through the memory that holds it.
			switch a := x.X.(type) {
			case *ssa.Alloc:
				for _, ref := range *a.Referrers() {
					if st, ok := ref.(*ssa.Store); ok && st.Addr == a {
						walk(st.Val)
					}
				}
				return
			case *ssa.FieldAddr:
				if al, ok := a.X.(*ssa.Alloc); ok {
					for _, ref := range *al.Referrers() {
						switch y := ref.(type) {
						case *ssa.Store:
							if y.Addr == al {
								walk(y.Val)
							}
						case *ssa.FieldAddr:
							if y.Field == a.Field {
								for _, r2 := range *y.Referrers() {
									if st, ok := r2.(*ssa.Store); ok && st.Addr == y {
										walk(st.Val)
									}
								}
							}
						}
					}
					return
				}
			}
			walk(x.X)
		case *ssa.Call:
			if bi, ok := x.Call.Value.(*ssa.Builtin); ok && bi.Name() == "append" {
				walk(x.Call.Args[0])
				return
			}
			// a pointer handed back by a repository function is whatever that function returns
			if g, _ := calleeOf(&x.Call); g != nil && g.Blocks != nil {
				for _, b := range g.Blocks {
					if ret, ok := b.Instrs[len(b.Instrs)-1].(*ssa.Return); ok {
						for _, rv := range ret.Results {
							switch rv.Type().Underlying().(type) {
							case *types.Pointer, *types.Slice, *types.Map, *types.Struct, *types.Tuple:
								walk(rv)
							}
						}
					}
				}
			}
		case *ssa.Extract:
			walk(x.Tuple)
		case *ssa.Lookup:
			walk(x.X)
		case *ssa.Next:
			walk(x.Iter)
		case *ssa.Range:
			walk(x.X)
		case *ssa.MakeInterface:
			walk(x.X)
		case *ssa.TypeAssert:
			walk(x.X)
		case *ssa.FreeVar:
			// captured variable: the binding supplied where the closure is created
			fn := x.Parent()
			if fn == nil || fn.Parent() == nil {
				return
			}
			idx := -1
			for i, fv := range fn.FreeVars {
				if fv == x {
					idx = i
				}
			}
			for _, b := range fn.Parent().Blocks {
				for _, in := range b.Instrs {
					if mc, ok := in.(*ssa.MakeClosure); ok && mc.Fn == fn && idx >= 0 && idx < len(mc.Bindings) {
						walk(mc.Bindings[idx])
					}
				}
			}
		}
	}
	walk(addr)
}
