package main

import (
	"fmt"
	"go/token"
	"go/types"
	"sort"
	"strings"

	"golang.org/x/tools/go/ssa"
)

func init() { register("C28", "other", checkC28) }

// literalFieldStores collects, for a composite literal built in place (new T / element k of a
// literal array), the value stored into each field.
func elemFieldStores(base ssa.Value) map[string][]*ssa.Store {
	out := map[string][]*ssa.Store{}
	if base.Referrers() == nil {
		return out
	}
	for _, ref := range *base.Referrers() {
		fa, ok := ref.(*ssa.FieldAddr)
		if !ok || fa.Referrers() == nil {
			continue
		}
		_, name, _, ok := fieldAddrInfo(fa)
		if !ok {
			continue
		}
		for _, rr := range *fa.Referrers() {
			if st, ok := rr.(*ssa.Store); ok && st.Addr == ssa.Value(fa) {
				out[name] = append(out[name], st)
			}
		}
	}
	return out
}

// sliceLiteralElems: for `[]T{{…},{…}}` (Slice of a literal array Alloc) returns the element
// addresses by index.
func sliceLiteralElems(v ssa.Value) (map[int64]*ssa.IndexAddr, int64, bool) {
	sl, ok := strip(v).(*ssa.Slice)
	if !ok {
		return nil, 0, false
	}
	arr, ok := sl.X.(*ssa.Alloc)
	if !ok || arr.Referrers() == nil {
		return nil, 0, false
	}
	n := constLenOf(sl)
	out := map[int64]*ssa.IndexAddr{}
	for _, ref := range *arr.Referrers() {
		if ia, ok := ref.(*ssa.IndexAddr); ok {
			if k, ok := constInt(ia.Index); ok {
				out[k] = ia
			}
		}
	}
	return out, n, true
}

// constIntSliceLiteral: v is []int32{k}.
func constIntSliceLiteral(v ssa.Value, want int64) bool {
	elems, n, ok := sliceLiteralElems(v)
	if !ok || n != 1 || len(elems) != 1 {
		return false
	}
	ia := elems[0]
	if ia == nil || ia.Referrers() == nil {
		return false
	}
	for _, rr := range *ia.Referrers() {
		if st, ok := rr.(*ssa.Store); ok {
			if k, ok := constInt(st.Val); ok && k == want {
				return true
			}
		}
	}
	return false
}

// elemTypeString: the unaliased element type of a slice-typed value.
func elemTypeString(t types.Type) string {
	sl, ok := types.Unalias(t).Underlying().(*types.Slice)
	if !ok {
		return ""
	}
	return types.Unalias(sl.Elem()).String()
}

// appendSitesT is appendSites with alias-aware element type matching.
func appendSitesT(fn *ssa.Function, elemSuffix string) []appendSite {
	var out []appendSite
	for _, s := range appendSites(fn, "") {
		if strings.HasSuffix(elemTypeString(s.Call.Type()), elemSuffix) {
			out = append(out, s)
		}
	}
	return out
}

func isAppendOf(in ssa.Instruction, elemSuffix string) bool {
	c, ok := in.(*ssa.Call)
	return ok && calleeName(&c.Call) == "builtin.append" && strings.HasSuffix(elemTypeString(c.Type()), elemSuffix)
}

// literalBehind: the composite-literal local whose value is stored into the element address.
func literalBehind(ia *ssa.IndexAddr) ssa.Value {
	if ia.Referrers() == nil {
		return ia
	}
	for _, rr := range *ia.Referrers() {
		if st, ok := rr.(*ssa.Store); ok && st.Addr == ssa.Value(ia) {
			if u, ok := st.Val.(*ssa.UnOp); ok {
				if a, ok := u.X.(*ssa.Alloc); ok {
					return a
				}
			}
		}
	}
	return ia
}

func checkC28(c *Ctx, r *Report) {
	r.Explanation = "Decides the field tables of the proxy's topology-rewriting replies (necessary conditions of 'metadata points clients at the proxy, topology intact'): (T1) buildProxyMetadataResponse answers with a broker list that is the single literal {NodeID 0, host, port} built from its own parameters, ControllerID 0 and the cluster id of the source; every partition entry it builds has Leader 0, Replicas/ISR [0] and copies ErrorCode, Partition and LeaderEpoch from the same-named field of the source partition; every topic entry copies ErrorCode, Topic, TopicID and IsInternal from the same-named field of the source topic and carries the partitions built for it; topics with an error code are passed through unchanged; every iteration over source topics / partitions appends exactly one entry (no drop); (T2) handleFindCoordinator answers NodeID 0 with the proxy's advertised host and port — the same two proxy fields handleMetadata passes to the builder; (T3) no value derived from the source's broker list reaches any reply built in cmd/proxy, and the not-ready replies name no broker at all (ControllerID / NodeID -1, no broker entries); (T4) loadMetadata's topic-id filter appends exactly one entry per requested non-zero id, found or UNKNOWN_TOPIC_ID with that id. It does not decide which topics the metadata store returns."
	r.NotCovered = "the contents of the metadata store; name-based filtering inside the store; client behaviour"
	m, err := c.Mod("root")
	if err != nil {
		r.unresolved("C28.load", "root module", err.Error())
		return
	}
	r.rule("C28.T1", "buildProxyMetadataResponse field table (broker literal, partition and topic copies, pass-through, one entry per source element)", 16)
	r.rule("C28.T2", "handleFindCoordinator / handleMetadata name the proxy's advertised endpoint with node id 0", 4)
	r.rule("C28.T3", "no backend broker identity reaches a proxy-built reply; not-ready replies name nobody", 3)
	r.rule("C28.T4", "loadMetadata's topic-id filter yields one entry per requested id; every cluster topic is indexed", 3)

	bp := needFn(m, r, "C28.T1", pkgProxy, "buildProxyMetadataResponse")
	if bp != nil {
		host, port := bp.Params[3], bp.Params[4]
		// resp.Brokers
		for _, st := range storesToField(bp, "kmsg.MetadataResponse", "Brokers") {
			elems, n, ok := sliceLiteralElems(st.Val)
			key := "broker list is the single literal {0, host, port}"
			if !ok || n != 1 || elems[0] == nil {
				r.viol("C28.T1", key, m.Pos(st.Pos()), "resp.Brokers is "+describe(st.Val)+", not a one-element literal")
				continue
			}
			fs := elemFieldStores(literalBehind(elems[0]))
			bad := ""
			if len(fs["NodeID"]) != 1 {
				bad = "NodeID not set exactly once"
			} else if k, ok := constInt(fs["NodeID"][0].Val); !ok || k != 0 {
				bad = "NodeID is " + describe(fs["NodeID"][0].Val)
			}
			if len(fs["Host"]) != 1 || strip(fs["Host"][0].Val) != ssa.Value(host) {
				bad = "Host is not the host parameter"
			}
			if len(fs["Port"]) != 1 || strip(fs["Port"][0].Val) != ssa.Value(port) {
				bad = "Port is not the port parameter"
			}
			if bad == "" {
				r.ok("C28.T1", key, m.Pos(st.Pos()), "")
			} else {
				r.viol("C28.T1", key, m.Pos(st.Pos()), bad)
			}
		}
		if len(storesToField(bp, "kmsg.MetadataResponse", "Brokers")) == 0 {
			r.unresolved("C28.T1", "resp.Brokers store", "not found")
		}
		for _, f := range []struct {
			field string
			check func(v ssa.Value) (bool, string)
		}{
			{"ControllerID", func(v ssa.Value) (bool, string) { k, ok := constInt(v); return ok && k == 0, describe(v) }},
			{"ClusterID", func(v ssa.Value) (bool, string) {
				_, f, _, ok := fieldOf(v)
				return ok && f == "ClusterID" && dependsOnParam(v, bp.Params[0]), describe(v)
			}},
		} {
			sts := storesToField(bp, "kmsg.MetadataResponse", f.field)
			key := "resp." + f.field
			if len(sts) != 1 {
				r.viol("C28.T1", key, m.Pos(bp.Pos()), fmt.Sprintf("%d stores", len(sts)))
				continue
			}
			if ok, d := f.check(sts[0].Val); ok {
				r.ok("C28.T1", key, m.Pos(sts[0].Pos()), d)
			} else {
				r.viol("C28.T1", key, m.Pos(sts[0].Pos()), "value is "+d)
			}
		}
		// partition / topic literals
		type tbl struct {
			typ      string
			copied   []string
			srcList  string // field the source element is an element of
			consts   map[string]int64
			lists    []string // fields that must be []int32{0}
			passThru bool
		}
		for _, t := range []tbl{
			{"MetadataResponseTopicPartition", []string{"ErrorCode", "Partition", "LeaderEpoch"}, "Partitions", map[string]int64{"Leader": 0}, []string{"Replicas", "ISR"}, false},
			{"MetadataResponseTopic", []string{"ErrorCode", "Topic", "TopicID", "IsInternal"}, "Topics", nil, nil, true},
		} {
			sites := elemSitesT(bp, "kmsg."+t.typ)
			nLit := 0
			for _, site := range sites {
				if site.Alloc == nil {
					continue
				}
				fs := fieldStores(site.Alloc)
				whole := storesTo(site.Alloc)
				if len(fs) == 0 && len(whole) > 0 {
					// pass-through of the source element
					key := "error topics are passed through unchanged"
					if t.passThru && dependsOnField(whole[0], "", t.srcList) {
						r.ok("C28.T1", key, m.Pos(site.At.Pos()), "")
					} else {
						r.viol("C28.T1", key, m.Pos(site.At.Pos()), t.typ+" entry appended from "+describe(whole[0]))
					}
					continue
				}
				nLit++
				for _, f := range t.copied {
					key := fmt.Sprintf("%s.%s is copied from the source element's %s", t.typ, f, f)
					if len(fs[f]) != 1 {
						r.viol("C28.T1", key, m.Pos(site.At.Pos()), fmt.Sprintf("field set %d times (a field left at its zero value loses the source's value)", len(fs[f])))
						continue
					}
					v := fs[f][0].Val
					_, sf, _, ok := fieldOf(v)
					if ok && sf == f && dependsOnField(v, "", t.srcList) {
						r.ok("C28.T1", key, m.Pos(fs[f][0].Pos()), "")
					} else {
						r.viol("C28.T1", key, m.Pos(fs[f][0].Pos()), "value is "+describe(v))
					}
				}
				for f, want := range t.consts {
					key := fmt.Sprintf("%s.%s is the proxy's node id %d", t.typ, f, want)
					if len(fs[f]) == 1 {
						if k, ok := constInt(fs[f][0].Val); ok && k == want {
							r.ok("C28.T1", key, m.Pos(fs[f][0].Pos()), "")
							continue
						}
						r.viol("C28.T1", key, m.Pos(fs[f][0].Pos()), "value is "+describe(fs[f][0].Val))
					} else if want == 0 && len(fs[f]) == 0 {
						r.ok("C28.T1", key, m.Pos(site.At.Pos()), "zero value")
					} else {
						r.viol("C28.T1", key, m.Pos(site.At.Pos()), "set more than once")
					}
				}
				for _, f := range t.lists {
					key := fmt.Sprintf("%s.%s is [0]", t.typ, f)
					if len(fs[f]) == 1 && constIntSliceLiteral(fs[f][0].Val, 0) {
						r.ok("C28.T1", key, m.Pos(fs[f][0].Pos()), "")
					} else {
						r.viol("C28.T1", key, m.Pos(site.At.Pos()), "not the one-element literal {0}")
					}
				}
				if t.typ == "MetadataResponseTopic" {
					key := "topic entry carries the partitions built for it"
					okP := false
					if len(fs["Partitions"]) == 1 {
						for _, o := range origins(fs["Partitions"][0].Val) {
							if ac, ok := strip(o).(*ssa.Call); ok && isAppendOf(ac, "kmsg.MetadataResponseTopicPartition") {
								okP = true
							}
							if _, ok := strip(o).(*ssa.MakeSlice); ok {
								okP = true // the empty list of a topic without partitions
							}
						}
					}
					if okP {
						r.ok("C28.T1", key, m.Pos(site.At.Pos()), "")
					} else {
						r.viol("C28.T1", key, m.Pos(site.At.Pos()), "Partitions is not the list appended in the partition loop")
					}
				}
			}
			if nLit == 0 {
				r.unresolved("C28.T1", t.typ+" literal", "no composite literal of this type is appended")
			}
			// one entry per source element
			for _, b := range bp.Blocks {
				if b.Comment != "rangeindex.body" {
					continue
				}
				isLoop := false
				for _, in := range b.Instrs {
					if ia, ok := in.(*ssa.IndexAddr); ok {
						if pt, ok := ia.Type().Underlying().(*types.Pointer); ok && strings.HasSuffix(types.Unalias(pt.Elem()).String(), "kmsg."+t.typ) {
							isLoop = true
						}
					}
				}
				if !isLoop {
					continue
				}
				var header *ssa.BasicBlock
				for _, p := range b.Preds {
					if p.Comment == "rangeindex.loop" {
						header = p
					}
				}
				if header == nil {
					continue
				}
				isAppend := func(in ssa.Instruction) bool { return isElemProducer(in, "kmsg."+t.typ) }
				found, _, path := search(SearchSpec{Start: Loc{b, 0}, Target: func(in ssa.Instruction) bool { return in.Block() == header }, Blocker: isAppend})
				key := fmt.Sprintf("every source %s yields an entry", strings.TrimPrefix(t.typ, "MetadataResponse"))
				if found {
					r.viol("C28.T1", key, blockPosFull(m, b), "an iteration can end without appending: "+renderPath(m, path))
				} else {
					r.ok("C28.T1", key, blockPosFull(m, b), "")
				}
			}
		}
		for _, st := range storesToField(bp, "kmsg.MetadataResponse", "Topics") {
			okT := false
			for _, o := range origins(st.Val) {
				if ac, ok := strip(o).(*ssa.Call); ok && calleeName(&ac.Call) == "builtin.append" {
					okT = true
				}
				if _, ok := strip(o).(*ssa.MakeSlice); ok {
					okT = true
				}
			}
			if okT {
				r.ok("C28.T1", "resp.Topics is the rebuilt topic list", m.Pos(st.Pos()), "")
			} else {
				r.viol("C28.T1", "resp.Topics is the rebuilt topic list", m.Pos(st.Pos()), "value is "+describe(st.Val))
			}
		}
	}

	// ---- T2
	if fc := needFn(m, r, "C28.T2", pkgProxy, "(*proxy).handleFindCoordinator"); fc != nil {
		for _, f := range []struct{ field, want string }{{"NodeID", "const:0"}, {"Host", "advertisedHost"}, {"Port", "advertisedPort"}, {"ErrorCode", "const:0"}} {
			sts := storesToField(fc, "kmsg.FindCoordinatorResponse", f.field)
			key := "FindCoordinator reply " + f.field
			if len(sts) != 1 {
				r.viol("C28.T2", key, m.Pos(fc.Pos()), fmt.Sprintf("%d stores", len(sts)))
				continue
			}
			okF := false
			if strings.HasPrefix(f.want, "const:") {
				k, ok := constInt(sts[0].Val)
				okF = ok && fmt.Sprintf("const:%d", k) == f.want
			} else {
				_, sf, _, ok := fieldOf(sts[0].Val)
				okF = ok && sf == f.want
			}
			if okF {
				r.ok("C28.T2", key, m.Pos(sts[0].Pos()), f.want)
			} else {
				r.viol("C28.T2", key, m.Pos(sts[0].Pos()), "value is "+describe(sts[0].Val))
			}
		}
	}
	if hm := needFn(m, r, "C28.T2", pkgProxy, "(*proxy).handleMetadata"); hm != nil {
		for _, call := range findCalls(hm, pkgProxy+".buildProxyMetadataResponse") {
			a := call.Common().Args
			_, fh, _, ok1 := fieldOf(a[3])
			_, fp, _, ok2 := fieldOf(a[4])
			if ok1 && ok2 && fh == "advertisedHost" && fp == "advertisedPort" {
				r.ok("C28.T2", "handleMetadata passes the advertised endpoint to the builder", m.Pos(call.Pos()), "")
			} else {
				r.viol("C28.T2", "handleMetadata passes the advertised endpoint to the builder", m.Pos(call.Pos()), describe(a[3])+", "+describe(a[4]))
			}
			// the metadata handed over is what loadMetadata returned
			if !dependsOnCall(a[0], pPrefix+"loadMetadata") {
				r.viol("C28.T2", "handleMetadata rewrites what loadMetadata returned", m.Pos(call.Pos()), "source is "+describe(a[0]))
			}
		}
	}

	// ---- T3: backend broker identity never flows into a reply built by the proxy
	{
		var offenders []string
		n := 0
		for _, fn := range m.FuncsInPkg(pkgProxy) {
			if strings.Contains(m.Fset.Position(fn.Pos()).Filename, "lfs") {
				continue
			}
			for _, typ := range []string{"kmsg.MetadataResponse", "kmsg.FindCoordinatorResponse"} {
				for _, f := range []string{"Brokers", "Host", "Port", "NodeID", "ControllerID"} {
					for _, st := range storesToField(fn, typ, f) {
						n++
						if dependsOnField(st.Val, pkgMetadata+".ClusterMetadata", "Brokers") || dependsOnField(st.Val, pkgMetadata+".ClusterMetadata", "ControllerID") {
							offenders = append(offenders, fmt.Sprintf("%s: %s.%s ← %s", m.Pos(st.Pos()), typ, f, describe(st.Val)))
						}
					}
				}
			}
			for _, site := range appendSitesT(fn, "kmsg.MetadataResponseBroker") {
				n++
				if site.Elem != nil && dependsOnField(site.Elem, pkgMetadata+".ClusterMetadata", "Brokers") {
					offenders = append(offenders, m.Pos(site.Call.Pos())+": backend broker appended to a reply")
				}
			}
		}
		sort.Strings(offenders)
		if len(offenders) == 0 {
			r.ok("C28.T3", "no backend broker identity reaches a proxy-built reply", "", fmt.Sprintf("%d identity-carrying stores inspected", n))
		} else {
			r.viol("C28.T3", "no backend broker identity reaches a proxy-built reply", "", strings.Join(offenders, "; "))
		}
	}
	if nr := needFn(m, r, "C28.T3", pkgProxy, "(*proxy).buildNotReadyResponse"); nr != nil {
		for _, f := range []struct{ typ, field string }{{"kmsg.MetadataResponse", "ControllerID"}, {"kmsg.FindCoordinatorResponse", "NodeID"}} {
			key := "not-ready reply names nobody: " + f.typ + "." + f.field + " = -1"
			sts := storesToField(nr, f.typ, f.field)
			okF := len(sts) == 1
			if okF {
				k, ok := constInt(sts[0].Val)
				okF = ok && k == -1
			}
			if okF {
				r.ok("C28.T3", key, m.Pos(sts[0].Pos()), "")
			} else {
				r.viol("C28.T3", key, m.Pos(nr.Pos()), "not the constant -1")
			}
		}
	}

	// ---- T4
	if lm := needFn(m, r, "C28.T4", pkgProxy, "(*proxy).loadMetadata"); lm != nil {
		// a request that names a topic id is answered through the id filter below: once a non-zero
		// TopicID was seen in the request, no return hands back Store.Metadata's own result (a lookup
		// by name, however the names were obtained, answers with whatever topic has that name now —
		// a different id, or UNKNOWN_TOPIC_OR_PARTITION instead of UNKNOWN_TOPIC_ID)
		{
			var direct []*ssa.Return
			for _, b := range lm.Blocks {
				ret, ok := b.Instrs[len(b.Instrs)-1].(*ssa.Return)
				if !ok || len(ret.Results) == 0 {
					continue
				}
				for _, o := range origins(ret.Results[0]) {
					if c := callOrigin(o); c != nil && strings.HasSuffix(calleeName(&c.Call), "Store).Metadata") {
						direct = append(direct, ret)
					}
				}
			}
			nEdges := 0
			bad := ""
			for _, b := range lm.Blocks {
				ifi, ok := b.Instrs[len(b.Instrs)-1].(*ssa.If)
				if !ok {
					continue
				}
				for si, truth := range []bool{true, false} {
					l := litOf(ifi.Cond, truth)
					if l.Op != token.NEQ {
						continue
					}
					_, f1, _, ok1 := fieldOf(l.X)
					_, f2, _, ok2 := fieldOf(l.Y)
					if !(ok1 && f1 == "TopicID") && !(ok2 && f2 == "TopicID") {
						continue
					}
					nEdges++
					for _, ret := range direct {
						if found, _, path := search(SearchSpec{Start: Loc{b.Succs[si], 0}, Target: func(t ssa.Instruction) bool { return t == ssa.Instruction(ret) }}); found {
							bad = "after a non-zero topic id was seen (" + blockPos(m, b) + ") the store's by-name answer is returned at " + m.Pos(ret.Pos()) + ": " + renderPath(m, path)
						}
					}
				}
			}
			key := "a request by topic id is answered through the id filter"
			switch {
			case nEdges == 0:
				r.unresolved("C28.T4", key, "no test of a requested TopicID against the zero id found")
			case bad != "":
				r.viol("C28.T4", key, m.Pos(lm.Pos()), bad)
			default:
				r.ok("C28.T4", key, m.Pos(lm.Pos()), fmt.Sprintf("%d id test edge(s), %d direct return(s)", nEdges, len(direct)))
			}
		}
		// the id index holds every cluster topic: the map update keyed by TopicID is reached on every
		// iteration over the cluster's topics (a topic with an error code keeps its name and code when
		// it is asked for by id); only a zero id may be left out
		{
			var mu *ssa.MapUpdate
			for _, b := range lm.Blocks {
				for _, in := range b.Instrs {
					if x, ok := in.(*ssa.MapUpdate); ok {
						if _, f, _, ok := fieldOf(x.Key); ok && f == "TopicID" {
							mu = x
						}
					}
				}
			}
			key := "every cluster topic is indexed by its id"
			if mu == nil {
				r.unresolved("C28.T4", key, "no map update keyed by TopicID in loadMetadata")
			} else if hdr := innermostRangeHeader(mu); hdr == nil {
				r.unresolved("C28.T4", key, "the index is not filled in a range loop")
			} else {
				body := hdr.Succs[0]
				found, _, path := search(SearchSpec{Start: Loc{body, 0},
					Target:  func(t ssa.Instruction) bool { return t.Block() == hdr && t == hdr.Instrs[0] },
					Blocker: func(t ssa.Instruction) bool { return t == ssa.Instruction(mu) },
					Removed: func(from *ssa.BasicBlock, succ int) bool {
						ifi, ok := from.Instrs[len(from.Instrs)-1].(*ssa.If)
						if !ok {
							return false
						}
						bo, ok := ifi.Cond.(*ssa.BinOp)
						if !ok {
							return false
						}
						_, fx, _, okx := fieldOf(bo.X)
						_, fy, _, oky := fieldOf(bo.Y)
						isID := (okx && fx == "TopicID") || (oky && fy == "TopicID")
						// the zero-id skip: == on the true edge, != on the false edge
						return isID && ((bo.Op == token.EQL && succ == 0) || (bo.Op == token.NEQ && succ == 1))
					}})
				if found {
					r.viol("C28.T4", key, m.Pos(mu.Pos()), "a cluster topic can be left out of the id index for a reason other than a zero id: "+renderPath(m, path)+" — asked for by id it is then answered UNKNOWN_TOPIC_ID without its name and error code")
				} else {
					r.ok("C28.T4", key, m.Pos(mu.Pos()), "")
				}
			}
		}
		n := 0
		for _, b := range lm.Blocks {
			if b.Comment != "rangeindex.body" {
				continue
			}
			// the second loop over req.Topics: the one whose body appends MetadataResponseTopic
			var header *ssa.BasicBlock
			for _, p := range b.Preds {
				if p.Comment == "rangeindex.loop" {
					header = p
				}
			}
			if header == nil {
				continue
			}
			hasAppend := false
			for _, bb := range lm.Blocks {
				if !b.Dominates(bb) {
					continue
				}
				for _, in := range bb.Instrs {
					if isAppendOf(in, "kmsg.MetadataResponseTopic") {
						hasAppend = true
					}
				}
			}
			if !hasAppend {
				continue
			}
			n++
			// every iteration that is not the zero-id skip appends once
			zeroSkip := passEdges(lm, []Atom{atomFn("TopicID == zeroID", func(l Lit) bool {
				if l.Op.String() != "==" {
					return false
				}
				_, f1, _, ok1 := fieldOf(l.X)
				_, f2, _, ok2 := fieldOf(l.Y)
				return (ok1 && f1 == "TopicID") || (ok2 && f2 == "TopicID")
			})})
			found, _, path := search(SearchSpec{Start: Loc{b, 0}, Target: func(in ssa.Instruction) bool { return in.Block() == header },
				Removed: func(bb *ssa.BasicBlock, si int) bool { _, ok := zeroSkip[edge{bb, si}]; return ok && bb.Dominates(bb) && b.Dominates(bb) },
				Blocker: func(in ssa.Instruction) bool { return isAppendOf(in, "kmsg.MetadataResponseTopic") }})
			if found {
				r.viol("C28.T4", "each requested topic id yields one entry", blockPosFull(m, b), "an id can be skipped without an entry: "+renderPath(m, path))
			} else {
				r.ok("C28.T4", "each requested topic id yields one entry", blockPosFull(m, b), "")
			}
		}
		if n == 0 {
			r.unresolved("C28.T4", "loadMetadata id filter loop", "not found")
		}
		// the unknown-id literal carries the requested id and UNKNOWN_TOPIC_ID
		for _, site := range appendSitesT(lm, "kmsg.MetadataResponseTopic") {
			if site.Alloc == nil {
				continue
			}
			fs := fieldStores(site.Alloc)
			if len(fs) == 0 {
				continue
			}
			okU := len(fs["ErrorCode"]) == 1 && len(fs["TopicID"]) == 1
			if okU {
				k, ok := constInt(fs["ErrorCode"][0].Val)
				_, f, _, ok2 := fieldOf(fs["TopicID"][0].Val)
				okU = ok && k != 0 && ok2 && f == "TopicID"
			}
			if okU {
				r.ok("C28.T4", "unknown id is answered with its own id and a non-zero error code", m.Pos(site.Call.Pos()), "")
			} else {
				r.viol("C28.T4", "unknown id is answered with its own id and a non-zero error code", m.Pos(site.Call.Pos()), "literal does not carry the requested TopicID with an error code")
			}
		}
	}
}
