package main

func init() { register("C34", "other", checkC34) }

const (
	pkgIcebergDecoder = "github.com/KafScale/platform/addons/processors/iceberg-processor/internal/decoder"
	pkgSQLDecoder     = "github.com/kafscale/platform/addons/processors/sql-processor/internal/decoder"
	pkgSkelDecoder    = "github.com/KafScale/platform/addons/processors/skeleton/internal/decoder"
)

func checkC34(c *Ctx, r *Report) {
	r.Explanation = "Decides the decoded-length discipline (a necessary condition of 'never a crash or an unbounded allocation'): in the Iceberg and SQL segment decoders and in the restore scanner (pkg/storage recovery_exact.go, index.go), every integer decoded from segment bytes (BigEndian.UintN, varint readers, binary.Read targets, helpers returning them) that reaches a make() size or a slice bound is, on every path, compared against an upper bound and — when it can be negative — against zero. Allocation mode: every make size must be bounded unless its source type is at most 16 bits and bound x element size <= 1 MiB. It does not prove every index expression safe, nor CPU time."
	r.NotCovered = "panics from non-length index expressions; CPU time; the skeleton decoder is a no-op and has no sinks"
	r.rule("C34.R1", "decoded-length discipline (allocation mode) over the segment decoders and the restore scanner: every tainted make size / slice bound is bounded above and non-negative on every path", 12)
	for _, mod := range []struct{ name, pkg string; files []string }{
		{"iceberg", pkgIcebergDecoder, nil},
		{"sql", pkgSQLDecoder, nil},
		{"root", pkgStorage, []string{"pkg/storage/recovery_exact.go", "pkg/storage/index.go", "pkg/storage/recordbatch.go"}},
	} {
		m, err := c.Mod(mod.name)
		if err != nil {
			r.unresolved("C34.load", mod.name+" module", err.Error())
			continue
		}
		if m.SSAPkgs[mod.pkg] == nil {
			r.unresolved("C34.R1", "package "+mod.pkg, "not found in module "+mod.name)
			continue
		}
		d := newDL(m, dlConfig{Mode: dlAlloc, Pkgs: []string{mod.pkg}, Files: mod.files})
		n := d.run(r, "C34.R1")
		r.Extra["sinks_"+mod.name] = n
	}
}
