package main

import (
	"fmt"
	"go/constant"
	"go/token"
	"go/types"
	"strings"

	"golang.org/x/tools/go/ssa"
)

func init() { register("C07", "other", checkC07) }

// Kafka record batch v2 header: field → (offset, end). Fixed from the Kafka protocol document.
var batchV2Fields = map[[2]int64]string{
	{0, 8}: "baseOffset", {8, 12}: "batchLength", {12, 16}: "partitionLeaderEpoch", {16, 17}: "magic",
	{17, 21}: "crc", {21, 23}: "attributes", {23, 27}: "lastOffsetDelta", {27, 35}: "firstTimestamp",
	{35, 43}: "maxTimestamp", {43, 51}: "producerId", {51, 53}: "producerEpoch", {53, 57}: "baseSequence",
	{57, 61}: "recordCount",
}

// index file layout (from IndexBuilder.BuildBytes): header fields and entry fields.
var indexHeaderFields = map[[2]int64]string{{0, 4}: "magic", {4, 6}: "version", {6, 10}: "entryCount", {10, 14}: "interval", {14, 16}: "reserved"}
var indexEntryFields = map[[2]int64]string{{0, 8}: "offset", {8, 12}: "position"}

func inLoop(b *ssa.BasicBlock) bool {
	seen := map[*ssa.BasicBlock]bool{}
	var stack []*ssa.BasicBlock
	stack = append(stack, b.Succs...)
	for len(stack) > 0 {
		x := stack[len(stack)-1]
		stack = stack[:len(stack)-1]
		if x == b {
			return true
		}
		if seen[x] {
			continue
		}
		seen[x] = true
		stack = append(stack, x.Succs...)
	}
	return false
}

// writeLayout: sizes of what a serialiser writes, in program order; separately for loop bodies.
func writeLayout(fn *ssa.Function) (pre, loop []int64, ok bool) {
	sizes := types.SizesFor("gc", "amd64")
	ok = true
	for _, b := range fn.Blocks {
		for _, in := range b.Instrs {
			c := callCommon(in)
			if c == nil {
				continue
			}
			var sz int64 = -1
			switch calleeName(c) {
			case "(*bytes.Buffer).WriteString":
				if s, isC := constString(c.Args[1]); isC {
					sz = int64(len(s))
				} else {
					ok = false
				}
			case "encoding/binary.Write":
				v := c.Args[2]
				if mi, isMI := v.(*ssa.MakeInterface); isMI {
					sz = sizes.Sizeof(mi.X.Type())
				} else {
					ok = false
				}
			default:
				continue
			}
			if inLoop(b) {
				loop = append(loop, sz)
			} else {
				pre = append(pre, sz)
			}
		}
	}
	return
}

// readLayout: sizes consumed by binary.Read(&x) calls and reader.Read(make(n)) in program order.
func readLayout(fn *ssa.Function) (pre, loop []int64) {
	sizes := types.SizesFor("gc", "amd64")
	for _, b := range fn.Blocks {
		for _, in := range b.Instrs {
			c := callCommon(in)
			if c == nil {
				continue
			}
			var sz int64 = -1
			switch calleeName(c) {
			case "encoding/binary.Read":
				if p, ok := strip(c.Args[2]).Type().Underlying().(*types.Pointer); ok {
					sz = sizes.Sizeof(p.Elem())
				}
			case "(*bytes.Reader).Read":
				if ms, ok := c.Args[1].(*ssa.MakeSlice); ok {
					if k, ok := constInt(ms.Len); ok {
						sz = k
					}
				} else if sl, ok := c.Args[1].(*ssa.Slice); ok {
					// make([]byte, const) is lowered to new [const]byte + slice
					if p, ok := sl.X.Type().Underlying().(*types.Pointer); ok {
						if arr, ok := p.Elem().Underlying().(*types.Array); ok {
							sz = arr.Len()
						}
					}
				}
			default:
				continue
			}
			if inLoop(b) {
				loop = append(loop, sz)
			} else {
				pre = append(pre, sz)
			}
		}
	}
	return
}

func sum(xs []int64) int64 {
	var s int64
	for _, x := range xs {
		s += x
	}
	return s
}

func eqInts(a, b []int64) bool {
	if len(a) != len(b) {
		return false
	}
	for i := range a {
		if a[i] != b[i] {
			return false
		}
	}
	return true
}

func pkgConstInt(m *Module, pkg, name string) (int64, bool) {
	p := m.ByPath[pkg]
	if p == nil {
		return 0, false
	}
	c, ok := p.Types.Scope().Lookup(name).(*types.Const)
	if !ok || c.Val().Kind() != constant.Int {
		return 0, false
	}
	return constant.Int64Val(c.Val())
}

func pkgConstString(m *Module, pkg, name string) (string, bool) {
	p := m.ByPath[pkg]
	if p == nil {
		return "", false
	}
	c, ok := p.Types.Scope().Lookup(name).(*types.Const)
	if !ok || c.Val().Kind() != constant.String {
		return "", false
	}
	return constant.StringVal(c.Val()), true
}

// relSlice: for a Slice whose bounds are base+lo / base+hi with identical non-constant terms,
// returns (lo, hi).
func relSlice(sl *ssa.Slice) (lo, hi int64, ok bool) {
	var lt, ht []ssa.Value
	if sl.Low != nil {
		lt, lo = flattenSum(sl.Low)
	}
	if sl.High == nil {
		return 0, 0, false
	}
	ht, hi = flattenSum(sl.High)
	if len(lt) != len(ht) {
		return 0, 0, false
	}
	for i := range lt {
		if vkey(lt[i]) != vkey(ht[i]) {
			return 0, 0, false
		}
	}
	return lo, hi, true
}

func checkC07(c *Ctx, r *Report) {
	r.Explanation = "Decides table-agreement and ordering conditions that are necessary for 'segment files decode identically everywhere': (T1/T2) the static layout written by buildHeader/buildFooter/IndexBuilder.BuildBytes (sizes and order of fields) equals the header/footer/index length constants and the read sequences of every reader (pkg/storage parsers, Iceberg and SQL decoders, discovery footer magic); (T3) every constant slice of a record-batch header passed to BigEndian.UintN/PutUintN is a field of the Kafka v2 batch header table with that width (index readers: a field of the index layout); (T4) in each decoder the timestamp delta comes from a 64-bit varint reader; (T5) index positions are taken before the batch is written; (T6) the CRC covers exactly the bytes written between header and footer, with the Castagnoli table, and footer/artifact last offsets are one value. It does not decide CRC values or equality of decoded records."
	r.NotCovered = "CRC values; equality of decoded records with produced records; the skeleton decoder (no-op)"
	root, err := c.Mod("root")
	if err != nil {
		r.unresolved("C07.load", "root module", err.Error())
		return
	}
	r.rule("C07.T1", "writer layout: header 32 (4,2,2,8,4,8,4), footer 16 (4,8,4), index header 16 (4,2,4,4,2), index entry 12 (8,4) as written by buildHeader/buildFooter/BuildBytes", 3)
	r.rule("C07.T2", "reader agreement: length constants and magic strings in pkg/storage and both decoders equal the writer layout; read sequences of parseSegmentFooter/parseIndexMetadata/iceberg parseIndex equal the write sequences", 12)
	r.rule("C07.T3", "every constant header slice handed to BigEndian.UintN/PutUintN is a field of the record-batch v2 table (or of the index layout) with matching width", 25)
	r.rule("C07.T7", "every zigzag decode (v>>1 ^ mask) builds its mask by negation or an arithmetic shift of a signed value (sibling agreement of the varint readers)", 3)
	r.rule("C07.T4", "the value added to the base timestamp in each decodeRecord/scanRecord comes from a varint reader with 64-bit accumulation and is not widened from 32 bits", 2)
	r.rule("C07.T5", "in BuildSegment the index position is computed from body.Len() before body.Write of the same batch", 1)
	r.rule("C07.T6", "in BuildSegment the checksummed bytes are the bytes written between header and footer (Castagnoli table); footer last offset and artifact LastOffset are the same value", 3)

	// ---- T1
	var hdr, ftr, idxPre, idxLoop []int64
	if fn := needFn(root, r, "C07.T1", pkgStorage, "buildHeader"); fn != nil {
		pre, _, ok := writeLayout(fn)
		hdr = pre
		if ok && eqInts(pre, []int64{4, 2, 2, 8, 4, 8, 4}) {
			r.ok("C07.T1", "buildHeader layout", root.Pos(fn.Pos()), fmt.Sprintf("%v = %d bytes", pre, sum(pre)))
		} else {
			r.viol("C07.T1", "buildHeader layout", root.Pos(fn.Pos()), fmt.Sprintf("writes %v (sum %d), format is [4 2 2 8 4 8 4] = 32", pre, sum(pre)))
		}
	}
	if fn := needFn(root, r, "C07.T1", pkgStorage, "buildFooter"); fn != nil {
		pre, _, ok := writeLayout(fn)
		ftr = pre
		if ok && eqInts(pre, []int64{4, 8, 4}) {
			r.ok("C07.T1", "buildFooter layout", root.Pos(fn.Pos()), fmt.Sprintf("%v = %d bytes", pre, sum(pre)))
		} else {
			r.viol("C07.T1", "buildFooter layout", root.Pos(fn.Pos()), fmt.Sprintf("writes %v (sum %d), format is [4 8 4] = 16", pre, sum(pre)))
		}
	}
	if fn := needFn(root, r, "C07.T1", pkgStorage, "(*IndexBuilder).BuildBytes"); fn != nil {
		pre, loop, ok := writeLayout(fn)
		idxPre, idxLoop = pre, loop
		if ok && eqInts(pre, []int64{4, 2, 4, 4, 2}) && eqInts(loop, []int64{8, 4}) {
			r.ok("C07.T1", "IndexBuilder.BuildBytes layout", root.Pos(fn.Pos()), fmt.Sprintf("header %v entry %v", pre, loop))
		} else {
			r.viol("C07.T1", "IndexBuilder.BuildBytes layout", root.Pos(fn.Pos()), fmt.Sprintf("header %v entry %v, format is [4 2 4 4 2] / [8 4]", pre, loop))
		}
	}

	// ---- T2 constants
	type cref struct {
		mod, pkg, name string
		want           int64
	}
	mods := map[string]*Module{"root": root}
	for _, n := range []string{"iceberg", "sql"} {
		m, err := c.Mod(n)
		if err != nil {
			r.unresolved("C07.load", n+" module", err.Error())
			continue
		}
		mods[n] = m
	}
	consts := []cref{
		{"root", pkgStorage, "segmentFooterLen", sum(ftr)}, {"root", pkgStorage, "indexHeaderLen", sum(idxPre)}, {"root", pkgStorage, "indexEntryLen", sum(idxLoop)},
		{"root", pkgStorage, "recordBatchHeaderMinSize", 61},
		{"iceberg", pkgIcebergDecoder, "segmentHeaderLen", sum(hdr)}, {"iceberg", pkgIcebergDecoder, "segmentFooterLen", sum(ftr)}, {"iceberg", pkgIcebergDecoder, "recordBatchHeaderLen", 61},
		{"sql", pkgSQLDecoder, "segmentHeaderLen", sum(hdr)}, {"sql", pkgSQLDecoder, "segmentFooterLen", sum(ftr)}, {"sql", pkgSQLDecoder, "recordBatchHeaderLen", 61},
	}
	for _, cr := range consts {
		m := mods[cr.mod]
		if m == nil {
			continue
		}
		key := "const " + cr.pkg[strings.LastIndex(cr.pkg, "/processors/")+1:] + "." + cr.name
		got, ok := pkgConstInt(m, cr.pkg, cr.name)
		if !ok {
			r.unresolved("C07.T2", key, "constant not found")
		} else if got == cr.want {
			r.ok("C07.T2", key, "", fmt.Sprintf("= %d", got))
		} else {
			r.viol("C07.T2", key, "", fmt.Sprintf("is %d, writer layout says %d", got, cr.want))
		}
	}
	wantMagic := map[string]string{"segmentMagic": "KAFS", "indexMagic": "IDX\x00"}
	for _, mp := range [][2]string{{"root", pkgStorage}, {"iceberg", pkgIcebergDecoder}, {"sql", pkgSQLDecoder}} {
		m := mods[mp[0]]
		if m == nil {
			continue
		}
		for name := range wantMagic {
			ref, _ := pkgConstString(root, pkgStorage, name)
			got, ok := pkgConstString(m, mp[1], name)
			key := "magic " + mp[0] + "." + name
			if !ok {
				r.unresolved("C07.T2", key, "constant not found")
			} else if got == ref && got == wantMagic[name] {
				r.ok("C07.T2", key, "", fmt.Sprintf("%q", got))
			} else {
				r.viol("C07.T2", key, "", fmt.Sprintf("%q differs from writer's %q", got, ref))
			}
		}
	}
	// header length literals in BuildSegment / sliceFullSegmentData
	if bs := needFn(root, r, "C07.T2", pkgStorage, "BuildSegment"); bs != nil {
		for _, call := range findCalls(bs, "(*"+pkgStorage+".IndexBuilder).MaybeAdd") {
			_, k := flattenSum(call.Common().Args[2])
			if k == sum(hdr) {
				r.ok("C07.T2", "BuildSegment position base = header length", root.Pos(call.Pos()), fmt.Sprintf("%d", k))
			} else {
				r.viol("C07.T2", "BuildSegment position base = header length", root.Pos(call.Pos()), fmt.Sprintf("position = %d + body.Len(), header is %d bytes", k, sum(hdr)))
			}
		}
	}
	if sf := needFn(root, r, "C07.T2", pkgStorage, "sliceFullSegmentData"); sf != nil {
		okc := false
		for _, b := range sf.Blocks {
			for _, in := range b.Instrs {
				if sl, ok := in.(*ssa.Slice); ok && sl.Low != nil {
					for _, o := range origins(sl.Low) {
						if k, ok := constInt(o); ok && k == sum(hdr) {
							okc = true
						}
					}
				}
			}
		}
		if okc {
			r.ok("C07.T2", "sliceFullSegmentData skips header length", root.Pos(sf.Pos()), fmt.Sprintf("%d", sum(hdr)))
		} else {
			r.viol("C07.T2", "sliceFullSegmentData skips header length", root.Pos(sf.Pos()), fmt.Sprintf("no body slice starting at %d", sum(hdr)))
		}
	}
	// read sequences
	if fn := needFn(root, r, "C07.T2", pkgStorage, "parseSegmentFooter"); fn != nil {
		pre, _ := readLayout(fn)
		if eqInts(pre, ftr) {
			r.ok("C07.T2", "parseSegmentFooter read sequence", root.Pos(fn.Pos()), fmt.Sprint(pre))
		} else {
			r.viol("C07.T2", "parseSegmentFooter read sequence", root.Pos(fn.Pos()), fmt.Sprintf("reads %v, writer writes %v", pre, ftr))
		}
	}
	idxReaders := []struct{ mod, pkg, fn string }{{"root", pkgStorage, "parseIndexMetadata"}, {"iceberg", pkgIcebergDecoder, "parseIndex"}}
	for _, ir := range idxReaders {
		m := mods[ir.mod]
		if m == nil {
			continue
		}
		if fn := needFn(m, r, "C07.T2", ir.pkg, ir.fn); fn != nil {
			pre, loop := readLayout(fn)
			want := idxPre
			if len(want) > 0 {
				want = want[1:] // magic is compared as a string
			}
			key := ir.mod + " " + ir.fn + " read sequence"
			if eqInts(pre, want) && eqInts(loop, idxLoop) {
				r.ok("C07.T2", key, m.Pos(fn.Pos()), fmt.Sprintf("header %v entry %v", pre, loop))
			} else {
				r.viol("C07.T2", key, m.Pos(fn.Pos()), fmt.Sprintf("reads header %v entry %v, writer writes %v / %v", pre, loop, want, idxLoop))
			}
		}
	}

	// ---- T3
	scopes := []struct {
		mod, pkg string
		files    []string
		index    map[string]bool // functions that read the index file instead of a batch
	}{
		{"root", pkgStorage, []string{"recordbatch.go", "recovery_exact.go"}, nil},
		{"iceberg", pkgIcebergDecoder, []string{"decoder.go"}, nil},
		{"sql", pkgSQLDecoder, []string{"decoder.go"}, map[string]bool{"parseIndex": true}},
	}
	be := []string{"(encoding/binary.bigEndian).Uint16", "(encoding/binary.bigEndian).Uint32", "(encoding/binary.bigEndian).Uint64",
		"(encoding/binary.bigEndian).PutUint16", "(encoding/binary.bigEndian).PutUint32", "(encoding/binary.bigEndian).PutUint64"}
	for _, sc := range scopes {
		m := mods[sc.mod]
		if m == nil {
			continue
		}
		per := map[string]int{}
		for _, fn := range m.FuncsInPkg(sc.pkg) {
			for _, call := range findCalls(fn, be...) {
				pos := m.Pos(call.Pos())
				inScope := false
				for _, f := range sc.files {
					if strings.Contains(pos, "/"+f+":") {
						inScope = true
					}
				}
				if !inScope {
					continue
				}
				r.fn(fn)
				r.CallSites++
				name := calleeName(call.Common())
				width := int64(2)
				if strings.HasSuffix(name, "32") {
					width = 4
				} else if strings.HasSuffix(name, "64") {
					width = 8
				}
				sl, ok := call.Common().Args[1].(*ssa.Slice)
				per[funcName(fn)]++
				key := fmt.Sprintf("%s BigEndian access #%d", funcName(fn), per[funcName(fn)])
				if !ok {
					r.add("C07.T3", key, pos, Info, "argument is not a direct slice expression")
					continue
				}
				lo, hi, okr := relSlice(sl)
				if !okr {
					r.add("C07.T3", key, pos, Info, "slice bounds are not base+const")
					continue
				}
				short := fn.Name()
				var table map[[2]int64]string
				tname := "record-batch v2 header"
				if sc.index[short] {
					tname = "index layout"
					if inLoop(call.Block()) {
						table = indexEntryFields
					} else {
						table = indexHeaderFields
					}
				} else {
					table = batchV2Fields
				}
				field, okf := table[[2]int64{lo, hi}]
				if okf && hi-lo == width {
					r.ok("C07.T3", key, pos, fmt.Sprintf("[%d:%d] = %s (%s)", lo, hi, field, tname))
				} else {
					r.viol("C07.T3", key, pos, fmt.Sprintf("[%d:%d] read/written as %d-byte integer is not a field of the %s", lo, hi, width, tname))
				}
			}
		}
	}

	// ---- T4
	for _, d := range []struct{ mod, pkg, fn, typ string }{
		{"iceberg", pkgIcebergDecoder, "decodeRecord", pkgIcebergDecoder + ".Record"},
		{"sql", pkgSQLDecoder, "decodeRecord", pkgSQLDecoder + ".Record"},
	} {
		m := mods[d.mod]
		if m == nil {
			continue
		}
		fn := needFn(m, r, "C07.T4", d.pkg, d.fn)
		if fn == nil {
			continue
		}
		sts := storesToField(fn, d.typ[strings.LastIndex(d.typ, "/")+1:], "Timestamp")
		if len(sts) == 0 {
			r.unresolved("C07.T4", d.mod+" decodeRecord Timestamp store", "not found")
		}
		for _, st := range sts {
			terms, _ := flattenSumNoStrip(st.Val)
			bad := ""
			sawReader := false
			for _, t := range terms {
				if cv, ok := t.(*ssa.Convert); ok {
					if sb, ok := cv.X.Type().Underlying().(*types.Basic); ok && intWidth(sb) < 64 {
						bad = fmt.Sprintf("timestamp term %s is widened from %s", describe(cv.X), sb.Name())
					}
				}
				if co := callOrigin(strip(t)); co != nil {
					if f, _ := calleeOf(&co.Call); f != nil && f.Blocks != nil {
						if rb, ok := f.Signature.Results().At(0).Type().Underlying().(*types.Basic); ok && intWidth(rb) == 64 && varint64(f) {
							sawReader = true
						} else {
							bad = "timestamp delta reader " + funcName(f) + " does not accumulate 64 bits"
						}
					}
				}
			}
			key := d.mod + " decodeRecord timestamp delta width"
			if bad == "" && sawReader {
				r.ok("C07.T4", key, m.Pos(st.Pos()), "64-bit varint reader, no 32-bit widening")
			} else {
				if bad == "" {
					bad = "no 64-bit varint reader feeds the timestamp"
				}
				r.viol("C07.T4", key, m.Pos(st.Pos()), bad)
			}
		}
	}

	// ---- T7: zigzag decoders (siblings: storage readVarint, SQL readVarint/readVarint32)
	// v>>1 XOR mask — the mask must be all-ones for odd v: a negation of (v&1), or an *arithmetic*
	// right shift of a signed value; a logical shift of an unsigned value yields 0/1 and silently
	// turns every negative delta into a small positive one.
	nZig := 0
	for _, mp := range []struct{ mod, pkg string }{{"root", pkgStorage}, {"sql", pkgSQLDecoder}, {"iceberg", pkgIcebergDecoder}} {
		m := mods[mp.mod]
		if m == nil {
			continue
		}
		nZig += checkZigzagMasks(m, r, "C07.T7", m.FuncsInPkg(mp.pkg))
	}
	if nZig == 0 {
		r.unresolved("C07.T7", "zigzag decoders", "none found")
	}

	// ---- T5 / T6
	if bs := root.Func(pkgStorage, "BuildSegment"); bs != nil {
		writes := findCalls(bs, "(*bytes.Buffer).Write")
		for _, ma := range findCalls(bs, "(*"+pkgStorage+".IndexBuilder).MaybeAdd") {
			var lenCall ssa.Instruction
			backSlice(ma.Common().Args[2], false, func(v ssa.Value) {
				if cc, ok := v.(*ssa.Call); ok && calleeName(&cc.Call) == "(*bytes.Buffer).Len" {
					lenCall = cc
				}
			})
			ok := lenCall != nil
			why := "position does not derive from body.Len()"
			if ok {
				// body.Len() must be evaluated before the batch is written in the same iteration:
				// the Len call dominates every body.Write in the loop.
				for _, w := range writes {
					if inLoop(w.Block()) && !instrDominates(lenCall, w) {
						ok = false
						why = "body.Write at " + root.Pos(w.Pos()) + " is not preceded by the body.Len() that feeds index.MaybeAdd"
					}
				}
			}
			if ok {
				r.ok("C07.T5", "BuildSegment index position precedes batch write", root.Pos(ma.Pos()), "position = const + body.Len() taken before body.Write")
			} else {
				r.viol("C07.T5", "BuildSegment index position precedes batch write", root.Pos(ma.Pos()), why)
			}
		}
		// T6
		cks := findCalls(bs, "hash/crc32.Checksum")
		if len(cks) != 1 {
			r.unresolved("C07.T6", "BuildSegment crc32.Checksum call", fmt.Sprintf("%d calls", len(cks)))
		} else {
			ck := cks[0]
			body := ck.Common().Args[0]
			tbl := ck.Common().Args[1]
			okTbl := false
			if _, f, _, okf := fieldOf(tbl); okf {
				_ = f
			}
			if u, ok := tbl.(*ssa.UnOp); ok {
				if g, ok := u.X.(*ssa.Global); ok && g.Name() == "crcTable" {
					okTbl = crcTableIsCastagnoli(root)
				}
			}
			if okTbl {
				r.ok("C07.T6", "CRC uses the Castagnoli table", root.Pos(ck.Pos()), "crcTable = crc32.MakeTable(crc32.Castagnoli)")
			} else {
				r.viol("C07.T6", "CRC uses the Castagnoli table", root.Pos(ck.Pos()), "table argument is "+describe(tbl))
			}
			// the same value is written to the segment buffer
			wrote := false
			for _, w := range writes {
				if !inLoop(w.Block()) && strip(w.Common().Args[1]) == strip(body) {
					wrote = true
				}
			}
			if wrote {
				r.ok("C07.T6", "checksummed bytes are the bytes written", root.Pos(ck.Pos()), "same SSA value passed to crc32.Checksum and segment.Write")
			} else {
				r.viol("C07.T6", "checksummed bytes are the bytes written", root.Pos(ck.Pos()), "crc32.Checksum argument "+describe(body)+" is not what segment.Write emits")
			}
		}
		fts := findCalls(bs, pkgStorage+".buildFooter")
		los := storesToField(bs, "storage.SegmentArtifact", "LastOffset")
		if len(fts) == 1 && len(los) == 1 {
			if strip(fts[0].Common().Args[1]) == strip(los[0].Val) {
				r.ok("C07.T6", "footer last offset = artifact LastOffset", root.Pos(fts[0].Pos()), "same SSA value")
			} else {
				r.viol("C07.T6", "footer last offset = artifact LastOffset", root.Pos(fts[0].Pos()), "buildFooter gets "+describe(fts[0].Common().Args[1])+", artifact stores "+describe(los[0].Val))
			}
		} else {
			r.unresolved("C07.T6", "footer last offset = artifact LastOffset", "buildFooter call / LastOffset store not found")
		}
	}
}

func nextLoc(in ssa.Instruction) Loc { l := locOf(in); l.I++; return l }

// flattenSumNoStrip: additive terms without stripping conversions.
func flattenSumNoStrip(v ssa.Value) (terms []ssa.Value, consts int64) {
	if b, ok := v.(*ssa.BinOp); ok && b.Op == token.ADD {
		t1, c1 := flattenSumNoStrip(b.X)
		t2, c2 := flattenSumNoStrip(b.Y)
		return append(t1, t2...), c1 + c2
	}
	if k, ok := v.(*ssa.Const); ok {
		if i, ok := constInt(k); ok {
			return nil, i
		}
	}
	return []ssa.Value{v}, 0
}

// varint64: the function accumulates a varint over at least 57 bits: it compares a shift counter
// with a constant >= 56, or delegates to encoding/binary's varint readers.
func varint64(f *ssa.Function) bool {
	for _, b := range f.Blocks {
		for _, in := range b.Instrs {
			if isCallTo(in, "encoding/binary.ReadVarint", "encoding/binary.Varint", "encoding/binary.ReadUvarint", "encoding/binary.Uvarint") {
				return true
			}
			if bo, ok := in.(*ssa.BinOp); ok {
				switch bo.Op {
				case token.GTR, token.GEQ, token.LSS, token.LEQ:
					for _, o := range []ssa.Value{bo.X, bo.Y} {
						if k, ok := constInt(o); ok && k >= 56 && k <= 70 {
							return true
						}
					}
				}
			}
		}
	}
	return false
}

func crcTableIsCastagnoli(m *Module) bool {
	sp := m.SSAPkgs[pkgStorage]
	if sp == nil {
		return false
	}
	init := sp.Func("init")
	if init == nil {
		return false
	}
	for _, c := range findCalls(init, "hash/crc32.MakeTable") {
		if k, ok := constInt(c.Common().Args[0]); ok && k == 0x82f63b78 {
			// stored into crcTable?
			if call, ok := c.(*ssa.Call); ok && call.Referrers() != nil {
				for _, ref := range *call.Referrers() {
					if st, ok := ref.(*ssa.Store); ok {
						if g, ok := st.Addr.(*ssa.Global); ok && g.Name() == "crcTable" {
							return true
						}
					}
				}
			}
		}
	}
	return false
}

// instrDominates: a is executed before b on every path to b.
func instrDominates(a, b ssa.Instruction) bool {
	if a.Block() == b.Block() {
		for _, in := range a.Block().Instrs {
			if in == a {
				return true
			}
			if in == b {
				return false
			}
		}
	}
	return a.Block().Dominates(b.Block())
}


func basicWidth(b *types.Basic) int {
	switch b.Kind() {
	case types.Int8, types.Uint8:
		return 1
	case types.Int16, types.Uint16:
		return 2
	case types.Int32, types.Uint32:
		return 4
	}
	return 8
}

// checkZigzagMasks judges every zigzag decode (v>>1 XOR mask) in fns under the given rule and
// returns how many it found (shared by C07.T7 and C08.R7).
func checkZigzagMasks(m *Module, r *Report, rule string, fns []*ssa.Function) int {
	nZig := 0
	for _, fn := range fns {
			for _, b := range fn.Blocks {
				for _, in := range b.Instrs {
					x, ok := in.(*ssa.BinOp)
					if !ok || x.Op != token.XOR {
						continue
					}
					isHalf := func(v ssa.Value) bool {
						sh, ok := strip(v).(*ssa.BinOp)
						if !ok || sh.Op != token.SHR {
							return false
						}
						k, ok := constInt(sh.Y)
						return ok && k == 1
					}
					var mask ssa.Value
					switch {
					case isHalf(x.X):
						mask = x.Y
					case isHalf(x.Y):
						mask = x.X
					default:
						continue
					}
					nZig++
					r.fn(fn)
					key := "zigzag sign mask in " + funcName(fn)
					okMask, why := false, "mask is "+describe(mask)
					switch mv := strip(mask).(type) {
					case *ssa.UnOp:
						if mv.Op == token.SUB {
							okMask = true
						}
					case *ssa.BinOp:
						switch mv.Op {
						case token.SUB:
							if k, ok := constInt(mv.X); ok && k == 0 {
								okMask = true
							}
						case token.SHR:
							if bt, ok := mv.X.Type().Underlying().(*types.Basic); ok && bt.Info()&types.IsUnsigned == 0 {
								okMask = true
							} else {
								why = "the sign mask is a logical (unsigned) right shift: it is 0 or 1, never all ones, so negative varints decode as positive"
							}
						}
					}
					// … and the all-ones value must survive to the width of the result: a negation done on
					// a narrower unsigned type and then widened is zero-extended (‑(b&1) on a byte is 255,
					// int64(255) is not ‑1)
					if okMask {
						for w := mask; ; {
							cv, isC := w.(*ssa.Convert)
							if !isC {
								break
							}
							from, okf := cv.X.Type().Underlying().(*types.Basic)
							to, okt := cv.Type().Underlying().(*types.Basic)
							if okf && okt && from.Info()&types.IsUnsigned != 0 && basicWidth(from) < basicWidth(to) {
								okMask = false
								why = fmt.Sprintf("the sign mask is computed as %s and then widened to %s: zero extension leaves %d low one-bits, not all ones, so negative values decode as positive", from.Name(), to.Name(), 8*basicWidth(from))
								break
							}
							w = cv.X
						}
					}
					if okMask {
						r.ok(rule, key, m.Pos(x.Pos()), "")
					} else {
						r.viol(rule, key, m.Pos(x.Pos()), why)
					}
				}
			}
		}
	return nZig
}
