package main

import (
	"fmt"
	"go/token"
	"go/types"
	"os"
	"path/filepath"
	"sort"
	"strings"

	"golang.org/x/tools/go/packages"
	"golang.org/x/tools/go/ssa"
	"golang.org/x/tools/go/ssa/ssautil"
)

// Module names → directory below the repository root.
var moduleDirs = map[string]string{
	"root":     ".",
	"iceberg":  "addons/processors/iceberg-processor",
	"sql":      "addons/processors/sql-processor",
	"skeleton": "addons/processors/skeleton",
}

const rootModPath = "github.com/KafScale/platform"

// Module is one loaded go module: type-checked syntax of the repository's own packages plus SSA.
type Module struct {
	Name     string
	Dir      string
	Pkgs     []*packages.Package // repository packages only (module-local), sorted by path
	ByPath   map[string]*packages.Package
	Prog     *ssa.Program
	SSAPkgs  map[string]*ssa.Package
	Fset     *token.FileSet
	AllFuncs []*ssa.Function // functions (incl. anonymous) whose package is module-local, sorted by name
	Folded   []Folded               // helpers introduced after the pinned commit and what folding did with them
	Absorbed map[*ssa.Function]bool // helpers whose every use was folded into the callers
	Renamed  map[string]*ssa.Function // anchor name (as in anchors/known_funcs.txt) → the function that replaced it
}

// goEnv pins the toolchain for `go list` (run by go/packages): the pre-installed go1.26.8, offline.
// exec.LookPath uses this process's PATH, so the variables are set on the process itself.
func goEnv() []string {
	os.Setenv("PATH", "/opt/veriftools/go1.26.8/bin:"+strings.TrimPrefix(os.Getenv("PATH"), "/opt/veriftools/go1.26.8/bin:"))
	os.Setenv("GOFLAGS", "-mod=mod")
	os.Setenv("GOPROXY", "off")
	os.Setenv("GOSUMDB", "off")
	os.Setenv("GOTOOLCHAIN", "local")
	os.Setenv("GOWORK", "off")
	return os.Environ()
}

// loadModule loads every package of the named module ("./...") with full syntax for module-local
// packages. overlay maps absolute file names to replacement contents (used by sensitivity controls).
func loadModule(repo, name string, overlay map[string][]byte) (*Module, error) {
	sub, ok := moduleDirs[name]
	if !ok {
		return nil, fmt.Errorf("unknown module %q", name)
	}
	dir := filepath.Join(repo, sub)
	cfg := &packages.Config{
		Mode: packages.NeedName | packages.NeedFiles | packages.NeedCompiledGoFiles | packages.NeedImports |
			packages.NeedTypes | packages.NeedTypesSizes | packages.NeedSyntax |
			packages.NeedTypesInfo | packages.NeedModule,
		Dir:     dir,
		Env:     goEnv(),
		Tests:   false,
		Overlay: overlay,
	}
	pkgs, err := packages.Load(cfg, "./...")
	if err != nil {
		return nil, fmt.Errorf("load %s: %w", name, err)
	}
	if len(pkgs) == 0 {
		return nil, fmt.Errorf("load %s: zero packages", name)
	}
	nerr := 0
	var firstErr string
	packages.Visit(pkgs, nil, func(p *packages.Package) {
		for _, e := range p.Errors {
			nerr++
			if firstErr == "" {
				firstErr = e.Error()
			}
		}
	})
	if nerr > 0 {
		return nil, fmt.Errorf("load %s: %d package errors, first: %s", name, nerr, firstErr)
	}
	// SSA for the module's own packages; every dependency (export data only) becomes a body-less
	// SSA package so that calls into libraries are leaves (same scheme as go/analysis buildssa).
	prog := ssa.NewProgram(pkgs[0].Fset, ssa.InstantiateGenerics)
	created := map[*types.Package]bool{}
	var createAll func(ps []*types.Package)
	createAll = func(ps []*types.Package) {
		for _, p := range ps {
			if created[p] {
				continue
			}
			created[p] = true
			prog.CreatePackage(p, nil, nil, true)
			createAll(p.Imports())
		}
	}
	for _, p := range pkgs {
		created[p.Types] = true
	}
	for _, p := range pkgs {
		createAll(p.Types.Imports())
	}
	for _, p := range pkgs {
		prog.CreatePackage(p.Types, p.Syntax, p.TypesInfo, false)
	}
	prog.Build()

	m := &Module{Name: name, Dir: dir, Prog: prog, Fset: prog.Fset,
		ByPath: map[string]*packages.Package{}, SSAPkgs: map[string]*ssa.Package{}}
	for _, p := range pkgs {
		m.Pkgs = append(m.Pkgs, p)
		m.ByPath[p.PkgPath] = p
		if sp := prog.Package(p.Types); sp != nil {
			m.SSAPkgs[p.PkgPath] = sp
		}
	}
	sort.Slice(m.Pkgs, func(i, j int) bool { return m.Pkgs[i].PkgPath < m.Pkgs[j].PkgPath })
	// dependency packages that are part of the repository (e.g. the root module seen from an addon
	// module through a replace directive) are also exposed for lookups.
	packages.Visit(pkgs, nil, func(p *packages.Package) {
		if _, ok := m.ByPath[p.PkgPath]; ok {
			return
		}
		if strings.HasPrefix(p.PkgPath, rootModPath) && p.Syntax != nil {
			m.ByPath[p.PkgPath] = p
			if sp := prog.Package(p.Types); sp != nil {
				m.SSAPkgs[p.PkgPath] = sp
			}
		}
	})
	if err := m.foldNewHelpers(); err != nil {
		return nil, err
	}
	if os.Getenv("KAFCHECK_FOLDLOG") != "" {
		for _, f := range m.Folded {
			fmt.Fprintf(os.Stderr, "fold %s: %s sites=%d %s\n", name, f.Helper, f.Sites, f.Kept)
		}
	}
	for fn := range ssautil.AllFunctions(prog) {
		if m.Absorbed[fn] {
			continue
		}
		if fn.Pkg == nil && fn.Parent() == nil {
			// instantiations / wrappers: keep if origin is local
			if o := fn.Origin(); o == nil || o.Pkg == nil || !m.isLocalPkg(o.Pkg.Pkg) {
				continue
			}
		} else if p := fnPkg(fn); p == nil || !m.isLocalPkg(p) {
			continue
		}
		if fn.Blocks == nil {
			continue
		}
		m.AllFuncs = append(m.AllFuncs, fn)
	}
	sort.Slice(m.AllFuncs, func(i, j int) bool {
		a, b := m.AllFuncs[i], m.AllFuncs[j]
		if a.String() != b.String() {
			return a.String() < b.String()
		}
		return a.Pos() < b.Pos()
	})
	return m, nil
}

func fnPkg(fn *ssa.Function) *types.Package {
	for f := fn; f != nil; f = f.Parent() {
		if f.Pkg != nil {
			return f.Pkg.Pkg
		}
		if o := f.Origin(); o != nil && o.Pkg != nil {
			return o.Pkg.Pkg
		}
	}
	return nil
}

func (m *Module) isLocalPkg(p *types.Package) bool {
	if p == nil {
		return false
	}
	_, ok := m.SSAPkgs[p.Path()]
	if !ok {
		return false
	}
	_, ok = m.ByPath[p.Path()]
	return ok
}

// Pos renders a position relative to the repository root.
func (m *Module) Pos(p token.Pos) string {
	if !p.IsValid() {
		return "?"
	}
	pp := m.Fset.Position(p)
	f := pp.Filename
	if i := strings.Index(f, "/repo/"); i >= 0 && strings.HasPrefix(f, "/repo/") {
		f = f[len("/repo/"):]
	} else if rel, err := filepath.Rel(repoRoot, f); err == nil && !strings.HasPrefix(rel, "..") {
		f = rel
	}
	return fmt.Sprintf("%s:%d", f, pp.Line)
}

// Func resolves a function or method by package path and name: "pkgpath" + "Name", or "(*T).Name" / "T.Name".
func (m *Module) Func(pkgPath, name string) *ssa.Function {
	if fn := m.funcByName(pkgPath, name); fn != nil {
		return fn
	}
	// renamed anchor (fold.go)
	full := pkgPath + "." + name
	if strings.HasPrefix(name, "(*") {
		full = "(*" + pkgPath + "." + strings.TrimPrefix(name, "(*")
	} else if strings.Contains(name, ".") {
		full = "(" + pkgPath + "." + strings.Replace(name, ".", ").", 1)
	}
	return m.Renamed[full]
}

func (m *Module) funcByName(pkgPath, name string) *ssa.Function {
	sp := m.SSAPkgs[pkgPath]
	if sp == nil {
		return nil
	}
	if strings.HasPrefix(name, "(") || strings.Contains(name, ".") {
		ptr := false
		n := name
		if strings.HasPrefix(n, "(*") {
			ptr = true
			n = strings.TrimPrefix(n, "(*")
			n = strings.Replace(n, ")", "", 1)
		}
		parts := strings.SplitN(n, ".", 2)
		if len(parts) != 2 {
			return nil
		}
		obj := sp.Pkg.Scope().Lookup(parts[0])
		if obj == nil {
			return nil
		}
		tn, ok := obj.(*types.TypeName)
		if !ok {
			return nil
		}
		var T types.Type = tn.Type()
		if ptr {
			T = types.NewPointer(T)
		}
		sel := m.Prog.MethodSets.MethodSet(T).Lookup(sp.Pkg, parts[1])
		if sel == nil {
			// try pointer receiver anyway
			sel = m.Prog.MethodSets.MethodSet(types.NewPointer(tn.Type())).Lookup(sp.Pkg, parts[1])
			if sel == nil {
				return nil
			}
		}
		return m.Prog.MethodValue(sel)
	}
	return sp.Func(name)
}

// AnonFuncs returns fn and all functions nested in it.
func withAnon(fn *ssa.Function) []*ssa.Function {
	out := []*ssa.Function{fn}
	for _, a := range anonFuncsOf(fn) {
		out = append(out, withAnon(a)...)
	}
	return out
}

// anonFuncsOf: the closures created in fn's body — fn.AnonFuncs plus, after helper folding, the
// closures of the helpers that were folded into it.
func anonFuncsOf(fn *ssa.Function) []*ssa.Function {
	out := append([]*ssa.Function(nil), fn.AnonFuncs...)
	have := map[*ssa.Function]bool{}
	for _, a := range out {
		have[a] = true
	}
	for _, b := range fn.Blocks {
		for _, in := range b.Instrs {
			if mc, ok := in.(*ssa.MakeClosure); ok {
				if f, ok := mc.Fn.(*ssa.Function); ok && !have[f] && f.Parent() != nil && f.Parent() != fn && f.Synthetic == "" {
					have[f] = true
					out = append(out, f)
				}
			}
		}
	}
	return out
}

// FuncsInPkg lists all functions (including methods and closures) of a package.
func (m *Module) FuncsInPkg(pkgPath string) []*ssa.Function {
	var out []*ssa.Function
	for _, fn := range m.AllFuncs {
		if p := fnPkg(fn); p != nil && p.Path() == pkgPath {
			out = append(out, fn)
		}
	}
	return out
}

// StructType looks up a named struct type.
func (m *Module) Named(pkgPath, name string) *types.Named {
	p := m.ByPath[pkgPath]
	if p == nil {
		return nil
	}
	obj := p.Types.Scope().Lookup(name)
	if obj == nil {
		return nil
	}
	n, _ := obj.Type().(*types.Named)
	return n
}
