package main

import (
	"fmt"
	"go/token"
	"sort"
	"strings"

	"golang.org/x/tools/go/ssa"
)

func init() { register("C38", "other", checkC38) }

const (
	pkgConsole = rootModPath + "/internal/console"
	amPrefix   = "(*" + pkgConsole + ".authManager)."
)

func checkC38(c *Ctx, r *Report) {
	r.Explanation = "Decides structural necessary conditions of 'the console API requires a live session; logins are rate limited': (R1) every route registered on the console mux whose pattern lies under /ui/api/ — other than the four auth/* routes — has a handler that is the result of authManager.requireAuth on the one auth manager created for the mux, and no route is registered on that mux outside NewMux; (R2) inside requireAuth the wrapped handler is called only after a.enabled and hasValidSession(r) were true; hasValidSession returns true only after the cookie yielded a token, the token was found in the session map and time.Now() is not after the stored expiry; the session map is inserted into only by handleLogin after validCredentials returned true, with a key produced by generateToken (crypto/rand), is deleted from by handleLogout with the request's own token, and is only accessed under a.mu; (R3) in handleLogin validCredentials is reached only after limiter.Allow(remoteIP(r)) returned true (or no limiter is configured); Allow records a hit and returns true only when, after dropping the hits that are not after now-window, fewer than `limit` remain, and hits are only accessed under the limiter's mutex. The numeric bound 'at most N per sliding window' itself is arithmetic over time stamps and is not decided."
	r.NotCovered = "the sliding-window arithmetic (that kept hits are exactly those inside the window); cookie attributes; TLS"
	m, err := c.Mod("root")
	if err != nil {
		r.unresolved("C38.load", "root module", err.Error())
		return
	}
	r.rule("C38.R1", "every /ui/api/ route except auth/* is wrapped by requireAuth of the mux's auth manager", 12)
	r.rule("C38.R2", "requireAuth / hasValidSession guards; session map writers, key provenance and locking", 9)
	r.rule("C38.R3", "login is rate limited before credentials are checked; Allow admits only below the limit", 4)

	// ---- R1
	nm := needFn(m, r, "C38.R1", pkgConsole, "NewMux")
	if nm == nil {
		return
	}
	var authVal ssa.Value
	for _, call := range findCalls(nm, pkgConsole+".newAuthManager") {
		authVal = call.Value()
	}
	if authVal == nil {
		r.unresolved("C38.R1", "NewMux auth manager", "newAuthManager call not found")
		return
	}
	open := map[string]bool{"/ui/api/auth/config": true, "/ui/api/auth/session": true, "/ui/api/auth/login": true, "/ui/api/auth/logout": true}
	for _, fn := range m.FuncsInPkg(pkgConsole) {
		for _, call := range callsIn(fn) {
			n := calleeName(call.Common())
			if n != "(*net/http.ServeMux).HandleFunc" && n != "(*net/http.ServeMux).Handle" {
				continue
			}
			top := fn
			for top.Parent() != nil {
				top = top.Parent()
			}
			pat, ok := constString(call.Common().Args[1])
			if !ok {
				r.undecided("C38.R1", fmt.Sprintf("route with a non-constant pattern in %s", fn.Name()), m.Pos(call.Pos()), describe(call.Common().Args[1]))
				continue
			}
			if top != nm {
				r.viol("C38.R1", "route "+pat+" registered outside NewMux", m.Pos(call.Pos()), "routes added elsewhere bypass the wrapping discipline checked here")
				continue
			}
			if !strings.HasPrefix(pat, "/ui/api/") && pat != "/ui/api" {
				continue
			}
			r.CallSites++
			key := "route " + pat
			if open[pat] {
				r.ok("C38.R1", key, m.Pos(call.Pos()), "authentication endpoint (open by design)")
				continue
			}
			h := call.Common().Args[2]
			wrapped := false
			for _, o := range origins(h) {
				if wc, ok := strip(o).(*ssa.Call); ok && calleeName(&wc.Call) == amPrefix+"requireAuth" && strip(wc.Call.Args[0]) == authVal {
					wrapped = true
				}
			}
			if wrapped {
				r.ok("C38.R1", key, m.Pos(call.Pos()), "requireAuth(…)")
			} else {
				r.viol("C38.R1", key, m.Pos(call.Pos()), "handler "+describe(h)+" is registered without requireAuth: the endpoint answers without a session")
			}
		}
	}

	// ---- R2
	if ra := needFn(m, r, "C38.R2", pkgConsole, "(*authManager).requireAuth"); ra != nil {
		n := 0
		for _, f := range ra.AnonFuncs {
			for _, call := range callsIn(f) {
				// the call of the wrapped handler: callee is the captured `next`
				cc := call.Common()
				if cc.IsInvoke() {
					continue
				}
				isNext := false
				backSlice(cc.Value, false, func(v ssa.Value) {
					if fv, ok := v.(*ssa.FreeVar); ok && fv.Name() == "next" {
						isNext = true
					}
				})
				if !isNext {
					continue
				}
				n++
				g := Guard{
					cl(atomBool("a.enabled", vmField("", "enabled"), true)),
					cl(atomBool("hasValidSession(r)", vmCall(amPrefix+"hasValidSession"), true)),
				}
				guardVerdict(m, r, "C38.R2", "requireAuth calls the wrapped handler only for an enabled UI and a valid session", f, call.(ssa.Instruction), g)
				// the session check looks at this very request
				for _, hv := range findCalls(f, amPrefix+"hasValidSession") {
					if len(f.Params) >= 2 && strip(hv.Common().Args[1]) == ssa.Value(f.Params[1]) && len(cc.Args) >= 2 && strip(cc.Args[1]) == ssa.Value(f.Params[1]) {
						r.ok("C38.R2", "requireAuth validates the request it forwards", m.Pos(hv.Pos()), "")
					} else {
						r.viol("C38.R2", "requireAuth validates the request it forwards", m.Pos(hv.Pos()), "the validated request is not the forwarded one")
					}
				}
			}
		}
		if n == 0 {
			r.unresolved("C38.R2", "requireAuth: call of the wrapped handler", "not found")
		}
	}
	if hv := needFn(m, r, "C38.R2", pkgConsole, "(*authManager).hasValidSession"); hv != nil {
		for _, b := range hv.Blocks {
			v, ok := constBoolReturn(b)
			if !ok || !v {
				continue
			}
			ret := b.Instrs[len(b.Instrs)-1]
			g := Guard{
				cl(atomFn("token present", func(l Lit) bool {
					return l.Op == token.ILLEGAL && !l.Neg && isExtractOf(l.X, 1, amPrefix+"sessionToken")
				})),
				cl(atomFn("session exists", func(l Lit) bool {
					if l.Op != token.ILLEGAL || l.Neg {
						return false
					}
					e, ok := strip(l.X).(*ssa.Extract)
					if !ok || e.Index != 1 {
						return false
					}
					lk, ok := e.Tuple.(*ssa.Lookup)
					if !ok {
						return false
					}
					_, f, _, okf := fieldOf(lk.X)
					return okf && f == "sessions" && isExtractOf(lk.Index, 0, amPrefix+"sessionToken")
				})),
				cl(atomFn("!now.After(expiry)", func(l Lit) bool {
					if l.Op != token.ILLEGAL || !l.Neg {
						return false
					}
					ac, ok := strip(l.X).(*ssa.Call)
					if !ok || calleeName(&ac.Call) != "(time.Time).After" {
						return false
					}
					// receiver = time.Now(), argument = the looked-up expiry
					nowOK := dependsOnCall(ac.Call.Args[0], "time.Now")
					expOK := false
					backSlice(ac.Call.Args[1], false, func(v ssa.Value) {
						if lk, ok := v.(*ssa.Lookup); ok {
							if _, f, _, okf := fieldOf(lk.X); okf && f == "sessions" {
								expOK = true
							}
						}
					})
					return nowOK && expOK
				})),
			}
			guardVerdict(m, r, "C38.R2", "hasValidSession accepts only a known, unexpired token of this request", hv, ret, g)
		}
	}
	// session map writers
	type wr struct{ fn, kind string }
	var ws []string
	for _, w := range fieldWriters(m, pkgConsole+".authManager", "sessions", true) {
		ws = append(ws, w.Fn.Name()+":"+w.Kind)
		key := fmt.Sprintf("sessions %s in %s", w.Kind, w.Fn.Name())
		switch {
		case w.Fn.Name() == "newAuthManager" && w.Kind == "store":
			r.ok("C38.R2", key, m.Pos(w.In.Pos()), "construction")
		case w.Fn.Name() == "handleLogin" && w.Kind == "mapupdate":
			mu := w.In.(*ssa.MapUpdate)
			g := Guard{cl(atomBool("validCredentials", vmCall(amPrefix+"validCredentials"), true)), cl(atomErrNil(pkgConsole + ".generateToken"))}
			guardVerdict(m, r, "C38.R2", key+" only after valid credentials", w.Fn, w.In, g)
			if isExtractOf(mu.Key, 0, pkgConsole+".generateToken") {
				r.ok("C38.R2", "session key is a freshly generated token", m.Pos(w.In.Pos()), "")
			} else {
				r.viol("C38.R2", "session key is a freshly generated token", m.Pos(w.In.Pos()), "key is "+describe(mu.Key)+": a client-chosen or predictable session id")
			}
			if dependsOnCall(mu.Value, "time.Now") && dependsOnField(mu.Value, "", "ttl") {
				r.ok("C38.R2", "session expiry is now + ttl", m.Pos(w.In.Pos()), "")
			} else {
				r.viol("C38.R2", "session expiry is now + ttl", m.Pos(w.In.Pos()), "expiry is "+describe(mu.Value))
			}
		case (w.Fn.Name() == "handleLogout" || w.Fn.Name() == "hasValidSession") && w.Kind == "delete":
			r.ok("C38.R2", key, m.Pos(w.In.Pos()), "removal")
		default:
			r.viol("C38.R2", key, m.Pos(w.In.Pos()), "session map written outside login / logout / expiry")
		}
	}
	sort.Strings(ws)
	hasLogout := false
	for _, w := range ws {
		if w == "handleLogout:delete" {
			hasLogout = true
		}
	}
	if !hasLogout {
		r.viol("C38.R2", "logout removes the session", "", "handleLogout no longer deletes the token from the session map: a logged-out token stays valid")
	} else if lo := m.Func(pkgConsole, "(*authManager).handleLogout"); lo != nil {
		okKey := false
		for _, w := range fieldWriters(m, pkgConsole+".authManager", "sessions", true) {
			if w.Fn == lo && w.Kind == "delete" {
				if isExtractOf(w.In.(*ssa.Call).Call.Args[1], 0, amPrefix+"sessionToken") {
					okKey = true
				}
			}
		}
		if okKey {
			r.ok("C38.R2", "logout removes the session", m.Pos(lo.Pos()), "deletes the request's own token")
		} else {
			r.viol("C38.R2", "logout removes the session", m.Pos(lo.Pos()), "the deleted key is not the request's session token")
		}
	}
	if gt := needFn(m, r, "C38.R2", pkgConsole, "generateToken"); gt != nil {
		if len(findCalls(gt, "crypto/rand.Read")) == 1 && len(findCalls(gt, "math/rand.Read", "math/rand.Int63", "math/rand/v2.Read")) == 0 {
			r.ok("C38.R2", "generateToken draws from crypto/rand", m.Pos(gt.Pos()), "")
		} else {
			r.viol("C38.R2", "generateToken draws from crypto/rand", m.Pos(gt.Pos()), "tokens are not produced by crypto/rand.Read")
		}
	}
	checkLockset(m, r, "C38.R2L", "session map and rate-limiter hits are accessed only under their mutex",
		[]guardSpec{{Pkg: pkgConsole, Type: "authManager", Mutex: "mu", Fields: []string{"sessions"}},
			{Pkg: pkgConsole, Type: "loginRateLimiter", Mutex: "mu", Fields: []string{"hits"}}}, 6)

	// ---- R3
	if hl := needFn(m, r, "C38.R3", pkgConsole, "(*authManager).handleLogin"); hl != nil {
		for _, vc := range findCalls(hl, amPrefix+"validCredentials") {
			g := Guard{cl(
				atomBool("limiter.Allow(ip)", vmCall("(*"+pkgConsole+".loginRateLimiter).Allow"), true),
				atomFn("limiter == nil", func(l Lit) bool {
					_, f, _, ok := fieldOf(l.X)
					return l.Op == token.EQL && isNilConst(l.Y) && ok && f == "limiter"
				}))}
			guardVerdict(m, r, "C38.R3", "credentials are checked only after the rate limiter admitted the attempt", hl, vc.(ssa.Instruction), g)
		}
		for _, al := range findCalls(hl, "(*"+pkgConsole+".loginRateLimiter).Allow") {
			if dependsOnCall(al.Common().Args[1], pkgConsole+".remoteIP") {
				r.ok("C38.R3", "the limiter is keyed by the client address", m.Pos(al.Pos()), "")
			} else {
				r.viol("C38.R3", "the limiter is keyed by the client address", m.Pos(al.Pos()), "key is "+describe(al.Common().Args[1]))
			}
		}
	}
	if al := needFn(m, r, "C38.R3", pkgConsole, "(*loginRateLimiter).Allow"); al != nil {
		// `return true` (other than the nil-receiver case) and the append of `now` are reached only when
		// !(len(hits) >= limit)
		below := atomFn("len(hits) < limit", func(l Lit) bool {
			x, y, op := l.X, l.Y, l.Op
			if op == token.GTR {
				x, y, op = y, x, token.LSS
			}
			if op != token.LSS {
				return false
			}
			lc, ok := strip(x).(*ssa.Call)
			if !ok || calleeName(&lc.Call) != "builtin.len" {
				return false
			}
			_, f, _, okf := fieldOf(y)
			return okf && f == "limit"
		})
		nilRecv := atomFn("l == nil", func(l Lit) bool {
			return l.Op == token.EQL && isNilConst(l.Y) && l.X == ssa.Value(al.Params[0])
		})
		n := 0
		for _, b := range al.Blocks {
			if v, ok := constBoolReturn(b); ok && v {
				n++
				guardVerdict(m, r, "C38.R3", "Allow admits only while fewer than `limit` recent hits exist", al, b.Instrs[len(b.Instrs)-1], Guard{cl(below, nilRecv)})
			}
		}
		for _, site := range appendSites(al, "[]time.Time") {
			n++
			guardVerdict(m, r, "C38.R3", "Allow records a hit only when it admits", al, site.Call, Guard{cl(below)})
		}
		if n == 0 {
			r.unresolved("C38.R3", "Allow: admitting paths", "not found")
		}
		// kept hits are those after the cutoff = now - window
		okCut := false
		for _, call := range findCalls(al, "(time.Time).After") {
			if dependsOnCall(call.Common().Args[1], "(time.Time).Add") && dependsOnField(call.Common().Args[1], "", "window") {
				okCut = true
			}
		}
		if okCut {
			r.ok("C38.R3", "Allow keeps hits that are after now - window", m.Pos(al.Pos()), "")
		} else {
			r.viol("C38.R3", "Allow keeps hits that are after now - window", m.Pos(al.Pos()), "no comparison of stored hits with a cutoff derived from the window")
		}
	}
}
