package main

import (
	"fmt"
	"go/token"
	"sort"
	"strings"

	"golang.org/x/tools/go/ssa"
)

func init() { register("C38", "other", checkC38) }

const (
	pkgConsole = rootModPath + "/internal/console"
	amPrefix   = "(*" + pkgConsole + ".authManager)."
)

func checkC38(c *Ctx, r *Report) {
	r.Explanation = "Decides structural necessary conditions of 'the console API requires a live session; logins are rate limited': (R1) every route registered on the console mux whose pattern lies under /ui/api/ — other than the four auth/* routes — has a handler that is the result of authManager.requireAuth on the one auth manager created for the mux, and no route is registered on that mux outside NewMux; (R2) inside requireAuth the wrapped handler is called only after a.enabled and hasValidSession(r) were true; hasValidSession returns true only after the cookie yielded a token, the token was found in the session map and time.Now() is not after the stored expiry; the session map is inserted into only by handleLogin after validCredentials returned true, with a key produced by generateToken (crypto/rand), is deleted from by handleLogout with the request's own token, and is only accessed under a.mu; (R3) in handleLogin validCredentials is reached only after limiter.Allow(remoteIP(r)) returned true (or no limiter is configured); Allow records a hit and returns true only when, after dropping the hits that are not after now-window, fewer than `limit` remain, and hits are only accessed under the limiter's mutex. The numeric bound 'at most N per sliding window' itself is arithmetic over time stamps and is not decided."
	r.NotCovered = "the sliding-window arithmetic (that kept hits are exactly those inside the window); cookie attributes; TLS"
	m, err := c.Mod("root")
	if err != nil {
		r.unresolved("C38.load", "root module", err.Error())
		return
	}
	r.rule("C38.R1", "every /ui/api/ route except auth/* is wrapped by requireAuth of the mux's auth manager", 12)
	r.rule("C38.R2", "requireAuth / hasValidSession guards; session map writers, key provenance and locking", 9)
	r.rule("C38.R3", "login is rate limited before credentials are checked; Allow admits only below the limit", 4)

	// ---- R1
	nm := needFn(m, r, "C38.R1", pkgConsole, "NewMux")
	if nm == nil {
		return
	}
	var authVal ssa.Value
	for _, call := range findCalls(nm, pkgConsole+".newAuthManager") {
		authVal = call.Value()
	}
	if authVal == nil {
		r.unresolved("C38.R1", "NewMux auth manager", "newAuthManager call not found")
		return
	}
	open := map[string]bool{"/ui/api/auth/config": true, "/ui/api/auth/session": true, "/ui/api/auth/login": true, "/ui/api/auth/logout": true}
	for _, fn := range m.FuncsInPkg(pkgConsole) {
		for _, call := range callsIn(fn) {
			n := calleeName(call.Common())
			if n != "(*net/http.ServeMux).HandleFunc" && n != "(*net/http.ServeMux).Handle" {
				continue
			}
			top := fn
			for top.Parent() != nil {
				top = top.Parent()
			}
			pat, ok := constString(call.Common().Args[1])
			if !ok {
				r.undecided("C38.R1", fmt.Sprintf("route with a non-constant pattern in %s", fn.Name()), m.Pos(call.Pos()), describe(call.Common().Args[1]))
				continue
			}
			if top != nm {
				r.viol("C38.R1", "route "+pat+" registered outside NewMux", m.Pos(call.Pos()), "routes added elsewhere bypass the wrapping discipline checked here")
				continue
			}
			if !strings.HasPrefix(pat, "/ui/api/") && pat != "/ui/api" {
				continue
			}
			r.CallSites++
			key := "route " + pat
			if open[pat] {
				r.ok("C38.R1", key, m.Pos(call.Pos()), "authentication endpoint (open by design)")
				continue
			}
			h := call.Common().Args[2]
			wrapped := false
			for _, o := range origins(h) {
				if wc, ok := strip(o).(*ssa.Call); ok && calleeName(&wc.Call) == amPrefix+"requireAuth" && strip(wc.Call.Args[0]) == authVal {
					wrapped = true
				}
			}
			if wrapped {
				r.ok("C38.R1", key, m.Pos(call.Pos()), "requireAuth(…)")
			} else {
				r.viol("C38.R1", key, m.Pos(call.Pos()), "handler "+describe(h)+" is registered without requireAuth: the endpoint answers without a session")
			}
		}
	}

	// ---- R2
	if ra := needFn(m, r, "C38.R2", pkgConsole, "(*authManager).requireAuth"); ra != nil {
		n := 0
		for _, f := range anonFuncsOf(ra) {
			for _, call := range callsIn(f) {
				// the call of the wrapped handler: callee is the captured `next`
				cc := call.Common()
				if cc.IsInvoke() {
					continue
				}
				isNext := false
				backSlice(cc.Value, false, func(v ssa.Value) {
					if fv, ok := v.(*ssa.FreeVar); ok && fv.Name() == "next" {
						isNext = true
					}
				})
				if !isNext {
					continue
				}
				n++
				g := Guard{
					cl(atomBool("a.enabled", vmField("", "enabled"), true)),
					cl(atomBool("hasValidSession(r)", vmCall(amPrefix+"hasValidSession"), true)),
				}
				guardVerdict(m, r, "C38.R2", "requireAuth calls the wrapped handler only for an enabled UI and a valid session", f, call.(ssa.Instruction), g)
				// the session check looks at this very request
				for _, hv := range findCalls(f, amPrefix+"hasValidSession") {
					if len(f.Params) >= 2 && strip(hv.Common().Args[1]) == ssa.Value(f.Params[1]) && len(cc.Args) >= 2 && strip(cc.Args[1]) == ssa.Value(f.Params[1]) {
						r.ok("C38.R2", "requireAuth validates the request it forwards", m.Pos(hv.Pos()), "")
					} else {
						r.viol("C38.R2", "requireAuth validates the request it forwards", m.Pos(hv.Pos()), "the validated request is not the forwarded one")
					}
				}
			}
		}
		if n == 0 {
			r.unresolved("C38.R2", "requireAuth: call of the wrapped handler", "not found")
		}
	}
	if hv := needFn(m, r, "C38.R2", pkgConsole, "(*authManager).hasValidSession"); hv != nil {
		for _, b := range hv.Blocks {
			v, ok := constBoolReturn(b)
			if !ok || !v {
				continue
			}
			ret := b.Instrs[len(b.Instrs)-1]
			g := Guard{
				cl(atomFn("token present", func(l Lit) bool {
					return l.Op == token.ILLEGAL && !l.Neg && isExtractOf(l.X, 1, amPrefix+"sessionToken")
				})),
				cl(atomFn("session exists", func(l Lit) bool {
					if l.Op != token.ILLEGAL || l.Neg {
						return false
					}
					e, ok := strip(l.X).(*ssa.Extract)
					if !ok || e.Index != 1 {
						return false
					}
					lk, ok := e.Tuple.(*ssa.Lookup)
					if !ok {
						return false
					}
					_, f, _, okf := fieldOf(lk.X)
					return okf && f == "sessions" && isExtractOf(lk.Index, 0, amPrefix+"sessionToken")
				})),
				cl(atomFn("!now.After(expiry)", func(l Lit) bool {
					if l.Op != token.ILLEGAL || !l.Neg {
						return false
					}
					ac, ok := strip(l.X).(*ssa.Call)
					if !ok || calleeName(&ac.Call) != "(time.Time).After" {
						return false
					}
					// receiver = time.Now(), argument = the looked-up expiry
					nowOK := dependsOnCall(ac.Call.Args[0], "time.Now")
					expOK := false
					backSlice(ac.Call.Args[1], false, func(v ssa.Value) {
						if lk, ok := v.(*ssa.Lookup); ok {
							if _, f, _, okf := fieldOf(lk.X); okf && f == "sessions" {
								expOK = true
							}
						}
					})
					return nowOK && expOK
				})),
			}
			guardVerdict(m, r, "C38.R2", "hasValidSession accepts only a known, unexpired token of this request", hv, ret, g)
		}
	}
	// session map writers
	type wr struct{ fn, kind string }
	var ws []string
	for _, w := range fieldWriters(m, pkgConsole+".authManager", "sessions", true) {
		ws = append(ws, w.Fn.Name()+":"+w.Kind)
		key := fmt.Sprintf("sessions %s in %s", w.Kind, w.Fn.Name())
		switch {
		case shortName(w.Fn) == "newAuthManager" && w.Kind == "store":
			r.ok("C38.R2", key, m.Pos(w.In.Pos()), "construction")
		case shortName(w.Fn) == "handleLogin" && w.Kind == "mapupdate":
			mu := w.In.(*ssa.MapUpdate)
			g := Guard{cl(atomBool("validCredentials", vmCall(amPrefix+"validCredentials"), true)), cl(atomErrNil(pkgConsole + ".generateToken"))}
			guardVerdict(m, r, "C38.R2", key+" only after valid credentials", w.Fn, w.In, g)
			if isExtractOf(mu.Key, 0, pkgConsole+".generateToken") {
				r.ok("C38.R2", "session key is a freshly generated token", m.Pos(w.In.Pos()), "")
			} else {
				r.viol("C38.R2", "session key is a freshly generated token", m.Pos(w.In.Pos()), "key is "+describe(mu.Key)+": a client-chosen or predictable session id")
			}
			if dependsOnCall(mu.Value, "time.Now") && dependsOnField(mu.Value, "", "ttl") {
				r.ok("C38.R2", "session expiry is now + ttl", m.Pos(w.In.Pos()), "")
			} else {
				r.viol("C38.R2", "session expiry is now + ttl", m.Pos(w.In.Pos()), "expiry is "+describe(mu.Value))
			}
		case (shortName(w.Fn) == "handleLogout" || shortName(w.Fn) == "hasValidSession") && w.Kind == "delete":
			r.ok("C38.R2", key, m.Pos(w.In.Pos()), "removal")
		default:
			r.viol("C38.R2", key, m.Pos(w.In.Pos()), "session map written outside login / logout / expiry")
		}
	}
	sort.Strings(ws)
	hasLogout := false
	for _, w := range ws {
		if w == "handleLogout:delete" {
			hasLogout = true
		}
	}
	if !hasLogout {
		r.viol("C38.R2", "logout removes the session", "", "handleLogout no longer deletes the token from the session map: a logged-out token stays valid")
	} else if lo := m.Func(pkgConsole, "(*authManager).handleLogout"); lo != nil {
		okKey := false
		for _, w := range fieldWriters(m, pkgConsole+".authManager", "sessions", true) {
			if w.Fn == lo && w.Kind == "delete" {
				if isExtractOf(w.In.(*ssa.Call).Call.Args[1], 0, amPrefix+"sessionToken") {
					okKey = true
				}
			}
		}
		if okKey {
			r.ok("C38.R2", "logout removes the session", m.Pos(lo.Pos()), "deletes the request's own token")
		} else {
			r.viol("C38.R2", "logout removes the session", m.Pos(lo.Pos()), "the deleted key is not the request's session token")
		}
	}
	if gt := needFn(m, r, "C38.R2", pkgConsole, "generateToken"); gt != nil {
		if len(findCalls(gt, "crypto/rand.Read")) == 1 && len(findCalls(gt, "math/rand.Read", "math/rand.Int63", "math/rand/v2.Read")) == 0 {
			r.ok("C38.R2", "generateToken draws from crypto/rand", m.Pos(gt.Pos()), "")
		} else {
			r.viol("C38.R2", "generateToken draws from crypto/rand", m.Pos(gt.Pos()), "tokens are not produced by crypto/rand.Read")
		}
	}
	checkLockset(m, r, "C38.R2L", "session map and rate-limiter hits are accessed only under their mutex",
		[]guardSpec{{Pkg: pkgConsole, Type: "authManager", Mutex: "mu", Fields: []string{"sessions"}},
			{Pkg: pkgConsole, Type: "loginRateLimiter", Mutex: "mu", Fields: []string{"hits"}}}, 6)

	// ---- R3
	if hl := needFn(m, r, "C38.R3", pkgConsole, "(*authManager).handleLogin"); hl != nil {
		for _, vc := range findCalls(hl, amPrefix+"validCredentials") {
			g := Guard{cl(
				atomBool("limiter.Allow(ip)", vmCall("(*"+pkgConsole+".loginRateLimiter).Allow"), true),
				atomFn("limiter == nil", func(l Lit) bool {
					_, f, _, ok := fieldOf(l.X)
					return l.Op == token.EQL && isNilConst(l.Y) && ok && f == "limiter"
				}))}
			guardVerdict(m, r, "C38.R3", "credentials are checked only after the rate limiter admitted the attempt", hl, vc.(ssa.Instruction), g)
		}
		for _, al := range findCalls(hl, "(*"+pkgConsole+".loginRateLimiter).Allow") {
			if dependsOnCall(al.Common().Args[1], pkgConsole+".remoteIP") {
				r.ok("C38.R3", "the limiter is keyed by the client address", m.Pos(al.Pos()), "")
			} else {
				r.viol("C38.R3", "the limiter is keyed by the client address", m.Pos(al.Pos()), "key is "+describe(al.Common().Args[1]))
			}
		}
	}
	// the limiter key is the peer address of the connection, nothing the client can choose per
	// request: remoteIP derives its result from r.RemoteAddr only and never reads a request header
	if rip := needFn(m, r, "C38.R3", pkgConsole, "remoteIP"); rip != nil {
		usesAddr, usesHeader := false, ""
		for _, b := range rip.Blocks {
			for _, in := range b.Instrs {
				if fa, ok := in.(*ssa.FieldAddr); ok {
					if _, f, _, ok := fieldAddrInfo(fa); ok {
						switch f {
						case "RemoteAddr":
							usesAddr = true
						case "Header", "Form", "PostForm", "URL", "Trailer", "Body":
							usesHeader = f + " at " + m.Pos(fa.Pos())
						}
					}
				}
				if call, ok := in.(ssa.CallInstruction); ok {
					n := calleeName(call.Common())
					if strings.HasPrefix(n, "(net/http.Header).") || strings.HasSuffix(n, "http.Request).FormValue") || strings.HasSuffix(n, "http.Request).Cookie") || strings.HasSuffix(n, "http.Request).UserAgent") {
						usesHeader = n + " at " + m.Pos(call.Pos())
					}
				}
			}
		}
		key := "the limiter key comes from the connection's peer address only"
		switch {
		case usesHeader != "":
			r.viol("C38.R3", key, m.Pos(rip.Pos()), "remoteIP reads "+usesHeader+": a client that varies that value per request gets a fresh limiter bucket each time")
		case !usesAddr:
			r.viol("C38.R3", key, m.Pos(rip.Pos()), "remoteIP does not read r.RemoteAddr")
		default:
			r.ok("C38.R3", key, m.Pos(rip.Pos()), "")
		}
	}
	if al := needFn(m, r, "C38.R3", pkgConsole, "(*loginRateLimiter).Allow"); al != nil {
		// `return true` (other than the nil-receiver case) and the append of `now` are reached only when
		// !(len(hits) >= limit)
		below := atomFn("len(hits) < limit", func(l Lit) bool {
			x, y, op := l.X, l.Y, l.Op
			if op == token.GTR {
				x, y, op = y, x, token.LSS
			}
			if op != token.LSS {
				return false
			}
			lc, ok := strip(x).(*ssa.Call)
			if !ok || calleeName(&lc.Call) != "builtin.len" {
				return false
			}
			_, f, _, okf := fieldOf(y)
			return okf && f == "limit"
		})
		nilRecv := atomFn("l == nil", func(l Lit) bool {
			return l.Op == token.EQL && isNilConst(l.Y) && l.X == ssa.Value(al.Params[0])
		})
		n := 0
		for _, b := range al.Blocks {
			if v, ok := constBoolReturn(b); ok && v {
				n++
				guardVerdict(m, r, "C38.R3", "Allow admits only while fewer than `limit` recent hits exist", al, b.Instrs[len(b.Instrs)-1], Guard{cl(below, nilRecv)})
			}
		}
		for _, site := range appendSites(al, "[]time.Time") {
			// only the recording of a new attempt: an element that comes from time.Now (re-keeping an
			// old hit while filtering is not a recording)
			if site.Elem == nil || !dependsOnCall(site.Elem, "time.Now") {
				continue
			}
			n++
			guardVerdict(m, r, "C38.R3", "Allow records a hit only when it admits", al, site.At, Guard{cl(below)})
		}
		if n == 0 {
			r.unresolved("C38.R3", "Allow: admitting paths", "not found")
		}
		// kept hits are those after the cutoff = now - window
		okCut := false
		for _, call := range findCalls(al, "(time.Time).After") {
			if dependsOnCall(call.Common().Args[1], "(time.Time).Add") && dependsOnField(call.Common().Args[1], "", "window") {
				okCut = true
			}
		}
		if okCut {
			r.ok("C38.R3", "Allow keeps hits that are after now - window", m.Pos(al.Pos()), "")
		} else {
			r.viol("C38.R3", "Allow keeps hits that are after now - window", m.Pos(al.Pos()), "no comparison of stored hits with a cutoff derived from the window")
		}
		// the hits counted against the limit contain every stored hit that is still inside the window:
		// the counted slice is the stored one, pruned only element by element on the !After(cutoff) edge
		keyW := "Allow counts every stored hit that is after the cutoff (hits are dropped one by one, only when not after it)"
		for _, b := range al.Blocks {
			for _, in := range b.Instrs {
				bo, ok := in.(*ssa.BinOp)
				if !ok {
					continue
				}
				var lenArg ssa.Value
				for _, side := range []ssa.Value{bo.X, bo.Y} {
					if lc, ok := strip(side).(*ssa.Call); ok && calleeName(&lc.Call) == "builtin.len" {
						lenArg = lc.Call.Args[0]
					}
				}
				other := bo.Y
				if lenArg != nil && strip(bo.Y) != nil {
					if lc, ok := strip(bo.Y).(*ssa.Call); ok && calleeName(&lc.Call) == "builtin.len" {
						other = bo.X
					}
				}
				if lenArg == nil {
					continue
				}
				if _, f, _, okf := fieldOf(other); !okf || f != "limit" {
					continue
				}
				okW, why := prunedPerElement(lenArg)
				if okW {
					r.ok("C38.R3", keyW, m.Pos(bo.Pos()), why)
				} else {
					r.viol("C38.R3", keyW, m.Pos(bo.Pos()), why)
				}
			}
		}
	}
}

// prunedPerElement: `counted` is the slice loaded from the hits map, either as it is, or compacted in
// place / filtered by append inside a range over all of its elements where an element is skipped only
// on the false edge of elem.After(cutoff).
func prunedPerElement(counted ssa.Value) (bool, string) {
	isStored := func(v ssa.Value) bool {
		lk, ok := strip(v).(*ssa.Lookup)
		if !ok {
			return false
		}
		_, f, _, okf := fieldOf(lk.X)
		return okf && f == "hits"
	}
	if isStored(counted) {
		return true, "the stored slice is counted unpruned"
	}
	// the loop-carried accumulator: the keep counter of an in-place compaction, or the filtered slice
	var acc *ssa.Phi
	var H ssa.Value
	switch x := strip(counted).(type) {
	case *ssa.Slice:
		if x.Low != nil || x.High == nil || !isStored(x.X) {
			return false, "the counted slice is " + describe(counted) + ", not the stored hits cut at the number of kept elements"
		}
		H = x.X
		acc, _ = strip(x.High).(*ssa.Phi)
	case *ssa.Phi:
		acc = x
	}
	if acc == nil {
		return false, "the counted slice " + describe(counted) + " is not produced by a per-element filter of the stored hits"
	}
	hdr := acc.Block()
	isLoop := false
	for _, p := range hdr.Preds {
		if hdr.Dominates(p) {
			isLoop = true
		}
	}
	if !isLoop {
		return false, "the counted slice " + describe(counted) + " is selected by a branch, not produced by testing each stored hit against the cutoff: hits still inside the window can be forgotten together with a stale one"
	}
	// the range index over the stored slice
	var idx ssa.Value
	for _, in := range hdr.Instrs {
		ph, ok := in.(*ssa.Phi)
		if !ok || ph == acc || len(ph.Edges) < 2 {
			continue
		}
		if k, ok := constInt(ph.Edges[0]); ok && k == -1 {
			for _, ref := range *ph.Referrers() {
				if add, ok := ref.(*ssa.BinOp); ok && add.Op == token.ADD {
					if one, ok := constInt(add.Y); ok && one == 1 {
						idx = add
					}
				}
			}
		}
	}
	if idx == nil {
		return false, "no range loop over the stored hits found at the accumulator's loop header"
	}
	// the loop runs over all of H
	if ifi, ok := hdr.Instrs[len(hdr.Instrs)-1].(*ssa.If); ok {
		bo, ok := ifi.Cond.(*ssa.BinOp)
		good := ok && bo.Op == token.LSS && bo.X == idx
		if good {
			lc, ok := strip(bo.Y).(*ssa.Call)
			good = ok && calleeName(&lc.Call) == "builtin.len" && isStored(lc.Call.Args[0])
			if good && H == nil {
				H = lc.Call.Args[0]
			}
			if good && strip(lc.Call.Args[0]) != strip(H) {
				good = false
			}
		}
		if !good {
			return false, "the pruning loop does not run over every stored hit"
		}
	} else {
		return false, "loop header has no bound test"
	}
	isElem := func(v ssa.Value) bool {
		u, ok := strip(v).(*ssa.UnOp)
		if !ok {
			return false
		}
		ia, ok := u.X.(*ssa.IndexAddr)
		return ok && strip(ia.X) == strip(H) && ia.Index == idx
	}
	nKeep, nSkip := 0, 0
	for i, e := range acc.Edges {
		pred := hdr.Preds[i]
		if !hdr.Dominates(pred) {
			// loop entry: counter 0 / empty slice
			if k, ok := constInt(e); ok && k == 0 {
				continue
			}
			if sl, ok := strip(e).(*ssa.Slice); ok && sl.High != nil {
				if k, ok := constInt(sl.High); ok && k == 0 {
					continue
				}
			}
			if c, ok := strip(e).(*ssa.Const); ok && c.IsNil() {
				continue
			}
			return false, "the accumulator does not start empty: " + describe(e)
		}
		if strip(e) == ssa.Value(acc) {
			// skip edge: only the false edge of elem.After(cutoff)
			ifi, ok := pred.Instrs[len(pred.Instrs)-1].(*ssa.If)
			if !ok || pred.Succs[1] != hdr {
				return false, "an element can be dropped on an edge that is not the false edge of a window test (block " + pred.Comment + ")"
			}
			call, ok := strip(ifi.Cond).(*ssa.Call)
			if !ok || calleeName(&call.Call) != "(time.Time).After" || !isElem(call.Call.Args[0]) ||
				!dependsOnCall(call.Call.Args[1], "(time.Time).Add") || !dependsOnField(call.Call.Args[1], "", "window") {
				return false, "an element is dropped on a test other than elem.After(now - window): " + describe(ifi.Cond)
			}
			nSkip++
			continue
		}
		// keep edge
		switch k := strip(e).(type) {
		case *ssa.BinOp:
			one, ok := constInt(k.Y)
			if k.Op != token.ADD || k.X != ssa.Value(acc) || !ok || one != 1 {
				return false, "keep counter updated by " + describe(e)
			}
			// the element is stored at H[acc] in the same block
			stored := false
			for _, in := range k.Block().Instrs {
				if st, ok := in.(*ssa.Store); ok {
					if ia, ok := st.Addr.(*ssa.IndexAddr); ok && strip(ia.X) == strip(H) && ia.Index == ssa.Value(acc) && isElem(st.Val) {
						stored = true
					}
				}
			}
			if !stored {
				return false, "the keep counter advances without storing the element at the kept position"
			}
			nKeep++
		case *ssa.Call:
			if calleeName(&k.Call) != "builtin.append" || strip(k.Call.Args[0]) != ssa.Value(acc) {
				return false, "kept slice updated by " + describe(e)
			}
			nKeep++
		default:
			return false, "accumulator updated by " + describe(e)
		}
	}
	if nKeep == 0 {
		return false, "no element is ever kept"
	}
	return true, fmt.Sprintf("per-element filter: %d keep edge(s), %d skip edge(s), every skip is the false edge of elem.After(now - window)", nKeep, nSkip)
}
