package main

import (
	"fmt"
	"go/token"
	"strings"

	"golang.org/x/tools/go/ssa"
)

func init() { register("C21", "other", checkC21) }

const pkgOperator = rootModPath + "/pkg/operator"

func checkC21(c *Ctx, r *Report) {
	r.Explanation = "Decides three structural necessary conditions of 'acknowledged topic creations and partition growth are never lost': (S1) every call from EtcdStore into the embedded in-memory store that changes topics (CreateTopic, CreatePartitions, DeleteTopic, Update) runs with persistMu held, and after a successful mutation every success return has passed persistSnapshotLocked — so a concurrent snapshot refresh cannot interleave between mutate and persist (exposed and repaired: a57c5b1); (S2) every etcd write of the metadata snapshot key is a compare-and-swap on the revision that was read (the operator's is; the broker's persistSnapshotLocked is a plain Put — KNOWN-FINDING K6); (S3) the operator's mergeSnapshots compares the partition counts before choosing the list for a topic present on both sides (exposed and repaired: 40b6dfe). It does not decide convergence after quiescence."
	r.NotCovered = "convergence of all brokers after quiescence; explicit deletions racing creations"
	m, err := c.Mod("root")
	if err != nil {
		r.unresolved("C21.load", "root module", err.Error())
		return
	}
	r.rule("C21.S1", "EtcdStore → InMemoryStore topic mutations happen under persistMu and are persisted (persistSnapshotLocked) before any success return", 5)
	r.rule("C21.S2", "every etcd write of the snapshot key is a Txn conditioned on the revision read", 2)
	r.rule("C21.S4", "refreshSnapshot installs what etcd holds: a nil return is reached only with no snapshot stored (len(Kvs)==0) or through InMemoryStore.Update of the decoded value", 1)
	if rf := needFn(m, r, "C21.S4", pkgMetadata, "(*EtcdStore).refreshSnapshot"); rf != nil {
		empty := Guard{cl(atomFn("len(resp.Kvs) == 0", func(l Lit) bool {
			lc, ok := strip(l.X).(*ssa.Call)
			k, okk := constInt(l.Y)
			return ok && okk && calleeName(&lc.Call) == "builtin.len" && ((l.Op == token.EQL && k == 0) || (l.Op == token.LSS && k == 1) || (l.Op == token.LEQ && k == 0))
		}))}
		n := 0
		for _, b := range rf.Blocks {
			ret0, ok := b.Instrs[len(b.Instrs)-1].(*ssa.Return)
			if !ok || len(ret0.Results) != 1 {
				continue
			}
			// each way the return can yield nil is judged where that nil comes from (one merged
			// `return err` after a folded helper has several)
			for _, site := range returnSites(ret0, 0) {
				if !isNilConstInOrigins(site.Val) {
					continue
				}
				ret := site.At
				n++
				key := fmt.Sprintf("refreshSnapshot success return #%d has installed the snapshot it read", n)
				if checkGuarded(m, rf, ret, empty).OK {
					r.ok("C21.S4", key, m.Pos(ret.Pos()), "nothing stored in etcd")
					continue
				}
				if ok, path := mustPassBefore(m, rf, ret, func(in ssa.Instruction) bool {
					return isCallTo(in, "(*"+pkgMetadata+".InMemoryStore).Update")
				}); ok {
					r.ok("C21.S4", key, m.Pos(ret.Pos()), "after InMemoryStore.Update")
				} else {
					r.viol("C21.S4", key, m.Pos(ret.Pos()), "the store keeps its old view although etcd holds a snapshot: "+path+" — its next whole-snapshot write then erases what other brokers created")
				}
			}
		}
		if n == 0 {
			r.unresolved("C21.S4", "refreshSnapshot success returns", "none found")
		}
	}
	r.rule("C21.S3", "mergeSnapshots compares len(Partitions) of both sides for a topic present in both and only ever installs the longer list", 2)

	mutators := map[string]bool{"CreateTopic": true, "CreatePartitions": true, "DeleteTopic": true}
	targets := []string{"(*" + pkgMetadata + ".InMemoryStore).CreateTopic", "(*" + pkgMetadata + ".InMemoryStore).CreatePartitions",
		"(*" + pkgMetadata + ".InMemoryStore).DeleteTopic", "(*" + pkgMetadata + ".InMemoryStore).Update"}
	nS1 := 0
	for _, fn := range m.FuncsInPkg(pkgMetadata) {
		top := fn
		for top.Parent() != nil {
			top = top.Parent()
		}
		if top.Signature.Recv() == nil || !strings.HasSuffix(top.Signature.Recv().Type().String(), "metadata.EtcdStore") {
			continue
		}
		fl := computeLocks(fn, lockSet{})
		for _, call := range findCalls(fn, targets...) {
			nS1++
			r.fn(fn)
			r.CallSites++
			name := calleeName(call.Common())
			short := name[strings.LastIndex(name, ".")+1:]
			held := fl.heldAt(call)
			isHeld := false
			for k := range held {
				if k.mu == tEtcdStore+".persistMu" {
					isHeld = true
				}
			}
			key := fmt.Sprintf("%s → metadata.%s under persistMu", fn.Name(), short)
			if isHeld {
				r.ok("C21.S1", key, m.Pos(call.Pos()), "")
			} else if okc, why := callersHold(m, fn, tEtcdStore+".persistMu"); okc {
				r.ok("C21.S1", key, m.Pos(call.Pos()), "lock held by every caller: "+why)
			} else {
				r.viol("C21.S1", key, m.Pos(call.Pos()), "in-memory topic state is changed without persistMu: a concurrent refreshSnapshot/persist can interleave ("+why+")")
			}
			if !mutators[short] {
				continue
			}
			okB, _ := errEdges(call)
			key = fmt.Sprintf("%s persists after metadata.%s", fn.Name(), short)
			if okB == nil {
				r.undecided("C21.S1", key, m.Pos(call.Pos()), "error check of the mutation not found")
				continue
			}
			found, tgt, path := search(SearchSpec{Start: Loc{okB, 0},
				Target: func(in ssa.Instruction) bool {
					ret, ok := in.(*ssa.Return)
					if !ok {
						return false
					}
					return alwaysNil(ret.Results[len(ret.Results)-1])
				},
				Blocker: func(in ssa.Instruction) bool {
					return isCallTo(in, "(*"+pkgMetadata+".EtcdStore).persistSnapshotLocked")
				}})
			if found {
				r.viol("C21.S1", key, m.Pos(tgt.Pos()), "success return reachable after the mutation without persisting the snapshot: "+renderPath(m, path))
			} else {
				r.ok("C21.S1", key, m.Pos(call.Pos()), "")
			}
		}
	}
	if nS1 == 0 {
		r.unresolved("C21.S1", "EtcdStore → InMemoryStore mutations", "none found")
	}

	// ---- S2
	n := 0
	for _, fn := range m.FuncsInPkg(pkgMetadata) {
		n += etcdConditionalWrites(m, r, "C21.S2", fn, []string{pkgMetadata + ".snapshotKey"}, "snapshot key")
	}
	for _, fn := range m.FuncsInPkg(pkgOperator) {
		n += etcdConditionalWrites(m, r, "C21.S2", fn, []string{"=/kafscale/metadata/snapshot"}, "snapshot key")
	}
	if n < 2 {
		r.unresolved("C21.S2", "snapshot key writes", fmt.Sprintf("found %d, expected broker and operator writers", n))
	}

	// ---- S3
	if ms := needFn(m, r, "C21.S3", pkgOperator, "mergeSnapshots"); ms != nil {
		isLenParts := func(v ssa.Value) bool {
			lc, ok := strip(v).(*ssa.Call)
			if !ok || calleeName(&lc.Call) != "builtin.len" {
				return false
			}
			return dependsOnField(lc.Call.Args[0], "", "Partitions")
		}
		cmp := false
		for _, b := range ms.Blocks {
			for _, in := range b.Instrs {
				if bo, ok := in.(*ssa.BinOp); ok {
					switch bo.Op {
					case token.GTR, token.LSS, token.GEQ, token.LEQ:
						if isLenParts(bo.X) && isLenParts(bo.Y) {
							cmp = true
						}
					}
				}
			}
		}
		// the list written for a topic present on both sides is the longer one: every store into a
		// Partitions field is guarded by len(<stored list>) > len(<other list>) (either spelling)
		lenArg := func(v ssa.Value) (ssa.Value, bool) {
			lc, ok := strip(v).(*ssa.Call)
			if !ok || calleeName(&lc.Call) != "builtin.len" {
				return nil, false
			}
			return lc.Call.Args[0], true
		}
		nStores := 0
		for _, b := range ms.Blocks {
			for _, in := range b.Instrs {
				st, ok := in.(*ssa.Store)
				if !ok {
					continue
				}
				fa, ok := st.Addr.(*ssa.FieldAddr)
				if !ok {
					continue
				}
				if _, f, _, ok := fieldAddrInfo(fa); !ok || f != "Partitions" {
					continue
				}
				nStores++
				want := describe(st.Val)
				g := Guard{cl(atomFn("len(stored) > len(other)", func(l Lit) bool {
					gt, lt := l.X, l.Y
					switch l.Op {
					case token.GTR:
					case token.LSS:
						gt, lt = l.Y, l.X
					default:
						return false
					}
					a, ok1 := lenArg(gt)
					b2, ok2 := lenArg(lt)
					return ok1 && ok2 && isLenParts(gt) && isLenParts(lt) && describe(a) == want && describe(b2) != want
				}))}
				guardVerdict(m, r, "C21.S3", "mergeSnapshots replaces a partition list only by a longer one", ms, st, g)
			}
		}
		if cmp && nStores > 0 {
			r.ok("C21.S3", "mergeSnapshots keeps the longer partition list", m.Pos(ms.Pos()), "partition counts of both sides are compared")
		} else {
			r.viol("C21.S3", "mergeSnapshots keeps the longer partition list", m.Pos(ms.Pos()), "a topic present on both sides is taken from the resource definition without comparing partition counts: a grown topic shrinks on the next reconcile")
		}
	}
}

// callersHold: every call site of fn (static, in module) holds the mutex `mu` (type-level name).
func callersHold(m *Module, fn *ssa.Function, mu string) (bool, string) {
	sites := callersOf(m, funcName(fn))
	if len(sites) == 0 {
		return false, "no caller holds it"
	}
	for _, cs := range sites {
		if _, isGo := cs.in.(*ssa.Go); isGo {
			return false, "started as goroutine at " + m.Pos(cs.in.Pos())
		}
		held := computeLocks(cs.caller, lockSet{}).heldAt(cs.in)
		ok := false
		for k := range held {
			if k.mu == mu {
				ok = true
			}
		}
		if !ok {
			if ok2, _ := callersHold(m, cs.caller, mu); !ok2 {
				return false, "not held at " + m.Pos(cs.in.Pos())
			}
		}
	}
	return true, fmt.Sprintf("%d call sites", len(sites))
}
