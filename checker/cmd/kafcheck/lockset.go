package main

import (
	"fmt"
	"go/token"
	"go/types"
	"sort"
	"strings"

	"golang.org/x/tools/go/ssa"
)

// E7 lockset: a forward must-lockset over SSA. For the structs in the guard table every access to a
// guarded field must happen with the struct's mutex held, except on an object that has not been
// published yet (constructor / init phase), or in helpers whose every caller holds the lock.

type guardSpec struct {
	Pkg    string
	Type   string
	Mutex  string
	Fields []string
	// SyncCallers: callee names that run a function argument synchronously (closure inherits locks).
}

var syncCallbackCallees = []string{"sort.Slice", "sort.SliceStable", "sort.Search", "slices.SortFunc", "slices.SortStableFunc", "slices.IndexFunc", "slices.ContainsFunc"}

type lockKey struct {
	base ssa.Value
	mu   string // "pkg.Type.field"
}

type lockSet map[lockKey]int // 1 = read-held, 2 = write-held

func (s lockSet) clone() lockSet {
	o := lockSet{}
	for k, v := range s {
		o[k] = v
	}
	return o
}

func meet(a, b lockSet) lockSet {
	o := lockSet{}
	for k, v := range a {
		if w, ok := b[k]; ok {
			if w < v {
				v = w
			}
			o[k] = v
		}
	}
	return o
}

func sameSet(a, b lockSet) bool {
	if len(a) != len(b) {
		return false
	}
	for k, v := range a {
		if b[k] != v {
			return false
		}
	}
	return true
}

// canonBase maps a pointer value to a canonical representative so that two loads of the same
// captured variable / spilled local denote the same object.
func canonBase(v ssa.Value) ssa.Value {
	v = strip(v)
	if u, ok := v.(*ssa.UnOp); ok && u.Op == token.MUL {
		switch x := u.X.(type) {
		case *ssa.FreeVar, *ssa.Global:
			return x
		case *ssa.Alloc:
			return x
		}
	}
	return v
}

// lockOp classifies a call as a lock operation on `&base.mu`.
func lockOp(in ssa.Instruction) (key lockKey, acquire bool, mode int, ok bool) {
	c, isCall := in.(*ssa.Call)
	if !isCall {
		return
	}
	n := calleeName(&c.Call)
	switch n {
	case "(*sync.Mutex).Lock", "(*sync.RWMutex).Lock":
		acquire, mode = true, 2
	case "(*sync.RWMutex).RLock":
		acquire, mode = true, 1
	case "(*sync.Mutex).Unlock", "(*sync.RWMutex).Unlock", "(*sync.RWMutex).RUnlock":
		acquire = false
	default:
		return
	}
	if len(c.Call.Args) == 0 {
		return
	}
	fa, isFA := c.Call.Args[0].(*ssa.FieldAddr)
	if !isFA {
		return
	}
	t, f, b, ok2 := fieldAddrInfo(fa)
	if !ok2 {
		return
	}
	return lockKey{canonBase(b), t + "." + f}, acquire, mode, true
}

// fnLocks holds the per-block entry lock sets of one function.
type fnLocks struct {
	fn    *ssa.Function
	entry map[*ssa.BasicBlock]lockSet
}

func computeLocks(fn *ssa.Function, init lockSet) *fnLocks {
	fl := &fnLocks{fn: fn, entry: map[*ssa.BasicBlock]lockSet{}}
	if len(fn.Blocks) == 0 {
		return fl
	}
	out := map[*ssa.BasicBlock]lockSet{}
	fl.entry[fn.Blocks[0]] = init.clone()
	changed := true
	for iter := 0; changed && iter < 200; iter++ {
		changed = false
		for _, b := range fn.Blocks {
			var in lockSet
			if b == fn.Blocks[0] {
				in = init.clone()
			} else {
				first := true
				for _, p := range b.Preds {
					po, ok := out[p]
					if !ok {
						continue // not yet computed: optimistic (top)
					}
					if first {
						in = po.clone()
						first = false
					} else {
						in = meet(in, po)
					}
				}
				if first {
					continue
				}
			}
			cur := in.clone()
			for _, ins := range b.Instrs {
				if k, acq, mode, ok := lockOp(ins); ok {
					if acq {
						cur[k] = mode
					} else {
						delete(cur, k)
					}
				}
			}
			if old, ok := fl.entry[b]; !ok || !sameSet(old, in) {
				fl.entry[b] = in
				changed = true
			}
			if old, ok := out[b]; !ok || !sameSet(old, cur) {
				out[b] = cur
				changed = true
			}
		}
	}
	return fl
}

// heldAt returns the lock set immediately before instruction `at`.
func (fl *fnLocks) heldAt(at ssa.Instruction) lockSet {
	b := at.Block()
	cur := fl.entry[b].clone()
	for _, ins := range b.Instrs {
		if ins == at {
			break
		}
		if k, acq, mode, ok := lockOp(ins); ok {
			if acq {
				cur[k] = mode
			} else {
				delete(cur, k)
			}
		}
	}
	return cur
}

type lsAccess struct {
	fn    *ssa.Function
	in    ssa.Instruction
	spec  *guardSpec
	field string
	base  ssa.Value
	write bool
}

// collectAccesses finds every FieldAddr/Field on a guarded field.
func collectAccesses(m *Module, specs []guardSpec) []lsAccess {
	var out []lsAccess
	for _, fn := range m.AllFuncs {
		for _, b := range fn.Blocks {
			for _, in := range b.Instrs {
				fa, ok := in.(*ssa.FieldAddr)
				if !ok {
					continue
				}
				t, f, base, ok := fieldAddrInfo(fa)
				if !ok {
					continue
				}
				for si := range specs {
					sp := &specs[si]
					if t != sp.Pkg+"."+sp.Type {
						continue
					}
					hit := false
					for _, gf := range sp.Fields {
						if gf == f {
							hit = true
						}
					}
					if !hit {
						continue
					}
					out = append(out, lsAccess{fn: fn, in: in, spec: sp, field: f, base: base, write: faIsWrite(fa)})
				}
			}
		}
	}
	return out
}

func faIsWrite(fa *ssa.FieldAddr) bool {
	if fa.Referrers() == nil {
		return false
	}
	for _, r := range *fa.Referrers() {
		switch x := r.(type) {
		case *ssa.Store:
			if x.Addr == fa {
				return true
			}
		case *ssa.UnOp:
			// load: a write if the loaded map/slice is then mutated
			if x.Referrers() != nil {
				for _, rr := range *x.Referrers() {
					switch y := rr.(type) {
					case *ssa.MapUpdate:
						if y.Map == x {
							return true
						}
					case *ssa.Call:
						if b, ok := y.Call.Value.(*ssa.Builtin); ok && (b.Name() == "delete" || b.Name() == "clear") {
							return true
						}
					case *ssa.IndexAddr:
						if y.Referrers() != nil {
							for _, r3 := range *y.Referrers() {
								if st, ok := r3.(*ssa.Store); ok && st.Addr == y {
									return true
								}
							}
						}
					}
				}
			}
		case *ssa.DebugRef:
		default:
			return true // address escapes
		}
	}
	return false
}

// isFresh: the object denoted by base was allocated in this function (or returned by a constructor
// call in this function) and is therefore not shared until published.
func isFresh(m *Module, base ssa.Value, typ string) (bool, ssa.Value) {
	for _, o := range origins(base) {
		switch x := o.(type) {
		case *ssa.Alloc:
			continue
		case *ssa.Call:
			if f, _ := calleeOf(&x.Call); f != nil && returnsFresh(f) {
				continue
			}
			return false, o
		default:
			return false, o
		}
	}
	return true, nil
}

// returnsFresh: every return value #0 of f is an allocation made in f.
func returnsFresh(f *ssa.Function) bool {
	if f.Blocks == nil {
		return false
	}
	n := 0
	for _, b := range f.Blocks {
		for _, in := range b.Instrs {
			ret, ok := in.(*ssa.Return)
			if !ok || len(ret.Results) == 0 {
				continue
			}
			for _, o := range origins(ret.Results[0]) {
				if _, ok := o.(*ssa.Alloc); !ok {
					return false
				}
				n++
			}
		}
	}
	return n > 0
}

// publishedBefore: can the object (value v defined in fn) have been stored to the heap, captured
// by a closure or handed to a goroutine on some path that later reaches `site`?
func publishedBefore(v ssa.Value, site ssa.Instruction) (bool, ssa.Instruction) {
	vals := map[ssa.Value]bool{}
	for _, o := range origins(v) {
		vals[o] = true
	}
	vals[strip(v)] = true
	fn := site.Parent()
	for _, b := range fn.Blocks {
		for i, in := range b.Instrs {
			pub := false
			switch x := in.(type) {
			case *ssa.Store:
				if vals[strip(x.Val)] {
					if _, local := x.Addr.(*ssa.Alloc); !local {
						pub = true
					}
				}
			case *ssa.MapUpdate:
				if vals[strip(x.Value)] {
					pub = true
				}
			case *ssa.Go:
				for _, a := range x.Call.Args {
					if vals[strip(a)] {
						pub = true
					}
				}
			case *ssa.MakeClosure:
				for _, a := range x.Bindings {
					if vals[strip(a)] {
						pub = true
					}
				}
			}
			if !pub || in == site {
				continue
			}
			if found, _, _ := search(SearchSpec{Start: Loc{b, i + 1}, Target: func(t ssa.Instruction) bool { return t == site }}); found {
				return true, in
			}
		}
	}
	return false, nil
}

type callSite struct {
	caller *ssa.Function
	in     ssa.CallInstruction
}

func buildCallers(m *Module) (map[*ssa.Function][]callSite, map[*ssa.Function]bool) {
	callers := map[*ssa.Function][]callSite{}
	addrTaken := map[*ssa.Function]bool{}
	for _, fn := range m.AllFuncs {
		for _, b := range fn.Blocks {
			for _, in := range b.Instrs {
				if ci, ok := in.(ssa.CallInstruction); ok {
					if f, _ := calleeOf(ci.Common()); f != nil {
						callers[f] = append(callers[f], callSite{fn, ci})
					}
				}
				// function values used other than as callee
				var ops []*ssa.Value
				for _, op := range in.Operands(ops) {
					if op == nil || *op == nil {
						continue
					}
					if f, ok := (*op).(*ssa.Function); ok {
						if ci, isCall := in.(ssa.CallInstruction); isCall && ci.Common().Value == ssa.Value(f) {
							continue
						}
						addrTaken[f] = true
					}
				}
			}
		}
	}
	return callers, addrTaken
}

// checkLockset runs rule `rule` for the given guard specs and records one result per
// (function, struct) pair.
func checkLockset(m *Module, r *Report, rule, doc string, specs []guardSpec, floor int) {
	r.rule(rule, doc, floor)
	accs := collectAccesses(m, specs)
	locks := map[*ssa.Function]*fnLocks{}
	getLocks := func(fn *ssa.Function) *fnLocks {
		if l, ok := locks[fn]; ok {
			return l
		}
		l := computeLocks(fn, lockSet{})
		locks[fn] = l
		return l
	}
	callers, addrTaken := buildCallers(m)

	type verdict struct {
		ok     bool
		detail []string
		pos    string
		n      int
	}
	verdicts := map[string]*verdict{}
	note := func(fn *ssa.Function, sp *guardSpec, pos token.Pos, ok bool, detail string) {
		key := fmt.Sprintf("%s.%s fields in %s", sp.Type, sp.Mutex, funcName(fn))
		v := verdicts[key]
		if v == nil {
			v = &verdict{ok: true, pos: m.Pos(pos)}
			verdicts[key] = v
		}
		v.n++
		if !ok {
			v.ok = false
			v.detail = append(v.detail, detail)
		} else if len(v.detail) < 3 && detail != "" {
			// keep a few notes
			found := false
			for _, d := range v.detail {
				if d == detail {
					found = true
				}
			}
			if !found && v.ok {
				v.detail = append(v.detail, detail)
			}
		}
	}

	// requirement propagation: fn needs (param index, mutex) held by callers
	type req struct {
		fn    *ssa.Function
		param int
		mu    string
		sp    *guardSpec
		write bool
		why   string
	}
	var work []req
	seenReq := map[string]bool{}
	pushReq := func(q req) {
		k := fmt.Sprintf("%p/%d/%s/%v", q.fn, q.param, q.mu, q.write)
		if seenReq[k] {
			return
		}
		seenReq[k] = true
		work = append(work, q)
	}
	paramIndex := func(fn *ssa.Function, v ssa.Value) int {
		v = strip(v)
		for i, p := range fn.Params {
			if ssa.Value(p) == v {
				return i
			}
		}
		return -1
	}

	// classify decides what to do with an access/call-site that is not locally protected.
	var classify func(fn *ssa.Function, at ssa.Instruction, base ssa.Value, sp *guardSpec, write bool, what string)
	classify = func(fn *ssa.Function, at ssa.Instruction, base ssa.Value, sp *guardSpec, write bool, what string) {
		mu := sp.Pkg + "." + sp.Type + "." + sp.Mutex
		held := getLocks(fn).heldAt(at)
		if mode, ok := held[lockKey{canonBase(base), mu}]; ok && (mode == 2 || !write) {
			note(fn, sp, at.Pos(), true, "")
			return
		} else if ok && write {
			note(fn, sp, at.Pos(), false, fmt.Sprintf("%s at %s: write with only the read lock held", what, m.Pos(at.Pos())))
			return
		}
		// not held locally
		if fresh, _ := isFresh(m, base, sp.Type); fresh {
			if pub, by := publishedBefore(base, at); pub {
				note(fn, sp, at.Pos(), false, fmt.Sprintf("%s at %s without %s: object already published at %s", what, m.Pos(at.Pos()), sp.Mutex, m.Pos(by.Pos())))
			} else {
				note(fn, sp, at.Pos(), true, "object not yet published (constructor / init phase)")
			}
			return
		}
		if i := paramIndex(fn, base); i >= 0 && fn.Parent() == nil {
			pushReq(req{fn, i, mu, sp, write, what})
			note(fn, sp, at.Pos(), true, "caller-must-hold (verified at call sites)")
			return
		}
		// closure: base loaded from a free variable
		if fv, ok := canonBase(base).(*ssa.FreeVar); ok && fn.Parent() != nil {
			if okc, why := closureInheritsLock(m, fn, fv, mu, write, getLocks); okc {
				note(fn, sp, at.Pos(), true, why)
				return
			} else {
				note(fn, sp, at.Pos(), false, fmt.Sprintf("%s at %s without %s held in closure: %s", what, m.Pos(at.Pos()), sp.Mutex, why))
				return
			}
		}
		note(fn, sp, at.Pos(), false, fmt.Sprintf("%s at %s without %s held (base %s)", what, m.Pos(at.Pos()), sp.Mutex, describe(base)))
	}

	for _, a := range accs {
		r.fn(a.fn)
		kind := "read"
		if a.write {
			kind = "write"
		}
		classify(a.fn, a.in, a.base, a.spec, a.write, kind+" of "+a.spec.Type+"."+a.field)
	}
	for len(work) > 0 {
		q := work[0]
		work = work[1:]
		sites := callers[q.fn]
		if addrTaken[q.fn] {
			note(q.fn, q.sp, q.fn.Pos(), false, fmt.Sprintf("%s requires %s held by its caller but is used as a function value", funcName(q.fn), q.sp.Mutex))
		}
		if len(sites) == 0 {
			exported := q.fn.Object() != nil && q.fn.Object().Exported()
			if exported {
				note(q.fn, q.sp, q.fn.Pos(), false, fmt.Sprintf("exported %s performs %s without %s and has no in-repo caller holding it", funcName(q.fn), q.why, q.sp.Mutex))
			}
			continue
		}
		for _, cs := range sites {
			r.CallSites++
			args := cs.in.Common().Args
			if q.param >= len(args) {
				continue
			}
			if _, isGo := cs.in.(*ssa.Go); isGo {
				note(cs.caller, q.sp, cs.in.Pos(), false, fmt.Sprintf("go %s at %s: callee needs %s held", funcName(q.fn), m.Pos(cs.in.Pos()), q.sp.Mutex))
				continue
			}
			if _, isDefer := cs.in.(*ssa.Defer); isDefer {
				note(cs.caller, q.sp, cs.in.Pos(), false, fmt.Sprintf("defer %s at %s: callee needs %s held", funcName(q.fn), m.Pos(cs.in.Pos()), q.sp.Mutex))
				continue
			}
			classify(cs.caller, cs.in, args[q.param], q.sp, q.write, "call of "+funcName(q.fn)+" (needs "+q.sp.Mutex+")")
		}
	}
	keys := make([]string, 0, len(verdicts))
	for k := range verdicts {
		keys = append(keys, k)
	}
	sort.Strings(keys)
	for _, k := range keys {
		v := verdicts[k]
		d := fmt.Sprintf("%d accesses/calls checked", v.n)
		if len(v.detail) > 0 {
			d += ": " + strings.Join(v.detail, "; ")
		}
		if v.ok {
			r.ok(rule, k, v.pos, d)
		} else {
			r.viol(rule, k, v.pos, d)
		}
	}
}

// closureInheritsLock: the closure `fn` is created in its parent and only ever passed to a
// synchronous callback runner (sort.Slice …) at a point where the lock on the captured object is held.
func closureInheritsLock(m *Module, fn *ssa.Function, fv *ssa.FreeVar, mu string, write bool, getLocks func(*ssa.Function) *fnLocks) (bool, string) {
	parent := fn.Parent()
	idx := -1
	for i, f := range fn.FreeVars {
		if f == fv {
			idx = i
		}
	}
	if idx < 0 {
		return false, "free variable not found"
	}
	found := false
	for _, b := range parent.Blocks {
		for _, in := range b.Instrs {
			mc, ok := in.(*ssa.MakeClosure)
			if !ok || mc.Fn != ssa.Value(fn) {
				continue
			}
			found = true
			bound := mc.Bindings[idx]
			if mc.Referrers() == nil {
				return false, "closure unused"
			}
			for _, ref := range *mc.Referrers() {
				ci, ok := ref.(*ssa.Call)
				if !ok {
					if _, dbg := ref.(*ssa.DebugRef); dbg {
						continue
					}
					return false, "closure escapes via " + ref.String()
				}
				if !nameMatches(calleeName(&ci.Call), syncCallbackCallees...) && ci.Call.Value != ssa.Value(mc) {
					return false, "closure passed to " + calleeName(&ci.Call) + " (not a known synchronous runner)"
				}
				held := getLocks(parent).heldAt(ci)
				// the bound value is the address of the captured variable or the pointer itself
				mode, ok2 := held[lockKey{canonBase(bound), mu}]
				if !ok2 {
					// captured variable is a spilled local holding the pointer
					if a, isAlloc := bound.(*ssa.Alloc); isAlloc {
						mode, ok2 = held[lockKey{a, mu}]
					}
				}
				if !ok2 || (write && mode != 2) {
					return false, "closure run at " + m.Pos(ci.Pos()) + " without the lock held"
				}
			}
		}
	}
	if !found {
		return false, "closure creation not found"
	}
	return true, "closure runs synchronously under the parent's lock"
}

// lockOrderPairs returns type-level (held → acquired) pairs, including acquisitions made by static
// callees (transitively), for cycle detection.
func lockOrderPairs(m *Module, pkgs ...string) (pairs map[[2]string][]string) {
	pairs = map[[2]string][]string{}
	inPkg := func(fn *ssa.Function) bool {
		p := fnPkg(fn)
		if p == nil {
			return false
		}
		for _, q := range pkgs {
			if p.Path() == q {
				return true
			}
		}
		return false
	}
	// direct acquisitions per function
	acq := map[*ssa.Function]map[string]bool{}
	var fns []*ssa.Function
	for _, fn := range m.AllFuncs {
		if !inPkg(fn) {
			continue
		}
		fns = append(fns, fn)
		acq[fn] = map[string]bool{}
		for _, b := range fn.Blocks {
			for _, in := range b.Instrs {
				if k, a, _, ok := lockOp(in); ok && a {
					acq[fn][k.mu] = true
				}
			}
		}
	}
	// transitive closure over static calls (not go statements)
	for changed := true; changed; {
		changed = false
		for _, fn := range fns {
			for _, b := range fn.Blocks {
				for _, in := range b.Instrs {
					c, ok := in.(*ssa.Call)
					if !ok {
						continue
					}
					if f, _ := calleeOf(&c.Call); f != nil && acq[f] != nil {
						for mu := range acq[f] {
							if !acq[fn][mu] {
								acq[fn][mu] = true
								changed = true
							}
						}
					}
				}
			}
		}
	}
	for _, fn := range fns {
		fl := computeLocks(fn, lockSet{})
		for _, b := range fn.Blocks {
			for _, in := range b.Instrs {
				var acquired []string
				if k, a, _, ok := lockOp(in); ok && a {
					acquired = []string{k.mu}
				} else if c, ok := in.(*ssa.Call); ok {
					if f, _ := calleeOf(&c.Call); f != nil {
						for mu := range acq[f] {
							acquired = append(acquired, mu)
						}
					}
				}
				if len(acquired) == 0 {
					continue
				}
				held := fl.heldAt(in)
				for hk := range held {
					for _, a := range acquired {
						if hk.mu == a {
							continue
						}
						p := [2]string{hk.mu, a}
						pairs[p] = append(pairs[p], funcName(fn)+"@"+m.Pos(in.Pos()))
					}
				}
			}
		}
	}
	return pairs
}

var _ = types.Identical
