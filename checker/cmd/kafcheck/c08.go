package main

import (
	"fmt"
	"go/token"
	"sort"
	"strings"

	"golang.org/x/tools/go/ssa"
)

func init() { register("C08", "other", checkC08) }

// allocOfType finds the local (Alloc) in fn whose pointee type string ends with suffix.
func allocsOfType(fn *ssa.Function, suffix string) []*ssa.Alloc {
	var out []*ssa.Alloc
	for _, b := range fn.Blocks {
		for _, in := range b.Instrs {
			if a, ok := in.(*ssa.Alloc); ok {
				if strings.HasSuffix(a.Type().String(), suffix) {
					out = append(out, a)
				}
			}
		}
	}
	return out
}

// errEdge finds the If that tests the error result of call c against nil and returns the
// successor block taken when err == nil (okBlock) and when err != nil (errBlock).
func errEdges(c ssa.CallInstruction) (okBlock, errBlock *ssa.BasicBlock) {
	fn := c.Parent()
	a := atomErrNil(calleeName(c.Common()))
	for _, b := range fn.Blocks {
		ifi, ok := b.Instrs[len(b.Instrs)-1].(*ssa.If)
		if !ok {
			continue
		}
		for si, truth := range []bool{true, false} {
			l := litOf(ifi.Cond, truth)
			if a.Match(l) {
				// make sure this literal is about this very call
				x := l.X
				if isNilConst(x) {
					x = l.Y
				}
				same := false
				for _, o := range origins(x) {
					if callOrigin(o) == c.(ssa.Value) {
						same = true
					}
				}
				if same {
					return b.Succs[si], b.Succs[1-si]
				}
			}
		}
	}
	return nil, nil
}

// alwaysNil: every origin of v (through phis and defer-spilled result slots) is the nil constant.
func alwaysNil(v ssa.Value) bool {
	os := origins(v)
	if len(os) == 0 {
		return false
	}
	for _, o := range os {
		if !isNilConst(o) {
			return false
		}
	}
	return true
}

func checkC08(c *Ctx, r *Report) {
	r.Explanation = "Decides four structural necessary conditions of 'restore copies an exact valid prefix or nothing': (R1) after every successful UploadSegment to the target, the key pair is registered in the rollback list before any return, with the same keys that were uploaded, and the deferred rollback deletes both the index and the segment of every registered pair; (R2) the commit flag is set exactly once, the success return is dominated by it and no error return is reachable after it; (R3) the first upload is preceded by the empty-target check; (R4) truncateRecordBatchToTimestamp rewrites exactly the header fields length, lastOffsetDelta, maxTimestamp, numRecords and crc, with the CRC written last and computed over [21:] of the same slice with the Castagnoli table. (R5) the scanner's 'finished' result is true only on paths that passed a `timestamp > cutoff` test — a batch kept whole, or holding no records, must not end the restore of the batches after it (the defect repaired by a6b81cf). It does not decide that the kept records are an exact prefix byte for byte."
	r.NotCovered = "that the kept records are an exact prefix; timestamp selection; behaviour when a rollback delete itself fails"
	m, err := c.Mod("root")
	if err != nil {
		r.unresolved("C08.load", "root module", err.Error())
		return
	}
	r.rule("C08.R1", "rollback registration: UploadSegment success → append to copiedObjects before any return; registered keys are the uploaded keys; deferred cleanup calls DeleteIndex and DeleteSegment per entry", 3)
	r.rule("C08.R2", "restoreCommitted=true has one writer that dominates the success return, and no error return is reachable after it", 2)
	r.rule("C08.R3", "UploadSegment is preceded by ListSegments(targetPrefix) and the '.kfs exists → error' return", 1)
	r.rule("C08.R4", "truncateRecordBatchToTimestamp patches exactly {8:12,23:27,35:43,57:61,17:21}; the CRC patch is last and covers truncated[21:] of the same slice", 2)
	r.rule("C08.R5", "the batch scanner reports 'finished' only after a record (or a batch's first timestamp) later than the cutoff was seen", 1)
	checkC08Done(m, r)
	r.rule("C08.R7", "the record scan that places the cut decodes signed varints correctly: every zigzag decode reachable from RecoverTopicToTimestamp builds an all-ones sign mask (a record stamped earlier than its batch's first timestamp has a negative delta)", 1)
	r.Explanation += " (R7) every zigzag varint decode reachable from RecoverTopicToTimestamp (call graph) builds its sign mask by negation or an arithmetic shift at full width, so negative timestamp deltas are not read as later than the cutoff."
	if rt := needFn(m, r, "C08.R7", pkgStorage, "RecoverTopicToTimestamp"); rt != nil {
		var fns []*ssa.Function
		for f := range reachFrom(m, []*ssa.Function{rt}) {
			fns = append(fns, f)
		}
		sort.Slice(fns, func(i, j int) bool { return funcName(fns[i]) < funcName(fns[j]) })
		if checkZigzagMasks(m, r, "C08.R7", fns) == 0 {
			r.unresolved("C08.R7", "zigzag decoders on the restore path", "none reachable from RecoverTopicToTimestamp")
		}
	}
	r.rule("C08.R6", "the last candidate segment is always rebuilt from the scan: every plan buildRestorePlan returns carries bytes produced by BuildSegment over collectRecoverableBatches' result, never the source segment's own bytes", 2)
	if bp := needFn(m, r, "C08.R6", pkgStorage, "buildRestorePlan"); bp != nil {
		n := 0
		for _, fld := range []string{"segmentBytes", "indexBytes"} {
			for _, st := range storesToField(bp, "storage.segmentRestorePlan", fld) {
				n++
				key := fmt.Sprintf("buildRestorePlan: plan.%s #%d comes from the rebuilt artifact", fld, n)
				fromBuild, fromParam, viaScan := false, "", false
				backSlice(st.Val, false, func(v ssa.Value) {
					switch x := v.(type) {
					case *ssa.Parameter:
						fromParam = x.Name()
					case *ssa.Call:
						if nameMatches(calleeName(&x.Call), pkgStorage+".BuildSegment") {
							fromBuild = true
							if len(x.Call.Args) >= 2 && anyOrigin(x.Call.Args[1], vmCall(pkgStorage+".collectRecoverableBatches")) {
								viaScan = true
							}
						}
					}
				})
				switch {
				case fromParam != "":
					r.viol("C08.R6", key, m.Pos(st.Pos()), "the plan reuses the source object ("+fromParam+") without the cut at the first record later than the cutoff")
				case !fromBuild || !viaScan:
					r.viol("C08.R6", key, m.Pos(st.Pos()), "value is "+describe(st.Val)+", not a field of BuildSegment(collectRecoverableBatches(…))")
				default:
					r.ok("C08.R6", key, m.Pos(st.Pos()), "")
				}
			}
		}
		if n == 0 {
			r.unresolved("C08.R6", "buildRestorePlan: plan bytes", "no store to segmentRestorePlan.segmentBytes / indexBytes")
		}
	}

	fn := needFn(m, r, "C08.R1", pkgStorage, "RecoverTopicToTimestamp")
	if fn != nil {
		lists := allocsOfType(fn, "[]"+pkgStorage+".copiedObject")
		ups := findCalls(fn, "~S3Client).UploadSegment")
		upIdx := findCalls(fn, "~S3Client).UploadIndex")
		if len(lists) != 1 || len(ups) == 0 {
			r.unresolved("C08.R1", "copiedObjects list / UploadSegment", fmt.Sprintf("%d lists, %d uploads", len(lists), len(ups)))
		} else {
			list := lists[0]
			isRegister := func(in ssa.Instruction) bool {
				st, ok := in.(*ssa.Store)
				if !ok || st.Addr != ssa.Value(list) {
					return false
				}
				call, ok := st.Val.(*ssa.Call)
				return ok && calleeName(&call.Call) == "builtin.append"
			}
			for i, up := range ups {
				okB, _ := errEdges(up)
				key := fmt.Sprintf("UploadSegment #%d success is registered for rollback", i+1)
				if okB == nil {
					r.undecided("C08.R1", key, m.Pos(up.Pos()), "error check of UploadSegment not found")
					continue
				}
				found, _, path := search(SearchSpec{Start: Loc{okB, 0}, ExitIsTarget: true, Blocker: isRegister})
				if found {
					r.viol("C08.R1", key, m.Pos(up.Pos()), "a return is reachable after a successful segment upload before the object is added to copiedObjects: "+renderPath(m, path))
				} else {
					r.ok("C08.R1", key, m.Pos(up.Pos()), "every path registers the pair before returning")
				}
				// also: no other fallible call between the upload and the registration
				found2, tgt, _ := search(SearchSpec{Start: Loc{okB, 0}, Blocker: isRegister, Target: func(in ssa.Instruction) bool {
					return isCallTo(in, "~S3Client).UploadIndex", "~S3Client).DownloadSegment", "~S3Client).DownloadIndex")
				}})
				if found2 {
					r.viol("C08.R1", fmt.Sprintf("UploadSegment #%d registered before further S3 calls", i+1), m.Pos(tgt.Pos()), "an S3 call runs between the upload and its rollback registration")
				} else {
					r.ok("C08.R1", fmt.Sprintf("UploadSegment #%d registered before further S3 calls", i+1), m.Pos(up.Pos()), "")
				}
			}
			// registered keys = uploaded keys
			for _, site := range appendSites(fn, "storage.copiedObject") {
				if site.Alloc == nil {
					continue
				}
				fs := fieldStores(site.Alloc)
				okKeys := true
				why := ""
				if len(fs["segmentKey"]) != 1 || len(ups) == 0 || strip(fs["segmentKey"][0].Val) != strip(ups[0].Common().Args[1]) {
					okKeys = false
					why += "segmentKey is not the key given to UploadSegment; "
				}
				if len(fs["indexKey"]) != 1 || len(upIdx) == 0 || strip(fs["indexKey"][0].Val) != strip(upIdx[0].Common().Args[1]) {
					okKeys = false
					why += "indexKey is not the key given to UploadIndex"
				}
				if okKeys {
					r.ok("C08.R1", "registered keys are the uploaded keys", m.Pos(site.Call.Pos()), "")
				} else {
					r.viol("C08.R1", "registered keys are the uploaded keys", m.Pos(site.Call.Pos()), why)
				}
			}
			// deferred cleanup
			var cleanup *ssa.Function
			for _, d := range callsIn(fn) {
				if df, ok := d.(*ssa.Defer); ok {
					if mc, ok := df.Call.Value.(*ssa.MakeClosure); ok {
						for _, b := range mc.Bindings {
							if b == ssa.Value(list) {
								cleanup = mc.Fn.(*ssa.Function)
							}
						}
					}
				}
			}
			if cleanup == nil {
				r.viol("C08.R1", "deferred rollback over copiedObjects", m.Pos(fn.Pos()), "no deferred closure captures copiedObjects")
			} else {
				r.fn(cleanup)
				var miss []string
				for _, del := range []string{"DeleteIndex", "DeleteSegment"} {
					okd := false
					for _, dc := range findCalls(cleanup, "~S3Client)."+del) {
						if inLoop(dc.Block()) {
							okd = true
						}
					}
					if !okd {
						miss = append(miss, del)
					}
				}
				// loop must not exit early: no Return/break reachable from inside the loop body other than loop exit – approximated by: no If inside loop blocks except the loop condition
				if len(miss) == 0 {
					r.ok("C08.R1", "deferred rollback deletes index and segment of every entry", m.Pos(cleanup.Pos()), "")
				} else {
					r.viol("C08.R1", "deferred rollback deletes index and segment of every entry", m.Pos(cleanup.Pos()), "missing in loop: "+strings.Join(miss, ","))
				}
			}
		}

		// ---- R2
		flags := allocsOfType(fn, "*bool")
		var flag *ssa.Alloc
		for _, a := range flags {
			if a.Comment == "restoreCommitted" {
				flag = a
			}
		}
		if flag == nil {
			r.unresolved("C08.R2", "restoreCommitted flag", "local not found")
		} else {
			var trues []*ssa.Store
			for _, ref := range *flag.Referrers() {
				if st, ok := ref.(*ssa.Store); ok && st.Addr == ssa.Value(flag) {
					if cst, ok := st.Val.(*ssa.Const); ok && cst.Value != nil && cst.Value.ExactString() == "true" {
						trues = append(trues, st)
					} else if !ok || cst.Value == nil || cst.Value.ExactString() != "false" {
						r.viol("C08.R2", "restoreCommitted writers", m.Pos(st.Pos()), "non-constant store to the commit flag")
					}
				}
			}
			if len(trues) != 1 {
				r.viol("C08.R2", "restoreCommitted set exactly once", m.Pos(fn.Pos()), fmt.Sprintf("%d stores of true", len(trues)))
			} else {
				t := trues[0]
				// no error return reachable after it; no fallible S3 call after it
				bad := ""
				for _, b := range fn.Blocks {
					for _, in := range b.Instrs {
						ret, ok := in.(*ssa.Return)
						if !ok || len(ret.Results) != 2 {
							continue
						}
						reach, _, _ := search(SearchSpec{Start: nextLoc(t), Target: func(x ssa.Instruction) bool { return x == in }})
						isErr := !alwaysNil(ret.Results[1])
						if reach && isErr {
							bad = "error return at " + m.Pos(ret.Pos()) + " reachable after the commit flag is set"
						}
						if !isErr && !alwaysNil(ret.Results[0]) {
							if okd, path := mustPassBefore(m, fn, ret, func(x ssa.Instruction) bool { return x == ssa.Instruction(t) }); !okd {
								bad = "success return at " + m.Pos(ret.Pos()) + " reachable without setting the commit flag (rollback would delete a successful restore): " + path
							}
						}
					}
				}
				if reach, tgt, _ := search(SearchSpec{Start: nextLoc(t), Target: func(x ssa.Instruction) bool { return isCallTo(x, "~S3Client).UploadSegment", "~S3Client).UploadIndex") }}); reach {
					bad = "upload at " + m.Pos(tgt.Pos()) + " can run after the commit flag is set"
				}
				if bad == "" {
					r.ok("C08.R2", "restoreCommitted set exactly once", m.Pos(t.Pos()), "dominates the success return; nothing fallible follows")
					r.ok("C08.R2", "no error return after commit", m.Pos(t.Pos()), "")
				} else {
					r.viol("C08.R2", "restoreCommitted set exactly once", m.Pos(t.Pos()), bad)
				}
			}
		}

		// ---- R3
		for i, up := range findCalls(fn, "~S3Client).UploadSegment") {
			isTargetList := func(in ssa.Instruction) bool {
				if !isCallTo(in, "~S3Client).ListSegments") {
					return false
				}
				return dependsOnField(callCommon(in).Args[1], pkgStorage+".TopicRecoveryConfig", "TargetTopic")
			}
			ok1, path := mustPassBefore(m, fn, up, isTargetList)
			// the ".kfs exists" error return
			hasReturn := false
			g := Guard{cl(atomBool("HasSuffix(obj.Key, .kfs) on the target listing", func(v ssa.Value) bool {
				hc, ok := v.(*ssa.Call)
				if !ok || calleeName(&hc.Call) != "strings.HasSuffix" {
					return false
				}
				// the tested key must come from the ListSegments(targetPrefix) result
				hit := false
				backSlice(hc.Call.Args[0], false, func(x ssa.Value) {
					if lc, ok := x.(*ssa.Call); ok && isTargetList(lc) {
						hit = true
					}
				})
				return hit
			}, true))}
			for _, b := range fn.Blocks {
				for _, in := range b.Instrs {
					if ret, ok := in.(*ssa.Return); ok && len(ret.Results) == 2 && !alwaysNil(ret.Results[1]) {
						for _, site := range returnSites(ret, 1) {
							if alwaysNil(site.Val) {
								continue
							}
							at := site.At
							if res := checkGuarded(m, fn, at, g); res.OK {
								if reach, _, _ := search(SearchSpec{Start: Loc{fn.Blocks[0], 0}, Target: func(x ssa.Instruction) bool { return x == at },
									Blocker: func(x ssa.Instruction) bool { return x == ssa.Instruction(up) }}); reach {
									hasReturn = true
								}
							}
						}
					}
				}
			}
			key := fmt.Sprintf("UploadSegment #%d after empty-target check", i+1)
			if ok1 && hasReturn {
				r.ok("C08.R3", key, m.Pos(up.Pos()), "ListSegments(target) dominates the upload; '.kfs exists' returns an error")
			} else if !ok1 {
				r.viol("C08.R3", key, m.Pos(up.Pos()), "upload reachable without listing the target prefix: "+path)
			} else {
				r.viol("C08.R3", key, m.Pos(up.Pos()), "no error return guarded by HasSuffix(key, \".kfs\") before the upload")
			}
		}
	}

	// ---- R4
	if tf := needFn(m, r, "C08.R4", pkgStorage, "truncateRecordBatchToTimestamp"); tf != nil {
		type patch struct {
			lo, hi int64
			call   ssa.CallInstruction
			base   ssa.Value
		}
		var patches []patch
		for _, call := range findCalls(tf, "(encoding/binary.bigEndian).PutUint16", "(encoding/binary.bigEndian).PutUint32", "(encoding/binary.bigEndian).PutUint64") {
			sl, ok := call.Common().Args[1].(*ssa.Slice)
			if !ok {
				continue
			}
			lo, hi, ok := relSlice(sl)
			if !ok {
				continue
			}
			patches = append(patches, patch{lo, hi, call, sl.X})
		}
		var got []string
		for _, p := range patches {
			got = append(got, fmt.Sprintf("%d:%d", p.lo, p.hi))
		}
		sort.Strings(got)
		want := []string{"17:21", "23:27", "35:43", "57:61", "8:12"}
		if strings.Join(got, ",") == strings.Join(want, ",") {
			r.ok("C08.R4", "patched header fields", m.Pos(tf.Pos()), strings.Join(got, ","))
		} else {
			r.viol("C08.R4", "patched header fields", m.Pos(tf.Pos()), "patches "+strings.Join(got, ",")+", expected "+strings.Join(want, ","))
		}
		for _, p := range patches {
			if p.lo != 17 {
				continue
			}
			bad := ""
			for _, q := range patches {
				if q.call != p.call && !instrDominates(q.call, p.call) {
					bad = fmt.Sprintf("patch of [%d:%d] does not precede the CRC patch", q.lo, q.hi)
				}
			}
			ck := callOrigin(p.call.Common().Args[2])
			if ck == nil || calleeName(&ck.Call) != "hash/crc32.Checksum" {
				bad = "CRC value is not crc32.Checksum(...)"
			} else {
				sl, ok := ck.Call.Args[0].(*ssa.Slice)
				lo := int64(-1)
				if ok && sl.Low != nil {
					lo, _ = constInt(sl.Low)
				}
				if !ok || lo != 21 || sl.High != nil || sl.X != p.base {
					bad = "CRC is not computed over [21:] of the slice being patched"
				}
			}
			if bad == "" {
				r.ok("C08.R4", "CRC patched last over [21:] of the same slice", m.Pos(p.call.Pos()), "")
			} else {
				r.viol("C08.R4", "CRC patched last over [21:] of the same slice", m.Pos(p.call.Pos()), bad)
			}
		}
	}
}

// checkC08Done: in truncateRecordBatchToTimestamp the third result (done) can be true only where a
// timestamp later than the cutoff has been compared on the way.
func checkC08Done(m *Module, r *Report) {
	fn := needFn(m, r, "C08.R5", pkgStorage, "truncateRecordBatchToTimestamp")
	if fn == nil {
		return
	}
	cutoff := ssa.Value(fn.Params[1])
	// a record's timestamp: the batch's first timestamp (header bytes 27:35), possibly plus a record
	// delta — not the header's max timestamp (35:43), which says nothing about an individual record
	isRecordTs := func(v ssa.Value) bool {
		first, max := false, false
		backSlice(v, true, func(w ssa.Value) {
			if sl, ok := w.(*ssa.Slice); ok && sl.Low != nil {
				if k, ok := constInt(sl.Low); ok {
					if k == 27 {
						first = true
					}
					if k == 35 {
						max = true
					}
				}
			}
		})
		return first && !max
	}
	// "kept != count" also proves that the record loop was left early: kept is a counter that is
	// incremented once per completed iteration in lockstep with the loop index, whose bound is count;
	// the only early exits of that loop are returns and the later-record break
	keptShort := func(l Lit) bool {
		if l.Op != token.NEQ {
			return false
		}
		for _, pair := range [][2]ssa.Value{{l.X, l.Y}, {l.Y, l.X}} {
			c, ok := strip(pair[0]).(*ssa.Phi)
			if !ok || len(c.Edges) != 2 {
				continue
			}
			hdr := c.Block()
			ifi, ok := hdr.Instrs[len(hdr.Instrs)-1].(*ssa.If)
			if !ok {
				continue
			}
			cond, ok := ifi.Cond.(*ssa.BinOp)
			if !ok || cond.Op != token.LSS || strip(cond.Y) != strip(pair[1]) {
				continue
			}
			idx, ok := strip(cond.X).(*ssa.Phi)
			if !ok || idx.Block() != hdr || len(idx.Edges) != 2 {
				continue
			}
			lock := true
			for i := range c.Edges {
				if !hdr.Dominates(hdr.Preds[i]) {
					// entry edge: both start at 0
					k1, ok1 := constInt(c.Edges[i])
					k2, ok2 := constInt(idx.Edges[i])
					if !ok1 || !ok2 || k1 != 0 || k2 != 0 {
						lock = false
					}
					continue
				}
				// back edge: both are phi + 1
				for _, pr := range [][2]ssa.Value{{c.Edges[i], c}, {idx.Edges[i], idx}} {
					bo, ok := strip(pr[0]).(*ssa.BinOp)
					if !ok || bo.Op != token.ADD || bo.X != pr[1] {
						lock = false
						continue
					}
					if one, ok := constInt(bo.Y); !ok || one != 1 {
						lock = false
					}
				}
			}
			if lock {
				return true
			}
		}
		return false
	}
	later := Guard{cl(atomFn("record timestamp > cutoff", func(l Lit) bool {
		switch l.Op {
		case token.GTR:
			return strip(l.Y) == cutoff && isRecordTs(l.X)
		case token.LSS:
			return strip(l.X) == cutoff && isRecordTs(l.Y)
		}
		return false
	}), atomFn("kept != count (loop left early)", keptShort))}
	n := 0
	var judge func(v ssa.Value, at ssa.Instruction, pred *ssa.BasicBlock, si int, depth int)
	seen := map[ssa.Value]bool{}
	judge = func(v ssa.Value, at ssa.Instruction, pred *ssa.BasicBlock, si int, depth int) {
		v = strip(v)
		if c, ok := v.(*ssa.Const); ok {
			if c.Value == nil || c.Value.String() != "true" {
				return
			}
			n++
			key := fmt.Sprintf("'finished' is reported true only after a later timestamp was seen [%d]", n)
			var res GuardResult
			pos := ""
			if pred != nil {
				res = edgeGuarded(m, fn, pred, si, later)
				pos = blockPosFull(m, pred)
			} else {
				res = checkGuarded(m, fn, at, later)
				pos = m.Pos(at.Pos())
			}
			if res.OK {
				r.ok("C08.R5", key, pos, "")
			} else {
				r.viol("C08.R5", key, pos, "the scan is declared finished on a path that met no record later than the cutoff — the batches after this one are dropped although they may hold records to restore: "+res.String())
			}
			return
		}
		if ph, ok := v.(*ssa.Phi); ok && !seen[ph] && depth < 8 {
			seen[ph] = true
			for i, e := range ph.Edges {
				p := ph.Block().Preds[i]
				idx := 0
				for j, sb := range p.Succs {
					if sb == ph.Block() {
						idx = j
					}
				}
				judge(e, at, p, idx, depth+1)
			}
			return
		}
		if _, ok := v.(*ssa.Phi); ok {
			return
		}
		// any other computed value: it must itself be a `> cutoff` comparison
		if bo, ok := v.(*ssa.BinOp); ok && ((bo.Op == token.GTR && strip(bo.Y) == cutoff && isRecordTs(bo.X)) || (bo.Op == token.LSS && strip(bo.X) == cutoff && isRecordTs(bo.Y))) {
			n++
			r.ok("C08.R5", fmt.Sprintf("'finished' is reported true only after a later timestamp was seen [%d]", n), m.Pos(bo.Pos()), "the result is the comparison itself")
			return
		}
		n++
		r.viol("C08.R5", fmt.Sprintf("'finished' is reported true only after a later timestamp was seen [%d]", n), m.Pos(at.Pos()), "the result is "+describe(v)+", which is not tied to a `timestamp > cutoff` test")
	}
	for _, b := range fn.Blocks {
		ret, ok := b.Instrs[len(b.Instrs)-1].(*ssa.Return)
		if !ok || len(ret.Results) < 3 {
			continue
		}
		for _, o := range []ssa.Value{ret.Results[2]} {
			// results are often spilled through a local when defers exist; origins resolves that
			vals := []ssa.Value{o}
			switch strip(o).(type) {
			case *ssa.Phi, *ssa.Const, *ssa.BinOp:
			default:
				if ov := origins(o); len(ov) > 0 {
					vals = ov
				}
			}
			for _, v := range vals {
				judge(v, ret, nil, 0, 0)
			}
		}
	}
	if n == 0 {
		r.unresolved("C08.R5", "truncateRecordBatchToTimestamp: 'finished' results", "no true result found")
	}
}
