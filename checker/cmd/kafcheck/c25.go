package main

import (
	"fmt"
	"go/constant"
	"go/token"
	"go/types"
	"sort"
	"strings"

	"golang.org/x/tools/go/ssa"
)

func init() { register("C25", "other", checkC25) }

const (
	tHealth  = pkgBrokerLib + ".S3HealthMonitor"
	fnStateM = "(*" + pkgBrokerLib + ".S3HealthMonitor).State"
)

// Kafka error codes whose exception class is retriable (protocol error table).
var kafkaRetriable = map[int64]string{
	1: "OFFSET_OUT_OF_RANGE?", // not retriable; placeholder never matched (see below)
}

func init() {
	kafkaRetriable = map[int64]string{
		3: "UNKNOWN_TOPIC_OR_PARTITION", 5: "LEADER_NOT_AVAILABLE", 6: "NOT_LEADER_OR_FOLLOWER", 7: "REQUEST_TIMED_OUT",
		8: "BROKER_NOT_AVAILABLE", 9: "REPLICA_NOT_AVAILABLE", 13: "NETWORK_EXCEPTION", 14: "COORDINATOR_LOAD_IN_PROGRESS",
		15: "COORDINATOR_NOT_AVAILABLE", 16: "NOT_COORDINATOR", 19: "NOT_ENOUGH_REPLICAS", 20: "NOT_ENOUGH_REPLICAS_AFTER_APPEND",
		56: "KAFKA_STORAGE_ERROR", 72: "LISTENER_NOT_FOUND", 75: "FENCED_LEADER_EPOCH?",
	}
	delete(kafkaRetriable, 75)
}

// stateConsts resolves the three S3HealthState constants to their values.
func stateConsts(m *Module) (map[string]string, bool) {
	p := m.ByPath[pkgBrokerLib]
	if p == nil {
		return nil, false
	}
	out := map[string]string{}
	for _, n := range []string{"S3StateHealthy", "S3StateDegraded", "S3StateUnavailable"} {
		c, ok := p.Types.Scope().Lookup(n).(*types.Const)
		if !ok {
			return nil, false
		}
		out[n] = c.Val().ExactString()
	}
	return out, true
}

// atomState: State() <op> <state constant>.
func atomState(name string, op token.Token, val string) Atom {
	return atomFn(name, func(l Lit) bool {
		if l.Op != op {
			return false
		}
		x, y := l.X, l.Y
		if _, ok := strip(x).(*ssa.Const); ok {
			x, y = y, x
		}
		k, ok := strip(y).(*ssa.Const)
		if !ok || k.Value == nil || k.Value.ExactString() != val {
			return false
		}
		return allOrigins(x, vmCall(fnStateM))
	})
}

func checkC25(c *Ctx, r *Report) {
	r.Explanation = "Decides structural necessary conditions of 'unhealthy S3 rejects produce and fetch with retriable backpressure errors, and the rating is monotone in error rate and latency': (R1) in handleProduce every path to PartitionLog.AppendBatch since the last evaluation of s3Health.State() has passed State()==Healthy, in handleFetch every path to PartitionLog.Read has passed State()!=Degraded and State()!=Unavailable, and the rejecting branch stores backpressureErrorCode() into the partition's ErrorCode before moving on; (R2) in recomputeLocked every branch that takes part in choosing the next state compares a metric (avgLatency / errorRate) with a configured threshold in the orientation metric >= threshold (or >), and at each such branch every state reachable on the true edge is at least as severe as every state reachable on the false edge — which makes the rating monotone in both metrics; (R3) State, Snapshot and RecordOperation call truncateLocked before recomputeLocked (only samples inside the window are rated), these are the only callers, and recomputeLocked reads nothing of the monitor but samples and cfg; (R4) the code backpressureErrorCode returns for the Degraded and the Unavailable state is a Kafka-retriable code (decision evaluation of its switch over the three state constants). R4 fails for Unavailable (UNKNOWN_SERVER_ERROR, -1, is fatal for Kafka clients): KNOWN-FINDING K7, pinned by two tests. The averages themselves are arithmetic and not decided."
	r.NotCovered = "the numeric value of the averages and of the window; the sortedness of samples by time that truncateLocked relies on"
	m, err := c.Mod("root")
	if err != nil {
		r.unresolved("C25.load", "root module", err.Error())
		return
	}
	r.rule("C25.R1", "append only under State()==Healthy, read only under State()∉{Degraded,Unavailable}; the rejecting branch answers backpressureErrorCode()", 4)
	r.rule("C25.R2", "rating decisions are metric >= threshold with worse states on the true edge (monotone decision diagram)", 4)
	r.rule("C25.R3", "truncate before recompute in every entry point; every reader of the rating recomputes first; recompute reads only samples and cfg", 7)
	r.rule("C25.R4", "backpressureErrorCode maps Degraded and Unavailable to Kafka-retriable codes", 2)

	sc, ok := stateConsts(m)
	if !ok {
		r.unresolved("C25.R1", "S3HealthState constants", "not found")
		return
	}
	healthy, degraded, unavailable := sc["S3StateHealthy"], sc["S3StateDegraded"], sc["S3StateUnavailable"]
	isHealthy := atomState("State()==Healthy", token.EQL, healthy)

	// ---- R1
	bpName := hPrefix + "backpressureErrorCode"
	rejectAnswers := func(fn *ssa.Function, key string) {
		// every If that compares State() with a constant: on the edge that means "not healthy" the
		// partition entry receives backpressureErrorCode() before the loop moves on / returns
		n := 0
		for _, b := range fn.Blocks {
			ifi, ok := b.Instrs[len(b.Instrs)-1].(*ssa.If)
			if !ok {
				continue
			}
			for si, truth := range []bool{true, false} {
				l := litOf(ifi.Cond, truth)
				bad := atomState("", token.NEQ, healthy).Match(l) || atomState("", token.EQL, degraded).Match(l) || atomState("", token.EQL, unavailable).Match(l)
				if !bad {
					continue
				}
				// only decision points that gate the data path (not logging): successor must not rejoin
				n++
				stored := func(in ssa.Instruction) bool {
					st, ok := in.(*ssa.Store)
					if !ok {
						return false
					}
					fa, ok := st.Addr.(*ssa.FieldAddr)
					if !ok {
						return false
					}
					if _, f, _, ok := fieldAddrInfo(fa); !ok || f != "ErrorCode" {
						return false
					}
					return anyOrigin(st.Val, vmCall(bpName))
				}
				isGate := func(in ssa.Instruction) bool {
					return isCallTo(in, fnAppendBatch, fnRead, hPrefix+"getPartitionLog")
				}
				found, tgt, path := search(SearchSpec{Start: Loc{b.Succs[si], 0}, ExitIsTarget: true,
					Target: func(in ssa.Instruction) bool {
						return isGate(in) || isCallTo(in, fnStateM) && in.Block() == b
					}, Blocker: stored})
				k := fmt.Sprintf("%s: the %s branch answers backpressureErrorCode()", key, l.String())
				if found {
					what := "reaches the function return"
					if tgt != nil {
						if _, isRet := tgt.(*ssa.Return); !isRet {
							what = "continues to " + describeInstr(tgt)
						}
					}
					r.viol("C25.R1", k, ifPos(m, ifi), "an unhealthy rating "+what+" without storing the backpressure code: "+renderPath(m, path))
				} else {
					r.ok("C25.R1", k, ifPos(m, ifi), "")
				}
			}
		}
		if n == 0 {
			r.unresolved("C25.R1", key+": health gate", "no branch on s3Health.State() found")
		}
	}
	if hp := needFn(m, r, "C25.R1", pkgBroker, "(*handler).handleProduce"); hp != nil {
		for _, call := range findCalls(hp, fnAppendBatch) {
			guardVerdict(m, r, "C25.R1", "handleProduce: AppendBatch only while S3 is rated healthy", hp, call.(ssa.Instruction),
				Guard{cl(isHealthy).re(fnStateM)})
		}
		rejectAnswers(hp, "handleProduce")
	}
	if hf := needFn(m, r, "C25.R1", pkgBroker, "(*handler).handleFetch"); hf != nil {
		for _, call := range findCalls(hf, fnRead) {
			guardVerdict(m, r, "C25.R1", "handleFetch: Read only while S3 is rated neither degraded nor unavailable", hf, call.(ssa.Instruction),
				Guard{cl(isHealthy, atomState("State()!=Degraded", token.NEQ, degraded)).re(fnStateM),
					cl(isHealthy, atomState("State()!=Unavailable", token.NEQ, unavailable)).re(fnStateM)})
		}
		rejectAnswers(hf, "handleFetch")
	}

	// ---- R4
	if bp := needFn(m, r, "C25.R4", pkgBroker, "(*handler).backpressureErrorCode"); bp != nil {
		for _, st := range []struct{ name, val string }{{"Degraded", degraded}, {"Unavailable", unavailable}} {
			code, ok, why := evalStateSwitch(bp, st.val)
			key := "backpressureErrorCode(" + st.name + ") is retriable"
			if !ok {
				r.undecided("C25.R4", key, m.Pos(bp.Pos()), why)
				continue
			}
			if name, ok := kafkaRetriable[code]; ok {
				r.ok("C25.R4", key, m.Pos(bp.Pos()), fmt.Sprintf("%d %s", code, name))
			} else {
				r.viol("C25.R4", key, m.Pos(bp.Pos()), fmt.Sprintf("code %d is not in Kafka's retriable set: clients treat the rejection as fatal instead of backing off", code))
			}
		}
		if okNZ, _ := returnsOnlyNonZeroConsts(bp); !okNZ {
			r.viol("C25.R4", "backpressureErrorCode never returns NONE", m.Pos(bp.Pos()), "a zero or non-constant code would acknowledge the request")
		} else {
			r.ok("C25.R4", "backpressureErrorCode never returns NONE", m.Pos(bp.Pos()), "")
		}
	}

	// ---- R2
	if rc := needFn(m, r, "C25.R2", pkgBrokerLib, "(*S3HealthMonitor).recomputeLocked"); rc != nil {
		checkMonotoneRating(m, r, rc, sc)
	}

	r.rule("C25.R6", "RecordOperation files every operation with its own latency and its failure flag: each path to the write of S3HealthMonitor.samples has stored the latency parameter into s3Sample.latency and (err != nil) into s3Sample.err, and nothing else is ever stored there", 2)
	r.Explanation += " (R6) RecordOperation files every operation with its own latency parameter and err != nil on every path to the write of samples, and stores nothing else into those two fields."
	checkSampleFaithful(m, r, "C25.R6")
	// ---- R5: every sample of the window contributes to both aggregates
	r.rule("C25.R5", "in recomputeLocked every sample adds its latency unconditionally, the error count grows exactly under sample.err, and both aggregates are divided by len(samples)", 4)
	if rc := m.Func(pkgBrokerLib, "(*S3HealthMonitor).recomputeLocked"); rc != nil {
		var body, header *ssa.BasicBlock
		for _, b := range rc.Blocks {
			if b.Comment != "rangeindex.body" {
				continue
			}
			for _, in := range b.Instrs {
				if ia, ok := in.(*ssa.IndexAddr); ok && dependsOnField(ia.X, tHealth, "samples") {
					body = b
				}
			}
		}
		if body != nil {
			for _, p := range body.Preds {
				if p.Comment == "rangeindex.loop" {
					header = p
				}
			}
		}
		if body == nil || header == nil {
			r.unresolved("C25.R5", "recomputeLocked sample loop", "range loop over m.samples not found")
		} else {
			var latAdd, errAdd *ssa.BinOp
			for _, b := range rc.Blocks {
				for _, in := range b.Instrs {
					bo, ok := in.(*ssa.BinOp)
					if !ok || bo.Op != token.ADD || !header.Dominates(b) {
						continue
					}
					if dependsOnField(bo.Y, "", "latency") || dependsOnField(bo.X, "", "latency") {
						latAdd = bo
					}
					if k, ok := constInt(bo.Y); ok && k == 1 {
						if _, isPhi := bo.X.(*ssa.Phi); isPhi && bo.X.(*ssa.Phi).Comment != "rangeindex" {
							errAdd = bo
						}
					}
				}
			}
			if latAdd == nil {
				r.viol("C25.R5", "every sample's latency enters the average", m.Pos(rc.Pos()), "no accumulation of sample.latency found in the loop")
			} else {
				found, _, path := search(SearchSpec{Start: Loc{body, 0}, Target: func(in ssa.Instruction) bool { return in.Block() == header },
					Blocker: func(in ssa.Instruction) bool { return in == ssa.Instruction(latAdd) }})
				if found {
					r.viol("C25.R5", "every sample's latency enters the average", m.Pos(latAdd.Pos()), "an iteration can skip the latency accumulation while the sample still counts in the divisor: a slow failing operation then lowers the average: "+renderPath(m, path))
				} else {
					r.ok("C25.R5", "every sample's latency enters the average", m.Pos(latAdd.Pos()), "")
				}
			}
			if errAdd == nil {
				r.viol("C25.R5", "the error count grows exactly under sample.err", m.Pos(rc.Pos()), "no error counter increment found in the loop")
			} else {
				isErr := atomBool("sample.err", vmField("", "err"), true)
				res := checkGuarded(m, rc, errAdd, Guard{cl(isErr)})
				// and every iteration with sample.err passes the increment
				missed := false
				for e := range passEdges(rc, []Atom{isErr}) {
					if f, _, _ := search(SearchSpec{Start: Loc{e.from.Succs[e.succ], 0}, Target: func(in ssa.Instruction) bool { return in.Block() == header },
						Blocker: func(in ssa.Instruction) bool { return in == ssa.Instruction(errAdd) }}); f {
						missed = true
					}
				}
				if res.OK && !missed {
					r.ok("C25.R5", "the error count grows exactly under sample.err", m.Pos(errAdd.Pos()), "")
				} else {
					r.viol("C25.R5", "the error count grows exactly under sample.err", m.Pos(errAdd.Pos()), "the increment is not equivalent to sample.err: "+res.String())
				}
			}
		}
		for _, f := range []string{"avgLatency", "errorRate"} {
			key := f + " is divided by the number of samples in the window"
			n := 0
			for _, st := range storesToField(rc, "broker.S3HealthMonitor", f) {
				if k, ok := constInt(st.Val); ok && k == 0 {
					continue
				}
				if _, isC := strip(st.Val).(*ssa.Const); isC {
					continue
				}
				n++
				q, ok := strip(st.Val).(*ssa.BinOp)
				if ok && q.Op == token.QUO && dependsOnField(q.Y, tHealth, "samples") {
					lenDiv := false
					backSlice(q.Y, false, func(v ssa.Value) {
						if lc, ok := v.(*ssa.Call); ok && calleeName(&lc.Call) == "builtin.len" {
							lenDiv = true
						}
					})
					if lenDiv {
						r.ok("C25.R5", key, m.Pos(st.Pos()), "")
						continue
					}
				}
				r.viol("C25.R5", key, m.Pos(st.Pos()), "stored value is "+describe(st.Val))
			}
			if n == 0 {
				r.unresolved("C25.R5", key, "no computed store found")
			}
		}
	}

	// ---- R3
	callers := callersOf(m, "(*"+tHealth+").recomputeLocked")
	allowed := map[string]bool{"State": true, "Snapshot": true, "RecordOperation": true}
	sort.Slice(callers, func(i, j int) bool { return callers[i].in.Pos() < callers[j].in.Pos() })
	for _, cs := range callers {
		r.fn(cs.caller)
		key := cs.caller.Name() + " truncates the window before rating"
		if !allowed[shortName(cs.caller)] {
			r.viol("C25.R3", "recomputeLocked caller "+funcName(cs.caller), m.Pos(cs.in.Pos()), "rating computed outside the three entry points that first drop samples older than the window")
			continue
		}
		if ok, path := mustPassBefore(m, cs.caller, cs.in.(ssa.Instruction), func(in ssa.Instruction) bool {
			return isCallTo(in, "(*"+tHealth+").truncateLocked")
		}); ok {
			r.ok("C25.R3", key, m.Pos(cs.in.Pos()), "")
		} else {
			r.viol("C25.R3", key, m.Pos(cs.in.Pos()), "recomputeLocked reachable without truncateLocked: samples older than the window take part in the rating: "+path)
		}
	}
	// whoever hands out the rating rates first: every read of the state field outside the rating
	// helpers is preceded, on every path, by recomputeLocked (a rating that is only refreshed when
	// the truncation dropped something stays stale once the window has emptied)
	for _, fn := range m.FuncsInPkg(pkgBrokerLib) {
		switch shortName(fn) {
		case "recomputeLocked", "setStateLocked", "NewS3HealthMonitor":
			continue
		}
		for _, b := range fn.Blocks {
			for _, in := range b.Instrs {
				fa, ok := in.(*ssa.FieldAddr)
				if !ok {
					continue
				}
				t, f, _, ok := fieldAddrInfo(fa)
				if !ok || t != tHealth || f != "state" || faIsWriteOnly(fa) {
					continue
				}
				key := fn.Name() + " rates the current window before it reads the rating"
				if ok, path := mustPassBefore(m, fn, in, func(x ssa.Instruction) bool {
					return isCallTo(x, "(*"+tHealth+").recomputeLocked")
				}); ok {
					r.ok("C25.R3", key, m.Pos(in.Pos()), "")
				} else {
					r.viol("C25.R3", key, m.Pos(in.Pos()), "the rating is read on a path that did not recompute it: "+path+" — it then reflects samples that may have left the window")
				}
			}
		}
	}
	if len(callers) < 3 {
		r.unresolved("C25.R3", "callers of recomputeLocked", fmt.Sprintf("found %d, expected State/Snapshot/RecordOperation", len(callers)))
	}
	if rc := m.Func(pkgBrokerLib, "(*S3HealthMonitor).recomputeLocked"); rc != nil {
		reads := map[string]bool{}
		for _, b := range rc.Blocks {
			for _, in := range b.Instrs {
				fa, ok := in.(*ssa.FieldAddr)
				if !ok {
					continue
				}
				if t, f, _, ok := fieldAddrInfo(fa); ok && t == tHealth && !faIsWriteOnly(fa) {
					reads[f] = true
				}
			}
		}
		var extra []string
		for f := range reads {
			switch f {
			case "samples", "cfg", "avgLatency", "errorRate":
			default:
				extra = append(extra, f)
			}
		}
		sort.Strings(extra)
		if len(extra) == 0 {
			r.ok("C25.R3", "recomputeLocked rates from samples and cfg only", m.Pos(rc.Pos()), fmt.Sprintf("reads %v", sortedBoolKeys(reads)))
		} else {
			r.viol("C25.R3", "recomputeLocked rates from samples and cfg only", m.Pos(rc.Pos()), "the rating also reads "+strings.Join(extra, ", ")+": it then depends on history, not only on the window")
		}
		// the time argument must not influence the choice of state
		if len(rc.Params) >= 2 {
			now := rc.Params[1]
			bad := false
			for _, b := range rc.Blocks {
				if ifi, ok := b.Instrs[len(b.Instrs)-1].(*ssa.If); ok {
					backSlice(ifi.Cond, true, func(v ssa.Value) {
						if v == ssa.Value(now) {
							bad = true
						}
					})
				}
			}
			if bad {
				r.viol("C25.R3", "recomputeLocked's decisions do not depend on the clock", m.Pos(rc.Pos()), "a branch condition depends on `now`")
			} else {
				r.ok("C25.R3", "recomputeLocked's decisions do not depend on the clock", m.Pos(rc.Pos()), "")
			}
		}
	}
}

func sortedBoolKeys(m map[string]bool) []string {
	var ks []string
	for k := range m {
		ks = append(ks, k)
	}
	sort.Strings(ks)
	return ks
}

// faIsWriteOnly: the field address is used only as the target of stores.
func faIsWriteOnly(fa *ssa.FieldAddr) bool {
	if fa.Referrers() == nil {
		return false
	}
	for _, ref := range *fa.Referrers() {
		st, ok := ref.(*ssa.Store)
		if !ok || st.Addr != ssa.Value(fa) {
			return false
		}
	}
	return true
}

func describeInstr(in ssa.Instruction) string {
	if c := callCommon(in); c != nil {
		return "call " + calleeName(c)
	}
	return fmt.Sprintf("%T", in)
}

// evalStateSwitch follows, for the given state constant, the chain of Ifs comparing a State() result
// with constants and returns the constant the function then returns.
func evalStateSwitch(fn *ssa.Function, state string) (int64, bool, string) {
	b := fn.Blocks[0]
	for steps := 0; steps < 50; steps++ {
		last := b.Instrs[len(b.Instrs)-1]
		switch t := last.(type) {
		case *ssa.Return:
			if len(t.Results) != 1 {
				return 0, false, "unexpected return arity"
			}
			k, ok := constInt(t.Results[0])
			if !ok {
				return 0, false, "non-constant return " + describe(t.Results[0])
			}
			return k, true, ""
		case *ssa.Jump:
			b = b.Succs[0]
		case *ssa.If:
			l := litOf(t.Cond, true)
			x, y := l.X, l.Y
			if l.Op != token.EQL && l.Op != token.NEQ {
				return 0, false, "branch is not a comparison with a state constant"
			}
			if _, ok := strip(x).(*ssa.Const); ok {
				x, y = y, x
			}
			k, ok := strip(y).(*ssa.Const)
			if !ok || k.Value == nil || !allOrigins(x, vmCall(fnStateM)) {
				return 0, false, "branch is not a comparison of State() with a constant"
			}
			eq := k.Value.ExactString() == state
			if l.Op == token.NEQ {
				eq = !eq
			}
			if eq {
				b = b.Succs[0]
			} else {
				b = b.Succs[1]
			}
		default:
			return 0, false, fmt.Sprintf("unexpected terminator %T", last)
		}
	}
	return 0, false, "switch chain does not terminate"
}

// checkMonotoneRating verifies that the decision diagram choosing the next state is monotone.
func checkMonotoneRating(m *Module, r *Report, rc *ssa.Function, sc map[string]string) {
	sev := map[string]int{sc["S3StateHealthy"]: 0, sc["S3StateDegraded"]: 1, sc["S3StateUnavailable"]: 2}
	// the final setStateLocked(now, next)
	var final *ssa.Call
	for _, call := range findCalls(rc, "(*"+tHealth+").setStateLocked") {
		cv := call.(*ssa.Call)
		if _, isConst := strip(cv.Call.Args[2]).(*ssa.Const); !isConst {
			final = cv
		}
	}
	if final == nil {
		r.unresolved("C25.R2", "recomputeLocked: computed next state", "no setStateLocked call with a computed state")
		return
	}
	phi, ok := strip(final.Call.Args[2]).(*ssa.Phi)
	if !ok {
		r.undecided("C25.R2", "recomputeLocked: computed next state", m.Pos(final.Pos()), "next state is not a phi of constants: "+describe(final.Call.Args[2]))
		return
	}
	join := phi.Block()
	edgeSev := map[*ssa.BasicBlock]int{}
	for i, e := range phi.Edges {
		k, ok := strip(e).(*ssa.Const)
		if !ok || k.Value == nil {
			r.undecided("C25.R2", "recomputeLocked: computed next state", m.Pos(final.Pos()), "non-constant state "+describe(e))
			return
		}
		s, ok := sev[k.Value.ExactString()]
		if !ok {
			r.undecided("C25.R2", "recomputeLocked: computed next state", m.Pos(final.Pos()), "unknown state constant "+k.Value.ExactString())
			return
		}
		edgeSev[join.Preds[i]] = s
	}
	// reachable severities from a block (not passing through join)
	var reach func(b *ssa.BasicBlock, seen map[*ssa.BasicBlock]bool, out map[int]bool)
	reach = func(b *ssa.BasicBlock, seen map[*ssa.BasicBlock]bool, out map[int]bool) {
		if seen[b] {
			return
		}
		seen[b] = true
		for _, s := range b.Succs {
			if s == join {
				if v, ok := edgeSev[b]; ok {
					out[v] = true
				}
				continue
			}
			reach(s, seen, out)
		}
	}
	edgeReach := func(from *ssa.BasicBlock, si int) map[int]bool {
		out := map[int]bool{}
		s := from.Succs[si]
		if s == join {
			if v, ok := edgeSev[from]; ok {
				out[v] = true
			}
			return out
		}
		reach(s, map[*ssa.BasicBlock]bool{}, out)
		return out
	}
	isMetric := func(v ssa.Value) (string, bool) {
		t, f, _, ok := fieldOf(v)
		if ok && t == tHealth && (f == "avgLatency" || f == "errorRate") {
			return f, true
		}
		return "", false
	}
	isThreshold := func(v ssa.Value) (string, bool) {
		_, f, base, ok := fieldOf(v)
		if !ok {
			return "", false
		}
		if _, f2, _, ok2 := fieldOf(base); ok2 && f2 == "cfg" {
			return f, true
		}
		if fa, ok := base.(*ssa.FieldAddr); ok {
			if _, f2, _, ok2 := fieldAddrInfo(fa); ok2 && f2 == "cfg" {
				return f, true
			}
		}
		return "", false
	}
	n := 0
	for _, b := range rc.Blocks {
		ifi, ok := b.Instrs[len(b.Instrs)-1].(*ssa.If)
		if !ok || !b.Dominates(join) && len(edgeReach(b, 0)) == 0 && len(edgeReach(b, 1)) == 0 {
			continue
		}
		tr, fr := edgeReach(b, 0), edgeReach(b, 1)
		if len(tr) == 0 && len(fr) == 0 {
			continue
		}
		// does this branch influence the state at all?
		if len(tr) == 1 && len(fr) == 1 && sameKeys(tr, fr) && !b.Dominates(join) {
			continue
		}
		if len(tr) == 0 || len(fr) == 0 {
			// one edge leaves the rating computation (early return): accepted only for the empty-window
			// test; anything that reads a metric there is a rating decision in disguise
			dep := dependsOnField(ifi.Cond, tHealth, "avgLatency") || dependsOnField(ifi.Cond, tHealth, "errorRate")
			if dep {
				r.viol("C25.R2", "rating branch "+describe(ifi.Cond), ifPos(m, ifi), "a metric decides an early exit from the rating computation")
			}
			continue
		}
		bo, ok := ifi.Cond.(*ssa.BinOp)
		if !ok {
			// the empty-window early return and loops do not reach `join` with different states
			if sameKeys(tr, fr) {
				continue
			}
			r.undecided("C25.R2", "rating branch "+describe(ifi.Cond), ifPos(m, ifi), "a branch that influences the rating is not a metric/threshold comparison")
			continue
		}
		mx, okm := isMetric(bo.X)
		ty, okt := isThreshold(bo.Y)
		op := bo.Op
		if !okm || !okt {
			// mirrored spelling threshold <= metric
			if my, ok1 := isMetric(bo.Y); ok1 {
				if tx, ok2 := isThreshold(bo.X); ok2 {
					mx, ty, okm, okt, op = my, tx, true, true, swapOp(bo.Op)
				}
			}
		}
		if !okm || !okt {
			if sameKeys(tr, fr) {
				continue
			}
			r.undecided("C25.R2", "rating branch "+describe(ifi.Cond), ifPos(m, ifi), "a branch that influences the rating does not compare avgLatency/errorRate with a cfg threshold")
			continue
		}
		n++
		key := fmt.Sprintf("recomputeLocked: %s vs cfg.%s", mx, ty)
		if op != token.GEQ && op != token.GTR {
			r.viol("C25.R2", key, ifPos(m, ifi), "comparison is "+op.String()+": a larger "+mx+" makes the condition false, so higher values can give a better rating")
			continue
		}
		minT, maxF := 99, -1
		for s := range tr {
			if s < minT {
				minT = s
			}
		}
		for s := range fr {
			if s > maxF {
				maxF = s
			}
		}
		if len(tr) == 0 || minT >= maxF {
			r.ok("C25.R2", key, ifPos(m, ifi), fmt.Sprintf("true edge reaches severities %v, false edge %v", keysInt(tr), keysInt(fr)))
		} else {
			r.viol("C25.R2", key, ifPos(m, ifi), fmt.Sprintf("crossing the threshold can improve the rating: true edge reaches severities %v, false edge %v", keysInt(tr), keysInt(fr)))
		}
		// the metric's pairing with its own kind of threshold (latency with Latency*, error with Error*)
		if (mx == "avgLatency") != strings.HasPrefix(ty, "Latency") {
			r.viol("C25.R2", key+" compares like with like", ifPos(m, ifi), mx+" is compared with cfg."+ty)
		}
	}
	if n == 0 {
		r.unresolved("C25.R2", "rating comparisons", "none found")
	}
	_ = constant.Int
}

func sameKeys(a, b map[int]bool) bool {
	if len(a) != len(b) {
		return false
	}
	for k := range a {
		if !b[k] {
			return false
		}
	}
	return true
}

func keysInt(m map[int]bool) []int {
	var ks []int
	for k := range m {
		ks = append(ks, k)
	}
	sort.Ints(ks)
	return ks
}

// ifPos: a printable position for an If (go/ssa gives Ifs no position of their own).
func ifPos(m *Module, ifi *ssa.If) string {
	if ifi.Cond.Pos().IsValid() {
		return m.Pos(ifi.Cond.Pos())
	}
	if in, ok := ifi.Cond.(ssa.Instruction); ok {
		for _, op := range in.Operands(nil) {
			if op != nil && *op != nil && (*op).Pos().IsValid() {
				return m.Pos((*op).Pos())
			}
		}
	}
	for _, in := range ifi.Block().Instrs {
		if in.Pos().IsValid() {
			return m.Pos(in.Pos())
		}
	}
	return "?"
}

// checkSampleFaithful (C25.R6, added after a seeded change recorded failed operations with latency
// zero, so that an extra failure lowered the average latency and improved the rating).
func checkSampleFaithful(m *Module, r *Report, rule string) {
	ro := needFn(m, r, rule, pkgBrokerLib, "(*S3HealthMonitor).RecordOperation")
	if ro == nil {
		return
	}
	tSample := pkgBrokerLib + ".s3Sample"
	storeTo := func(in ssa.Instruction, field string) (*ssa.Store, bool) {
		st, ok := in.(*ssa.Store)
		if !ok {
			return nil, false
		}
		fa, ok := st.Addr.(*ssa.FieldAddr)
		if !ok {
			return nil, false
		}
		t, f, _, ok := fieldAddrInfo(fa)
		return st, ok && t == tSample && f == field
	}
	good := map[string]func(v ssa.Value) bool{
		"latency": func(v ssa.Value) bool {
			p, ok := strip(v).(*ssa.Parameter)
			return ok && p.Type().String() == "time.Duration"
		},
		"err": func(v ssa.Value) bool {
			b, ok := strip(v).(*ssa.BinOp)
			if !ok || b.Op != token.NEQ {
				return false
			}
			_, px := strip(b.X).(*ssa.Parameter)
			_, py := strip(b.Y).(*ssa.Parameter)
			return (px && alwaysNil(b.Y)) || (py && alwaysNil(b.X))
		},
	}
	var sinks []ssa.Instruction
	for _, st := range storesToField(ro, pkgBrokerLib+".S3HealthMonitor", "samples") {
		sinks = append(sinks, st)
	}
	if len(sinks) == 0 {
		r.unresolved(rule, "RecordOperation: write of samples", "not found")
		return
	}
	for _, field := range []string{"latency", "err"} {
		key := "RecordOperation stores the operation's own " + field + " in every sample"
		bad := ""
		for _, b := range ro.Blocks {
			for _, in := range b.Instrs {
				if st, ok := storeTo(in, field); ok && !good[field](st.Val) {
					bad = "s3Sample." + field + " is set to " + describe(st.Val) + " at " + m.Pos(st.Pos())
				}
			}
		}
		if bad == "" {
			if ok, path := mustPassBefore(m, ro, sinks[0], func(in ssa.Instruction) bool {
				st, ok := storeTo(in, field)
				return ok && good[field](st.Val)
			}); !ok {
				bad = "a sample can be filed without its " + field + " (zero value): " + path + " — such a sample pulls the window's aggregate towards 'healthy', so more failures or slower calls can give a better rating"
			}
		}
		if bad == "" {
			r.ok(rule, key, m.Pos(sinks[0].Pos()), "")
		} else {
			r.viol(rule, key, m.Pos(sinks[0].Pos()), bad)
		}
	}
}
