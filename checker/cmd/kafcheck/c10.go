package main

func init() { register("C10", "other", checkC10) }

func checkC10(c *Ctx, r *Report) {
	r.Explanation = "Decides the decoded-length discipline in pkg/protocol (a necessary condition of 'request decoding never crashes'): every integer decoded from request bytes (BigEndian.UintN, binary.Uvarint, helpers returning them) that reaches a slice bound, a make() size or a cursor advance (r.pos += n) is, on every path — in the function itself or at every call site that passes a decoded value — checked against an upper bound and, when it can be negative, against zero (panic mode: allocation sizes need only be non-negative). Also: byteReader.pos is advanced only inside read and UVarint. It does not decide the round-trip clause, which is a statement about kmsg's codec, nor panics inside kmsg."
	r.NotCovered = "round-trip equality (kmsg codec); panics inside the kmsg dependency; allocation size of a 31-bit frame length (reported as information in DESIGN.md)"
	m, err := c.Mod("root")
	if err != nil {
		r.unresolved("C10.load", "root module", err.Error())
		return
	}
	r.rule("C10.R1", "decoded-length discipline (panic mode) over pkg/protocol: slice bounds, make sizes and cursor advances fed by decoded values are bounded / non-negative on every path", 3)
	r.rule("C10.R2", "who-may-write byteReader.pos: read, UVarint (after their checks)", 2)
	d := newDL(m, dlConfig{Mode: dlPanic, Pkgs: []string{pkgProtocol}})
	r.Extra["sinks"] = d.run(r, "C10.R1")
	checkWriterTable(m, r, "C10.R2", pkgProtocol+".byteReader", "pos", false, map[string]string{
		"(*" + pkgProtocol + ".byteReader).read":    "advance after remaining() check",
		"(*" + pkgProtocol + ".byteReader).UVarint": "advance by the byte count binary.Uvarint consumed",
	})
}
