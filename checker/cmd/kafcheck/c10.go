package main
import (
	"fmt"
	"go/token"
	"strings"

	"golang.org/x/tools/go/ssa"
)


func init() { register("C10", "other", checkC10) }

func checkC10(c *Ctx, r *Report) {
	r.Explanation = "Decides the decoded-length discipline in pkg/protocol (a necessary condition of 'request decoding never crashes'): every integer decoded from request bytes (BigEndian.UintN, binary.Uvarint, helpers returning them) that reaches a slice bound, a make() size or a cursor advance (r.pos += n) is, on every path — in the function itself or at every call site that passes a decoded value — checked against an upper bound and, when it can be negative, against zero (panic mode: allocation sizes need only be non-negative). Also: byteReader.pos is advanced only inside read and UVarint. (R3) the one hand-written string decoder of the request header, NullableString, returns null only on the true edge of `length == -1` and otherwise the address of string(read(int(length))) — so an empty client id stays a string and the header round-trips. The body's round-trip is a statement about kmsg's codec and is not decided, nor panics inside kmsg."
	r.NotCovered = "round-trip equality (kmsg codec); panics inside the kmsg dependency; allocation size of a 31-bit frame length (reported as information in DESIGN.md)"
	m, err := c.Mod("root")
	if err != nil {
		r.unresolved("C10.load", "root module", err.Error())
		return
	}
	r.rule("C10.R1", "decoded-length discipline (panic mode) over pkg/protocol: slice bounds, make sizes and cursor advances fed by decoded values are bounded / non-negative on every path", 3)
	r.rule("C10.R2", "who-may-write byteReader.pos: read, UVarint (after their checks)", 2)
	r.rule("C10.R3", "NullableString: null only for length -1; otherwise exactly the bytes of the announced length (an empty string stays a string)", 2)
	d := newDL(m, dlConfig{Mode: dlPanic, Pkgs: []string{pkgProtocol}})
	r.Extra["sinks"] = d.run(r, "C10.R1")
	checkWriterTable(m, r, "C10.R2", pkgProtocol+".byteReader", "pos", false, map[string]string{
		"(*" + pkgProtocol + ".byteReader).read":    "advance after remaining() check",
		"(*" + pkgProtocol + ".byteReader).UVarint": "advance by the byte count binary.Uvarint consumed",
	})
	checkNullableString(m, r)
	checkHeaderFlexibility(m, r)
}

// checkHeaderFlexibility (C10.R4): whether a request header carries a tagged-field section is a
// function of (api key, version) that only kmsg knows. ParseRequestHeader skips header tags exactly
// under kmsg's own answer for the pair it just read: the skip is guarded by the result of
// IsFlexible() on the value of kmsg.RequestForKey, with SetVersion applied to that value first. An
// answer taken from anywhere else (a table, a memo keyed by something narrower than the pair)
// eats body bytes as header tags, or leaves tags in front of the body, for some pair.
func checkHeaderFlexibility(m *Module, r *Report) {
	r.rule("C10.R4", "ParseRequestHeader skips header tagged fields only under kmsg's IsFlexible() for the request of the parsed api key with the parsed version set", 2)
	fn := needFn(m, r, "C10.R4", pkgProtocol, "ParseRequestHeader")
	if fn == nil {
		return
	}
	var recvOf func(c *ssa.Call) ssa.Value
	recvOf = func(c *ssa.Call) ssa.Value {
		if c.Call.IsInvoke() {
			return c.Call.Value
		}
		if len(c.Call.Args) > 0 {
			return c.Call.Args[0]
		}
		return nil
	}
	var flexCall *ssa.Call
	g := Guard{cl(atomFn("kmsg request.IsFlexible()", func(l Lit) bool {
		if l.Op != token.ILLEGAL || l.Neg {
			return false
		}
		c, ok := strip(l.X).(*ssa.Call)
		if !ok || !c.Call.IsInvoke() || c.Call.Method.Name() != "IsFlexible" {
			return false
		}
		if !allOrigins(c.Call.Value, vmCall("github.com/twmb/franz-go/pkg/kmsg.RequestForKey")) {
			return false
		}
		flexCall = c
		return true
	}))}
	n := 0
	for _, call := range callsIn(fn) {
		if !strings.HasSuffix(calleeName(call.Common()), "byteReader).SkipTaggedFields") {
			continue
		}
		n++
		if guardVerdict(m, r, "C10.R4", fmt.Sprintf("ParseRequestHeader header-tag skip #%d is decided by kmsg for this request", n), fn, call.(ssa.Instruction), g) && flexCall != nil {
			recv := recvOf(flexCall)
			okSet, path := mustPassBefore(m, fn, flexCall, func(in ssa.Instruction) bool {
				c, ok := in.(*ssa.Call)
				return ok && c.Call.IsInvoke() && c.Call.Method.Name() == "SetVersion" && strip(c.Call.Value) == strip(recv)
			})
			if okSet {
				r.ok("C10.R4", "IsFlexible is asked after SetVersion on the same request value", m.Pos(flexCall.Pos()), "")
			} else {
				r.viol("C10.R4", "IsFlexible is asked after SetVersion on the same request value", m.Pos(flexCall.Pos()), "IsFlexible can be reached without the parsed version set: "+path)
			}
		}
	}
	if n == 0 {
		r.unresolved("C10.R4", "ParseRequestHeader header-tag skip", "no SkipTaggedFields call found")
	}
}

// checkNullableString: the header's client id round-trips. (nil, nil) is returned only on the true
// edge of `l == -1`; a successful non-null return is the address of string(b) with b read with
// length int(l).
func checkNullableString(m *Module, r *Report) {
	fn := needFn(m, r, "C10.R3", pkgProtocol, "(*byteReader).NullableString")
	if fn == nil {
		return
	}
	var lenCall *ssa.Call
	for _, c := range callsIn(fn) {
		if strings.HasSuffix(calleeName(c.Common()), "byteReader).Int16") {
			lenCall, _ = c.(*ssa.Call)
		}
	}
	if lenCall == nil {
		r.unresolved("C10.R3", "NullableString: length read", "no Int16 call")
		return
	}
	isLen := func(v ssa.Value) bool {
		hit := false
		backSlice(v, false, func(w ssa.Value) {
			if ex, ok := w.(*ssa.Extract); ok && ex.Tuple == ssa.Value(lenCall) && ex.Index == 0 {
				hit = true
			}
		})
		return hit
	}
	nullOnly := Guard{cl(atomFn("l == -1", func(l Lit) bool {
		if l.Op != token.EQL {
			return false
		}
		k, ok := constInt(l.Y)
		return ok && k == -1 && isLen(l.X)
	}))}
	nNull, nStr := 0, 0
	for _, b := range fn.Blocks {
		ret, ok := b.Instrs[len(b.Instrs)-1].(*ssa.Return)
		if !ok || len(ret.Results) != 2 || !isNilConst(ret.Results[1]) {
			continue
		}
		if isNilConst(ret.Results[0]) {
			nNull++
			guardVerdict(m, r, "C10.R3", "NullableString returns null only for the length -1", fn, ret, nullOnly)
			continue
		}
		nStr++
		key := "NullableString returns exactly the bytes of the announced length"
		why := ""
		al, ok := strip(ret.Results[0]).(*ssa.Alloc)
		if !ok {
			why = "the result is " + describe(ret.Results[0])
		} else {
			okVal := false
			for _, st := range storesTo(al) {
				cv, ok := strip2(st).(*ssa.Convert)
				if !ok {
					continue
				}
				ex, ok := cv.X.(*ssa.Extract)
				if !ok {
					continue
				}
				rc, ok := ex.Tuple.(*ssa.Call)
				if ok && strings.HasSuffix(calleeName(&rc.Call), "byteReader).read") && isLen(rc.Call.Args[len(rc.Call.Args)-1]) {
					okVal = true
				}
			}
			if !okVal {
				why = "the string is not string(read(int(l)))"
			}
		}
		if why == "" {
			r.ok("C10.R3", key, m.Pos(ret.Pos()), "")
		} else {
			r.viol("C10.R3", key, m.Pos(ret.Pos()), why)
		}
	}
	if nNull == 0 || nStr == 0 {
		r.unresolved("C10.R3", "NullableString returns", fmt.Sprintf("%d null returns, %d string returns", nNull, nStr))
	}
}

func strip2(v ssa.Value) ssa.Value { return v }
