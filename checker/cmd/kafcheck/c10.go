package main
import (
	"fmt"
	"go/token"
	"strings"

	"golang.org/x/tools/go/ssa"
)


func init() { register("C10", "other", checkC10) }

func checkC10(c *Ctx, r *Report) {
	r.Explanation = "Decides the decoded-length discipline in pkg/protocol (a necessary condition of 'request decoding never crashes'): every integer decoded from request bytes (BigEndian.UintN, binary.Uvarint, helpers returning them) that reaches a slice bound, a make() size or a cursor advance (r.pos += n) is, on every path — in the function itself or at every call site that passes a decoded value — checked against an upper bound and, when it can be negative, against zero (panic mode: allocation sizes need only be non-negative). Also: byteReader.pos is advanced only inside read and UVarint. (R3) the one hand-written string decoder of the request header, NullableString, returns null only on the true edge of `length == -1` and otherwise the address of string(read(int(length))) — so an empty client id stays a string and the header round-trips. The body's round-trip is a statement about kmsg's codec and is not decided, nor panics inside kmsg."
	r.NotCovered = "round-trip equality (kmsg codec); panics inside the kmsg dependency; allocation size of a 31-bit frame length (reported as information in DESIGN.md)"
	m, err := c.Mod("root")
	if err != nil {
		r.unresolved("C10.load", "root module", err.Error())
		return
	}
	r.rule("C10.R1", "decoded-length discipline (panic mode) over pkg/protocol: slice bounds, make sizes and cursor advances fed by decoded values are bounded / non-negative on every path", 3)
	r.rule("C10.R2", "who-may-write byteReader.pos: read, UVarint (after their checks)", 2)
	r.rule("C10.R3", "NullableString: null only for length -1; otherwise exactly the bytes of the announced length (an empty string stays a string)", 2)
	d := newDL(m, dlConfig{Mode: dlPanic, Pkgs: []string{pkgProtocol}})
	r.Extra["sinks"] = d.run(r, "C10.R1")
	checkWriterTable(m, r, "C10.R2", pkgProtocol+".byteReader", "pos", false, map[string]string{
		"(*" + pkgProtocol + ".byteReader).read":    "advance after remaining() check",
		"(*" + pkgProtocol + ".byteReader).UVarint": "advance by the byte count binary.Uvarint consumed",
	})
	checkNullableString(m, r)
}

// checkNullableString: the header's client id round-trips. (nil, nil) is returned only on the true
// edge of `l == -1`; a successful non-null return is the address of string(b) with b read with
// length int(l).
func checkNullableString(m *Module, r *Report) {
	fn := needFn(m, r, "C10.R3", pkgProtocol, "(*byteReader).NullableString")
	if fn == nil {
		return
	}
	var lenCall *ssa.Call
	for _, c := range callsIn(fn) {
		if strings.HasSuffix(calleeName(c.Common()), "byteReader).Int16") {
			lenCall, _ = c.(*ssa.Call)
		}
	}
	if lenCall == nil {
		r.unresolved("C10.R3", "NullableString: length read", "no Int16 call")
		return
	}
	isLen := func(v ssa.Value) bool {
		hit := false
		backSlice(v, false, func(w ssa.Value) {
			if ex, ok := w.(*ssa.Extract); ok && ex.Tuple == ssa.Value(lenCall) && ex.Index == 0 {
				hit = true
			}
		})
		return hit
	}
	nullOnly := Guard{cl(atomFn("l == -1", func(l Lit) bool {
		if l.Op != token.EQL {
			return false
		}
		k, ok := constInt(l.Y)
		return ok && k == -1 && isLen(l.X)
	}))}
	nNull, nStr := 0, 0
	for _, b := range fn.Blocks {
		ret, ok := b.Instrs[len(b.Instrs)-1].(*ssa.Return)
		if !ok || len(ret.Results) != 2 || !isNilConst(ret.Results[1]) {
			continue
		}
		if isNilConst(ret.Results[0]) {
			nNull++
			guardVerdict(m, r, "C10.R3", "NullableString returns null only for the length -1", fn, ret, nullOnly)
			continue
		}
		nStr++
		key := "NullableString returns exactly the bytes of the announced length"
		why := ""
		al, ok := strip(ret.Results[0]).(*ssa.Alloc)
		if !ok {
			why = "the result is " + describe(ret.Results[0])
		} else {
			okVal := false
			for _, st := range storesTo(al) {
				cv, ok := strip2(st).(*ssa.Convert)
				if !ok {
					continue
				}
				ex, ok := cv.X.(*ssa.Extract)
				if !ok {
					continue
				}
				rc, ok := ex.Tuple.(*ssa.Call)
				if ok && strings.HasSuffix(calleeName(&rc.Call), "byteReader).read") && isLen(rc.Call.Args[len(rc.Call.Args)-1]) {
					okVal = true
				}
			}
			if !okVal {
				why = "the string is not string(read(int(l)))"
			}
		}
		if why == "" {
			r.ok("C10.R3", key, m.Pos(ret.Pos()), "")
		} else {
			r.viol("C10.R3", key, m.Pos(ret.Pos()), why)
		}
	}
	if nNull == 0 || nStr == 0 {
		r.unresolved("C10.R3", "NullableString returns", fmt.Sprintf("%d null returns, %d string returns", nNull, nStr))
	}
}

func strip2(v ssa.Value) ssa.Value { return v }
