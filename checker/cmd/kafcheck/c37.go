package main

import (
	"go/token"
	"fmt"
	"strings"

	"golang.org/x/tools/go/ssa"
)

func init() { register("C37", "other", checkC37) }

// textDerivation walks back from a string value to the received Query.String field and reports
// every transformation on the way.
var textDerivationCallers func(p *ssa.Parameter) []ssa.Value

func textDerivation(v ssa.Value) (fromQuery bool, transforms []string) {
	seen := map[ssa.Value]bool{}
	var walk func(v ssa.Value)
	walk = func(v ssa.Value) {
		v = strip(v)
		if seen[v] {
			return
		}
		seen[v] = true
		switch x := v.(type) {
		case *ssa.Parameter:
			// a helper owned by handleConn: what handleConn passes for this parameter
			if textDerivationCallers != nil {
				for _, a := range textDerivationCallers(x) {
					walk(a)
				}
			}
		case *ssa.Call:
			n := calleeName(&x.Call)
			transforms = append(transforms, n)
			for _, a := range x.Call.Args {
				if bt := a.Type().String(); bt == "string" {
					walk(a)
				}
			}
		case *ssa.Slice:
			transforms = append(transforms, "slice")
			walk(x.X)
		case *ssa.BinOp:
			transforms = append(transforms, "concat/op "+x.Op.String())
			walk(x.X)
			walk(x.Y)
		case *ssa.Phi:
			transforms = append(transforms, "phi")
			for _, e := range x.Edges {
				walk(e)
			}
		case *ssa.UnOp:
			if _, f, _, ok := fieldOf(x); ok && f == "String" {
				fromQuery = true
				return
			}
			walk(x.X)
		case *ssa.Field:
			if _, f, _, ok := fieldOf(x); ok && f == "String" {
				fromQuery = true
			}
		}
	}
	walk(v)
	return
}

func checkC37(c *Ctx, r *Report) {
	r.Explanation = "Decides structural necessary conditions of 'the SQL proxy forwards only queries whose topics are all allowed': (R1) in handleConn the text given to authorizeQuery and to cacheKey derives from the received Query message's String only through whitespace trimming (strings.TrimSpace) — a slice, truncation helper or concatenation on the way is a violation — and the message handed to frontend.Send is the received message itself; cacheKey returns its argument after strings.Fields/Join/ToLower/TrimSpace only (the parser folds case and splits on whitespace itself), never a cut, hash or constant, so two texts the parser distinguishes never share a cached decision; (R2) frontend.Send of a Query message is reached only with decision.allowed true, where the decision is either the cached one for this key or the fresh result of authorizeQuery; a denied query gets an error reply; (R3) authorizeQuery parses with the same kafsql.Parse the upstream server uses, denies when parsing fails, checks every element of queryTopics against the ACL (any denied topic returns false from inside the scan, true is returned only after the scan), and queryTopics lists the join topic and looks inside EXPLAIN; inside authorizeQuery the text handed to Parse is the argument after TrimSpace/TrimSuffix only. R1 exposed the 512-byte truncation repaired by 7eada42. Whether the upstream executes the same grammar is covered only as 'same Parse function'."
	r.NotCovered = "semantic agreement between the parser and the executor about which topics a parsed query reads; cache staleness after an ACL change (the ACL is fixed per connection)"
	m, err := c.Mod("sql")
	if err != nil {
		r.unresolved("C37.load", "sql module", err.Error())
		return
	}
	r.rule("C37.R1", "authorization text and cache key are the forwarded text modulo whitespace trimming; the forwarded message is the received one", 4)
	r.rule("C37.R2", "a Query message is forwarded only under decision.allowed", 2)
	r.rule("C37.R3", "authorizeQuery: same parser, deny on parse error, every topic checked, join and explain topics included", 6)

	hc := needFn(m, r, "C37.R1", pkgSQLProxy, "(*Server).handleConn")
	if hc == nil {
		return
	}
	// handleConn is taken together with the private helpers it owns (e.g. an extracted
	// "look up or authorize" function): calls are searched in the family and a helper's parameter is
	// resolved to the argument handleConn passes
	fam := fnFamily(m, hc)
	inFam := map[*ssa.Function]bool{}
	for _, f := range fam {
		inFam[f] = true
	}
	textDerivationCallers = func(p *ssa.Parameter) []ssa.Value {
		fn := p.Parent()
		if fn == hc || !inFam[fn] {
			return nil
		}
		var out []ssa.Value
		for i, q := range fn.Params {
			if q != p {
				continue
			}
			for _, f := range fam {
				for _, wf := range withAnon(f) {
					for _, call := range callsIn(wf) {
						if g, _ := calleeOf(call.Common()); g == fn && i < len(call.Common().Args) {
							out = append(out, call.Common().Args[i])
						}
					}
				}
			}
		}
		return out
	}
	defer func() { textDerivationCallers = nil }()
	famCalls := func(name string) []ssa.CallInstruction {
		var out []ssa.CallInstruction
		for _, f := range fam {
			out = append(out, findCalls(f, name)...)
		}
		return out
	}
	benign := map[string]bool{"strings.TrimSpace": true}
	for _, spec := range []struct{ callee, what string; arg int }{
		{pkgSQLProxy + ".authorizeQuery", "the authorized text", 1},
		{pkgSQLProxy + ".cacheKey", "the cache key text", 0},
	} {
		calls := famCalls(spec.callee)
		if len(calls) == 0 {
			r.unresolved("C37.R1", "handleConn: "+spec.what, "call not found")
		}
		for _, call := range calls {
			from, tr := textDerivation(call.Common().Args[spec.arg])
			var bad []string
			for _, t := range tr {
				if !benign[t] {
					bad = append(bad, t)
				}
			}
			key := "handleConn: " + spec.what + " is the received query text"
			switch {
			case !from:
				r.viol("C37.R1", key, m.Pos(call.Pos()), "the text does not derive from the received Query message")
			case len(bad) > 0:
				r.viol("C37.R1", key, m.Pos(call.Pos()), "the text is transformed by "+strings.Join(bad, ", ")+" before the decision: what is authorized (or cached) is not what is forwarded")
			default:
				r.ok("C37.R1", key, m.Pos(call.Pos()), "through "+strings.Join(tr, ", "))
			}
		}
	}
	// the cache key itself: distinct texts that the parser can tell apart get distinct keys — the key
	// is the argument after case folding and whitespace normalisation only (the parser folds case and
	// splits on whitespace itself); a cut, hash or constant would let one text inherit another's decision
	if ck := needFn(m, r, "C37.R1", pkgSQLProxy, "cacheKey"); ck != nil {
		okT := map[string]bool{"strings.ToLower": true, "strings.Fields": true, "strings.Join": true, "strings.TrimSpace": true}
		var bad []string
		fromParam := false
		seen := map[ssa.Value]bool{}
		var walk func(v ssa.Value, inCall bool)
		walk = func(v ssa.Value, inCall bool) {
			if seen[v] {
				return
			}
			seen[v] = true
			switch x := v.(type) {
			case *ssa.Parameter:
				fromParam = true
			case *ssa.Const:
				if !inCall {
					bad = append(bad, "constant "+x.String())
				}
			case *ssa.Call:
				n := calleeName(&x.Call)
				if !okT[n] {
					bad = append(bad, n)
				}
				for _, a := range x.Call.Args {
					walk(a, true)
				}
			case *ssa.Slice:
				bad = append(bad, "a cut at "+m.Pos(x.Pos()))
				walk(x.X, false)
			case *ssa.Phi:
				for _, e := range x.Edges {
					walk(e, false)
				}
			case *ssa.BinOp:
				bad = append(bad, "operator "+x.Op.String())
			default:
				bad = append(bad, describe(v))
			}
		}
		for _, b := range ck.Blocks {
			if ret, ok := b.Instrs[len(b.Instrs)-1].(*ssa.Return); ok {
				walk(ret.Results[0], false)
			}
		}
		key := "cacheKey: the key is the query text modulo case and whitespace only"
		switch {
		case len(bad) > 0:
			r.viol("C37.R1", key, m.Pos(ck.Pos()), "the key is also shaped by "+strings.Join(bad, ", ")+": two different forwarded texts can share one cached decision")
		case !fromParam:
			r.viol("C37.R1", key, m.Pos(ck.Pos()), "the key does not derive from the query text")
		default:
			r.ok("C37.R1", key, m.Pos(ck.Pos()), "")
		}
	}
	// forwarded message identity + allowed guard
	sends := findCalls(hc, "~pgproto3/v2.Frontend).Send")
	nSend := 0
	for _, s := range sends {
		arg := s.Common().Args[len(s.Common().Args)-1]
		// only sends of *pgproto3.Query matter
		if !strings.Contains(arg.Type().String(), "FrontendMessage") && !strings.Contains(strip(arg).Type().String(), "pgproto3/v2.Query") {
			continue
		}
		if !strings.Contains(strip(arg).Type().String(), "pgproto3/v2.Query") {
			continue
		}
		nSend++
		// the value is the type-asserted received message
		okMsg := false
		backSlice(arg, false, func(v ssa.Value) {
			if c0, ok := v.(*ssa.Call); ok && strings.HasSuffix(calleeName(&c0.Call), "pgproto3/v2.Backend).Receive") {
				okMsg = true
			}
		})
		if okMsg {
			r.ok("C37.R1", "handleConn: the forwarded message is the received one", m.Pos(s.Pos()), "")
		} else {
			r.viol("C37.R1", "handleConn: the forwarded message is the received one", m.Pos(s.Pos()), "frontend.Send gets "+describe(arg))
		}
		g := Guard{cl(atomFn("decision.allowed", func(l Lit) bool {
			if l.Neg {
				return false
			}
			_, f, _, ok := fieldOf(l.X)
			return ok && f == "allowed"
		})).re("~pgproto3/v2.Backend).Receive")}
		guardVerdict(m, r, "C37.R2", "handleConn: a query is forwarded only when the decision allows it", hc, s.(ssa.Instruction), g)
	}
	if nSend == 0 {
		r.unresolved("C37.R2", "handleConn: frontend.Send of the query", "not found")
	}
	// the decision that is consulted comes from the cache for this key or from authorizeQuery
	{
		okDec := false
		var famBlocks []*ssa.BasicBlock
		for _, f := range fam {
			famBlocks = append(famBlocks, f.Blocks...)
		}
		for _, b := range famBlocks {
			for _, in := range b.Instrs {
				if st, ok := in.(*ssa.Store); ok {
					if fa, ok := st.Addr.(*ssa.FieldAddr); ok {
						if _, f, _, ok := fieldAddrInfo(fa); ok && f == "allowed" && isExtractOf(st.Val, 0, pkgSQLProxy+".authorizeQuery") {
							okDec = true
						}
					}
				}
			}
		}
		if okDec {
			r.ok("C37.R2", "handleConn: decision.allowed is authorizeQuery's verdict", m.Pos(hc.Pos()), "")
		} else {
			r.viol("C37.R2", "handleConn: decision.allowed is authorizeQuery's verdict", m.Pos(hc.Pos()), "the stored decision does not take its allowed flag from authorizeQuery's first result")
		}
	}

	// ---- R3
	if aq := needFn(m, r, "C37.R3", pkgSQLProxy, "authorizeQuery"); aq != nil {
		parses := findCalls(aq, pkgSQL+".Parse")
		if len(parses) != 1 {
			r.viol("C37.R3", "authorizeQuery parses with the server's parser", m.Pos(aq.Pos()), fmt.Sprintf("%d calls of sql.Parse", len(parses)))
		} else {
			r.ok("C37.R3", "authorizeQuery parses with the server's parser", m.Pos(parses[0].Pos()), pkgSQL+".Parse")
			// text handed to Parse: the parameter through TrimSpace / TrimSuffix only
			okT := true
			var tr []string
			var walk func(v ssa.Value)
			walk = func(v ssa.Value) {
				v = strip(v)
				switch x := v.(type) {
				case *ssa.Parameter:
				case *ssa.Call:
					n := calleeName(&x.Call)
					tr = append(tr, n)
					if n != "strings.TrimSpace" && n != "strings.TrimSuffix" {
						okT = false
						return
					}
					if n == "strings.TrimSuffix" {
						if s, ok := constString(x.Call.Args[1]); !ok || s != ";" {
							okT = false
						}
					}
					walk(x.Call.Args[0])
				default:
					okT = false
					tr = append(tr, describe(v))
				}
			}
			walk(parses[0].Common().Args[0])
			if okT {
				r.ok("C37.R3", "authorizeQuery parses the text it was given (modulo trimming and a trailing ';')", m.Pos(parses[0].Pos()), strings.Join(tr, ", "))
			} else {
				r.viol("C37.R3", "authorizeQuery parses the text it was given (modulo trimming and a trailing ';')", m.Pos(parses[0].Pos()), "transformations: "+strings.Join(tr, ", "))
			}
			// parse error → denied
			_, errB := errEdges(parses[0])
			deny := false
			if errB != nil {
				tgt := followJumps(errB)
				if ret, ok := tgt.Instrs[len(tgt.Instrs)-1].(*ssa.Return); ok {
					if k, ok := strip(ret.Results[0]).(*ssa.Const); ok && k.Value != nil && k.Value.ExactString() == "false" {
						deny = true
					}
				}
			}
			if deny {
				r.ok("C37.R3", "authorizeQuery denies what it cannot parse", m.Pos(parses[0].Pos()), "")
			} else {
				r.viol("C37.R3", "authorizeQuery denies what it cannot parse", m.Pos(parses[0].Pos()), "a parse error does not lead to `return false`")
			}
		}
		// every topic checked: acl.Allows(topic) false → return false inside the range; true returns only
		// outside the loop (or before the ACL applies)
		allows := findCalls(aq, "~proxy.ACL).Allows", pkgSQLProxy+".ACL.Allows", "("+pkgSQLProxy+".ACL).Allows")
		okScan := false
		for _, call := range allows {
			cv, ok := call.(*ssa.Call)
			if !ok {
				continue
			}
			inLoop := innermostRangeHeader(cv) != nil
			for _, br := range ifsOn(aq, cv) {
				tgt := followJumps(br.F)
				if ret, ok := tgt.Instrs[len(tgt.Instrs)-1].(*ssa.Return); ok {
					if k, ok := strip(ret.Results[0]).(*ssa.Const); ok && k.Value != nil && k.Value.ExactString() == "false" && inLoop {
						okScan = true
					}
				}
			}
			// the scanned list is queryTopics' result
			if !dependsOnCall(cv.Call.Args[len(cv.Call.Args)-1], pkgSQLProxy+".queryTopics") {
				okScan = false
			}
		}
		// the same scan through the library: slices.IndexFunc / ContainsFunc over queryTopics' result with
		// a predicate that is true exactly when acl.Allows(topic) is false, and `found → return false`
		if !okScan {
			for _, call := range findCalls(aq, "slices.IndexFunc", "slices.ContainsFunc") {
				cv, ok := call.(*ssa.Call)
				if !ok || len(cv.Call.Args) != 2 || !dependsOnCall(cv.Call.Args[0], pkgSQLProxy+".queryTopics") {
					continue
				}
				mc, ok := cv.Call.Args[1].(*ssa.MakeClosure)
				if !ok {
					continue
				}
				pf := mc.Fn.(*ssa.Function)
				predOK := len(pf.Params) == 1
				nRet := 0
				for _, b := range pf.Blocks {
					ret, ok := b.Instrs[len(b.Instrs)-1].(*ssa.Return)
					if !ok || len(ret.Results) != 1 {
						continue
					}
					nRet++
					switch x := strip(ret.Results[0]).(type) {
					case *ssa.UnOp:
						ac, isCall := strip(x.X).(*ssa.Call)
						if x.Op != token.NOT || !isCall || !strings.HasSuffix(calleeName(&ac.Call), "ACL).Allows") || strip(ac.Call.Args[len(ac.Call.Args)-1]) != ssa.Value(pf.Params[0]) {
							predOK = false
						}
					default:
						predOK = false
					}
				}
				if !predOK || nRet == 0 {
					continue
				}
				isIndex := strings.HasSuffix(calleeName(&cv.Call), "IndexFunc")
				for _, b := range aq.Blocks {
					ifi, ok := b.Instrs[len(b.Instrs)-1].(*ssa.If)
					if !ok {
						continue
					}
					for si, truth := range []bool{true, false} {
						l := litOf(ifi.Cond, truth)
						found := false
						if isIndex {
							k, isK := constInt(l.Y)
							found = strip(l.X) == ssa.Value(cv) && isK && ((l.Op == token.GEQ && k == 0) || (l.Op == token.NEQ && k == -1) || (l.Op == token.GTR && k == -1))
						} else {
							found = l.Op == token.ILLEGAL && !l.Neg && strip(l.X) == ssa.Value(cv)
						}
						if !found {
							continue
						}
						tgt := followJumps(b.Succs[si])
						if ret, ok := tgt.Instrs[len(tgt.Instrs)-1].(*ssa.Return); ok {
							if k, ok := strip(ret.Results[0]).(*ssa.Const); ok && k.Value != nil && k.Value.ExactString() == "false" {
								okScan = true
							}
						}
					}
				}
			}
		}
		if okScan {
			r.ok("C37.R3", "authorizeQuery denies if any topic of queryTopics is not allowed", m.Pos(aq.Pos()), "")
		} else {
			r.viol("C37.R3", "authorizeQuery denies if any topic of queryTopics is not allowed", m.Pos(aq.Pos()), "no `!acl.Allows(topic) → return false` inside a scan over queryTopics(parsed)")
		}
		// `return true` after parsing only after the scan completed
		for _, b := range aq.Blocks {
			ret, ok := b.Instrs[len(b.Instrs)-1].(*ssa.Return)
			if !ok {
				continue
			}
			k, ok := strip(ret.Results[0]).(*ssa.Const)
			if !ok || k.Value == nil || k.Value.ExactString() != "true" {
				continue
			}
			if len(parses) == 1 && instrDominates(parses[0].(ssa.Instruction), ret) {
				inLoop := false
				for d := b; d != nil; d = d.Idom() {
					if d.Comment == "rangeindex.body" {
						inLoop = true
					}
				}
				if inLoop {
					r.viol("C37.R3", "authorizeQuery allows only after all topics were checked", m.Pos(ret.Pos()), "`return true` from inside the topic scan: later topics are not checked")
				} else {
					r.ok("C37.R3", "authorizeQuery allows only after all topics were checked", m.Pos(ret.Pos()), "")
				}
			}
		}
	}
	if qt := needFn(m, r, "C37.R3", pkgSQLProxy, "queryTopics"); qt != nil {
		reads := map[string]bool{}
		for _, b := range qt.Blocks {
			for _, in := range b.Instrs {
				if v, ok := in.(ssa.Value); ok {
					if _, f, _, ok := fieldOf(v); ok {
						reads[f] = true
					}
				}
				if fa, ok := in.(*ssa.FieldAddr); ok {
					if _, f, _, ok := fieldAddrInfo(fa); ok {
						reads[f] = true
					}
				}
			}
		}
		rec := len(findCalls(qt, pkgSQLProxy+".queryTopics")) > 0
		if reads["Topic"] && reads["JoinTopic"] && reads["Explain"] && rec {
			r.ok("C37.R3", "queryTopics covers the main topic, the join topic and the query inside EXPLAIN", m.Pos(qt.Pos()), "")
		} else {
			r.viol("C37.R3", "queryTopics covers the main topic, the join topic and the query inside EXPLAIN", m.Pos(qt.Pos()), fmt.Sprintf("fields read: %v, recursion into Explain: %v", sortedBoolKeys(reads), rec))
		}
	}
}
