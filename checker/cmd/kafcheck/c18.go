package main

import (
	"fmt"
	"go/token"
	"strings"

	"golang.org/x/tools/go/ssa"
)

func init() {
	register("C18", "other", checkC18)
	register("C19", "other", checkC19)
}

const (
	tLeaseManager = pkgMetadata + ".LeaseManager"
	lmPrefix      = "(*" + pkgMetadata + ".LeaseManager)."
)

func checkC18(c *Ctx, r *Report) {
	r.Explanation = "Decides three structural necessary conditions of 'a lease has at most one live owner': (L1) every etcd write whose key derives from LeaseManager.leaseKey is an Op inside a Txn whose If compares the key (CreateRevision==0, or Value/ModRevision/Version) — a bare Put/Delete is a violation (this exposed Release's unconditional delete, repaired by a8770d1); (L2) every insert into the local ownership set has passed txnResp.Succeeded and m.session == session; (L3) the ownership set is reset in the same critical section wherever the session is cleared, and owned/session have a fixed writer set. It does not cover the interval between etcd-side expiry and local detection, which is inherent to leases."
	r.NotCovered = "the interval between etcd-side lease expiry and local detection (timing)"
	m, err := c.Mod("root")
	if err != nil {
		r.unresolved("C18.load", "root module", err.Error())
		return
	}
	r.rule("C18.L1", "etcd writes keyed by leaseKey are conditional (Txn with If on the key)", 1)
	r.rule("C18.L2", "m.owned[resource] = … only after txnResp.Succeeded ∧ m.session == session", 2)
	r.rule("C18.L3", "owned is reset in the same critical section as every session = nil; writer tables of owned / session", 7)

	// ---- L1
	n := 0
	for _, fn := range m.FuncsInPkg(pkgMetadata) {
		top := fn
		for top.Parent() != nil {
			top = top.Parent()
		}
		if top.Signature.Recv() == nil || !strings.HasSuffix(top.Signature.Recv().Type().String(), "metadata.LeaseManager") {
			continue
		}
		n += etcdConditionalWrites(m, r, "C18.L1", fn, []string{lmPrefix + "leaseKey", "field:LeaseManager.prefix"}, "lease key")
	}
	if n == 0 {
		r.unresolved("C18.L1", "lease key writes", "none found")
	}

	// ---- L2
	nIns := 0
	for _, w := range fieldWriters(m, tLeaseManager, "owned", true) {
		if w.Kind != "mapupdate" {
			continue
		}
		nIns++
		r.fn(w.Fn)
		g := Guard{
			cl(atomBool("txnResp.Succeeded", vmField("TxnResponse", "Succeeded"), true)),
			cl(atomFn("m.session == session", func(l Lit) bool {
				if l.Op != token.EQL {
					return false
				}
				_, f1, _, ok1 := fieldOf(l.X)
				_, f2, _, ok2 := fieldOf(l.Y)
				return (ok1 && f1 == "session") || (ok2 && f2 == "session")
			})),
		}
		guardVerdict(m, r, "C18.L2", "ownership recorded in "+funcName(w.Fn), w.Fn, w.In, g)
	}
	if nIns == 0 {
		r.unresolved("C18.L2", "inserts into LeaseManager.owned", "none found")
	}

	// ---- L3
	checkWriterTable(m, r, "C18.L3", tLeaseManager, "owned", true, map[string]string{
		pkgMetadata + ".NewLeaseManager": "construction",
		lmPrefix + "doAcquire":           "record after successful create txn",
		lmPrefix + "reacquire":           "record after successful re-acquire txn",
		lmPrefix + "getOrCreateSession":  "bulk clear when the session is found dead",
		lmPrefix + "monitorSession":      "bulk clear on session expiry",
		lmPrefix + "Release":             "drop one resource",
		lmPrefix + "ReleaseAll":          "bulk clear on shutdown",
	})
	checkWriterTable(m, r, "C18.L3", tLeaseManager, "session", false, map[string]string{
		lmPrefix + "getOrCreateSession": "install / clear dead session",
		lmPrefix + "monitorSession":     "clear on expiry",
		lmPrefix + "ReleaseAll":         "clear on shutdown",
	})
	for _, w := range fieldWriters(m, tLeaseManager, "session", false) {
		if !isNilConst(w.Val) {
			continue
		}
		fn := w.Fn
		// an owned = make(...) store in the same critical section (no Unlock in between, either order)
		paired := false
		for _, ow := range storesToField(fn, "metadata.LeaseManager", "owned") {
			isUnlock := func(in ssa.Instruction) bool {
				return isCallTo(in, "(*sync.RWMutex).Unlock", "(*sync.Mutex).Unlock")
			}
			var first, second ssa.Instruction = w.In, ow
			if instrDominates(ow, w.In) {
				first, second = ow, w.In
			} else if !instrDominates(w.In, ow) {
				continue
			}
			// every path from first leads to second before any Unlock
			if found, _, _ := search(SearchSpec{Start: nextLoc(first), Target: isUnlock, Blocker: func(in ssa.Instruction) bool { return in == second }, ExitIsTarget: true}); !found {
				paired = true
			}
		}
		key := "session cleared together with owned in " + funcName(fn)
		if paired {
			r.ok("C18.L3", key, m.Pos(w.In.Pos()), "")
		} else {
			r.viol("C18.L3", key, m.Pos(w.In.Pos()), "m.session = nil without resetting m.owned in the same critical section: the broker keeps believing it owns leases of a dead session")
		}
	}
}

func checkC19(c *Ctx, r *Report) {
	r.Explanation = "Decides three structural necessary conditions of 'a broker appends only to partitions whose lease it holds': (R1) in handleProduce, AppendBatch has passed the comma-ok lookup leaseErrors[PartitionID{topic, partition}] with hasErr == false, keyed by the loop's topic and partition; (R2) acquirePartitionLeases enumerates every (topic, partition) of the request unconditionally and records every non-nil result error, and AcquireAll sets Err from Acquire for every partition it does not already own; (R3) the lease-error branch answers NOT_LEADER_OR_FOLLOWER for ErrNotOwner/ErrShuttingDown and another non-zero code otherwise, and never reaches AppendBatch. (R0) re-evaluates C18.L2/L3: the owned set the fast path trusts is written only after a successful conditional write under the live session and is reset in the same critical section as the session. It does not cover lease loss between acquire and append."
	r.NotCovered = "lease loss between acquisition and append (timing)"
	m, err := c.Mod("root")
	if err != nil {
		r.unresolved("C19.load", "root module", err.Error())
		return
	}
	r.rule("C19.R1", "AppendBatch in handleProduce guarded by leaseErrors[{topic,partition}] hasErr==false", 1)
	r.rule("C19.R2", "acquirePartitionLeases enumerates all request partitions and records every error; AcquireAll assigns Err from Acquire for every not-owned partition", 3)
	r.rule("C19.R3", "lease-error entries carry non-zero codes (NOT_LEADER_OR_FOLLOWER for not-owner)", 2)
	// ---- R0: what the broker believes it owns must be what it holds. The fast path of Acquire /
	// AcquireAll trusts m.owned, so C18's ownership-bookkeeping clauses (owned is set only after a
	// successful conditional write under the live session; owned is reset together with the session)
	// are prerequisites here and are re-evaluated.
	r.rule("C19.R0", "C18.L2/L3 hold: the owned set follows the live session", 5)
	{
		sub := newReport("C18")
		checkC18(c, sub)
		for _, x := range sub.Results {
			if x.Status == Info {
				continue
			}
			if x.Rule == "C18.L2" || x.Rule == "C18.L3" {
				r.add("C19.R0", x.Rule+": "+x.Construct, x.Pos, x.Status, x.Detail)
			}
		}
	}

	hp := needFn(m, r, "C19.R1", pkgBroker, "(*handler).handleProduce")
	if hp != nil {
		isLeaseLookup := func(v ssa.Value) (*ssa.Lookup, bool) {
			e, ok := v.(*ssa.Extract)
			if !ok || e.Index != 1 {
				return nil, false
			}
			lk, ok := e.Tuple.(*ssa.Lookup)
			if !ok || !allOrigins(lk.X, vmCall("(*"+pkgBroker+".handler).acquirePartitionLeases")) {
				return nil, false
			}
			return lk, true
		}
		var lookup *ssa.Lookup
		g := Guard{cl(atomFn("leaseErrors[{topic,partition}] absent", func(l Lit) bool {
			if l.Op != token.ILLEGAL || !l.Neg {
				return false
			}
			lk, ok := isLeaseLookup(l.X)
			if ok {
				lookup = lk
			}
			return ok
		}))}
		for i, ab := range findCalls(hp, fnAppendBatch) {
			if guardVerdict(m, r, "C19.R1", fmt.Sprintf("handleProduce AppendBatch #%d after lease check", i+1), hp, ab, g) && lookup != nil {
				okKey := dependsOnField(lookup.Index, "", "Topic") && dependsOnField(lookup.Index, "", "Partition")
				if okKey {
					r.ok("C19.R1", "lease lookup keyed by the loop's topic and partition", m.Pos(lookup.Pos()), "")
				} else {
					r.viol("C19.R1", "lease lookup keyed by the loop's topic and partition", m.Pos(lookup.Pos()), "lookup key is "+describe(lookup.Index))
				}
			}
		}
		// R3: entries created on the hasErr branch carry non-zero codes
		gErr := Guard{cl(atomFn("leaseErrors[{topic,partition}] present", func(l Lit) bool {
			if l.Op != token.ILLEGAL || l.Neg {
				return false
			}
			_, ok := isLeaseLookup(l.X)
			return ok
		}))}
		nb := 0
		sawNotLeader := false
		nl, _ := pkgConstInt(m, pkgProtocol, "NOT_LEADER_OR_FOLLOWER")
		for _, e := range produceEntries(m, hp) {
			if res := checkGuarded(m, hp, e.site.At, gErr); !res.OK {
				continue
			}
			nb++
			if e.success {
				r.viol("C19.R3", "lease-error entry has a non-zero code", m.Pos(e.site.Call.Pos()), "an entry on the lease-error branch can be a success entry: "+e.why)
			} else {
				r.ok("C19.R3", "lease-error entry has a non-zero code", m.Pos(e.site.Call.Pos()), "")
			}
			if e.site.Alloc != nil {
				for _, st := range fieldStores(e.site.Alloc)["ErrorCode"] {
					if k, ok := constInt(st.Val); ok && k == nl {
						sawNotLeader = true
					}
				}
			}
		}
		if nb == 0 {
			r.unresolved("C19.R3", "lease-error entries", "no response entry on the hasErr branch")
		} else if !sawNotLeader {
			r.viol("C19.R3", "not-owner answered with NOT_LEADER_OR_FOLLOWER", m.Pos(hp.Pos()), "no lease-error entry uses NOT_LEADER_OR_FOLLOWER")
		}
	}

	// ---- R2
	if apl := needFn(m, r, "C19.R2", pkgBroker, "(*handler).acquirePartitionLeases"); apl != nil {
		for _, site := range appendSites(apl, "metadata.PartitionID") {
			// unconditional inside the two range loops: every If on the way is a range condition
			b := site.Call.Block()
			okU := strings.Contains(b.Comment, "range") || strings.Contains(b.Comment, "body")
			if okU {
				r.ok("C19.R2", "every (topic, partition) of the request is enumerated", m.Pos(site.Call.Pos()), b.Comment)
			} else {
				r.viol("C19.R2", "every (topic, partition) of the request is enumerated", m.Pos(site.Call.Pos()), "append to partitions sits under an extra condition ("+b.Comment+")")
			}
		}
		nRec := 0
		for _, b := range apl.Blocks {
			for _, in := range b.Instrs {
				mu, ok := in.(*ssa.MapUpdate)
				if !ok || !isErrorType(mu.Value.Type()) {
					continue
				}
				nRec++
				// reachable from the r.Err != nil edge without further conditions that could skip it
				errNonNil := passEdges(apl, []Atom{atomFn("r.Err != nil", func(l Lit) bool {
					if l.Op != token.NEQ || !isNilConst(l.Y) {
						return false
					}
					_, f, _, ok := fieldOf(l.X)
					return ok && f == "Err"
				})})
				bad := ""
				if len(errNonNil) == 0 {
					bad = "no r.Err != nil test"
				}
				for e := range errNonNil {
					// from the edge, the map update must be reached before the loop continues
					found, _, path := search(SearchSpec{Start: Loc{e.from.Succs[e.succ], 0},
						Target:  func(x ssa.Instruction) bool { _, isRet := x.(*ssa.Return); return isRet || x == e.from.Instrs[len(e.from.Instrs)-1] },
						Blocker: func(x ssa.Instruction) bool { return x == in }})
					if found {
						bad = "a non-nil lease error can be dropped: " + renderPath(m, path)
					}
				}
				if bad == "" {
					r.ok("C19.R2", "every non-nil AcquireResult.Err is recorded", m.Pos(mu.Pos()), "")
				} else {
					r.viol("C19.R2", "every non-nil AcquireResult.Err is recorded", m.Pos(mu.Pos()), bad)
				}
			}
		}
		if nRec == 0 {
			r.viol("C19.R2", "every non-nil AcquireResult.Err is recorded", m.Pos(apl.Pos()), "errors of AcquireAll are not recorded")
		}
	}
	if aa := needFn(m, r, "C19.R2", pkgMetadata, "(*PartitionLeaseManager).AcquireAll"); aa != nil {
		// needAcquire gets index i unless Owns(...) is true; each needAcquire index gets Err = Acquire(...)
		okOwns := false
		for _, site := range appendSites(aa, "[]int") {
			g := Guard{cl(atomBool("!Owns(partition)", vmCall(lmPrefix+"Owns"), false))}
			if res := checkGuarded(m, aa, site.At, g); res.OK {
				// and nothing else: the append is reachable from the Owns==false edge directly
				okOwns = true
			}
		}
		okErr := false
		for _, fn := range withAnon(aa) {
			for _, st := range storesToField(fn, "metadata.AcquireResult", "Err") {
				if co := callOrigin(st.Val); co != nil && strings.HasSuffix(calleeName(&co.Call), "PartitionLeaseManager).Acquire") {
					okErr = true
				}
			}
		}
		if okOwns && okErr {
			r.ok("C19.R2", "AcquireAll acquires every partition it does not own and keeps the error", m.Pos(aa.Pos()), "")
		} else {
			r.viol("C19.R2", "AcquireAll acquires every partition it does not own and keeps the error", m.Pos(aa.Pos()), fmt.Sprintf("skip-only-if-owned=%v, Err assigned from Acquire=%v", okOwns, okErr))
		}
	}
}
