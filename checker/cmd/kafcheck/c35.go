package main

import (
	"fmt"
	"go/token"
	"go/types"
	"regexp"
	"sort"
	"strings"

	"golang.org/x/tools/go/ssa"
)

func init() { register("C35", "other", checkC35) }

const pkgSQL = sqlModPath + "/internal/sql"

// lengthPreserving: functions f such that len(f(s)) == len(s) and byte offsets of ASCII text agree.
var lengthPreserving = map[string]bool{
	pkgSQL + ".asciiLower": true,
}

// searchCallArg: if call searches a string for something and returns byte positions in it, the
// searched string.
func searchedString(c *ssa.Call) (ssa.Value, bool) {
	n := calleeName(&c.Call)
	switch n {
	case pkgSQL + ".keywordIndex", pkgSQL + ".clauseEnd", "strings.Index", "strings.LastIndex", "strings.IndexByte", "strings.IndexAny", "strings.IndexRune":
		return c.Call.Args[0], true
	case "(*regexp.Regexp).FindStringIndex", "(*regexp.Regexp).FindStringSubmatchIndex":
		return c.Call.Args[1], true
	}
	return nil, false
}

type alignCtx struct {
	m       *Module
	callers map[*ssa.Function][]callSite
}

// aligned: do string values x and y (both in fn) have identical length and ASCII offsets?
func (a *alignCtx) aligned(fn *ssa.Function, x, y ssa.Value, depth int) (bool, string) {
	x, y = strip(x), strip(y)
	if sameSource(x, y) || x == y {
		return true, "same value"
	}
	// y = f(x) or x = f(y) with f length preserving
	for _, p := range [][2]ssa.Value{{x, y}, {y, x}} {
		if c, ok := p[1].(*ssa.Call); ok {
			if lengthPreserving[calleeName(&c.Call)] {
				if ok2, _ := a.aligned(fn, p[0], c.Call.Args[0], depth); ok2 {
					return true, "length-preserving " + calleeName(&c.Call)
				}
			}
		}
	}
	// both are slices cut at the same offsets of aligned strings
	sx, ok1 := x.(*ssa.Slice)
	sy, ok2 := y.(*ssa.Slice)
	if ok1 && ok2 {
		if sameBound(sx.Low, sy.Low) && sameBound(sx.High, sy.High) {
			if ok, why := a.aligned(fn, sx.X, sy.X, depth); ok {
				return true, "equal-offset sub-slices of aligned strings (" + why + ")"
			}
		}
	}
	// parameters: aligned at every call site
	px, okx := x.(*ssa.Parameter)
	py, oky := y.(*ssa.Parameter)
	if okx && oky && depth > 0 {
		ix, iy := paramIndex(fn, px), paramIndex(fn, py)
		sites := a.callers[fn]
		if len(sites) == 0 {
			return false, "parameters of a function without known callers"
		}
		for _, cs := range sites {
			args := cs.in.Common().Args
			if ix >= len(args) || iy >= len(args) {
				return false, "argument mismatch"
			}
			if ok, why := a.aligned(cs.caller, args[ix], args[iy], depth-1); !ok {
				return false, fmt.Sprintf("call at %s passes %s and %s (%s)", a.m.Pos(cs.in.Pos()), describe(args[ix]), describe(args[iy]), why)
			}
		}
		return true, "aligned at every call site"
	}
	// a phi of aligned alternatives is not tracked
	return false, describe(x) + " and " + describe(y) + " are not known to have equal length"
}

func sameBound(a, b ssa.Value) bool {
	if a == nil || b == nil {
		return a == nil && b == nil
	}
	if strip(a) == strip(b) {
		return true
	}
	// structurally equal sums (no CSE in go/ssa): same terms and constant
	ta, ka := flattenSum(a)
	tb, kb := flattenSum(b)
	if ka != kb || len(ta) != len(tb) {
		return false
	}
	for i := range ta {
		if strip(ta[i]) != strip(tb[i]) {
			return false
		}
	}
	return true
}

func paramIndex(fn *ssa.Function, p *ssa.Parameter) int {
	for i, q := range fn.Params {
		if q == p {
			return i
		}
	}
	return -1
}

func checkC35(c *Ctx, r *Report) {
	r.Explanation = "Decides structural necessary conditions of 'the SQL parser never crashes and ignores keyword case': (R1) index provenance — whenever a position obtained by searching one string (keywordIndex, clauseEnd, strings.Index, regexp Find…Index) bounds a slice of another string, the two strings are aligned: the same value, related by a length-preserving function on the allow-list (asciiLower; strings.ToLower is not on it because it changes byte lengths), equal-offset sub-slices of aligned strings, or parameters that are aligned at every call site; (R2) keyword case discipline — every regular expression compiled in the package that contains letters starts with (?i), and every comparison of text with a lower-case keyword constant applies to a value derived from the lowered query (asciiLower / strings.ToLower / EqualFold), never to the raw text; keyword constants contain no upper-case letters; (R3) every element access on a token or sub-match slice with an index the compiler cannot bound is dominated by a comparison of that index (or a larger one over the same variable) with len of the slice. R1 exposed the ToLower misalignment panic repaired by b2aa951. Equality of parsed queries under case changes and non-negativity of computed indexes are not decided."
	r.NotCovered = "that the parsed query is equal under keyword-case changes (only that keywords are matched case-insensitively); lower bounds (non-negative) of computed indexes; resource use"
	m, err := c.Mod("sql")
	if err != nil {
		r.unresolved("C35.load", "sql module", err.Error())
		return
	}
	r.rule("C35.R1", "positions found in one string slice only aligned strings", 8)
	r.rule("C35.R2", "regexps with letters are (?i); keyword comparisons apply to lowered text; keyword constants are lower-case", 20)
	r.rule("C35.R3", "computed indexes into token / sub-match slices are bounded by len on every path", 15)
	r.rule("C35.R4", "asciiLower, the length-preserving lowering the index rule relies on, maps the byte at each position to the same position", 2)
	checkAsciiLower(m, r)

	fns := m.FuncsInPkg(pkgSQL)
	if len(fns) < 20 {
		r.unresolved("C35.R1", "package sql", fmt.Sprintf("only %d functions found", len(fns)))
		return
	}
	callers, _ := buildCallers(m)
	ac := &alignCtx{m: m, callers: callers}

	// ---- R1
	nR1 := 0
	for _, fn := range fns {
		r.fn(fn)
		for _, b := range fn.Blocks {
			for _, in := range b.Instrs {
				sl, ok := in.(*ssa.Slice)
				if !ok {
					continue
				}
				if bt, ok := sl.X.Type().Underlying().(*types.Basic); !ok || bt.Info()&types.IsString == 0 {
					continue
				}
				// search calls feeding the bounds
				searched := map[ssa.Value]*ssa.Call{}
				for _, bnd := range []ssa.Value{sl.Low, sl.High} {
					if bnd == nil {
						continue
					}
					backSlice(bnd, false, func(v ssa.Value) {
						if c, ok := v.(*ssa.Call); ok {
							if y, ok := searchedString(c); ok {
								searched[y] = c
							}
						}
					})
				}
				for y, sc := range searched {
					nR1++
					// a search in a tail Y0[j:] yields positions relative to j; the code adds j back
					// (onIdx += joinIdx): alignment is required with Y0
					yy := strip(y)
					if ys, ok := yy.(*ssa.Slice); ok && ys.High == nil && ys.Low != nil {
						if okT, _ := ac.aligned(fn, sl.X, ys, 3); !okT {
							yy = strip(ys.X)
						}
					}
					okA, why := ac.aligned(fn, sl.X, yy, 3)
					key := fmt.Sprintf("%s: %s sliced at a position found in %s", fn.Name(), describe(sl.X), describe(y))
					if okA {
						r.ok("C35.R1", key, m.Pos(sl.Pos()), why)
					} else {
						r.viol("C35.R1", key, m.Pos(sl.Pos()), "position computed by "+calleeName(&sc.Call)+" on a string of possibly different byte length: "+why+" — slicing can run out of range (panic) or cut at the wrong place")
					}
				}
			}
		}
	}
	if nR1 == 0 {
		r.unresolved("C35.R1", "index-bounded string slices", "none found")
	}

	// ---- R2 regexps
	letter := regexp.MustCompile(`[A-Za-z]`)
	escapes := regexp.MustCompile(`\\[A-Za-z]|\(\?[a-zA-Z]+\)|\(\?P<[^>]*>`)
	for _, fn := range fns {
		for _, call := range findCalls(fn, "regexp.MustCompile", "regexp.Compile") {
			shape := strShape(m, call.Common().Args[0], 0)
			head := ""
			lits := ""
			for i, cpt := range shape {
				if cpt.Var == nil {
					lits += cpt.Lit
					if i == 0 {
						head = cpt.Lit
					}
				}
			}
			hasLetters := letter.MatchString(escapes.ReplaceAllString(lits, "")) || len(shape) > 1
			key := fmt.Sprintf("%s: regexp %q is case-insensitive", fn.Name(), shapeString(shape))
			if !hasLetters || strings.HasPrefix(head, "(?i)") {
				r.ok("C35.R2", key, m.Pos(call.Pos()), "")
			} else {
				r.viol("C35.R2", key, m.Pos(call.Pos()), "pattern contains letters (or interpolates a keyword) but does not start with (?i): an upper-case spelling of the keyword is not recognised")
			}
		}
	}
	// ---- R2 keyword comparisons
	lowered := func(fn *ssa.Function, v ssa.Value) bool {
		var rec func(fn *ssa.Function, v ssa.Value, depth int) bool
		rec = func(fn *ssa.Function, v ssa.Value, depth int) bool {
			hit := false
			var params []*ssa.Parameter
			backSlice(v, true, func(x ssa.Value) {
				switch y := x.(type) {
				case *ssa.Call:
					n := calleeName(&y.Call)
					if n == pkgSQL+".asciiLower" || n == "strings.ToLower" {
						hit = true
					}
				case *ssa.Parameter:
					params = append(params, y)
				}
			})
			if hit {
				return true
			}
			if depth == 0 {
				return false
			}
			for _, p := range params {
				idx := paramIndex(fn, p)
				sites := callers[fn]
				if idx < 0 || len(sites) == 0 {
					continue
				}
				all := true
				for _, cs := range sites {
					args := cs.in.Common().Args
					if idx >= len(args) || !rec(cs.caller, args[idx], depth-1) {
						all = false
					}
				}
				if all {
					return true
				}
			}
			return false
		}
		return rec(fn, v, 3)
	}
	kwRe := regexp.MustCompile(`^[A-Za-z_][A-Za-z_ ]*$`)
	type cmpSite struct {
		fn  *ssa.Function
		pos token.Pos
		k   string
		x   ssa.Value
	}
	var sites []cmpSite
	for _, fn := range fns {
		for _, b := range fn.Blocks {
			for _, in := range b.Instrs {
				bo, ok := in.(*ssa.BinOp)
				if !ok || (bo.Op != token.EQL && bo.Op != token.NEQ) {
					continue
				}
				x, y := bo.X, bo.Y
				if _, ok := constString(x); ok {
					x, y = y, x
				}
				k, ok := constString(y)
				if !ok || !kwRe.MatchString(k) {
					continue
				}
				if bt, ok := x.Type().(*types.Basic); !ok || bt.Kind() != types.String {
					continue // typed enumerations (QueryType …), not query text
				}
				sites = append(sites, cmpSite{fn, bo.Pos(), k, x})
			}
		}
		// token arguments of helper searches: hasToken(fields, "scan"), indexOf(fields, "where")
		for _, call := range findCalls(fn, pkgSQL+".hasToken", pkgSQL+".indexOf") {
			if k, ok := constString(call.Common().Args[1]); ok && kwRe.MatchString(k) {
				sites = append(sites, cmpSite{fn, call.Pos(), k, call.Common().Args[0]})
			}
		}
	}
	sort.Slice(sites, func(i, j int) bool { return sites[i].pos < sites[j].pos })
	for _, s := range sites {
		key := fmt.Sprintf("%s: comparison with keyword %q", s.fn.Name(), s.k)
		switch {
		case s.k != strings.ToLower(s.k):
			r.viol("C35.R2", key, m.Pos(s.pos), "keyword constant has upper-case letters while the text is lowered before comparison: it can never match")
		case lowered(s.fn, s.x):
			r.ok("C35.R2", key, m.Pos(s.pos), "compared value derives from the lowered query")
		default:
			// a parameter compared inside a helper whose callers pass the constant (token == field)
			if _, isParam := strip(s.x).(*ssa.Parameter); isParam && (shortName(s.fn) == "hasToken" || shortName(s.fn) == "indexOf") {
				r.ok("C35.R2", key, m.Pos(s.pos), "helper")
				continue
			}
			r.viol("C35.R2", key, m.Pos(s.pos), "the compared value "+describe(s.x)+" is not derived from the lowered query: SELECT/select would be treated differently")
		}
	}

	// ---- R3
	for _, fn := range fns {
		for _, b := range fn.Blocks {
			for _, in := range b.Instrs {
				ia, ok := in.(*ssa.IndexAddr)
				if !ok {
					continue
				}
				st, ok := ia.X.Type().Underlying().(*types.Slice)
				if !ok {
					continue
				}
				if bt, ok := st.Elem().Underlying().(*types.Basic); !ok || bt.Info()&types.IsString == 0 {
					continue // token / sub-match slices are []string
				}
				// range loops are bounded by construction
				if phi, ok := indexInductionPhi(ia.Index); ok && phi.Block().Comment == "rangeindex.loop" {
					continue
				}
				if a, ok := ia.X.(*ssa.Slice); ok {
					if _, isAlloc := a.X.(*ssa.Alloc); isAlloc {
						continue // literal array
					}
				}
				key := fmt.Sprintf("%s: %s[%s] is within bounds", fn.Name(), describe(ia.X), describe(ia.Index))
				terms, k := flattenSum(ia.Index)
				// S[len(S)-j]: needs len(S) >= j
				if len(terms) == 1 && k < 0 {
					if lc, ok := strip(terms[0]).(*ssa.Call); ok && calleeName(&lc.Call) == "builtin.len" && sameSliceValue(lc.Call.Args[0], ia.X) {
						guardVerdict(m, r, "C35.R3", key, fn, ia, Guard{cl(lenAtLeast(ia.X, -k))})
						continue
					}
				}
				g := Guard{cl(atomFn("index (+k') < len", func(l Lit) bool {
					x, y, op := l.X, l.Y, l.Op
					// normalise to  X < len(S)  /  len(S) > X
					switch op {
					case token.GTR:
						x, y, op = y, x, token.LSS
					case token.GEQ:
						x, y, op = y, x, token.LEQ
					}
					lenCall := func(v ssa.Value) bool {
						lc, ok := strip(v).(*ssa.Call)
						return ok && calleeName(&lc.Call) == "builtin.len" && sameSliceValue(lc.Call.Args[0], ia.X)
					}
					if !lenCall(y) {
						// len(S) != 0 / len(S) >= K forms for constant indexes
						if len(terms) == 0 && lenCall(l.X) {
							if kk, ok := constInt(l.Y); ok {
								switch l.Op {
								case token.NEQ:
									return kk == 0 && k == 0
								case token.GEQ:
									return kk >= k+1
								case token.GTR:
									return kk >= k
								case token.EQL:
									return kk >= k+1
								}
							}
						}
						return false
					}
					t2, k2 := flattenSum(x)
					if len(t2) != len(terms) {
						return false
					}
					for i := range t2 {
						if strip(t2[i]) != strip(terms[i]) {
							return false
						}
					}
					if op == token.LSS {
						return k2 >= k
					}
					if op == token.LEQ {
						return k2 > k
					}
					return false
				}))}
				guardVerdict(m, r, "C35.R3", key, fn, ia, g)
			}
		}
	}
}

// indexInductionPhi: the index is (phi + 1) of a range loop, or the phi itself.
func indexInductionPhi(v ssa.Value) (*ssa.Phi, bool) {
	v = strip(v)
	if bo, ok := v.(*ssa.BinOp); ok && bo.Op == token.ADD {
		if k, ok := constInt(bo.Y); ok && k == 1 {
			v = bo.X
		}
	}
	p, ok := v.(*ssa.Phi)
	return p, ok
}

// checkAsciiLower: R1 treats asciiLower as position-preserving. Its body must make that true: the
// result is the argument itself or string(b) of a byte copy of it, and every byte stored into that
// copy is computed from the byte loaded from the same slice at the same index (a store to b[j] of a
// value read from b[i:][j] shifts the lowered letters), under an 'A'..'Z' range test.
func checkAsciiLower(m *Module, r *Report) {
	fn := needFn(m, r, "C35.R4", pkgSQL, "asciiLower")
	if fn == nil {
		return
	}
	param := ssa.Value(fn.Params[0])
	// results
	okRes, whyRes := true, ""
	for _, b := range fn.Blocks {
		ret, ok := b.Instrs[len(b.Instrs)-1].(*ssa.Return)
		if !ok {
			continue
		}
		for _, o := range origins(ret.Results[0]) {
			if strip(o) == param {
				continue
			}
			cv, ok := strip(o).(*ssa.Convert)
			if !ok {
				okRes, whyRes = false, "returns "+describe(o)
				continue
			}
			// string(b) where b = []byte(s)
			src := false
			for _, bo := range origins(cv.X) {
				if c2, ok := strip(bo).(*ssa.Convert); ok && strip(c2.X) == param {
					src = true
				}
			}
			if !src {
				okRes, whyRes = false, "the returned string is not string([]byte(s))"
			}
		}
	}
	if okRes {
		r.ok("C35.R4", "asciiLower returns its argument or a same-length byte copy of it", m.Pos(fn.Pos()), "")
	} else {
		r.viol("C35.R4", "asciiLower returns its argument or a same-length byte copy of it", m.Pos(fn.Pos()), whyRes)
	}
	n, bad := 0, ""
	for _, b := range fn.Blocks {
		for _, in := range b.Instrs {
			st, ok := in.(*ssa.Store)
			if !ok {
				continue
			}
			ia, ok := st.Addr.(*ssa.IndexAddr)
			if !ok {
				continue
			}
			n++
			same := false
			backSlice(st.Val, false, func(v ssa.Value) {
				if la, ok := v.(*ssa.IndexAddr); ok && la != ia {
					if strip(la.X) == strip(ia.X) && la.Index == ia.Index {
						same = true
					}
				}
				if ix, ok := v.(*ssa.Index); ok {
					_ = ix
				}
			})
			if !same {
				bad = fmt.Sprintf("the byte stored at %s is not computed from the byte at the same index of the same slice (%s)", m.Pos(st.Pos()), describe(st.Val))
			}
		}
	}
	key := "asciiLower writes each lowered byte back to the position it was read from"
	switch {
	case n == 0:
		r.unresolved("C35.R4", key, "no byte store found")
	case bad != "":
		r.viol("C35.R4", key, m.Pos(fn.Pos()), bad+": the lowered text no longer lines up with the original, so keywords are missed or positions cut the wrong place")
	default:
		r.ok("C35.R4", key, m.Pos(fn.Pos()), fmt.Sprintf("%d store(s)", n))
	}
}
