package main

import (
	"fmt"
	"go/types"
	"go/token"
	"regexp"
	"sort"
	"strings"

	"golang.org/x/tools/go/ssa"
)

func init() { register("C22", "other", checkC22) }

var topicLike = regexp.MustCompile(`(?i)topic`)

// byteClass evaluates a character-class predicate written as a chain of comparisons of one byte
// value against constants: starting after `lookup` (name[i]), every If whose condition compares the
// byte with a constant is decided for each of the 256 byte values; a block returning a constant
// false rejects the byte, leaving the chain (an If on something else, i.e. the loop header) accepts
// it. Anything else makes the extraction fail (undecided), never a guess.
func byteClass(lookup ssa.Value) (accepted [256]bool, ok bool, why string) {
	in, isIn := lookup.(ssa.Instruction)
	if !isIn {
		return accepted, false, "lookup is not an instruction"
	}
	cmpOf := func(cond ssa.Value) (op token.Token, k int64, ok bool) {
		b, isB := cond.(*ssa.BinOp)
		if !isB {
			return 0, 0, false
		}
		x, y, o := b.X, b.Y, b.Op
		if strip(y) == lookup {
			x, y, o = y, x, swapOp(o)
		}
		if strip(x) != lookup {
			return 0, 0, false
		}
		c, isC := constInt(y)
		if !isC {
			return 0, 0, false
		}
		return o, c, true
	}
	for c := 0; c < 256; c++ {
		b := in.Block()
		steps := 0
		for {
			steps++
			if steps > 200 {
				return accepted, false, "character-class chain does not terminate"
			}
			last := b.Instrs[len(b.Instrs)-1]
			switch t := last.(type) {
			case *ssa.Return:
				if len(t.Results) != 1 {
					return accepted, false, "unexpected return arity"
				}
				k, isC := strip(t.Results[0]).(*ssa.Const)
				if !isC || k.Value == nil {
					return accepted, false, "non-constant return inside the character chain"
				}
				accepted[c] = k.Value.ExactString() == "true"
				goto next
			case *ssa.Jump:
				b = b.Succs[0]
				// a loop latch leads back to the header, whose If is not on the byte: accepted there
			case *ssa.If:
				op, k, isCmp := cmpOf(t.Cond)
				if !isCmp {
					accepted[c] = true
					goto next
				}
				v := int64(c)
				var truth bool
				switch op {
				case token.EQL:
					truth = v == k
				case token.NEQ:
					truth = v != k
				case token.LSS:
					truth = v < k
				case token.LEQ:
					truth = v <= k
				case token.GTR:
					truth = v > k
				case token.GEQ:
					truth = v >= k
				default:
					return accepted, false, "unsupported comparison " + op.String()
				}
				if truth {
					b = b.Succs[0]
				} else {
					b = b.Succs[1]
				}
			default:
				return accepted, false, fmt.Sprintf("unexpected terminator %T", last)
			}
		}
	next:
	}
	return accepted, true, ""
}

// predClass: the set of values in 0..256 (256 standing for every larger value, sound when all
// constants compared with are below 256) for which the one-argument predicate function fn returns
// true. fn must consist of comparisons of its parameter with constants, boolean connectives and
// constant / phi / comparison returns; anything else fails (undecided), never a guess.
func predClass(fn *ssa.Function) (accepted [257]bool, ok bool, why string) {
	if fn == nil || len(fn.Blocks) == 0 || len(fn.Params) != 1 {
		return accepted, false, "not a one-argument function with a body"
	}
	param := ssa.Value(fn.Params[0])
	env := map[*ssa.Phi]bool{}
	var evalBool func(v ssa.Value, c int64, prev, cur *ssa.BasicBlock, depth int) (bool, bool)
	evalBool = func(v ssa.Value, c int64, prev, cur *ssa.BasicBlock, depth int) (bool, bool) {
		if depth > 8 {
			return false, false
		}
		switch x := strip(v).(type) {
		case *ssa.Const:
			if x.Value == nil {
				return false, false
			}
			return x.Value.ExactString() == "true", true
		case *ssa.BinOp:
			a, b, op := x.X, x.Y, x.Op
			if strip(b) == param {
				a, b, op = b, a, swapOp(op)
			}
			if strip(a) != param {
				return false, false
			}
			k, isC := constInt(b)
			if !isC || k > 255 {
				return false, false
			}
			switch op {
			case token.EQL:
				return c == k, true
			case token.NEQ:
				return c != k, true
			case token.LSS:
				return c < k, true
			case token.LEQ:
				return c <= k, true
			case token.GTR:
				return c > k, true
			case token.GEQ:
				return c >= k, true
			}
			return false, false
		case *ssa.UnOp:
			if x.Op == token.NOT {
				r, ok := evalBool(x.X, c, prev, cur, depth+1)
				return !r, ok
			}
		case *ssa.Phi:
			r, ok := env[x]
			return r, ok
		}
		return false, false
	}
	// enter: evaluate the phis of block b for the edge prev → b
	enter := func(c int64, prev, b *ssa.BasicBlock) bool {
		if prev == nil {
			return true
		}
		idx := -1
		for i, p := range b.Preds {
			if p == prev {
				idx = i
			}
		}
		vals := map[*ssa.Phi]bool{}
		for _, in := range b.Instrs {
			ph, ok := in.(*ssa.Phi)
			if !ok {
				break
			}
			if idx < 0 {
				return false
			}
			if _, isBool := ph.Type().Underlying().(*types.Basic); !isBool {
				continue
			}
			r, okr := evalBool(ph.Edges[idx], c, nil, nil, 0)
			if !okr {
				continue
			}
			vals[ph] = r
		}
		for k, v := range vals {
			env[k] = v
		}
		return true
	}
	for c := int64(0); c <= 256; c++ {
		var prev *ssa.BasicBlock
		b := fn.Blocks[0]
		for k := range env {
			delete(env, k)
		}
		for steps := 0; ; steps++ {
			if !enter(c, prev, b) {
				return accepted, false, "phi without a matching predecessor"
			}
			if steps > 200 {
				return accepted, false, "predicate does not terminate"
			}
			last := b.Instrs[len(b.Instrs)-1]
			switch t := last.(type) {
			case *ssa.Return:
				if len(t.Results) != 1 {
					return accepted, false, "unexpected return arity"
				}
				r, okr := evalBool(t.Results[0], c, prev, b, 0)
				if !okr {
					return accepted, false, "result is not built from comparisons of the argument with constants"
				}
				accepted[c] = r
			case *ssa.Jump:
				prev, b = b, b.Succs[0]
				continue
			case *ssa.If:
				r, okr := evalBool(t.Cond, c, prev, b, 0)
				if !okr {
					return accepted, false, "a branch does not compare the argument with a constant"
				}
				if r {
					prev, b = b, b.Succs[0]
				} else {
					prev, b = b, b.Succs[1]
				}
				continue
			default:
				return accepted, false, fmt.Sprintf("unexpected terminator %T", last)
			}
			break
		}
	}
	return accepted, true, ""
}

func classString(a [256]bool) string {
	var sb strings.Builder
	for i := 0; i < 256; i++ {
		if !a[i] {
			continue
		}
		j := i
		for j+1 < 256 && a[j+1] {
			j++
		}
		if j > i+1 {
			fmt.Fprintf(&sb, "%q-%q ", rune(i), rune(j))
		} else {
			for k := i; k <= j; k++ {
				fmt.Fprintf(&sb, "%q ", rune(k))
			}
		}
		i = j
	}
	return strings.TrimSpace(sb.String())
}

// strComp is one component of a flattened key expression.
type strComp struct {
	Lit   string
	Var   ssa.Value // nil for literals
	Topic bool
	Num   bool // numeric verb / integer argument
}

// variadicElems returns the elements of a variadic argument built in place ([]any{a, b, c}).
func variadicElems(arg ssa.Value) ([]ssa.Value, bool) {
	if c, ok := arg.(*ssa.Const); ok && c.Value == nil {
		return nil, true
	}
	sl, ok := arg.(*ssa.Slice)
	if !ok {
		return nil, false
	}
	arr, ok := sl.X.(*ssa.Alloc)
	if !ok || arr.Referrers() == nil {
		return nil, false
	}
	byIdx := map[int64]ssa.Value{}
	for _, ref := range *arr.Referrers() {
		ia, ok := ref.(*ssa.IndexAddr)
		if !ok || ia.Referrers() == nil {
			continue
		}
		idx, ok := constInt(ia.Index)
		if !ok {
			return nil, false
		}
		for _, rr := range *ia.Referrers() {
			if st, ok := rr.(*ssa.Store); ok && st.Addr == ssa.Value(ia) {
				byIdx[idx] = st.Val
			}
		}
	}
	out := make([]ssa.Value, len(byIdx))
	for i := range out {
		v, ok := byIdx[int64(i)]
		if !ok {
			return nil, false
		}
		out[i] = v
	}
	return out, true
}

func isTopicLike(v ssa.Value) bool {
	hit := false
	backSlice(v, false, func(x ssa.Value) {
		switch y := x.(type) {
		case *ssa.Parameter:
			if topicLike.MatchString(y.Name()) {
				hit = true
			}
		case *ssa.FreeVar:
			if topicLike.MatchString(y.Name()) {
				hit = true
			}
		}
		if _, f, _, ok := fieldOf(x); ok && topicLike.MatchString(f) {
			hit = true
		}
		if u, ok := x.(*ssa.UnOp); ok && u.Op == token.MUL {
			if fa, ok := u.X.(*ssa.FieldAddr); ok {
				if _, f, _, ok := fieldAddrInfo(fa); ok && topicLike.MatchString(f) {
					hit = true
				}
			}
		}
	})
	return hit
}

var fmtVerb = regexp.MustCompile(`%[-+# 0]*[0-9]*(\.[0-9]+)?[a-zA-Z%]`)

// strShape flattens a string-valued expression into literal and variable components.
// Understands constants, +, fmt.Sprintf with a constant format, path.Join, and calls to
// module-local single-return functions (inlined, depth-bounded).
func strShape(m *Module, v ssa.Value, depth int) []strComp {
	v = strip(v)
	if s, ok := constString(v); ok {
		return []strComp{{Lit: s}}
	}
	switch x := v.(type) {
	case *ssa.BinOp:
		if x.Op == token.ADD {
			return append(strShape(m, x.X, depth), strShape(m, x.Y, depth)...)
		}
	case *ssa.Phi:
		// not flattened
	case *ssa.Call:
		name := calleeName(&x.Call)
		switch name {
		case "fmt.Sprintf":
			format, ok := constString(x.Call.Args[0])
			if !ok {
				break
			}
			args, ok := variadicElems(x.Call.Args[1])
			if !ok {
				break
			}
			var out []strComp
			pos, ai := 0, 0
			for _, loc := range fmtVerb.FindAllStringIndex(format, -1) {
				if loc[0] > pos {
					out = append(out, strComp{Lit: format[pos:loc[0]]})
				}
				verb := format[loc[1]-1]
				pos = loc[1]
				if verb == '%' {
					out = append(out, strComp{Lit: "%"})
					continue
				}
				if ai >= len(args) {
					return []strComp{{Var: v}}
				}
				a := args[ai]
				ai++
				if verb == 's' || verb == 'v' {
					sub := strShape(m, a, depth)
					if len(sub) == 1 && sub[0].Var != nil {
						sub[0].Num = verb == 'v' && isIntType(strip(a).Type())
					}
					out = append(out, sub...)
				} else {
					out = append(out, strComp{Var: a, Num: verb == 'd' || verb == 'x'})
				}
			}
			if pos < len(format) {
				out = append(out, strComp{Lit: format[pos:]})
			}
			return out
		case "strconv.Itoa", "strconv.FormatInt", "strconv.FormatUint":
			// decimal rendering of an integer (any other base is still digits/letters without separators)
			return []strComp{{Var: x.Call.Args[0], Num: true}}
		case "path.Join":
			elems, ok := variadicElems(x.Call.Args[0])
			if !ok {
				break
			}
			var out []strComp
			for i, e := range elems {
				if i > 0 {
					out = append(out, strComp{Lit: "/"})
				}
				out = append(out, strShape(m, e, depth)...)
			}
			return out
		default:
			if depth > 0 {
				if f, _ := calleeOf(&x.Call); f != nil && f.Blocks != nil && m.isLocalPkg(fnPkg(f)) {
					var rets []*ssa.Return
					for _, b := range f.Blocks {
						if rt, ok := b.Instrs[len(b.Instrs)-1].(*ssa.Return); ok {
							rets = append(rets, rt)
						}
					}
					if len(rets) == 1 && len(rets[0].Results) == 1 {
						sub := strShape(m, rets[0].Results[0], depth-1)
						// parameters of the callee are mapped to this call's arguments
						for i := range sub {
							if p, ok := sub[i].Var.(*ssa.Parameter); ok {
								for pi, fp := range f.Params {
									if fp == p && pi < len(x.Call.Args) {
										sub[i].Var = x.Call.Args[pi]
										sub[i].Topic = sub[i].Topic || isTopicLike(x.Call.Args[pi])
									}
								}
							}
						}
						return sub
					}
				}
			}
		}
	}
	return []strComp{{Var: v, Topic: isTopicLike(v), Num: isIntType(v.Type())}}
}

func shapeString(cs []strComp) string {
	var sb strings.Builder
	for _, c := range cs {
		switch {
		case c.Var == nil:
			sb.WriteString(c.Lit)
		case c.Topic:
			sb.WriteString("‹topic›")
		case c.Num:
			sb.WriteString("‹n›")
		default:
			sb.WriteString("‹s›")
		}
	}
	return sb.String()
}

// mergeLits joins adjacent literal components.
func mergeLits(cs []strComp) []strComp {
	var out []strComp
	for _, c := range cs {
		if c.Var == nil && len(out) > 0 && out[len(out)-1].Var == nil {
			out[len(out)-1].Lit += c.Lit
			continue
		}
		if c.Var == nil && c.Lit == "" {
			continue
		}
		out = append(out, c)
	}
	return out
}

// checkKeyShape applies the separator rule to one flattened key; asPrefix additionally requires a
// separator after the topic even when nothing variable follows.
func checkKeyShape(cs []strComp, alpha [256]bool, asPrefix bool) (nTopic int, bad string) {
	cs = mergeLits(cs)
	for i, c := range cs {
		if c.Var == nil || !c.Topic {
			continue
		}
		nTopic++
		varAfter, varBefore := false, false
		for j := i + 1; j < len(cs); j++ {
			if cs[j].Var != nil {
				varAfter = true
			}
		}
		for j := 0; j < i; j++ {
			if cs[j].Var != nil {
				varBefore = true
			}
		}
		if varAfter || asPrefix {
			if i+1 >= len(cs) || cs[i+1].Var != nil {
				if asPrefix && !varAfter {
					return nTopic, "used as a key prefix but nothing terminates the topic name: the prefix of topic \"a\" also matches topic \"ab\""
				}
				return nTopic, "topic name is directly followed by another variable part with no separator"
			}
			if ch := cs[i+1].Lit[0]; alpha[ch] {
				return nTopic, fmt.Sprintf("the character %q that ends the topic name is itself legal inside a topic name", rune(ch))
			}
		}
		if varBefore {
			if i == 0 || cs[i-1].Var != nil {
				return nTopic, "topic name directly follows another variable part with no separator"
			}
			l := cs[i-1].Lit
			if ch := l[len(l)-1]; alpha[ch] {
				return nTopic, fmt.Sprintf("the character %q that precedes the topic name is itself legal inside a topic name", rune(ch))
			}
		}
	}
	return nTopic, ""
}

func checkC22(c *Ctx, r *Report) {
	r.Explanation = "Decides structural necessary conditions of 'different accepted topic names never share S3 objects or etcd keys': (R1) every mutation of the in-memory topic state in CreateTopic has passed ValidTopicName(spec.Name), EtcdStore.CreateTopic creates only through it, and ValidTopicName's true return has passed the rejection of \"\", \".\", \"..\" and the length cap; (R2) the accepted alphabet is extracted from ValidTopicName's comparison chain (decision-tree evaluation over the 256 byte values, comparisons against constants only) and every key/format/path.Join expression in the broker, storage, cache and metadata packages that embeds a topic name delimits it from neighbouring variable parts — and from the end, where the key is used as a listing/deletion prefix — by a literal character outside that alphabet; path.Join is only sound because dot segments are rejected; (R3) the broker builds a PartitionLog (and hence S3 keys) only after Store.NextOffset succeeded for that topic, i.e. only for topics that exist in the metadata store. R1 exposed the missing validator repaired by 8dc0e46. It does not decide names injected by the operator's snapshot."
	r.NotCovered = "topic names that enter the metadata store through the operator's snapshot (InMemoryStore.Update); group-id aliasing (C16); the LFS proxy's own validator"
	m, err := c.Mod("root")
	if err != nil {
		r.unresolved("C22.load", "root module", err.Error())
		return
	}
	r.rule("C22.R1", "topic creation is validated: state writes in CreateTopic have passed ValidTopicName; the validator rejects \"\", \".\", \"..\" and over-long names", 5)
	r.rule("C22.R2", "every key expression embedding a topic name delimits it by characters outside the validator's alphabet", 18)
	r.rule("C22.R3", "PartitionLog construction in the broker is dominated by a successful Store.NextOffset", 1)

	// ---- alphabet
	vt := needFn(m, r, "C22.R1", pkgMetadata, "ValidTopicName")
	if vt == nil {
		return
	}
	var alpha [256]bool
	haveAlpha := false
	for _, b := range vt.Blocks {
		for _, in := range b.Instrs {
			if lk, ok := in.(*ssa.Index); ok {
				if p, ok := lk.X.(*ssa.Parameter); ok && p == vt.Params[0] {
					a, ok2, why := byteClass(lk)
					if !ok2 {
						r.undecided("C22.R1", "ValidTopicName alphabet", m.Pos(lk.Pos()), why)
						return
					}
					alpha, haveAlpha = a, true
				}
			}
		}
	}
	if !haveAlpha {
		r.undecided("C22.R1", "ValidTopicName alphabet", m.Pos(vt.Pos()), "no per-byte scan of the name found")
		return
	}
	r.Extra["topic_alphabet"] = classString(alpha)
	if alpha['/'] || alpha[':'] || alpha['\\'] || alpha[0] || alpha['%'] {
		r.viol("C22.R1", "ValidTopicName alphabet excludes separators", m.Pos(vt.Pos()), "accepted alphabet "+classString(alpha)+" contains a key separator")
	} else {
		r.ok("C22.R1", "ValidTopicName alphabet excludes separators", m.Pos(vt.Pos()), "accepted: "+classString(alpha))
	}
	// true return guarded by the dot-segment, empty and length rejections
	name := vt.Params[0]
	strNe := func(s string) Atom {
		return atomFn("name != "+fmt.Sprintf("%q", s), func(l Lit) bool {
			if l.Op != token.NEQ {
				return false
			}
			x, y := l.X, l.Y
			if k, ok := constString(x); ok && k == s {
				x, y = y, x
			}
			k, ok := constString(y)
			return ok && k == s && strip(x) == ssa.Value(name)
		})
	}
	lenCap := atomFn("len(name) <= K", func(l Lit) bool {
		x, y, op := l.X, l.Y, l.Op
		if _, ok := constInt(x); ok {
			x, y, op = y, x, swapOp(op)
		}
		k, ok := constInt(y)
		if !ok || k <= 0 || k > 255 || (op != token.LEQ && op != token.LSS) {
			return false
		}
		lc, ok := strip(x).(*ssa.Call)
		return ok && calleeName(&lc.Call) == "builtin.len" && strip(lc.Call.Args[0]) == ssa.Value(name)
	})
	for _, b := range vt.Blocks {
		ret, ok := b.Instrs[len(b.Instrs)-1].(*ssa.Return)
		if !ok {
			continue
		}
		if k, ok := strip(ret.Results[0]).(*ssa.Const); ok && k.Value != nil && k.Value.ExactString() == "false" {
			continue
		}
		guardVerdict(m, r, "C22.R1", "ValidTopicName accepts only after rejecting \"\", \".\", \"..\" and over-long names", vt, ret,
			Guard{cl(strNe("")), cl(strNe(".")), cl(strNe("..")), cl(lenCap)})
	}

	// ---- R1: state writes of InMemoryStore.CreateTopic
	if ct := needFn(m, r, "C22.R1", pkgMetadata, "(*InMemoryStore).CreateTopic"); ct != nil {
		g := Guard{cl(atomBool("ValidTopicName(spec.Name)", vmCall(pkgMetadata+".ValidTopicName"), true))}
		n := 0
		// the validated string is the spec's Name
		for _, call := range findCalls(ct, pkgMetadata+".ValidTopicName") {
			if !dependsOnField(call.Common().Args[0], "", "Name") {
				r.viol("C22.R1", "CreateTopic validates spec.Name", m.Pos(call.Pos()), "ValidTopicName is applied to "+describe(call.Common().Args[0])+", not to the name being created")
			} else {
				r.ok("C22.R1", "CreateTopic validates spec.Name", m.Pos(call.Pos()), "")
			}
		}
		recv := ct.Params[0]
		for _, b := range ct.Blocks {
			for _, in := range b.Instrs {
				var addr ssa.Value
				switch x := in.(type) {
				case *ssa.Store:
					addr = x.Addr
				case *ssa.MapUpdate:
					addr = x.Map
				default:
					continue
				}
				fromRecv := false
				backSlice(addr, false, func(v ssa.Value) {
					if v == ssa.Value(recv) {
						fromRecv = true
					}
				})
				if !fromRecv {
					continue
				}
				n++
				guardVerdict(m, r, "C22.R1", "InMemoryStore.CreateTopic state write "+describe(addr), ct, in, g)
			}
		}
		if n == 0 {
			r.unresolved("C22.R1", "InMemoryStore.CreateTopic state writes", "none found")
		}
	}
	// EtcdStore.CreateTopic creates only through the in-memory CreateTopic
	if ect := needFn(m, r, "C22.R1", pkgMetadata, "(*EtcdStore).CreateTopic"); ect != nil {
		inner := findCalls(ect, "(*"+pkgMetadata+".InMemoryStore).CreateTopic")
		other := findCalls(ect, "(*"+pkgMetadata+".InMemoryStore).Update", "~client/v3.KV).Put")
		if len(inner) == 1 && len(other) == 0 {
			okB, _ := errEdges(inner[0])
			if okB == nil {
				r.undecided("C22.R1", "EtcdStore.CreateTopic creates through the validated in-memory CreateTopic", m.Pos(inner[0].Pos()), "error check of the delegated call not found")
			} else if p := findCalls(ect, "(*"+pkgMetadata+".EtcdStore).persistSnapshotLocked"); len(p) > 0 &&
				!checkGuarded(m, ect, p[0], Guard{cl(atomErrNil("(*" + pkgMetadata + ".InMemoryStore).CreateTopic"))}).OK {
				r.viol("C22.R1", "EtcdStore.CreateTopic creates through the validated in-memory CreateTopic", m.Pos(p[0].Pos()), "the snapshot is persisted although the validated creation failed")
			} else {
				r.ok("C22.R1", "EtcdStore.CreateTopic creates through the validated in-memory CreateTopic", m.Pos(inner[0].Pos()), "")
			}
		} else {
			r.viol("C22.R1", "EtcdStore.CreateTopic creates through the validated in-memory CreateTopic", m.Pos(ect.Pos()),
				fmt.Sprintf("%d delegations, %d direct state writes", len(inner), len(other)))
		}
	}
	// who may add a topic to the in-memory state
	{
		adders := map[string]bool{}
		for _, fn := range m.FuncsInPkg(pkgMetadata) {
			for _, st := range storesToField(fn, "metadata.ClusterMetadata", "Topics") {
				if !dependsOnInMemoryState(st.Addr) {
					continue
				}
				// appends grow the list; filter/replace shapes are classified by their source
				if ac, ok := strip(st.Val).(*ssa.Call); ok && calleeName(&ac.Call) == "builtin.append" {
					// a fresh element (varargs array built in place) is added; append(x[:i], x[i+1:]...) removes
					if sl, ok := ac.Call.Args[1].(*ssa.Slice); ok && dependsOnInMemoryStateVal(ac.Call.Args[0]) {
						if _, fresh := sl.X.(*ssa.Alloc); fresh {
							adders[funcName(fn)] = true
						}
					}
				}
			}
		}
		allowed := map[string]string{"(*" + pkgMetadata + ".InMemoryStore).CreateTopic": "validated creation"}
		for a := range adders {
			key := "topic list grows in " + a
			if _, ok := allowed[a]; ok {
				r.ok("C22.R1", key, "", allowed[a])
			} else {
				r.viol("C22.R1", key, "", "a topic is appended to the metadata state outside the validated CreateTopic")
			}
		}
	}

	// ---- R2: key shapes
	pkgs := []string{pkgStorage, pkgCache, pkgMetadata, pkgBroker, pkgBrokerLib}
	type site struct {
		fn   *ssa.Function
		call *ssa.Call    // the Sprintf / Join call, or nil for a plain concatenation
		val  ssa.Value    // the expression itself
	}
	var sites []site
	inner := map[*ssa.Call]bool{} // Sprintf/Join calls that are elements of an enclosing key expression
	for _, p := range pkgs {
		for _, fn := range m.FuncsInPkg(p) {
			for _, b := range fn.Blocks {
				for _, in := range b.Instrs {
					if bo, isBo := in.(*ssa.BinOp); isBo && bo.Op == token.ADD {
						// a plain string concatenation: take the outermost + whose operands contain no
						// Sprintf / Join (those are sites of their own and grow over a trailing +)
						if bt, ok := bo.Type().Underlying().(*types.Basic); ok && bt.Info()&types.IsString != 0 {
							outer := true
							if bo.Referrers() != nil {
								for _, ref := range *bo.Referrers() {
									if b2, ok := ref.(*ssa.BinOp); ok && b2.Op == token.ADD {
										outer = false
									}
								}
							}
							hasBuilder := false
							var scan func(v ssa.Value)
							scan = func(v ssa.Value) {
								switch y := strip(v).(type) {
								case *ssa.BinOp:
									if y.Op == token.ADD {
										scan(y.X)
										scan(y.Y)
									}
								case *ssa.Call:
									if cn := calleeName(&y.Call); cn == "fmt.Sprintf" || cn == "path.Join" {
										hasBuilder = true
									}
								}
							}
							scan(bo)
							if outer && !hasBuilder {
								sites = append(sites, site{fn, nil, bo})
							}
						}
						continue
					}
					call, ok := in.(*ssa.Call)
					if !ok {
						continue
					}
					n := calleeName(&call.Call)
					if n != "fmt.Sprintf" && n != "path.Join" {
						continue
					}
					sites = append(sites, site{fn, call, call})
					// mark nested builders
					var args []ssa.Value
					if n == "fmt.Sprintf" {
						args, _ = variadicElems(call.Call.Args[1])
					} else {
						args, _ = variadicElems(call.Call.Args[0])
					}
					for _, a := range args {
						if ic, ok := strip(a).(*ssa.Call); ok {
							inner[ic] = true
						}
					}
				}
			}
		}
	}
	// prefix consumers: the string flows (in the same function, through + only) into a listing /
	// prefix-deleting / prefix-matching call
	isPrefixUse := func(call ssa.Value) bool {
		var flows func(v ssa.Value, depth int) bool
		flows = func(v ssa.Value, depth int) bool {
			if depth > 4 || v.Referrers() == nil {
				return false
			}
			for _, ref := range *v.Referrers() {
				switch x := ref.(type) {
				case *ssa.BinOp:
					if x.Op == token.ADD && flows(x, depth+1) {
						return true
					}
				case *ssa.Return:
					fn := x.Parent()
					if strings.Contains(strings.ToLower(fn.Name()), "prefix") {
						return true
					}
				case ssa.CallInstruction:
					cn := calleeName(x.Common())
					if strings.HasSuffix(cn, ".ListSegments") || cn == "strings.HasPrefix" || cn == "strings.Contains" {
						return true
					}
					if strings.HasSuffix(cn, "client/v3.KV).Delete") || strings.HasSuffix(cn, "client/v3.KV).Get") || strings.HasSuffix(cn, "client/v3.Watcher).Watch") {
						for _, a := range x.Common().Args {
							hit := false
							backSlice(a, false, func(o ssa.Value) {
								if oc, ok := o.(*ssa.Call); ok && strings.HasSuffix(calleeName(&oc.Call), "client/v3.WithPrefix") {
									hit = true
								}
							})
							if hit {
								return true
							}
						}
					}
				case *ssa.Store:
					if a, ok := x.Addr.(*ssa.Alloc); ok {
						for _, ld := range *a.Referrers() {
							if u, ok := ld.(*ssa.UnOp); ok && u.Op == token.MUL && flows(u, depth+1) {
								return true
							}
						}
					}
				}
			}
			return false
		}
		return flows(call, 0)
	}
	sort.Slice(sites, func(i, j int) bool { return sites[i].val.Pos() < sites[j].val.Pos() })
	nKeys := 0
	for _, s := range sites {
		if s.call != nil && inner[s.call] {
			continue
		}
		// the whole expression: include a trailing + "…"
		var whole ssa.Value = s.val
		for {
			grown := false
			if whole.Referrers() != nil {
				for _, ref := range *whole.Referrers() {
					if bo, ok := ref.(*ssa.BinOp); ok && bo.Op == token.ADD {
						whole = bo
						grown = true
						break
					}
				}
			}
			if !grown {
				break
			}
		}
		shape := strShape(m, whole, 2)
		hasTopic := false
		for _, cpt := range shape {
			if cpt.Topic {
				hasTopic = true
			}
		}
		if !hasTopic {
			continue
		}
		nKeys++
		r.fn(s.fn)
		r.CallSites++
		prefix := isPrefixUse(whole)
		_, bad := checkKeyShape(shape, alpha, prefix)
		key := fmt.Sprintf("%s builds %s", funcName(s.fn), shapeString(shape))
		if prefix {
			key += " (prefix use)"
		}
		usesJoin := s.call != nil && calleeName(&s.call.Call) == "path.Join"
		if bad != "" {
			r.viol("C22.R2", key, m.Pos(s.val.Pos()), bad)
		} else if usesJoin && (alpha['/'] || !haveAlpha) {
			r.viol("C22.R2", key, m.Pos(s.val.Pos()), "path.Join with a topic element that may contain '/'")
		} else {
			r.ok("C22.R2", key, m.Pos(s.val.Pos()), "")
		}
	}
	if nKeys == 0 {
		r.unresolved("C22.R2", "key expressions embedding a topic", "none found")
	}

	// ---- R3
	if gp := needFn(m, r, "C22.R3", pkgBroker, "(*handler).getPartitionLog"); gp != nil {
		n := 0
		for _, fn := range withAnon(gp) {
			for _, call := range findCalls(fn, pkgStorage+".NewPartitionLog") {
				n++
				g := Guard{cl(atomErrNil("~metadata.Store).NextOffset"))}
				guardVerdict(m, r, "C22.R3", "NewPartitionLog after successful Store.NextOffset in "+fn.Name(), fn, call.(ssa.Instruction), g)
				// same topic value
				no := findCalls(fn, "~metadata.Store).NextOffset")
				if len(no) == 1 && len(no[0].Common().Args) >= 3 && len(call.Common().Args) >= 3 {
					if sameSource(no[0].Common().Args[1], call.Common().Args[1]) {
						r.ok("C22.R3", "NextOffset and NewPartitionLog receive the same topic value", m.Pos(call.Pos()), "")
					} else {
						r.viol("C22.R3", "NextOffset and NewPartitionLog receive the same topic value", m.Pos(call.Pos()), describe(no[0].Common().Args[1])+" vs "+describe(call.Common().Args[1]))
					}
				}
			}
		}
		// nobody else in the broker constructs partition logs
		for _, cs := range callersOf(m, pkgStorage+".NewPartitionLog") {
			if p := fnPkg(cs.caller); p != nil && p.Path() == pkgBroker {
				top := cs.caller
				for top.Parent() != nil {
					top = top.Parent()
				}
				if top != gp {
					r.viol("C22.R3", "NewPartitionLog outside getPartitionLog: "+funcName(cs.caller), m.Pos(cs.in.Pos()), "a partition log is built without the metadata-store existence check")
				}
			}
		}
		if n == 0 {
			r.unresolved("C22.R3", "NewPartitionLog in getPartitionLog", "not found")
		}
	}
}

// dependsOnInMemoryStateVal: value is (derived from) a load of InMemoryStore.state.
func dependsOnInMemoryStateVal(v ssa.Value) bool {
	hit := false
	backSlice(v, false, func(x ssa.Value) {
		if fa, ok := x.(*ssa.FieldAddr); ok {
			if t, f, _, ok := fieldAddrInfo(fa); ok && strings.HasSuffix(t, "metadata.InMemoryStore") && f == "state" {
				hit = true
			}
		}
	})
	return hit
}

// sameSource: the two values are the same SSA value, or loads of the same address (captured
// variables are re-loaded at every use; go/ssa has no CSE).
func sameSource(a, b ssa.Value) bool {
	a, b = strip(a), strip(b)
	if a == b {
		return true
	}
	ua, ok1 := a.(*ssa.UnOp)
	ub, ok2 := b.(*ssa.UnOp)
	if ok1 && ok2 && ua.Op == token.MUL && ub.Op == token.MUL && ua.X == ub.X {
		// no store to the address in between is possible for a FreeVar/Parameter cell that is never
		// re-assigned in this function
		// … or for a local cell written once, before both reads, and never again (a parameter
		// spilled because a closure captures it): the one store dominates both loads and cannot
		// run again after them; a closure the cell is bound into does not write it.
		if ua.X.Referrers() != nil {
			for _, ref := range *ua.X.Referrers() {
				switch x := ref.(type) {
				case *ssa.Store:
					if x.Addr != ua.X {
						continue
					}
					after := blocksAfter(ua.Block())
					for b := range blocksAfter(ub.Block()) {
						after[b] = true
					}
					if !instrDominates(x, ua) || !instrDominates(x, ub) || after[x.Block()] {
						return false
					}
				case *ssa.MakeClosure:
					f, _ := x.Fn.(*ssa.Function)
					for i, bnd := range x.Bindings {
						if bnd != ua.X || f == nil || i >= len(f.FreeVars) {
							continue
						}
						if refs := f.FreeVars[i].Referrers(); refs != nil {
							for _, r2 := range *refs {
								if st, ok := r2.(*ssa.Store); ok && st.Addr == ssa.Value(f.FreeVars[i]) {
									return false
								}
								if _, ok := r2.(*ssa.MakeClosure); ok {
									return false
								}
							}
						}
					}
				}
			}
		}
		return true
	}
	return false
}
