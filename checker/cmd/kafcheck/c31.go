package main

import (
	"go/types"
	"fmt"
	"go/token"
	"sort"
	"strings"

	"golang.org/x/tools/go/ssa"
)

func init() { register("C31", "other", checkC31) }

func checkC31(c *Ctx, r *Report) {
	r.Explanation = "Decides structural necessary conditions of 'LFS produce rewriting changes only the flagged values': (R1) in rewriteProduceRecords the only fields of a kmsg.Record that are written are Value and Headers, both only after the LFS_BLOB header lookup reported ok; the new Value is the result of lfs.EncodeEnvelope of an envelope whose Key is the key handed to the uploader, whose SHA256/Checksum are the uploader's results and whose Size is len of the original value, and the uploaded payload is the record's original value; the header that is dropped is the one that was looked up, and lfsDropHeader keeps every header whose key differs; an object key is generated per flagged record; (R2) re-framing: the only batch-header fields written are Records, NumRecords, Attributes, Length and CRC (plus Raw); Attributes keeps everything but the three codec bits, which receive the codec the compressor actually used; NumRecords is the length of the decoded record list; the final Length is stored before the encoding that the CRC is computed over, the CRC is the Castagnoli checksum of that encoding from byte 21, and Raw is an encoding produced after the CRC was stored; (R3) all decoded records are re-encoded, untouched batches keep their raw bytes (the re-framing block is entered only when a record changed), and all batches are re-joined in order; (R4) lfsEncodeRecord emits the record fields in the Kafka v2 order (attributes, timestamp delta, offset delta, key, value, header count, headers). Byte equality of untouched records after decode/encode and envelope validity are value properties and are not decided."
	r.NotCovered = "byte equality of re-encoded untouched records inside a rewritten batch; envelope JSON validity (C29); compression output"
	m, err := c.Mod("root")
	if err != nil {
		r.unresolved("C31.load", "root module", err.Error())
		return
	}
	r.rule("C31.R1", "record writes are Value and Headers only, under the LFS_BLOB lookup; envelope fields and uploaded payload have the right provenance; only the flag header is dropped", 8)
	r.rule("C31.R2", "batch re-framing writes only Records/NumRecords/Attributes/Length/CRC/Raw, in the order Length → CRC(Castagnoli over [21:]) → Raw", 6)
	r.rule("C31.R3", "every decoded record is re-encoded, untouched batches keep their bytes, all batches are re-joined", 3)
	r.rule("C31.R4", "lfsEncodeRecord writes the record fields in Kafka v2 order", 1)
	r.rule("C31.R5", "re-encoded batches are written into fresh memory, never into the request's own buffer", 3)
	checkAppendToFresh(m, r)

	fn := needFn(m, r, "C31.R1", pkgProxy, "(*lfsModule).rewriteProduceRecords")
	if fn == nil {
		return
	}
	// ---- R6: whether a partition carries flagged records is decided on its decoded records: within
	// the partition loop the decode is skipped only for an empty Records field (a test on the wire
	// bytes sees the compressed form of a batch and misses what is inside it)
	r.rule("C31.R6", "every partition with records is decoded: the only way past lfsDecodeRecordBatches within an iteration is len(partition.Records)==0", 1)
	r.rule("C31.R7", "a key, value or header value is re-encoded as null (length -1) only when it was null: every lfsAppendVarint(…, -1) is reached only over a `b == nil` test of the bytes being encoded (an empty, non-null field keeps length 0)", 1)
	r.Explanation += " (R7) the re-encoder writes the null length -1 only behind a nil test of the field's bytes, never a length test, so empty non-null keys, values and header values of unflagged records keep their encoding."
	checkNullEncoding(m, r, "C31.R7")
	{
		key := "rewriteProduceRecords decodes every non-empty partition"
		decs := findCalls(fn, pkgProxy+".lfsDecodeRecordBatches")
		if len(decs) == 0 {
			r.unresolved("C31.R6", key, "no lfsDecodeRecordBatches call")
		}
		for _, dc := range decs {
			hdr := innermostRangeHeader(dc)
			if hdr == nil {
				r.unresolved("C31.R6", key, "the decode is not inside a range loop")
				continue
			}
			emptySkip := func(from *ssa.BasicBlock, si int) bool {
				ifi, ok := from.Instrs[len(from.Instrs)-1].(*ssa.If)
				if !ok {
					return false
				}
				l := litOf(ifi.Cond, si == 0)
				lc, okc := strip(l.X).(*ssa.Call)
				k, okk := constInt(l.Y)
				if !okc || !okk || calleeName(&lc.Call) != "builtin.len" {
					return false
				}
				if _, f, _, okf := fieldOf(lc.Call.Args[0]); !okf || f != "Records" {
					return false
				}
				return (l.Op == token.EQL && k == 0) || (l.Op == token.LSS && k == 1) || (l.Op == token.LEQ && k == 0)
			}
			found, _, path := search(SearchSpec{Start: Loc{hdr.Succs[0], 0},
				Target:  func(t ssa.Instruction) bool { return t.Block() == hdr && t == hdr.Instrs[0] },
				Blocker: func(t ssa.Instruction) bool { return t == dc.(ssa.Instruction) },
				Removed: emptySkip})
			if found {
				r.viol("C31.R6", key, m.Pos(dc.Pos()), "a partition with records can be passed over without decoding it: "+renderPath(m, path)+" — flagged records inside it are forwarded unrewritten")
			} else {
				r.ok("C31.R6", key, m.Pos(dc.Pos()), "")
			}
		}
	}
	find := pkgProxy + ".lfsFindHeaderValue"
	// the flag lookup: lfsFindHeaderValue(headers, "LFS_BLOB")
	var flagCall *ssa.Call
	for _, call := range findCalls(fn, find) {
		if s, ok := constString(call.Common().Args[1]); ok && s == "LFS_BLOB" {
			flagCall = call.(*ssa.Call)
		}
	}
	if flagCall == nil {
		r.unresolved("C31.R1", "LFS_BLOB header lookup", "lfsFindHeaderValue(headers, \"LFS_BLOB\") not found")
		return
	}
	flagged := Guard{cl(atomFn("LFS_BLOB header present", func(l Lit) bool {
		if l.Op != token.ILLEGAL || l.Neg {
			return false
		}
		e, ok := strip(l.X).(*ssa.Extract)
		return ok && e.Tuple == ssa.Value(flagCall) && e.Index == 1
	}))}

	// ---- R1 record field writes
	written := map[string][]*ssa.Store{}
	for _, b := range fn.Blocks {
		for _, in := range b.Instrs {
			st, ok := in.(*ssa.Store)
			if !ok {
				continue
			}
			fa, ok := st.Addr.(*ssa.FieldAddr)
			if !ok {
				continue
			}
			if t, f, _, ok := fieldAddrInfo(fa); ok && strings.HasSuffix(t, "kmsg.Record") {
				written[f] = append(written[f], st)
			}
		}
	}
	var fields []string
	for f := range written {
		fields = append(fields, f)
	}
	sort.Strings(fields)
	for _, f := range fields {
		for _, st := range written[f] {
			key := "record field " + f + " is rewritten"
			if f != "Value" && f != "Headers" {
				r.viol("C31.R1", key, m.Pos(st.Pos()), "only Value and Headers of a flagged record may change; keys, timestamps, offsets and attributes must stay")
				continue
			}
			guardVerdict(m, r, "C31.R1", key+" only for records carrying the LFS_BLOB header", fn, st, flagged)
		}
	}
	if len(written["Value"]) != 1 || len(written["Headers"]) != 1 {
		r.unresolved("C31.R1", "record Value/Headers stores", fmt.Sprintf("found %d/%d", len(written["Value"]), len(written["Headers"])))
		return
	}
	vst, hst := written["Value"][0], written["Headers"][0]
	// new value = EncodeEnvelope(env)
	var encCall *ssa.Call
	if c0 := callOrigin(vst.Val); c0 != nil && calleeName(&c0.Call) == pkgLFS+".EncodeEnvelope" {
		encCall = c0
	}
	if encCall == nil {
		r.viol("C31.R1", "the new value is the encoded envelope", m.Pos(vst.Pos()), "stored value is "+describe(vst.Val))
	} else {
		r.ok("C31.R1", "the new value is the encoded envelope", m.Pos(vst.Pos()), "")
		uploads := findCalls(fn, "~s3Uploader).Upload")
		if len(uploads) != 1 {
			r.unresolved("C31.R1", "uploader call", fmt.Sprintf("found %d Upload calls", len(uploads)))
		} else {
			up := uploads[0]
			ua := up.Common().Args // recv, ctx, key, payload, alg
			// payload = original rec.Value (a load of the Value field that precedes the store)
			_, pf, _, okp := fieldOf(ua[3])
			payloadIsValue := okp && pf == "Value"
			if payloadIsValue {
				if ld, ok := strip(ua[3]).(ssa.Instruction); ok && !instrDominates(ld, vst) {
					payloadIsValue = false
				}
			}
			if payloadIsValue {
				r.ok("C31.R1", "the uploaded object holds the record's original value", m.Pos(up.Pos()), "")
			} else {
				r.viol("C31.R1", "the uploaded object holds the record's original value", m.Pos(up.Pos()), "uploaded payload is "+describe(ua[3]))
			}
			// envelope literal fields
			var envAlloc *ssa.Alloc
			backSlice(encCall.Call.Args[0], false, func(v ssa.Value) {
				if a, ok := v.(*ssa.Alloc); ok && strings.HasSuffix(a.Type().String(), "lfs.Envelope") {
					envAlloc = a
				}
			})
			if envAlloc == nil {
				r.undecided("C31.R1", "envelope literal", m.Pos(encCall.Pos()), "envelope is not a local composite literal")
			} else {
				fs := fieldStores(envAlloc)
				chk := func(field, what string, okf func(v ssa.Value) bool) {
					key := "envelope." + field + " " + what
					if len(fs[field]) == 1 && okf(fs[field][0].Val) {
						r.ok("C31.R1", key, m.Pos(fs[field][0].Pos()), "")
					} else if len(fs[field]) == 1 {
						r.viol("C31.R1", key, m.Pos(fs[field][0].Pos()), "value is "+describe(fs[field][0].Val))
					} else {
						r.viol("C31.R1", key, m.Pos(envAlloc.Pos()), fmt.Sprintf("field set %d times", len(fs[field])))
					}
				}
				chk("Key", "is the key the object was uploaded under", func(v ssa.Value) bool { return strip(v) == strip(ua[2]) })
				chk("SHA256", "is the uploader's SHA-256", func(v ssa.Value) bool { return isExtractOf(v, 0, "~s3Uploader).Upload") })
				chk("Checksum", "is the uploader's checksum", func(v ssa.Value) bool { return isExtractOf(v, 1, "~s3Uploader).Upload") })
				chk("Size", "is the length of the original value", func(v ssa.Value) bool {
					lc, ok := strip(v).(*ssa.Call)
					return ok && calleeName(&lc.Call) == "builtin.len" && strip(lc.Call.Args[0]) == strip(ua[3])
				})
				chk("Bucket", "is the proxy's bucket", func(v ssa.Value) bool { _, f, _, ok := fieldOf(v); return ok && f == "s3Bucket" })
			}
			// a fresh key per flagged record: the key generator is called inside the flagged region
			if kc := callOrigin(ua[2]); kc != nil && strings.HasSuffix(calleeName(&kc.Call), ".buildObjectKey") {
				if checkGuarded(m, fn, kc, flagged).OK {
					r.ok("C31.R1", "an object key is generated for each flagged record", m.Pos(kc.Pos()), "")
				} else {
					r.viol("C31.R1", "an object key is generated for each flagged record", m.Pos(kc.Pos()), "key generation is hoisted out of the per-record path: records would overwrite each other's object")
				}
			} else {
				r.viol("C31.R1", "an object key is generated for each flagged record", m.Pos(up.Pos()), "upload key is "+describe(ua[2]))
			}
		}
	}
	// dropped header = looked-up header
	if dc := callOrigin(hst.Val); dc != nil && calleeName(&dc.Call) == pkgProxy+".lfsDropHeader" {
		s, ok := constString(dc.Call.Args[1])
		sameList := strip(dc.Call.Args[0]) == strip(flagCall.Call.Args[0])
		if ok && s == "LFS_BLOB" && sameList {
			r.ok("C31.R1", "the header removed is the LFS_BLOB flag of the record's own header list", m.Pos(dc.Pos()), "")
		} else {
			r.viol("C31.R1", "the header removed is the LFS_BLOB flag of the record's own header list", m.Pos(dc.Pos()), "lfsDropHeader("+describe(dc.Call.Args[0])+", "+describe(dc.Call.Args[1])+")")
		}
	} else {
		r.viol("C31.R1", "the header removed is the LFS_BLOB flag of the record's own header list", m.Pos(hst.Pos()), "Headers is set to "+describe(hst.Val))
	}
	if dh := needFn(m, r, "C31.R1", pkgProxy, "lfsDropHeader"); dh != nil {
		// every iteration whose key differs appends the header
		okDrop := false
		for _, b := range dh.Blocks {
			if b.Comment != "rangeindex.body" {
				continue
			}
			var header *ssa.BasicBlock
			for _, p := range b.Preds {
				if p.Comment == "rangeindex.loop" {
					header = p
				}
			}
			if header == nil {
				continue
			}
			eq := passEdges(dh, []Atom{atomFn("header.Key == key", func(l Lit) bool {
				if l.Op != token.EQL {
					return false
				}
				_, f, _, ok := fieldOf(l.X)
				return ok && f == "Key" && strip(l.Y) == ssa.Value(dh.Params[1])
			})})
			found, _, _ := search(SearchSpec{Start: Loc{b, 0}, Target: func(in ssa.Instruction) bool { return in.Block() == header },
				Removed: func(bb *ssa.BasicBlock, si int) bool { _, ok := eq[edge{bb, si}]; return ok },
				Blocker: func(in ssa.Instruction) bool { return isAppendOf(in, "kmsg.Header") }})
			okDrop = !found && len(eq) > 0
		}
		if okDrop {
			r.ok("C31.R1", "lfsDropHeader keeps every header whose key differs", m.Pos(dh.Pos()), "")
		} else {
			r.viol("C31.R1", "lfsDropHeader keeps every header whose key differs", m.Pos(dh.Pos()), "a header with a different key can be skipped")
		}
	}

	// ---- R2
	batchW := map[string][]*ssa.Store{}
	// the rewrite function together with the private helpers it owns (e.g. an extracted re-seal step)
	var famBlocks []*ssa.BasicBlock
	for _, f := range fnFamily(m, fn) {
		famBlocks = append(famBlocks, f.Blocks...)
	}
	for _, b := range famBlocks {
		for _, in := range b.Instrs {
			st, ok := in.(*ssa.Store)
			if !ok {
				continue
			}
			fa, ok := st.Addr.(*ssa.FieldAddr)
			if !ok {
				continue
			}
			if _, fresh := fa.X.(*ssa.Alloc); fresh {
				continue // a batch value being constructed (decode helper), not an existing batch being rewritten
			}
			if t, f, _, ok := fieldAddrInfo(fa); ok && (strings.HasSuffix(t, "kmsg.RecordBatch") || strings.HasSuffix(t, "proxy.lfsRecordBatch")) {
				batchW[f] = append(batchW[f], st)
			}
		}
	}
	allowed := map[string]bool{"Records": true, "NumRecords": true, "Attributes": true, "Length": true, "CRC": true, "Raw": true}
	var bf []string
	for f := range batchW {
		bf = append(bf, f)
	}
	sort.Strings(bf)
	for _, f := range bf {
		key := "batch field " + f + " is rewritten"
		if !allowed[f] {
			r.viol("C31.R2", key, m.Pos(batchW[f][0].Pos()), "offsets, timestamps, producer ids and sequence numbers of a batch must not change")
		} else {
			r.ok("C31.R2", key, m.Pos(batchW[f][0].Pos()), fmt.Sprintf("%d store(s)", len(batchW[f])))
		}
	}
	last := func(f string) *ssa.Store {
		var l *ssa.Store
		for _, st := range batchW[f] {
			if l == nil || (l.Parent() == st.Parent() && instrDominates(l, st)) {
				l = st
			}
		}
		return l
	}
	lenSt, crcSt, rawSt := last("Length"), last("CRC"), last("Raw")
	if lenSt == nil || crcSt == nil || rawSt == nil {
		r.unresolved("C31.R2", "Length/CRC/Raw stores", "not all found")
	} else {
		// CRC value: int32(crc32.Checksum(X[21:], table)) with X = AppendTo result after lenSt
		okCRC, why := false, "CRC value is "+describe(crcSt.Val)
		if cc := callOrigin(crcSt.Val); cc != nil && calleeName(&cc.Call) == "hash/crc32.Checksum" {
			if sl, ok := strip(cc.Call.Args[0]).(*ssa.Slice); ok {
				lo, _ := constInt(sl.Low)
				if ac := callOrigin(sl.X); ac != nil && strings.HasSuffix(calleeName(&ac.Call), "RecordBatch).AppendTo") && lo == 21 && sl.High == nil {
					if instrDominates(lenSt, ac) && !instrDominates(crcSt, ac) {
						okCRC = true
					} else {
						why = "the bytes the CRC covers were encoded before the final Length was stored"
					}
				} else {
					why = fmt.Sprintf("CRC covers %s from offset %d (the v2 CRC covers the encoding from byte 21)", describe(sl.X), lo)
				}
			}
			tbl := false
			backSlice(cc.Call.Args[1], false, func(v ssa.Value) {
				if g, ok := v.(*ssa.Global); ok && g.Name() == "lfsCRC32cTable" {
					tbl = true
				}
			})
			if !tbl {
				okCRC, why = false, "CRC table is "+describe(cc.Call.Args[1])+", not the Castagnoli table"
			}
		}
		if okCRC {
			r.ok("C31.R2", "CRC is the Castagnoli checksum of the final-length encoding from byte 21", m.Pos(crcSt.Pos()), "")
		} else {
			r.viol("C31.R2", "CRC is the Castagnoli checksum of the final-length encoding from byte 21", m.Pos(crcSt.Pos()), why)
		}
		okRaw := false
		if ac := callOrigin(rawSt.Val); ac != nil && strings.HasSuffix(calleeName(&ac.Call), "RecordBatch).AppendTo") && instrDominates(crcSt, ac) {
			okRaw = true
		}
		if okRaw {
			r.ok("C31.R2", "Raw is encoded after Length and CRC were stored", m.Pos(rawSt.Pos()), "")
		} else {
			r.viol("C31.R2", "Raw is encoded after Length and CRC were stored", m.Pos(rawSt.Pos()), "the bytes that are forwarded do not contain the final CRC")
		}
		// Length = len(encoding) - 12
		okLen := false
		terms, k := flattenSum(lenSt.Val)
		if len(terms) == 1 && k == -12 {
			if lc, ok := strip(terms[0]).(*ssa.Call); ok && calleeName(&lc.Call) == "builtin.len" {
				if ac := callOrigin(lc.Call.Args[0]); ac != nil && strings.HasSuffix(calleeName(&ac.Call), "RecordBatch).AppendTo") {
					okLen = true
				}
			}
		}
		if okLen {
			r.ok("C31.R2", "Length is the encoded size minus the 12-byte prefix", m.Pos(lenSt.Pos()), "")
		} else {
			r.viol("C31.R2", "Length is the encoded size minus the 12-byte prefix", m.Pos(lenSt.Pos()), "Length is "+describe(lenSt.Val))
		}
	}
	// the CRC table really is Castagnoli
	okTbl := false
	if sp := m.SSAPkgs[pkgProxy]; sp != nil {
		if init := sp.Func("init"); init != nil {
			for _, call := range findCalls(init, "hash/crc32.MakeTable") {
				if k, ok := constInt(call.Common().Args[0]); ok && k == 0x82f63b78 {
					if call.Value() != nil && call.Value().Referrers() != nil {
						for _, ref := range *call.Value().Referrers() {
							if st, ok := ref.(*ssa.Store); ok {
								if g, ok := st.Addr.(*ssa.Global); ok && g.Name() == "lfsCRC32cTable" {
									okTbl = true
								}
							}
						}
					}
				}
			}
		}
	}
	if okTbl {
		r.ok("C31.R2", "lfsCRC32cTable is crc32.MakeTable(crc32.Castagnoli)", "", "")
	} else {
		r.viol("C31.R2", "lfsCRC32cTable is crc32.MakeTable(crc32.Castagnoli)", "", "table initialiser not found or polynomial differs")
	}
	// Attributes = (old &^ 7) | usedCodec ; NumRecords = len(records)
	if as := last("Attributes"); as != nil {
		okA := false
		if or, ok := strip(as.Val).(*ssa.BinOp); ok && or.Op == token.OR {
			for _, side := range [][2]ssa.Value{{or.X, or.Y}, {or.Y, or.X}} {
				an, ok := strip(side[0]).(*ssa.BinOp)
				if !ok || an.Op != token.AND_NOT {
					continue
				}
				k, okk := constInt(an.Y)
				_, f, _, okf := fieldOf(an.X)
				if okk && k == 7 && okf && f == "Attributes" && isExtractOf(side[1], 1, pkgProxy+".lfsCompressRecords") {
					okA = true
				}
			}
		}
		if okA {
			r.ok("C31.R2", "Attributes keeps all non-codec bits and records the codec actually used", m.Pos(as.Pos()), "")
		} else {
			r.viol("C31.R2", "Attributes keeps all non-codec bits and records the codec actually used", m.Pos(as.Pos()), "value is "+describe(as.Val))
		}
	}
	var decoded ssa.Value
	for _, call := range findCalls(fn, pkgProxy+".lfsDecodeBatchRecords") {
		decoded = call.Value()
	}
	if ns := last("NumRecords"); ns != nil && decoded != nil {
		okN := false
		if lc, ok := strip(ns.Val).(*ssa.Call); ok && calleeName(&lc.Call) == "builtin.len" && dependsOnCallValue(lc.Call.Args[0], decoded) {
			okN = true
		}
		if okN {
			r.ok("C31.R2", "NumRecords is the number of decoded records", m.Pos(ns.Pos()), "")
		} else {
			r.viol("C31.R2", "NumRecords is the number of decoded records", m.Pos(ns.Pos()), "value is "+describe(ns.Val))
		}
	}

	// ---- R3
	for _, call := range findCalls(fn, pkgProxy+".lfsEncodeRecords") {
		if decoded != nil && dependsOnCallValue(call.Common().Args[0], decoded) {
			if _, isSlice := strip(call.Common().Args[0]).(*ssa.Slice); isSlice {
				r.viol("C31.R3", "all decoded records are re-encoded", m.Pos(call.Pos()), "a sub-slice of the decoded records is encoded")
			} else {
				r.ok("C31.R3", "all decoded records are re-encoded", m.Pos(call.Pos()), "")
			}
		} else {
			r.viol("C31.R3", "all decoded records are re-encoded", m.Pos(call.Pos()), "argument is "+describe(call.Common().Args[0]))
		}
	}
	if len(batchW["Records"]) > 0 {
		// the re-framing block is entered only when a record of this batch changed: the store of
		// batch.Records is dominated by a flag that is only set under the LFS_BLOB lookup
		st := batchW["Records"][0]
		changedFlag := atomFn("a record of this batch changed", func(l Lit) bool {
			if l.Op != token.ILLEGAL || l.Neg {
				return false
			}
			phi, ok := strip(l.X).(*ssa.Phi)
			if !ok {
				return false
			}
			// every `true` input of the flag is established under the flagged guard
			sawTrue := false
			var walk func(p *ssa.Phi, seen map[*ssa.Phi]bool) bool
			walk = func(p *ssa.Phi, seen map[*ssa.Phi]bool) bool {
				if seen[p] {
					return true
				}
				seen[p] = true
				for i, e := range p.Edges {
					switch x := e.(type) {
					case *ssa.Const:
						if x.Value != nil && x.Value.ExactString() == "true" {
							sawTrue = true
							pred := p.Block().Preds[i]
							if !checkGuarded(m, fn, pred.Instrs[len(pred.Instrs)-1], flagged).OK {
								return false
							}
						}
					case *ssa.Phi:
						if !walk(x, seen) {
							return false
						}
					default:
						return false
					}
				}
				return true
			}
			return walk(phi, map[*ssa.Phi]bool{}) && sawTrue
		})
		guardVerdict(m, r, "C31.R3", "a batch is re-framed only if one of its records was flagged", fn, st, Guard{cl(changedFlag)})
	}
	for _, call := range findCalls(fn, pkgProxy+".lfsJoinRecordBatches") {
		if dependsOnCall(call.Common().Args[0], pkgProxy+".lfsDecodeRecordBatches") {
			if _, isSlice := strip(call.Common().Args[0]).(*ssa.Slice); !isSlice {
				r.ok("C31.R3", "all batches of the partition are re-joined", m.Pos(call.Pos()), "")
				continue
			}
		}
		r.viol("C31.R3", "all batches of the partition are re-joined", m.Pos(call.Pos()), "argument is "+describe(call.Common().Args[0]))
	}

	// ---- R4
	if er := needFn(m, r, "C31.R4", pkgProxy, "lfsEncodeRecord"); er != nil {
		var seq []string
		for _, b := range er.Blocks {
			for _, in := range b.Instrs {
				var f string
				switch x := in.(type) {
				case *ssa.FieldAddr:
					if t, fn2, _, ok := fieldAddrInfo(x); ok && (strings.HasSuffix(t, "kmsg.Record") || strings.HasSuffix(t, "kmsg.Header")) {
						f = t[strings.LastIndex(t, ".")+1:] + "." + fn2
					}
				case *ssa.Field:
					if t, fn2, _, ok := fieldOf(x); ok && (strings.HasSuffix(t, "kmsg.Record") || strings.HasSuffix(t, "kmsg.Header")) {
						f = t[strings.LastIndex(t, ".")+1:] + "." + fn2
					}
				}
				if f != "" && (len(seq) == 0 || seq[len(seq)-1] != f) {
					seq = append(seq, f)
				}
			}
		}
		// collapse: the Headers field is read for len() and for the range
		var norm []string
		for _, f := range seq {
			if len(norm) > 0 && norm[len(norm)-1] == f {
				continue
			}
			norm = append(norm, f)
		}
		want := []string{"Record.Attributes", "Record.TimestampDelta64", "Record.OffsetDelta", "Record.Key", "Record.Value", "Record.Headers", "Header.Key", "Header.Value"}
		got := strings.Join(norm, " ")
		// tolerate repeated reads of Record.Headers (len + range)
		got = strings.ReplaceAll(got, "Record.Headers Record.Headers", "Record.Headers")
		if got == strings.Join(want, " ") {
			r.ok("C31.R4", "lfsEncodeRecord field order", m.Pos(er.Pos()), got)
		} else {
			r.viol("C31.R4", "lfsEncodeRecord field order", m.Pos(er.Pos()), "fields are read in the order ["+got+"], Kafka v2 needs ["+strings.Join(want, " ")+"]")
		}
	}
}

// checkAppendToFresh: the batches of one partition (and of one request frame) share a buffer — every
// batch's Raw and the partition's Records are sub-slices of it. Re-encoding a batch that grew into
// Raw[:0] or into an earlier result overwrites the batches that follow. Every kmsg AppendTo in the
// LFS rewrite path gets nil (or a slice this function allocated) as destination.
func checkAppendToFresh(m *Module, r *Report) {
	n := 0
	for _, fn0 := range m.FuncsInPkg(pkgProxy) {
		for _, fn := range withAnon(fn0) {
			for _, call := range callsIn(fn) {
				cc := call.Common()
				if !strings.HasSuffix(calleeName(cc), "kmsg.RecordBatch).AppendTo") {
					continue
				}
				n++
				dst := cc.Args[len(cc.Args)-1]
				key := fmt.Sprintf("AppendTo in %s writes into fresh memory [%d]", fn.Name(), n)
				bad := ""
				var fresh func(v ssa.Value, depth int) bool
				fresh = func(v ssa.Value, depth int) bool {
					if depth > 6 {
						return false
					}
					os := origins(v)
					if len(os) == 0 {
						return false
					}
					for _, o := range os {
						switch x := strip(o).(type) {
						case *ssa.Const:
							if !x.IsNil() {
								return false
							}
						case *ssa.MakeSlice:
						case *ssa.Slice:
							if !fresh(x.X, depth+1) {
								return false
							}
						case *ssa.Call:
							// the result of an earlier encode into fresh memory is this function's own buffer
							if !strings.HasSuffix(calleeName(&x.Call), "kmsg.RecordBatch).AppendTo") || !fresh(x.Call.Args[len(x.Call.Args)-1], depth+1) {
								return false
							}
						default:
							return false
						}
					}
					return true
				}
				if !fresh(dst, 0) {
					bad = "destination " + describe(dst) + " is not nil or memory this function allocated: the encoder writes over bytes that other batches of the request still point into"
				}
				if bad == "" {
					r.ok("C31.R5", key, m.Pos(call.Pos()), "")
				} else {
					r.viol("C31.R5", key, m.Pos(call.Pos()), bad)
				}
			}
		}
	}
	if n == 0 {
		r.unresolved("C31.R5", "RecordBatch.AppendTo calls in cmd/proxy", "none found")
	}
}

// checkNullEncoding (C31.R7, added after a seeded change turned `b == nil` into `len(b) == 0` in
// the shared byte-field encoder, so that empty values of untouched records became tombstones).
func checkNullEncoding(m *Module, r *Report, rule string) {
	isNilTest := atomFn("bytes == nil", func(l Lit) bool {
		if l.Op != token.EQL {
			return false
		}
		isBytes := func(v ssa.Value) bool {
			_, ok := v.Type().Underlying().(*types.Slice)
			return ok
		}
		return (isBytes(l.X) && alwaysNil(l.Y)) || (isBytes(l.Y) && alwaysNil(l.X))
	})
	n := 0
	for _, fn := range m.FuncsInPkg(pkgProxy) {
		for _, call := range findCalls(fn, pkgProxy+".lfsAppendVarint") {
			args := call.Common().Args
			if len(args) != 2 {
				continue
			}
			if k, ok := constInt(args[1]); !ok || k != -1 {
				continue
			}
			n++
			r.fn(fn)
			guardVerdict(m, r, rule, "null length written in "+shortName(fn)+" only for a nil field", fn, call.(ssa.Instruction), Guard{cl(isNilTest)})
		}
	}
	if n == 0 {
		r.unresolved(rule, "lfsAppendVarint(…, -1) sites", "none found in cmd/proxy")
	}
}
