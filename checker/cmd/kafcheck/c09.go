package main

import (
	"fmt"
	"go/types"
	"go/token"
	"strings"

	"golang.org/x/tools/go/ssa"
)

func init() { register("C09", "other", checkC09) }

const tCacheEntry = pkgCache + ".cacheEntry"
const tSegmentCache = pkgCache + ".SegmentCache"

// readOnlyLibCallees: library functions that only read a []byte argument.
var readOnlyLibCallees = []string{"bytes.NewReader", "bytes.Equal", "bytes.HasPrefix", "bytes.HasSuffix", "hash/crc32.Checksum",
	"(encoding/binary.bigEndian).Uint16", "(encoding/binary.bigEndian).Uint32", "(encoding/binary.bigEndian).Uint64", "builtin.len", "builtin.cap"}

// mutatesBytes walks forward from a []byte value and reports the first use that may write through it
// or let it escape to a place this analysis cannot follow.
func mutatesBytes(m *Module, v ssa.Value, seen map[ssa.Value]bool, depth int) (bool, string) {
	if seen[v] {
		return false, ""
	}
	seen[v] = true
	if v.Referrers() == nil {
		return false, ""
	}
	for _, ref := range *v.Referrers() {
		switch x := ref.(type) {
		case *ssa.DebugRef:
		case *ssa.Slice:
			if bad, why := mutatesBytes(m, x, seen, depth); bad {
				return true, why
			}
		case *ssa.Phi:
			if bad, why := mutatesBytes(m, x, seen, depth); bad {
				return true, why
			}
		case *ssa.Extract:
			if x.Index == 0 {
				if bad, why := mutatesBytes(m, x, seen, depth); bad {
					return true, why
				}
			}
		case *ssa.Convert: // string(b): copy
		case *ssa.BinOp: // comparison with nil
		case *ssa.Index:
		case *ssa.Lookup:
		case *ssa.IndexAddr:
			if x.Referrers() != nil {
				for _, rr := range *x.Referrers() {
					if st, ok := rr.(*ssa.Store); ok && st.Addr == ssa.Value(x) {
						return true, "element store at " + m.Pos(st.Pos())
					}
				}
			}
		case *ssa.Store:
			if a, ok := x.Addr.(*ssa.Alloc); ok && x.Val == v {
				// spilled local: follow loads
				if a.Referrers() != nil {
					for _, rr := range *a.Referrers() {
						if ld, ok := rr.(*ssa.UnOp); ok && ld.Op == token.MUL {
							if bad, why := mutatesBytes(m, ld, seen, depth); bad {
								return true, why
							}
						}
					}
				}
			} else if x.Val == v {
				return true, "stored to the heap at " + m.Pos(x.Pos())
			}
		case *ssa.Return:
			if okf, why := freshBytesR(m, returnedValue(x, v), map[ssa.Value]bool{}, 0, infeasibleEdges(x)); !okf {
				return true, "returned to the caller at " + m.Pos(x.Pos()) + " (" + why + ")"
			}
		case *ssa.Call:
			n := calleeName(&x.Call)
			argIdx := -1
			for i, a := range x.Call.Args {
				if a == v {
					argIdx = i
				}
			}
			if argIdx < 0 {
				continue
			}
			switch {
			case n == "builtin.append":
				if argIdx == 0 {
					return true, "used as append destination at " + m.Pos(x.Pos())
				}
			case n == "builtin.copy":
				if argIdx == 0 {
					return true, "used as copy destination at " + m.Pos(x.Pos())
				}
			case nameMatches(n, readOnlyLibCallees...):
			default:
				f, _ := calleeOf(&x.Call)
				if f == nil || f.Blocks == nil || !m.isLocalPkg(fnPkg(f)) || depth > 4 {
					return true, "passed to " + n + " at " + m.Pos(x.Pos()) + " (not known to be read-only)"
				}
				pi := argIdx
				if pi < len(f.Params) {
					if bad, why := mutatesBytes(m, f.Params[pi], seen, depth+1); bad {
						return true, why + " (via " + funcName(f) + ")"
					}
				}
			}
		default:
			return true, fmt.Sprintf("unrecognised use %T at %s", ref, m.Pos(ref.Pos()))
		}
	}
	return false, ""
}

func returnedValue(ret *ssa.Return, v ssa.Value) ssa.Value {
	for _, r := range ret.Results {
		if r == v {
			return r
		}
	}
	return v
}

func checkC09(c *Ctx, r *Report) {
	r.Explanation = "Decides five structural necessary conditions of 'the segment cache stays within capacity and returns current, immutable bytes': (R1) every increase of c.size is followed by evictIfNeeded on every path to return; evictIfNeeded leaves its loop only with size <= capacity or an empty list, and every removal subtracts len(entry.data) in the same block; (R2) cacheEntry.data is only ever replaced wholesale — never the destination of append/copy or an element store; (R3) at every call site of GetSegment in the repository the returned bytes are only read (sliced, measured, used as append/copy source) and never returned to a caller un-copied; (R4) makeKey's format has one string verb, first, followed by integer verbs, so it is injective; (R5) size, ll, items are only accessed under mu. It does not decide LRU order or most-recently-stored across histories."
	r.NotCovered = "LRU order; 'most recently stored' across evict/re-insert histories"
	m, err := c.Mod("root")
	if err != nil {
		r.unresolved("C09.load", "root module", err.Error())
		return
	}
	r.rule("C09.R1", "evict after grow: each store size=size+x is followed by evictIfNeeded() before return; evictIfNeeded exits only on size<=capacity or Len()<=0; each removal subtracts len(entry.data)", 4)
	r.rule("C09.R2", "frozen bytes: no append(x[:k],…), copy(x,…) or element store where x is loaded from cacheEntry.data", 1)
	r.rule("C09.R3", "read-only consumers of GetSegment's result at every call site", 2)
	r.rule("C09.R6", "every return of SetSegment is preceded by a write of cacheEntry.data or a delete from the index", 1)
	r.rule("C09.R4", "makeKey format: exactly one string verb, in first position; the remaining verbs are %d", 1)

	// ---- R1
	for _, fn := range m.FuncsInPkg(pkgCache) {
		for _, st := range storesToField(fn, "cache.SegmentCache", "size") {
			bo, ok := st.Val.(*ssa.BinOp)
			if !ok || bo.Op != token.ADD {
				continue
			}
			r.fn(fn)
			ok2, path := mustPassAfter(m, st, func(in ssa.Instruction) bool { return isCallTo(in, "(*"+pkgCache+".SegmentCache).evictIfNeeded") })
			key := "size increase in " + funcName(fn) + " is followed by evictIfNeeded"
			if _, dup := r.Funcs["#"+key]; dup {
				key += " (2)"
			}
			r.Funcs["#"+key] = true
			if ok2 {
				r.ok("C09.R1", key, m.Pos(st.Pos()), "")
			} else {
				r.viol("C09.R1", key, m.Pos(st.Pos()), "a return is reachable after growing c.size without evictIfNeeded(): "+path)
			}
		}
	}
	for k := range r.Funcs {
		if strings.HasPrefix(k, "#") {
			delete(r.Funcs, k)
		}
	}
	if ev := needFn(m, r, "C09.R1", pkgCache, "(*SegmentCache).evictIfNeeded"); ev != nil {
		g := Guard{cl(
			atomCmp("size<=capacity", vmField("cache.SegmentCache", "size"), token.LEQ, vmField("cache.SegmentCache", "capacity")),
			atomCmp("ll.Len()<=0", vmCall("(*container/list.List).Len"), token.LEQ, vmConstInt(0)),
			atomCmp("ll.Len()==0", vmCall("(*container/list.List).Len"), token.EQL, vmConstInt(0)))}
		for _, b := range ev.Blocks {
			for _, in := range b.Instrs {
				if ret, ok := in.(*ssa.Return); ok {
					guardVerdict(m, r, "C09.R1", "evictIfNeeded exits only within capacity or empty", ev, ret, g)
				}
			}
		}
		// removal pairing
		for _, b := range ev.Blocks {
			removes, subs := 0, 0
			var pos token.Pos
			for _, in := range b.Instrs {
				if isCallTo(in, "(*container/list.List).Remove") {
					removes++
					pos = in.Pos()
				}
				if c2, ok := in.(*ssa.Call); ok && calleeName(&c2.Call) == "builtin.delete" {
					if _, f, _, ok := fieldOf(c2.Call.Args[0]); ok && f == "items" {
						removes++
						pos = in.Pos()
					}
				}
				if st, ok := in.(*ssa.Store); ok {
					if fa, ok := st.Addr.(*ssa.FieldAddr); ok {
						if _, f, _, _ := fieldAddrInfo(fa); f == "size" {
							if bo, ok := st.Val.(*ssa.BinOp); ok && bo.Op == token.SUB && dependsOnField(bo.Y, tCacheEntry, "data") {
								subs++
							}
						}
					}
				}
			}
			if removes > 0 {
				if subs > 0 && removes == 2 {
					r.ok("C09.R1", "eviction removes from items and ll and subtracts len(entry.data)", m.Pos(pos), "")
				} else {
					r.viol("C09.R1", "eviction removes from items and ll and subtracts len(entry.data)", m.Pos(pos), fmt.Sprintf("block has %d removals and %d size subtractions of len(entry.data)", removes, subs))
				}
			}
		}
	}

	// ---- R2
	nData := 0
	for _, fn := range m.FuncsInPkg(pkgCache) {
		for _, b := range fn.Blocks {
			for _, in := range b.Instrs {
				v, ok := in.(ssa.Value)
				if !ok {
					continue
				}
				t, f, _, ok := fieldOf(v)
				if !ok || t != tCacheEntry || f != "data" {
					continue
				}
				nData++
				r.fn(fn)
				// uses of the loaded slice: writes through it are violations
				bad := ""
				var check func(x ssa.Value)
				seen := map[ssa.Value]bool{}
				check = func(x ssa.Value) {
					if seen[x] || x.Referrers() == nil {
						return
					}
					seen[x] = true
					for _, ref := range *x.Referrers() {
						switch y := ref.(type) {
						case *ssa.Slice:
							check(y)
						case *ssa.Call:
							n := calleeName(&y.Call)
							if (n == "builtin.append" || n == "builtin.copy") && len(y.Call.Args) > 0 && y.Call.Args[0] == x {
								bad = n + " writes into the cached slice at " + m.Pos(y.Pos())
							}
						case *ssa.IndexAddr:
							if y.Referrers() != nil {
								for _, rr := range *y.Referrers() {
									if st, ok := rr.(*ssa.Store); ok && st.Addr == ssa.Value(y) {
										bad = "element store into the cached slice at " + m.Pos(st.Pos())
									}
								}
							}
						}
					}
				}
				check(v)
				key := "use of cacheEntry.data in " + funcName(fn)
				if bad == "" {
					r.add("C09.R2", key, m.Pos(in.Pos()), OK, "read-only / whole-slice replacement")
				} else {
					r.viol("C09.R2", key, m.Pos(in.Pos()), bad)
				}
			}
		}
	}
	if nData == 0 {
		r.unresolved("C09.R2", "loads of cacheEntry.data", "none found")
	}
	// the same through the heap (added after a seeded change parked an evicted entry's buffer in a
	// spare field and reused it for the next insert): no write site of the cache or storage packages
	// may land in memory that was ever the backing array of a cached entry, wherever the slice has
	// travelled in between. Judged with the points-to engine; the mark is any load of cacheEntry.data.
	{
		isData := func(v ssa.Value) bool {
			u, ok := v.(*ssa.UnOp)
			if !ok || u.Op != token.MUL {
				return false
			}
			fa, ok := u.X.(*ssa.FieldAddr)
			if !ok {
				return false
			}
			t, f, _, ok := fieldAddrInfo(fa)
			return ok && t == pkgCache+".cacheEntry" && f == "data"
		}
		eng := newPtsEngine(m, nil)
		eng.mark = isData
		var sites []refSite
		reach := map[*ssa.Function]reachInfo{}
		for _, pk := range []string{pkgCache, pkgStorage} {
			for _, fn0 := range m.FuncsInPkg(pk) {
				for _, fn := range withAnon(fn0) {
					reach[fn] = reachInfo{fn: fn}
					for _, b := range fn.Blocks {
						for _, in := range b.Instrs {
							switch x := in.(type) {
							case *ssa.Store:
								if ia, ok := x.Addr.(*ssa.IndexAddr); ok {
									if _, isByte := x.Val.Type().Underlying().(*types.Basic); isByte {
										sites = append(sites, refSite{fn, in, ia.X, "element store"})
									}
								}
							case *ssa.Call:
								if bi, ok := x.Call.Value.(*ssa.Builtin); ok {
									switch bi.Name() {
									case "append":
										if c0, ok := x.Call.Args[0].(*ssa.Const); ok && c0.IsNil() {
											continue
										}
										if strings.HasSuffix(x.Type().String(), "[]byte") {
											sites = append(sites, refSite{fn, in, x.Call.Args[0], "append onto"})
										}
									case "copy":
										sites = append(sites, refSite{fn, in, x.Call.Args[0], "copy into"})
									}
								}
							}
						}
					}
				}
			}
		}
		reports, _ := judgeRefSites(m, eng, reach, sites, func(v ssa.Value) string { return "bytes that are (or were) a cached entry's data" }, "can overwrite")
		key := "no write site can land in the backing array of a cached entry, however the slice travelled"
		if len(reports) == 0 {
			r.ok("C09.R2", key, "", fmt.Sprintf("%d byte-write sites in cache and storage judged", len(sites)))
		} else {
			r.viol("C09.R2", key, "", strings.Join(reports, "; "))
		}
	}

	// ---- R3
	for _, cs := range callersOf(m, "(*"+pkgCache+".SegmentCache).GetSegment") {
		call, ok := cs.in.(*ssa.Call)
		if !ok {
			continue
		}
		r.fn(cs.caller)
		r.CallSites++
		bad, why := mutatesBytes(m, call, map[ssa.Value]bool{}, 0)
		key := "GetSegment result in " + funcName(cs.caller)
		if !bad {
			r.ok("C09.R3", key, m.Pos(call.Pos()), "only read")
		} else {
			r.viol("C09.R3", key, m.Pos(call.Pos()), why)
		}
	}

	// ---- R4
	if mk := needFn(m, r, "C09.R4", pkgCache, "makeKey"); mk != nil {
		// the key is ‹topic› followed by numeric components, each set off by a literal separator:
		// read from the right, the numbers and separators are unambiguous whatever the topic contains
		n := 0
		for _, blk := range mk.Blocks {
			ret, ok := blk.Instrs[len(blk.Instrs)-1].(*ssa.Return)
			if !ok || len(ret.Results) != 1 {
				continue
			}
			n++
			cs := mergeLits(strShape(m, ret.Results[0], 1))
			nv, why := 0, ""
			for i, c := range cs {
				if c.Var == nil {
					continue
				}
				nv++
				if !c.Num && i != 0 {
					why = "a string component after the first position"
				}
				if i > 0 && cs[i-1].Var != nil {
					why = "two components with no separator between them"
				}
			}
			if nv < 2 {
				why = "fewer than two components"
			}
			if why == "" {
				r.ok("C09.R4", "makeKey format injective", m.Pos(ret.Pos()), shapeString(cs))
			} else {
				r.viol("C09.R4", "makeKey format injective", m.Pos(ret.Pos()), fmt.Sprintf("key shape %s has %s", shapeString(cs), why))
			}
		}
		if n == 0 {
			r.unresolved("C09.R4", "makeKey format injective", "makeKey has no single-value return")
		}
	}

	// ---- R6: SetSegment cannot return with the key still mapped to the bytes stored before: every
	// path from entry to a return writes a cacheEntry.data (the update of the existing entry, or the
	// construction of the new one) or takes the key out of the index. An early return in front of
	// that ("too large to keep", "unchanged") leaves a later lookup with the old bytes.
	if ss := needFn(m, r, "C09.R6", pkgCache, "(*SegmentCache).SetSegment"); ss != nil {
		replaces := func(in ssa.Instruction) bool {
			switch x := in.(type) {
			case *ssa.Store:
				if fa, ok := x.Addr.(*ssa.FieldAddr); ok {
					if tn, f, _, ok := fieldAddrInfo(fa); ok && f == "data" && strings.HasSuffix(tn, "cacheEntry") {
						return true
					}
				}
			case *ssa.Call:
				if calleeName(&x.Call) == "builtin.delete" {
					if _, f, _, ok := fieldOf(x.Call.Args[0]); ok && f == "items" {
						return true
					}
				}
			}
			return false
		}
		n := 0
		for _, b := range ss.Blocks {
			ret, ok := b.Instrs[len(b.Instrs)-1].(*ssa.Return)
			if !ok {
				continue
			}
			n++
			key := fmt.Sprintf("SetSegment return #%d: the key's entry was replaced or removed", n)
			if ok, path := mustPassBefore(m, ss, ret, replaces); ok {
				r.ok("C09.R6", key, m.Pos(ret.Pos()), "")
			} else {
				r.viol("C09.R6", key, m.Pos(ret.Pos()), "returns with whatever was cached for the key before still in place: "+path)
			}
		}
	}

	// ---- R5
	checkLockset(m, r, "C09.R5", "SegmentCache.{size,ll,items} accessed only with SegmentCache.mu held",
		[]guardSpec{{Pkg: pkgCache, Type: "SegmentCache", Mutex: "mu", Fields: []string{"size", "ll", "items"}}}, 4)
}
