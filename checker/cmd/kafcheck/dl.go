package main

import (
	"fmt"
	"go/token"
	"go/types"
	"sort"
	"strings"

	"golang.org/x/tools/go/ssa"
)

// E9 decoded-length discipline (DL).
//
// A value decoded from input bytes (binary.BigEndian.UintN, binary.Uvarint/Varint, binary.Read(&x),
// ReadByte accumulation, or a helper returning such a value) that reaches an allocation size or a
// slice bound must first be compared against something (upper bound) and, if it can be negative,
// against zero (lower bound) on every path.

type dlMode int

const (
	dlPanic dlMode = iota // only what can make the runtime panic
	dlAlloc               // additionally every make size must be bounded
)

type dlConfig struct {
	Mode dlMode
	Pkgs []string // packages whose functions are analysed
	// Funcs restricts the sinks to functions whose name has one of these prefixes (nil = all in Pkgs)
	Files []string // restrict sinks to these files (suffix match on position); nil = all
}

var dlSourceCalls = []string{
	"(encoding/binary.bigEndian).Uint16", "(encoding/binary.bigEndian).Uint32", "(encoding/binary.bigEndian).Uint64",
	"(encoding/binary.littleEndian).Uint16", "(encoding/binary.littleEndian).Uint32", "(encoding/binary.littleEndian).Uint64",
	"encoding/binary.Uvarint", "encoding/binary.Varint", "encoding/binary.ReadUvarint", "encoding/binary.ReadVarint",
	"(*bytes.Reader).ReadByte", "(*bufio.Reader).ReadByte", "(io.ByteReader).ReadByte",
	"strconv.Atoi", "strconv.ParseInt", "strconv.ParseUint",
}

type dlState struct {
	m       *Module
	cfg     dlConfig
	fns     []*ssa.Function
	fnSet   map[*ssa.Function]bool
	retTaint   map[*ssa.Function]bool       // function returns a decoded value
	paramTaint map[*ssa.Parameter]bool      // parameter may carry a decoded value
	tainted    map[ssa.Value]bool
}

func isIntType(t types.Type) bool {
	b, ok := t.Underlying().(*types.Basic)
	return ok && b.Info()&types.IsInteger != 0
}

func newDL(m *Module, cfg dlConfig) *dlState {
	d := &dlState{m: m, cfg: cfg, fnSet: map[*ssa.Function]bool{}, retTaint: map[*ssa.Function]bool{},
		paramTaint: map[*ssa.Parameter]bool{}, tainted: map[ssa.Value]bool{}}
	for _, fn := range m.AllFuncs {
		p := fnPkg(fn)
		if p == nil {
			continue
		}
		for _, q := range cfg.Pkgs {
			if p.Path() == q {
				d.fns = append(d.fns, fn)
				d.fnSet[fn] = true
			}
		}
	}
	d.fixpoint()
	return d
}

// binaryReadTargets: allocs whose address is passed as the data argument of binary.Read.
func binaryReadTargets(fn *ssa.Function) map[*ssa.Alloc]bool {
	out := map[*ssa.Alloc]bool{}
	for _, c := range findCalls(fn, "encoding/binary.Read") {
		args := c.Common().Args
		if len(args) == 3 {
			if a, ok := strip(args[2]).(*ssa.Alloc); ok {
				out[a] = true
			}
		}
	}
	return out
}

func (d *dlState) fixpoint() {
	for iter := 0; iter < 20; iter++ {
		changed := false
		for _, fn := range d.fns {
			brt := binaryReadTargets(fn)
			mark := func(v ssa.Value) {
				if !d.tainted[v] {
					d.tainted[v] = true
					changed = true
				}
			}
			for pass := 0; pass < 3; pass++ {
				for _, b := range fn.Blocks {
					for _, in := range b.Instrs {
						v, ok := in.(ssa.Value)
						if !ok || d.tainted[v] {
							continue
						}
						if !isIntType(v.Type()) {
							// tuples from source calls are handled through Extract
							if _, isCall := v.(*ssa.Call); !isCall {
								continue
							}
						}
						switch x := v.(type) {
						case *ssa.Call:
							n := calleeName(&x.Call)
							if nameMatches(n, dlSourceCalls...) {
								mark(v)
							} else if f, _ := calleeOf(&x.Call); f != nil && d.retTaint[f] {
								mark(v)
							}
						case *ssa.Extract:
							if d.tainted[x.Tuple] && isIntType(x.Type()) {
								mark(v)
							}
						case *ssa.Convert:
							if d.tainted[x.X] {
								mark(v)
							}
						case *ssa.ChangeType:
							if d.tainted[x.X] {
								mark(v)
							}
						case *ssa.BinOp:
							switch x.Op {
							case token.ADD, token.SUB, token.MUL, token.SHL, token.SHR, token.OR, token.XOR, token.AND, token.QUO, token.REM:
								if d.tainted[x.X] || d.tainted[x.Y] {
									mark(v)
								}
							}
						case *ssa.UnOp:
							if x.Op == token.MUL {
								if a, ok := x.X.(*ssa.Alloc); ok {
									if brt[a] {
										mark(v)
									} else {
										for _, s := range storesTo(a) {
											if d.tainted[s] {
												mark(v)
											}
										}
									}
								}
							} else if d.tainted[x.X] {
								mark(v)
							}
						case *ssa.Phi:
							for _, e := range x.Edges {
								if d.tainted[e] {
									mark(v)
								}
							}
						}
					}
				}
			}
			for _, p := range fn.Params {
				if d.paramTaint[p] && !d.tainted[p] {
					d.tainted[p] = true
					changed = true
				}
			}
			// summaries
			if !d.retTaint[fn] {
				for _, b := range fn.Blocks {
					for _, in := range b.Instrs {
						if ret, ok := in.(*ssa.Return); ok {
							for _, rv := range ret.Results {
								if isIntType(rv.Type()) && d.tainted[rv] {
									d.retTaint[fn] = true
									changed = true
								}
							}
						}
					}
				}
			}
			for _, c := range callsIn(fn) {
				f, _ := calleeOf(c.Common())
				if f == nil || !d.fnSet[f] {
					continue
				}
				args := c.Common().Args
				for i, a := range args {
					if i < len(f.Params) && d.tainted[a] && !d.paramTaint[f.Params[i]] {
						d.paramTaint[f.Params[i]] = true
						changed = true
					}
				}
			}
		}
		if !changed {
			break
		}
	}
}

// vkey: structural key of a pure integer expression (go/ssa performs no CSE).
func vkey(v ssa.Value) string {
	switch x := v.(type) {
	case *ssa.Const:
		if x.Value != nil {
			return "c:" + x.Value.ExactString()
		}
	case *ssa.BinOp:
		return "(" + vkey(x.X) + x.Op.String() + vkey(x.Y) + ")"
	case *ssa.Convert:
		return "conv(" + types.TypeString(x.Type(), nil) + "," + vkey(x.X) + ")"
	case *ssa.Call:
		if calleeName(&x.Call) == "builtin.len" {
			return "len(" + vkey(x.Call.Args[0]) + ")"
		}
	case *ssa.UnOp:
		// loads of a local that is written at most once (e.g. a binary.Read target) denote one value
		if x.Op == token.MUL {
			if a, ok := x.X.(*ssa.Alloc); ok && len(storesTo(a)) <= 1 {
				return fmt.Sprintf("load(%p)", a)
			}
		}
	}
	return fmt.Sprintf("%p", v)
}

// chain: values from which s is obtained by conversions, phis and ± constants (s included).
func dlChain(s ssa.Value) map[string]ssa.Value {
	out := map[string]ssa.Value{}
	seen := map[ssa.Value]bool{}
	var walk func(v ssa.Value)
	walk = func(v ssa.Value) {
		if v == nil || seen[v] {
			return
		}
		seen[v] = true
		out[vkey(v)] = v
		switch x := v.(type) {
		case *ssa.Convert:
			walk(x.X)
		case *ssa.ChangeType:
			walk(x.X)
		case *ssa.Phi:
			for _, e := range x.Edges {
				walk(e)
			}
		case *ssa.BinOp:
			if x.Op == token.ADD || x.Op == token.SUB {
				if _, ok := x.Y.(*ssa.Const); ok {
					walk(x.X)
				} else if _, ok := x.X.(*ssa.Const); ok && x.Op == token.ADD {
					walk(x.Y)
				}
			}
		case *ssa.UnOp:
			if x.Op == token.MUL {
				if a, ok := x.X.(*ssa.Alloc); ok {
					for _, st := range storesTo(a) {
						walk(st)
					}
				}
			}
		}
	}
	walk(s)
	return out
}

// derivedByAdd: does `a` contain s (by key) as an additive term with only non-negative constants added?
func derivedByAdd(a ssa.Value, keys map[string]ssa.Value) bool {
	seen := map[ssa.Value]bool{}
	var walk func(v ssa.Value) bool
	walk = func(v ssa.Value) bool {
		if v == nil || seen[v] {
			return false
		}
		seen[v] = true
		if _, isConst := v.(*ssa.Const); isConst {
			return false
		}
		if _, ok := keys[vkey(v)]; ok {
			return true
		}
		switch x := v.(type) {
		case *ssa.Convert:
			return walk(x.X)
		case *ssa.BinOp:
			if x.Op == token.ADD {
				return walk(x.X) || walk(x.Y)
			}
			if x.Op == token.MUL {
				// multiplication by a positive constant is monotone
				if k, ok := constInt(x.Y); ok && k > 0 {
					return walk(x.X)
				}
				if k, ok := constInt(x.X); ok && k > 0 {
					return walk(x.Y)
				}
			}
		}
		return false
	}
	return walk(a)
}

// possiblyNegative: can the (signed) value be negative as far as types tell?
func possiblyNegative(v ssa.Value, seen map[ssa.Value]bool) bool {
	if seen[v] {
		return false
	}
	seen[v] = true
	b, ok := v.Type().Underlying().(*types.Basic)
	if !ok || b.Info()&types.IsUnsigned != 0 {
		return false
	}
	switch x := v.(type) {
	case *ssa.Const:
		k, ok := constInt(x)
		return ok && k < 0
	case *ssa.Convert:
		sb, ok := x.X.Type().Underlying().(*types.Basic)
		if !ok {
			return true
		}
		if sb.Info()&types.IsUnsigned != 0 {
			return intWidth(b) <= intWidth(sb) // int32(uint32) may wrap; int64(uint32) cannot
		}
		return possiblyNegative(x.X, seen)
	case *ssa.Phi:
		for _, e := range x.Edges {
			if possiblyNegative(e, seen) {
				return true
			}
		}
		return false
	case *ssa.BinOp:
		switch x.Op {
		case token.ADD, token.MUL:
			return possiblyNegative(x.X, seen) || possiblyNegative(x.Y, seen)
		case token.AND:
			return possiblyNegative(x.X, seen) && possiblyNegative(x.Y, seen)
		case token.SHR, token.QUO:
			return possiblyNegative(x.X, seen)
		case token.REM:
			return possiblyNegative(x.X, seen)
		}
		return true
	case *ssa.Call:
		if calleeName(&x.Call) == "builtin.len" || calleeName(&x.Call) == "builtin.cap" {
			return false
		}
		return true
	case *ssa.UnOp:
		if x.Op == token.MUL {
			if a, ok := x.X.(*ssa.Alloc); ok {
				sts := storesTo(a)
				if len(sts) > 0 {
					for _, s := range sts {
						if possiblyNegative(s, seen) {
							return true
						}
					}
					return false
				}
			}
		}
		return true
	}
	return true
}

func intWidth(b *types.Basic) int {
	switch b.Kind() {
	case types.Int8, types.Uint8:
		return 8
	case types.Int16, types.Uint16:
		return 16
	case types.Int32, types.Uint32:
		return 32
	}
	return 64
}

// typeBound: the largest value the chain's narrowest source type can take (for small-alloc exemption).
func narrowestWidth(s ssa.Value) int {
	w := 64
	seen := map[ssa.Value]bool{}
	var walk func(v ssa.Value)
	walk = func(v ssa.Value) {
		if v == nil || seen[v] {
			return
		}
		seen[v] = true
		if b, ok := v.Type().Underlying().(*types.Basic); ok && b.Info()&types.IsInteger != 0 {
			if iw := intWidth(b); iw < w {
				w = iw
			}
		}
		switch x := v.(type) {
		case *ssa.Convert:
			walk(x.X)
		case *ssa.Phi:
			// a phi is as wide as its widest edge; do not narrow through phis
		}
	}
	walk(s)
	return w
}

type dlSink struct {
	fn   *ssa.Function
	in   ssa.Instruction
	op   ssa.Value
	kind string // "make-len", "make-cap", "slice-low", "slice-high", "slice-max"
	elem int64  // element size for makes
}

func (d *dlState) sinks() []dlSink {
	var out []dlSink
	sizes := types.SizesFor("gc", "amd64")
	for _, fn := range d.fns {
		for _, b := range fn.Blocks {
			for _, in := range b.Instrs {
				if len(d.cfg.Files) > 0 {
					pos := d.m.Pos(in.Pos())
					okf := false
					for _, f := range d.cfg.Files {
						if strings.HasPrefix(pos, f+":") || strings.Contains(pos, "/"+f+":") {
							okf = true
						}
					}
					if !okf {
						continue
					}
				}
				switch x := in.(type) {
				case *ssa.MakeSlice:
					es := int64(1)
					if st, ok := x.Type().Underlying().(*types.Slice); ok {
						es = sizes.Sizeof(st.Elem())
					}
					if d.tainted[x.Len] {
						out = append(out, dlSink{fn, in, x.Len, "make-len", es})
					}
					if x.Cap != x.Len && d.tainted[x.Cap] {
						out = append(out, dlSink{fn, in, x.Cap, "make-cap", es})
					}
				case *ssa.Store:
					// cursor advance: x.f = x.f + n with n decoded
					if fa, ok := x.Addr.(*ssa.FieldAddr); ok {
						if bo, ok := x.Val.(*ssa.BinOp); ok && bo.Op == token.ADD {
							_, fname, _, _ := fieldAddrInfo(fa)
							for _, pair := range [][2]ssa.Value{{bo.X, bo.Y}, {bo.Y, bo.X}} {
								if _, f2, _, ok := fieldOf(pair[0]); ok && f2 == fname && d.tainted[pair[1]] {
									out = append(out, dlSink{fn, in, pair[1], "cursor-advance", 0})
								}
							}
						}
					}
				case *ssa.Slice:
					if x.Low != nil && d.tainted[x.Low] {
						out = append(out, dlSink{fn, in, x.Low, "slice-low", 0})
					}
					if x.High != nil && d.tainted[x.High] {
						out = append(out, dlSink{fn, in, x.High, "slice-high", 0})
					}
					if x.Max != nil && d.tainted[x.Max] {
						out = append(out, dlSink{fn, in, x.Max, "slice-max", 0})
					}
				}
			}
		}
	}
	return out
}

// bounded decides whether every path entry → sink passes an upper-bound (upper=true) or
// non-negativity (upper=false) comparison on the sink operand's chain.
func (d *dlState) bounded(fn *ssa.Function, at ssa.Instruction, op ssa.Value, upper bool, depth int) (bool, string) {
	keys := dlChain(op)
	atom := atomFn("bound", func(l Lit) bool {
		if l.Op == token.ILLEGAL {
			return false
		}
		// normalise to  A (<|<=) B  /  A (>|>=) B
		a, b, o := l.X, l.Y, l.Op
		inChain := func(v ssa.Value) bool {
			if _, isConst := v.(*ssa.Const); isConst {
				return false // a constant that is one of the φ's inputs is not "the value": `n > 0` bounds nothing above
			}
			_, ok := keys[vkey(v)]
			return ok
		}
		if upper {
			// need  chainValue < X  or  chainValue <= X   (or mirrored)
			if (o == token.LSS || o == token.LEQ) && (inChain(a) || derivedByAdd(a, keys)) {
				return true
			}
			if (o == token.GTR || o == token.GEQ) && (inChain(b) || derivedByAdd(b, keys)) {
				return true
			}
			if o == token.EQL && (inChain(a) || inChain(b)) {
				return true
			}
			return false
		}
		// lower bound: chainValue >= c (c>=0), chainValue > c (c>=-1), mirrored; or == const >= 0
		nonNegConst := func(v ssa.Value, min int64) bool { k, ok := constInt(v); return ok && k >= min }
		if o == token.GEQ && inChain(a) && nonNegConst(b, 0) {
			return true
		}
		if o == token.GTR && inChain(a) && nonNegConst(b, -1) {
			return true
		}
		if o == token.LEQ && inChain(b) && nonNegConst(a, 0) {
			return true
		}
		if o == token.LSS && inChain(b) && nonNegConst(a, -1) {
			return true
		}
		if o == token.EQL && ((inChain(a) && nonNegConst(b, 0)) || (inChain(b) && nonNegConst(a, 0))) {
			return true
		}
		// an unsigned chain value bounded above by uintN(<signed int expression>) fits the signed
		// range, so its later conversion to int cannot be negative
		fromSigned := func(v ssa.Value) bool {
			cv, ok := v.(*ssa.Convert)
			if !ok {
				return false
			}
			sb, ok := cv.X.Type().Underlying().(*types.Basic)
			return ok && sb.Info()&types.IsInteger != 0 && sb.Info()&types.IsUnsigned == 0
		}
		isUnsigned := func(v ssa.Value) bool {
			bt, ok := v.Type().Underlying().(*types.Basic)
			return ok && bt.Info()&types.IsUnsigned != 0
		}
		if (o == token.LSS || o == token.LEQ) && inChain(a) && isUnsigned(a) && fromSigned(b) {
			return true
		}
		if (o == token.GTR || o == token.GEQ) && inChain(b) && isUnsigned(b) && fromSigned(a) {
			return true
		}
		return false
	})
	pe := passEdges(fn, []Atom{atom})
	removed := func(b *ssa.BasicBlock, si int) bool { _, ok := pe[edge{b, si}]; return ok }
	found, _, path := search(SearchSpec{Start: Loc{fn.Blocks[0], 0}, Target: func(in ssa.Instruction) bool { return in == at }, Removed: removed})
	if !found {
		return true, ""
	}
	// interprocedural: operand comes (only) from a parameter — check the call sites
	if depth < 3 {
		var param *ssa.Parameter
		n := 0
		for _, v := range keys {
			if p, ok := v.(*ssa.Parameter); ok {
				param = p
				n++
			}
		}
		if n == 1 && fn.Parent() == nil {
			idx := -1
			for i, p := range fn.Params {
				if p == param {
					idx = i
				}
			}
			sites := callersOf(d.m, funcName(fn))
			if idx >= 0 && len(sites) > 0 {
				for _, cs := range sites {
					if !d.tainted[cs.in.Common().Args[idx]] {
						continue
					}
					if ok, why := d.bounded(cs.caller, cs.in, cs.in.Common().Args[idx], upper, depth+1); !ok {
						return false, "via call at " + d.m.Pos(cs.in.Pos()) + ": " + why
					}
				}
				return true, ""
			}
		}
	}
	return false, renderPath(d.m, path)
}

// run evaluates all sinks and records one result per sink.
func (d *dlState) run(r *Report, rule string) int {
	sinks := d.sinks()
	perFn := map[string]int{}
	sort.SliceStable(sinks, func(i, j int) bool { return sinks[i].in.Pos() < sinks[j].in.Pos() })
	for _, s := range sinks {
		r.fn(s.fn)
		r.CallSites++
		k := funcName(s.fn) + "/" + s.kind
		perFn[k]++
		key := fmt.Sprintf("%s %s #%d", s.kind, funcName(s.fn), perFn[k])
		var problems []string
		signed := false
		if b, ok := s.op.Type().Underlying().(*types.Basic); ok && b.Info()&types.IsUnsigned == 0 {
			signed = true
		}
		if signed && possiblyNegative(s.op, map[ssa.Value]bool{}) {
			if ok, why := d.bounded(s.fn, s.in, s.op, false, 0); !ok {
				problems = append(problems, "decoded value "+describe(s.op)+" can be negative here (no >= 0 check on path "+why+")")
			}
		}
		needUpper := strings.HasPrefix(s.kind, "slice-") || s.kind == "cursor-advance"
		if s.kind == "cursor-advance" {
			// the byte count returned by binary.Uvarint/Varint is bounded by the input by contract
			if e, ok := strip(s.op).(*ssa.Extract); ok && e.Index == 1 {
				if c, ok := e.Tuple.(*ssa.Call); ok && nameMatches(calleeName(&c.Call), "encoding/binary.Uvarint", "encoding/binary.Varint") {
					needUpper = false
				}
			}
		}
		if strings.HasPrefix(s.kind, "make-") && d.cfg.Mode == dlAlloc {
			w := narrowestWidth(s.op)
			if !(w <= 16 && (int64(1)<<uint(w))*s.elem <= 1<<20) {
				needUpper = true
			}
		}
		if needUpper {
			if ok, why := d.bounded(s.fn, s.in, s.op, true, 0); !ok {
				problems = append(problems, "decoded value "+describe(s.op)+" has no upper bound check before "+s.kind+" (path "+why+")")
			}
		}
		if len(problems) == 0 {
			r.ok(rule, key, d.m.Pos(s.in.Pos()), "operand "+describe(s.op)+" is bounded on every path")
		} else {
			r.viol(rule, key, d.m.Pos(s.in.Pos()), strings.Join(problems, "; "))
		}
	}
	return len(sinks)
}
