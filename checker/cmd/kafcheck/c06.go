package main

import (
	"fmt"
	"go/token"
	"strings"

	"golang.org/x/tools/go/ssa"
)

func init() { register("C06", "other", checkC06) }

const fnRestore = "(*" + pkgStorage + ".PartitionLog).RestoreFromS3"

func checkC06(c *Ctx, r *Report) {
	r.Explanation = "Decides three structural necessary conditions of crash-safe restart: (R1) write order S3 → memory → metadata store: the l.segments commit and every onFlush call come after a successful upload; (R2) in RestoreFromS3 a listed segment whose index is missing or corrupt is skipped only when its base offset is >= nextOffset (an orphan from an interrupted upload), every other index error aborts the restore; (R3) getPartitionLog seeds the log from store.NextOffset, publishes it in h.logs only after RestoreFromS3 succeeded, and raises the store only when lastOffset >= nextOffset. It does not enumerate crash points."
	r.NotCovered = "enumeration of crash points; S3 list-after-write consistency; records acknowledged in flush-disabled mode"
	m, err := c.Mod("root")
	if err != nil {
		r.unresolved("C06.load", "root module", err.Error())
		return
	}
	r.rule("C06.R1", "l.segments commit and every l.onFlush(artifact) are dominated by a successful upload (g.Wait()==nil / err(uploadFlush)==nil)", 3)
	r.rule("C06.R2", "in RestoreFromS3, after an error from DownloadIndex or ParseIndex the loop continues (next DownloadIndex or the l.segments store is reached) only through seg.baseOffset >= l.nextOffset", 2)
	r.rule("C06.R3", "getPartitionLog: NewPartitionLog's start offset is store.NextOffset's result; the h.logs publication has passed err(RestoreFromS3)==nil", 2)

	// ---- R0: an acknowledged record must already be in S3, otherwise no restart can recover it.
	// These are C01's clauses (ack-after-flush, drained-batch typestate, Flush's wait-then-nil shape),
	// re-evaluated here because C06 fails whenever one of them does.
	r.rule("C06.R0", "C01.R1-R4 hold (acknowledged ⇒ uploaded): prerequisites of crash safety", 6)
	sub := newReport("C01")
	checkC01(c, sub)
	for _, x := range sub.Results {
		if x.Status == Info {
			continue
		}
		if x.Rule == "C01.R1" || x.Rule == "C01.R2" || x.Rule == "C01.R3" || x.Rule == "C01.R4" {
			r.add("C06.R0", x.Rule+": "+x.Construct, x.Pos, x.Status, x.Detail)
		}
	}

	// ---- R4 who may delete objects: nothing on the produce / flush / restore-from-S3 path removes a
	// segment or index. The only callers are the point-in-time restore's rollback of its own target
	// copies and the forwarding methods of the S3 client wrappers.
	r.rule("C06.R4", "who-may-call DeleteSegment / DeleteIndex", 2)
	{
		allowed := map[string]string{
			pkgStorage + ".RecoverTopicToTimestamp":           "deferred rollback of the restore's own copies (C08.R1)",
			"(*" + pkgBroker + ".dualS3Client).DeleteSegment": "forwarding method of the dual client (C44.R1)",
			"(*" + pkgBroker + ".dualS3Client).DeleteIndex":   "forwarding method of the dual client (C44.R1)",
		}
		seen := map[string]bool{}
		n := 0
		for _, fn := range m.AllFuncs {
			for _, call := range callsIn(fn) {
				cc := call.Common()
				if !cc.IsInvoke() || (cc.Method.Name() != "DeleteSegment" && cc.Method.Name() != "DeleteIndex") {
					continue
				}
				if !strings.HasSuffix(cc.Value.Type().String(), "storage.S3Client") {
					continue
				}
				n++
				name := funcName(fn)
				if i := strings.Index(name, "$"); i >= 0 {
					name = name[:i] // a closure is judged as part of the function that defines it
				}
				key := "caller of S3Client." + cc.Method.Name() + ": " + name
				if seen[key] {
					continue
				}
				seen[key] = true
				if why, ok := allowed[name]; ok {
					r.ok("C06.R4", key, m.Pos(call.Pos()), "allowed: "+why)
				} else {
					r.viol("C06.R4", key, m.Pos(call.Pos()), "an object is deleted outside the restore rollback: a delete issued after a failed flush can land after another producer's retry has re-uploaded and been acknowledged for the same key")
				}
			}
		}
		if n == 0 {
			r.unresolved("C06.R4", "callers of DeleteSegment/DeleteIndex", "none found")
		}
	}

	// ---- R1
	if uf := needFn(m, r, "C06.R1", pkgStorage, "(*PartitionLog).uploadFlush"); uf != nil {
		for i, st := range storesToField(uf, "storage.PartitionLog", "segments") {
			guardVerdict(m, r, "C06.R1", fmt.Sprintf("uploadFlush commit #%d after g.Wait()==nil", i+1), uf, st,
				Guard{cl(atomErrNil("(*golang.org/x/sync/errgroup.Group).Wait"))})
		}
	}
	for _, fn := range m.FuncsInPkg(pkgStorage) {
		for _, call := range dynCallsOfField(fn, tPartitionLog, "onFlush") {
			r.fn(fn)
			arg := call.Call.Args[len(call.Call.Args)-1]
			fromPrepare := false
			for _, o := range origins(arg) {
				if co := callOrigin(o); co != nil && nameMatches(calleeName(&co.Call), fnPrepareFlush) {
					fromPrepare = true
				}
			}
			key := "onFlush in " + funcName(fn) + " after successful upload"
			if !fromPrepare {
				r.ok("C06.R1", key, m.Pos(call.Pos()), "argument is not a freshly prepared artifact (see C05.R1)")
				continue
			}
			guardVerdict(m, r, "C06.R1", key, fn, call,
				Guard{cl(atomErrNil(fnUploadFlush), atomCmp("artifact==nil", vmCallResult(0, fnPrepareFlush), token.EQL, vmNil())).re(fnUploadFlush)})
		}
	}

	// ---- R2
	if rs := needFn(m, r, "C06.R2", pkgStorage, "(*PartitionLog).RestoreFromS3"); rs != nil {
		fence := passEdges(rs, []Atom{atomCmp("seg.baseOffset >= l.nextOffset",
			vmField("storage.segmentRange", "baseOffset"), token.GEQ, vmField("storage.PartitionLog", "nextOffset"))})
		isContinuation := func(in ssa.Instruction) bool {
			if isCallTo(in, "~S3Client).DownloadIndex") {
				return true
			}
			if st, ok := in.(*ssa.Store); ok {
				if fa, ok := st.Addr.(*ssa.FieldAddr); ok {
					if t, f, _, ok := fieldAddrInfo(fa); ok && t == tPartitionLog && f == "segments" {
						return true
					}
				}
			}
			return false
		}
		n := 0
		for _, src := range []string{"~S3Client).DownloadIndex", pkgStorage + ".ParseIndex"} {
			errAtom := atomErrNil(src)
			for _, b := range rs.Blocks {
				ifi, ok := b.Instrs[len(b.Instrs)-1].(*ssa.If)
				if !ok {
					continue
				}
				for si, truth := range []bool{true, false} {
					// the edge on which err != nil holds = the edge where err==nil is *refuted*
					l := litOf(ifi.Cond, truth)
					neg := Lit{Op: negOp(l.Op), X: l.X, Y: l.Y}
					if l.Op == token.ILLEGAL || !errAtom.Match(neg) {
						continue
					}
					n++
					short := src[strings.LastIndex(src, ".")+1:]
					key := "index error path of " + short + " is fenced"
					start := Loc{b.Succs[si], 0}
					found, tgt, path := search(SearchSpec{Start: start, Target: isContinuation,
						Removed: func(bb *ssa.BasicBlock, s int) bool { _, ok := fence[edge{bb, s}]; return ok }})
					if found {
						r.viol("C06.R2", key, m.Pos(ifi.Cond.Pos()), fmt.Sprintf("after a %s error the restore continues (reaches %s) without seg.baseOffset >= l.nextOffset: %s", short, m.Pos(tgt.Pos()), renderPath(m, path)))
					} else {
						r.ok("C06.R2", key, m.Pos(ifi.Cond.Pos()), "continuation only through the orphan fence; otherwise returns the error")
					}
				}
			}
		}
		if n == 0 {
			r.unresolved("C06.R2", "index error branches in RestoreFromS3", "no err check of DownloadIndex/ParseIndex found")
		}
	}

	// ---- R3
	nNew, nPub := 0, 0
	for _, fn := range m.FuncsInPkg(pkgBroker) {
		top := fn
		for top.Parent() != nil {
			top = top.Parent()
		}
		if funcName(top) != "(*"+pkgBroker+".handler).getPartitionLog" {
			continue
		}
		r.fn(fn)
		for _, call := range findCalls(fn, pkgStorage+".NewPartitionLog") {
			nNew++
			start := call.Common().Args[3]
			if allOrigins(start, vmCall("~metadata.Store).NextOffset")) {
				r.ok("C06.R3", "NewPartitionLog start offset is store.NextOffset", m.Pos(call.Pos()), "")
			} else {
				r.viol("C06.R3", "NewPartitionLog start offset is store.NextOffset", m.Pos(call.Pos()), "start offset is "+describe(start))
			}
		}
		for _, b := range fn.Blocks {
			for _, in := range b.Instrs {
				mu, ok := in.(*ssa.MapUpdate)
				if !ok || !strings.HasSuffix(mu.Value.Type().String(), "storage.PartitionLog") {
					continue
				}
				nPub++
				guardVerdict(m, r, "C06.R3", "h.logs publication after err(RestoreFromS3)==nil", fn, mu, Guard{cl(atomErrNil(fnRestore))})
			}
		}
	}
	if nNew == 0 {
		r.unresolved("C06.R3", "NewPartitionLog call in getPartitionLog", "not found")
	}
	if nPub == 0 {
		r.unresolved("C06.R3", "h.logs publication in getPartitionLog", "not found")
	}
	// other callers of RestoreFromS3 / NewPartitionLog outside getPartitionLog are reported
	for _, cs := range callersOf(m, pkgStorage+".NewPartitionLog") {
		top := cs.caller
		for top.Parent() != nil {
			top = top.Parent()
		}
		if funcName(top) != "(*"+pkgBroker+".handler).getPartitionLog" {
			r.add("C06.R3", "NewPartitionLog caller "+funcName(top), m.Pos(cs.in.Pos()), Info, "outside the broker data path")
		}
	}
}
