package main

import (
	"fmt"
	"go/types"
	"sort"
	"strings"

	"golang.org/x/tools/go/ssa"
)

func init() { register("C41", "other", checkC41) }

// c41Table: which mutex guards which fields of the structs shared on the broker data path. Confirmed
// by reading each struct and its methods; every other field of these structs is set once, before the
// object is shared (rule R2), or is touched only through sync/atomic (R3).
var c41Table = []guardSpec{
	{Pkg: pkgStorage, Type: "PartitionLog", Mutex: "mu", Fields: []string{"nextOffset", "segments", "indexEntries", "flushing", "flushingBatches"}},
	{Pkg: pkgStorage, Type: "WriteBuffer", Mutex: "mu", Fields: []string{"batches", "sizeBytes", "messageCount", "lastFlush"}},
	{Pkg: pkgCache, Type: "SegmentCache", Mutex: "mu", Fields: []string{"size", "ll", "items"}},
	{Pkg: pkgBroker, Type: "handler", Mutex: "logMu", Fields: []string{"logs"}},
	{Pkg: pkgBroker, Type: "handler", Mutex: "authLogMu", Fields: []string{"authLogLast"}},
	{Pkg: pkgBrokerLib, Type: "S3HealthMonitor", Mutex: "mu", Fields: []string{"samples", "state", "stateSince", "avgLatency", "errorRate"}},
	{Pkg: pkgBroker, Type: "throughputTracker", Mutex: "mu", Fields: []string{"buckets"}},
	{Pkg: pkgBroker, Type: "histogram", Mutex: "mu", Fields: []string{"counts", "sum", "count"}},
	{Pkg: pkgBroker, Type: "lagMetrics", Mutex: "mu", Fields: []string{"max", "histogram", "updatedAt"}},
	{Pkg: pkgBroker, Type: "adminMetrics", Mutex: "mu", Fields: []string{"data"}},
	{Pkg: pkgBroker, Type: "cpuTracker", Mutex: "mu", Fields: []string{"lastWall", "lastCPU"}},
	{Pkg: pkgBroker, Type: "authMetrics", Mutex: "mu", Fields: []string{"byKey"}},
}

// fields that are only ever touched through sync/atomic
var c41Atomic = map[string][]string{
	pkgBroker + ".authMetrics": {"deniedTotal"},
}

// fields of synchronisation type (locked, waited on, acquired — not data)
func isSyncField(t types.Type) bool {
	s := t.String()
	for _, p := range []string{"sync.Mutex", "sync.RWMutex", "*sync.Cond", "sync.Cond", "singleflight.Group", "*golang.org/x/sync/semaphore.Weighted", "sync.WaitGroup", "sync.Once"} {
		if strings.HasSuffix(s, p) {
			return true
		}
	}
	return false
}

func checkC41(c *Ctx, r *Report) {
	r.Explanation = "Decides the lock discipline that makes the broker data path race free, not the race detector's dynamic verdict: (R1) every read or write of a guarded field in the table below happens with the owning struct's mutex held on every path (must-lockset over SSA, helper functions checked at their call sites, closures only when run synchronously under the parent's lock, constructor accesses only before the object is published); (R2) every other non-synchronisation field of those structs is assigned only on an object that the assigning function has just created and not yet published — so it is immutable once shared; (R3) fields in the atomic table are used only as operands of sync/atomic calls; (R4) the type-level lock order (held → acquired, through static callees) over storage, cache, broker library and broker command has no cycle. Table: PartitionLog.mu → nextOffset, segments, indexEntries, flushing, flushingBatches; WriteBuffer.mu → batches, sizeBytes, messageCount, lastFlush; SegmentCache.mu → size, ll, items; handler.logMu → logs; handler.authLogMu → authLogLast; S3HealthMonitor.mu → samples, state, stateSince, avgLatency, errorRate; the broker's metric helpers under their mu; authMetrics.deniedTotal atomic-only. The bytes that leave the locks (cache entries, fetched slices) are C09's aliasing rules."
	r.NotCovered = "races inside dependencies and the Go runtime; objects reachable from a guarded field but mutated through a pointer obtained under the lock and used after unlocking (only C09's cache-entry rule covers that); the race detector's notion of which schedules were explored"
	m, err := c.Mod("root")
	if err != nil {
		r.unresolved("C41.load", "root module", err.Error())
		return
	}
	checkLockset(m, r, "C41.R1", "guarded fields of the data-path structs are accessed only with their mutex held", c41Table, 40)

	// ---- R2 immutable-after-publication for the remaining fields
	r.rule("C41.R2", "non-guarded, non-synchronisation fields of the table's structs are assigned only before the object is shared", 10)
	guarded := map[string]map[string]bool{}
	for _, sp := range c41Table {
		k := sp.Pkg + "." + sp.Type
		if guarded[k] == nil {
			guarded[k] = map[string]bool{}
		}
		for _, f := range sp.Fields {
			guarded[k][f] = true
		}
		guarded[k][sp.Mutex] = true
	}
	for t, fs := range c41Atomic {
		for _, f := range fs {
			if guarded[t] == nil {
				guarded[t] = map[string]bool{}
			}
			guarded[t][f] = true
		}
	}
	type fkey struct{ typ, field string }
	writes := map[fkey][]string{}
	okWrites := map[fkey]int{}
	var typeNames []string
	for t := range guarded {
		typeNames = append(typeNames, t)
	}
	sort.Strings(typeNames)
	for _, fn := range m.AllFuncs {
		for _, b := range fn.Blocks {
			for _, in := range b.Instrs {
				fa, ok := in.(*ssa.FieldAddr)
				if !ok {
					continue
				}
				t, f, base, ok := fieldAddrInfo(fa)
				if !ok || guarded[t] == nil || guarded[t][f] {
					continue
				}
				st := fa.X.Type().Underlying().(*types.Pointer).Elem().Underlying().(*types.Struct)
				if isSyncField(st.Field(fa.Field).Type()) {
					continue
				}
				if !faIsWriteStrict(fa) {
					continue
				}
				k := fkey{t, f}
				if fresh, _ := isFresh(m, base, t); fresh {
					if pub, by := publishedBefore(base, in); pub {
						writes[k] = append(writes[k], fmt.Sprintf("%s in %s: assigned after the object was published at %s", m.Pos(in.Pos()), fn.Name(), m.Pos(by.Pos())))
					} else {
						okWrites[k]++
					}
					continue
				}
				writes[k] = append(writes[k], fmt.Sprintf("%s in %s: assigned on an object that may already be shared (%s)", m.Pos(in.Pos()), fn.Name(), describe(base)))
			}
		}
	}
	for _, t := range typeNames {
		named := m.Named(t[:strings.LastIndex(t, ".")], t[strings.LastIndex(t, ".")+1:])
		if named == nil {
			r.unresolved("C41.R2", "struct "+t, "type not found")
			continue
		}
		st, ok := named.Underlying().(*types.Struct)
		if !ok {
			continue
		}
		for i := 0; i < st.NumFields(); i++ {
			f := st.Field(i).Name()
			if guarded[t][f] || isSyncField(st.Field(i).Type()) {
				continue
			}
			k := fkey{t, f}
			key := fmt.Sprintf("%s.%s is set only before the object is shared", t[strings.LastIndex(t, ".")+1:], f)
			if len(writes[k]) == 0 {
				r.ok("C41.R2", key, "", fmt.Sprintf("%d constructor assignment(s)", okWrites[k]))
			} else if mu := inferredGuard(m, t, st, f); mu != "" {
				// a field that is not in the table but is, at every access in the module, touched with
				// one and the same mutex of its struct held is guarded in fact (the lockset inference
				// of Eraser, evaluated with the R1 engine): e.g. a counter added next to guarded state
				r.ok("C41.R2", strings.Replace(key, "is set only before the object is shared", "is accessed only with "+t[strings.LastIndex(t, ".")+1:]+"."+mu+" held (inferred)", 1), "", fmt.Sprintf("%d post-publication write(s), all under the lock", len(writes[k])))
			} else {
				sort.Strings(writes[k])
				r.viol("C41.R2", key, "", strings.Join(writes[k], "; "))
			}
		}
	}

	// ---- R3 atomic-only fields
	r.rule("C41.R3", "atomic fields are used only through sync/atomic", 1)
	for t, fs := range c41Atomic {
		for _, f := range fs {
			n, bad := 0, ""
			for _, fn := range m.AllFuncs {
				for _, b := range fn.Blocks {
					for _, in := range b.Instrs {
						fa, ok := in.(*ssa.FieldAddr)
						if !ok {
							continue
						}
						tt, ff, base, ok := fieldAddrInfo(fa)
						if !ok || tt != t || ff != f {
							continue
						}
						if fresh, _ := isFresh(m, base, t); fresh {
							if pub, _ := publishedBefore(base, in); !pub {
								continue
							}
						}
						for _, ref := range *fa.Referrers() {
							n++
							call, ok := ref.(*ssa.Call)
							if !ok || !strings.HasPrefix(calleeName(&call.Call), "sync/atomic.") {
								bad = fmt.Sprintf("%s in %s: plain access %s", m.Pos(in.Pos()), fn.Name(), describeInstr(ref))
							}
						}
					}
				}
			}
			key := t[strings.LastIndex(t, ".")+1:] + "." + f + " is accessed only through sync/atomic"
			switch {
			case bad != "":
				r.viol("C41.R3", key, "", bad)
			case n == 0:
				r.unresolved("C41.R3", key, "no access found")
			default:
				r.ok("C41.R3", key, "", fmt.Sprintf("%d uses", n))
			}
		}
	}

	// ---- R4 lock order
	r.rule("C41.R4", "type-level lock order is acyclic", 1)
	pairs := lockOrderPairs(m, pkgStorage, pkgCache, pkgBroker, pkgBrokerLib)
	adj := map[string][]string{}
	var edges []string
	for p := range pairs {
		adj[p[0]] = append(adj[p[0]], p[1])
		edges = append(edges, short(p[0])+" → "+short(p[1]))
	}
	sort.Strings(edges)
	cycle := ""
	color := map[string]int{}
	var stack []string
	var dfs func(u string) bool
	dfs = func(u string) bool {
		color[u] = 1
		stack = append(stack, u)
		for _, v := range adj[u] {
			if color[v] == 1 {
				cyc := []string{}
				for i := len(stack) - 1; i >= 0; i-- {
					cyc = append([]string{short(stack[i])}, cyc...)
					if stack[i] == v {
						break
					}
				}
				cycle = strings.Join(append(cyc, short(v)), " → ")
				return true
			}
			if color[v] == 0 && dfs(v) {
				return true
			}
		}
		stack = stack[:len(stack)-1]
		color[u] = 2
		return false
	}
	var nodes []string
	for u := range adj {
		nodes = append(nodes, u)
	}
	sort.Strings(nodes)
	for _, u := range nodes {
		if color[u] == 0 && dfs(u) {
			break
		}
	}
	if cycle == "" {
		r.ok("C41.R4", "no cycle among held → acquired lock pairs", "", strings.Join(edges, "; "))
	} else {
		sites := ""
		r.viol("C41.R4", "no cycle among held → acquired lock pairs", "", "cycle "+cycle+sites+" (edges: "+strings.Join(edges, "; ")+")")
	}
	// self-deadlock: acquiring a mutex that is already held on the same object
	r.rule("C41.R5", "no function locks a mutex it already holds on the same object", 1)
	nLock, reent := 0, []string{}
	for _, fn := range m.AllFuncs {
		p := fnPkg(fn)
		if p == nil || !(p.Path() == pkgStorage || p.Path() == pkgCache || p.Path() == pkgBroker || p.Path() == pkgBrokerLib) {
			continue
		}
		var fl *fnLocks
		for _, b := range fn.Blocks {
			for _, in := range b.Instrs {
				k, acq, _, ok := lockOp(in)
				if !ok || !acq {
					continue
				}
				nLock++
				if fl == nil {
					fl = computeLocks(fn, lockSet{})
				}
				if _, held := fl.heldAt(in)[k]; held {
					reent = append(reent, fmt.Sprintf("%s in %s: %s locked while already held", m.Pos(in.Pos()), fn.Name(), short(k.mu)))
				}
			}
		}
	}
	sort.Strings(reent)
	if len(reent) == 0 {
		r.ok("C41.R5", "no re-entrant acquisition", "", fmt.Sprintf("%d lock sites", nLock))
	} else {
		r.viol("C41.R5", "no re-entrant acquisition", "", strings.Join(reent, "; "))
	}
}

func short(s string) string {
	if i := strings.LastIndex(s, "/"); i >= 0 {
		return s[i+1:]
	}
	return s
}

// faIsWriteStrict: the field address is stored to directly, or the map/slice loaded from it is
// mutated in place (reads and passing the loaded value on are not writes).
func faIsWriteStrict(fa *ssa.FieldAddr) bool {
	if fa.Referrers() == nil {
		return false
	}
	for _, r := range *fa.Referrers() {
		switch x := r.(type) {
		case *ssa.Store:
			if x.Addr == ssa.Value(fa) {
				return true
			}
		case *ssa.UnOp:
			if x.Referrers() == nil {
				continue
			}
			for _, rr := range *x.Referrers() {
				switch y := rr.(type) {
				case *ssa.MapUpdate:
					if y.Map == ssa.Value(x) {
						return true
					}
				case *ssa.Call:
					if b, ok := y.Call.Value.(*ssa.Builtin); ok && (b.Name() == "delete" || b.Name() == "clear") && len(y.Call.Args) > 0 && y.Call.Args[0] == ssa.Value(x) {
						return true
					}
				case *ssa.IndexAddr:
					if y.X == ssa.Value(x) && y.Referrers() != nil {
						for _, r3 := range *y.Referrers() {
							if st, ok := r3.(*ssa.Store); ok && st.Addr == ssa.Value(y) {
								return true
							}
						}
					}
				}
			}
		}
	}
	return false
}


// inferredGuard: the mutex field of struct t under which every access to field f in the module
// happens (write lock for writes), or "" if there is none. Uses the same engine and the same notion of
// access as R1, on a scratch report.
func inferredGuard(m *Module, t string, st *types.Struct, f string) string {
	pkg, typ := t[:strings.LastIndex(t, ".")], t[strings.LastIndex(t, ".")+1:]
	for i := 0; i < st.NumFields(); i++ {
		ft := st.Field(i).Type().String()
		if ft != "sync.Mutex" && ft != "sync.RWMutex" {
			continue
		}
		scratch := newReport("C41")
		checkLockset(m, scratch, "C41.infer", "inference", []guardSpec{{Pkg: pkg, Type: typ, Mutex: st.Field(i).Name(), Fields: []string{f}}}, 0)
		bad, n := false, 0
		for _, x := range scratch.Results {
			if x.Rule != "C41.infer" {
				continue
			}
			switch x.Status {
			case Violation, Undecided, Unresolved:
				bad = true
			case OK:
				n++
			}
		}
		if !bad && n > 0 {
			return st.Field(i).Name()
		}
	}
	return ""
}
