package main

import (
	"fmt"
	"go/token"
	"go/types"
	"sort"

	"golang.org/x/tools/go/ssa"
)

// E8 demand-driven "where can this reference point" analysis (backwards, context-sensitive on the
// call string up to a fixed depth, field-insensitive except for the first field level of local
// structs). It answers: which allocation sites / unknown objects can the memory behind a reference
// value be, and which values were inspected on the way (field addresses, loads, call results).
//
//	pts(alloc site)            = {site}
//	pts(&x.f), pts(&x[i]), pts(x[a:b]), conversions = pts(x)
//	pts(load a)                = ⋃ content(o) for o ∈ pts(a), plus what this function itself stored
//	                             through addresses built on the same base value
//	content(o)                 = ⋃ pts(v) for every store of a reference-carrying v into o (stores,
//	                             map updates, appended elements, copy) in the function that allocated o
//	pts(call f(...))           = ⋃ pts(returned value) over the bodies f can dispatch to (static callee
//	                             or every module implementation of the interface method); parameters
//	                             met inside are mapped back to the arguments of that very call site
//	pts(parameter, no context) = {parameter}   (the caller decides; see paramWrites in the users)
//
// Library functions are leaves: their result is a fresh unknown object, except for the table of
// functions known to return (part of) an argument.
type memObj struct {
	v    ssa.Value
	ctx  *ptsCtx
	mark bool // a marker (the engine's user flagged this value while it was inspected), not an object
}

type ptsCtx struct {
	site  ssa.CallInstruction
	up    *ptsCtx
	depth int
}

type ptsKey struct {
	v   ssa.Value
	ctx *ptsCtx
}

type ptsEngine struct {
	m       *Module
	visit   func(v ssa.Value)
	mark    func(v ssa.Value) bool // values that taint every result computed through them
	cuts    int
	memo    map[ptsKey]map[memObj]bool
	active  map[ptsKey]bool
	ctxs    map[ptsKey]*ptsCtx // interned contexts: (site value, up) → ctx
	maxCtx  int
	Visited int
	cmemo   map[contentKey]map[memObj]bool
	cactive map[contentKey]bool
	round    int
	changed  bool
	ptsRound map[ptsKey]int
	cRound   map[contentKey]int
	fbRound  map[fbKey]int
	fidx     *fieldStoreIndex
	fbMemo   map[fbKey]map[memObj]bool
	fbActive map[fbKey]bool
}

func newPtsEngine(m *Module, visit func(ssa.Value)) *ptsEngine {
	return &ptsEngine{m: m, visit: visit, memo: map[ptsKey]map[memObj]bool{}, active: map[ptsKey]bool{}, ctxs: map[ptsKey]*ptsCtx{}, maxCtx: 8, cmemo: map[contentKey]map[memObj]bool{}, cactive: map[contentKey]bool{}, fbMemo: map[fbKey]map[memObj]bool{}, fbActive: map[fbKey]bool{}, round: 1, ptsRound: map[ptsKey]int{}, cRound: map[contentKey]int{}, fbRound: map[fbKey]int{}}
}

func (e *ptsEngine) push(site ssa.CallInstruction, up *ptsCtx) *ptsCtx {
	d := 1
	if up != nil {
		d = up.depth + 1
	}
	if d > e.maxCtx {
		return nil
	}
	k := ptsKey{site.Value(), up}
	if site.Value() == nil {
		// go / defer statements have no value; key them by their common call value
		k = ptsKey{site.Common().Value, up}
	}
	if c, ok := e.ctxs[k]; ok {
		return c
	}
	c := &ptsCtx{site, up, d}
	e.ctxs[k] = c
	return c
}

func refCarrying(t types.Type) bool { return refCarryingN(t, 0) }

func refCarryingN(t types.Type, depth int) bool {
	if depth > 6 {
		return true
	}
	switch u := t.Underlying().(type) {
	case *types.Pointer, *types.Slice, *types.Map, *types.Chan, *types.Signature, *types.Interface:
		return true
	case *types.Struct:
		for i := 0; i < u.NumFields(); i++ {
			if refCarryingN(u.Field(i).Type(), depth+1) {
				return true
			}
		}
	case *types.Array:
		return refCarryingN(u.Elem(), depth+1)
	case *types.Tuple:
		for i := 0; i < u.Len(); i++ {
			if refCarryingN(u.At(i).Type(), depth+1) {
				return true
			}
		}
	}
	return false
}

func union(dst, src map[memObj]bool) map[memObj]bool {
	if dst == nil {
		dst = map[memObj]bool{}
	}
	for k := range src {
		dst[k] = true
	}
	return dst
}

// libReturnsArg: library functions whose result can be (part of) the memory of an argument.
var libReturnsArg = map[string]bool{
	"slices.Grow": true, "slices.Clip": true, "slices.Insert": true, "slices.Delete": true, "slices.Compact": true,
	"bytes.TrimSpace": true, "bytes.Trim": true, "bytes.TrimPrefix": true, "bytes.TrimSuffix": true,
}

// query evaluates pts to a fixed point: results are monotone facts kept in the memo tables across
// rounds and across queries; a cycle met during a round uses the value known so far, and the round is
// repeated until no table entry grew.
func (e *ptsEngine) query(v ssa.Value) map[memObj]bool {
	var res map[memObj]bool
	for i := 0; i < 25; i++ {
		e.round++
		e.changed = false
		res = e.pts(v, nil)
		if !e.changed {
			break
		}
	}
	return res
}

func sameObjSet(a, b map[memObj]bool) bool { return len(a) == len(b) }

func (e *ptsEngine) pts(v ssa.Value, ctx *ptsCtx) map[memObj]bool {
	if v == nil {
		return nil
	}
	k := ptsKey{v, ctx}
	if e.ptsRound[k] == e.round || e.active[k] {
		// evaluated in this round already, or in progress (cycle): the value known so far
		return e.memo[k]
	}
	e.active[k] = true
	e.Visited++
	if e.visit != nil {
		e.visit(v)
	}
	res := e.eval(v, ctx)
	if e.mark != nil && e.mark(v) {
		res = union(res, map[memObj]bool{{v: v, mark: true}: true})
	}
	delete(e.active, k)
	old := e.memo[k]
	merged := union(union(nil, old), res)
	if len(merged) != len(old) {
		e.changed = true
	}
	e.memo[k] = merged
	e.ptsRound[k] = e.round
	return merged
}

func (e *ptsEngine) eval(v ssa.Value, ctx *ptsCtx) map[memObj]bool {
	one := func(x ssa.Value) map[memObj]bool { return map[memObj]bool{{v: x, ctx: ctx}: true} }
	switch x := v.(type) {
	case *ssa.Alloc, *ssa.MakeSlice, *ssa.MakeMap, *ssa.MakeChan:
		return one(v)
	case *ssa.MakeClosure:
		return one(v)
	case *ssa.Global:
		return map[memObj]bool{{v: v}: true}
	case *ssa.Const, *ssa.Function, *ssa.Builtin:
		return nil
	case *ssa.FieldAddr:
		return e.pts(x.X, ctx)
	case *ssa.IndexAddr:
		return e.pts(x.X, ctx)
	case *ssa.Field:
		return e.pts(x.X, ctx)
	case *ssa.Index:
		return e.pts(x.X, ctx)
	case *ssa.Slice:
		return e.pts(x.X, ctx)
	case *ssa.ChangeType:
		return e.pts(x.X, ctx)
	case *ssa.Convert:
		return e.pts(x.X, ctx)
	case *ssa.MakeInterface:
		return e.pts(x.X, ctx)
	case *ssa.ChangeInterface:
		return e.pts(x.X, ctx)
	case *ssa.SliceToArrayPointer:
		return e.pts(x.X, ctx)
	case *ssa.TypeAssert:
		return e.pts(x.X, ctx)
	case *ssa.Extract:
		if c, ok := x.Tuple.(*ssa.Call); ok {
			return e.callResult(c, x.Index, ctx)
		}
		return e.pts(x.Tuple, ctx)
	case *ssa.Phi:
		var res map[memObj]bool
		for _, ed := range x.Edges {
			res = union(res, e.pts(ed, ctx))
		}
		return res
	case *ssa.Lookup:
		if _, isMap := x.X.Type().Underlying().(*types.Map); !isMap {
			return nil
		}
		return e.loadFrom(x.X, x.X, ctx, x.Parent())
	case *ssa.Next:
		if rg, ok := x.Iter.(*ssa.Range); ok {
			if _, isMap := rg.X.Type().Underlying().(*types.Map); isMap {
				return e.loadFrom(rg.X, rg.X, ctx, x.Parent())
			}
		}
		return nil
	case *ssa.UnOp:
		switch x.Op {
		case token.MUL:
			if !refCarrying(x.Type()) {
				return nil
			}
			return e.loadFrom(x.X, x.X, ctx, x.Parent())
		case token.ARROW:
			return e.loadFrom(x.X, x.X, ctx, x.Parent())
		}
		return nil
	case *ssa.Parameter:
		fn := x.Parent()
		if ctx != nil {
			idx := -1
			for i, p := range fn.Params {
				if p == x {
					idx = i
				}
			}
			cc := ctx.site.Common()
			var arg ssa.Value
			if cc.IsInvoke() {
				if idx == 0 {
					arg = cc.Value
				} else if idx-1 < len(cc.Args) {
					arg = cc.Args[idx-1]
				}
			} else if idx >= 0 && idx < len(cc.Args) {
				arg = cc.Args[idx]
			}
			if arg != nil {
				return e.pts(arg, ctx.up)
			}
		}
		return map[memObj]bool{{v: v}: true}
	case *ssa.FreeVar:
		fn := x.Parent()
		var res map[memObj]bool
		if fn != nil && fn.Parent() != nil {
			idx := -1
			for i, fv := range fn.FreeVars {
				if fv == x {
					idx = i
				}
			}
			for _, b := range fn.Parent().Blocks {
				for _, in := range b.Instrs {
					if mc, ok := in.(*ssa.MakeClosure); ok && mc.Fn == ssa.Value(fn) && idx >= 0 && idx < len(mc.Bindings) {
						res = union(res, e.pts(mc.Bindings[idx], nil))
					}
				}
			}
		}
		if res == nil {
			res = map[memObj]bool{{v: v}: true}
		}
		return res
	case *ssa.Call:
		return e.callResult(x, -1, ctx)
	}
	return nil
}

// callResult: what a call's result #idx (or any result when idx < 0) can point to.
func (e *ptsEngine) callResult(c *ssa.Call, idx int, ctx *ptsCtx) map[memObj]bool {
	cc := &c.Call
	if bi, ok := cc.Value.(*ssa.Builtin); ok {
		switch bi.Name() {
		case "append":
			// the result shares the base's memory or is a new array holding the same elements
			res := union(nil, e.pts(cc.Args[0], ctx))
			res[memObj{v: c, ctx: ctx}] = true
			return res
		case "min", "max":
			return nil
		}
		return nil
	}
	var targets []*ssa.Function
	if cc.IsInvoke() {
		targets = implementers(e.m, cc.Value.Type(), cc.Method)
	} else if g, _ := calleeOf(cc); g != nil {
		targets = []*ssa.Function{g}
	} else {
		// dynamic call of a function value: closures created in the module that flow here
		for o := range e.pts(cc.Value, ctx) {
			if mc, ok := o.v.(*ssa.MakeClosure); ok {
				if g, ok := mc.Fn.(*ssa.Function); ok {
					targets = append(targets, g)
				}
			}
		}
	}
	var res map[memObj]bool
	local := false
	for _, g := range targets {
		if g.Blocks == nil || fnPkg(g) == nil || !e.m.isLocalPkg(fnPkg(g)) {
			continue
		}
		local = true
		nctx := e.push(c, ctx)
		for _, b := range g.Blocks {
			ret, ok := b.Instrs[len(b.Instrs)-1].(*ssa.Return)
			if !ok {
				continue
			}
			for i, rv := range ret.Results {
				if idx >= 0 && i != idx {
					continue
				}
				if !refCarrying(rv.Type()) {
					continue
				}
				if nctx == nil {
					// context budget exhausted: evaluate without context (parameters stay unknown)
					res = union(res, e.pts(rv, nil))
				} else {
					res = union(res, e.pts(rv, nctx))
				}
			}
		}
	}
	if !local {
		res = union(res, map[memObj]bool{{v: c, ctx: ctx}: true})
		if libReturnsArg[calleeName(cc)] {
			for _, a := range cc.Args {
				if refCarrying(a.Type()) {
					res = union(res, e.pts(a, ctx))
				}
			}
		}
	}
	return res
}

// baseOf strips field / element address computations.
func baseOf(a ssa.Value) (base ssa.Value, firstField int) {
	firstField = -1
	for {
		switch x := a.(type) {
		case *ssa.FieldAddr:
			firstField = x.Field
			a = x.X
			continue
		case *ssa.IndexAddr:
			firstField = -1
			a = x.X
			continue
		}
		return a, firstField
	}
}

// loadFrom: the reference-carrying value read from address / container `addr`.
func (e *ptsEngine) loadFrom(addr, _ ssa.Value, ctx *ptsCtx, fn *ssa.Function) map[memObj]bool {
	base, field := baseOf(addr)
	var res map[memObj]bool
	objs := e.pts(addr, ctx)
	for o := range objs {
		f := -1
		if al, ok := o.v.(*ssa.Alloc); ok && field >= 0 {
			// first-level field sensitivity for struct objects: the local itself, or an object of
			// the very struct type the base pointer points to
			if ssa.Value(al) == base {
				f = field
			} else if bp, ok := base.Type().Underlying().(*types.Pointer); ok {
				if ap, ok := al.Type().Underlying().(*types.Pointer); ok && types.Identical(bp.Elem(), ap.Elem()) {
					if _, isStruct := ap.Elem().Underlying().(*types.Struct); isStruct {
						f = field
					}
				}
			}
		}
		res = union(res, e.content(o, f))
	}
	// stores this function itself made through addresses derived from the same base value (objects
	// allocated elsewhere and filled in here)
	if _, isAlloc := base.(*ssa.Alloc); !isAlloc {
		res = union(res, e.storedThrough(base, -1, ctx))
	}
	// field-based fallback: when the object is opaque (a parameter without a caller, a global, a
	// library result, marked memory) its field may hold whatever any function of the module ever
	// stored into that field of that struct type; likewise for the elements of a container that was
	// loaded from such a field
	opaque := false
	for o := range objs {
		if isOpaqueObj(o) {
			opaque = true
		}
	}
	if opaque {
		if fa, ok := addr.(*ssa.FieldAddr); ok {
			res = union(res, e.fieldBased(fieldKeyOf(fa), false))
		} else {
			// element / map value read out of a container that was itself loaded from a field
			cont := addr
			if ia, ok := addr.(*ssa.IndexAddr); ok {
				cont = ia.X
			}
			if u, ok := cont.(*ssa.UnOp); ok && u.Op == token.MUL {
				if fa, ok := u.X.(*ssa.FieldAddr); ok {
					res = union(res, e.fieldBased(fieldKeyOf(fa), true))
				}
			}
		}
	}
	return res
}

func isOpaqueObj(o memObj) bool {
	if o.mark {
		return true
	}
	switch x := o.v.(type) {
	case *ssa.Parameter, *ssa.Global, *ssa.FreeVar:
		return true
	case *ssa.Call:
		if bi, ok := x.Call.Value.(*ssa.Builtin); ok && bi.Name() == "append" {
			return false
		}
		return true
	}
	return false
}

type fieldKey struct {
	typ   string
	field int
}

func fieldKeyOf(fa *ssa.FieldAddr) fieldKey {
	t := fa.X.Type()
	if p, ok := t.Underlying().(*types.Pointer); ok {
		t = p.Elem()
	}
	return fieldKey{t.String(), fa.Field}
}

type fieldStoreIndex struct {
	direct map[fieldKey][]ssa.Value // values stored into the field itself
	elems  map[fieldKey][]ssa.Value // values stored into a map / slice that was loaded from the field
}

func (e *ptsEngine) buildFieldIndex() {
	idx := &fieldStoreIndex{direct: map[fieldKey][]ssa.Value{}, elems: map[fieldKey][]ssa.Value{}}
	contKey := func(v ssa.Value) (fieldKey, bool) {
		if u, ok := v.(*ssa.UnOp); ok && u.Op == token.MUL {
			if fa, ok := u.X.(*ssa.FieldAddr); ok {
				return fieldKeyOf(fa), true
			}
		}
		return fieldKey{}, false
	}
	for _, fn := range e.m.AllFuncs {
		for _, b := range fn.Blocks {
			for _, in := range b.Instrs {
				switch x := in.(type) {
				case *ssa.Store:
					if !refCarrying(x.Val.Type()) {
						continue
					}
					switch a := x.Addr.(type) {
					case *ssa.FieldAddr:
						k := fieldKeyOf(a)
						idx.direct[k] = append(idx.direct[k], x.Val)
					case *ssa.IndexAddr:
						if k, ok := contKey(a.X); ok {
							idx.elems[k] = append(idx.elems[k], x.Val)
						}
					}
				case *ssa.MapUpdate:
					if k, ok := contKey(x.Map); ok {
						if refCarrying(x.Value.Type()) {
							idx.elems[k] = append(idx.elems[k], x.Value)
						}
					}
				}
			}
		}
	}
	e.fidx = idx
}

// fieldBased: pts of everything the module stores into field k (or into the container held there).
func (e *ptsEngine) fieldBased(k fieldKey, elems bool) map[memObj]bool {
	if e.fidx == nil {
		e.buildFieldIndex()
	}
	mk := fbKey{k, elems}
	if e.fbRound[mk] == e.round || e.fbActive[mk] {
		return e.fbMemo[mk]
	}
	e.fbActive[mk] = true
	var res map[memObj]bool
	vals := e.fidx.direct[k]
	if elems {
		vals = e.fidx.elems[k]
	}
	for _, v := range vals {
		res = union(res, e.pts(v, nil))
	}
	delete(e.fbActive, mk)
	old := e.fbMemo[mk]
	merged := union(union(nil, old), res)
	if len(merged) != len(old) {
		e.changed = true
	}
	e.fbMemo[mk] = merged
	e.fbRound[mk] = e.round
	return merged
}

type fbKey struct {
	k     fieldKey
	elems bool
}

// aliasClosure: values in the same function that denote (parts of) the same memory as v.
func aliasClosure(v ssa.Value, field int) []ssa.Value {
	seen := map[ssa.Value]bool{v: true}
	work := []ssa.Value{v}
	var out []ssa.Value
	for len(work) > 0 {
		a := work[0]
		work = work[1:]
		out = append(out, a)
		refs := a.Referrers()
		if refs == nil {
			continue
		}
		for _, r := range *refs {
			var nv ssa.Value
			switch y := r.(type) {
			case *ssa.FieldAddr:
				if y.X == a {
					if a == v && field >= 0 && y.Field != field {
						continue
					}
					nv = y
				}
			case *ssa.IndexAddr:
				if y.X == a {
					nv = y
				}
			case *ssa.Slice:
				if y.X == a {
					nv = y
				}
			case *ssa.ChangeType:
				nv = y
			case *ssa.Phi:
				nv = y
			case *ssa.Call:
				if bi, ok := y.Call.Value.(*ssa.Builtin); ok && bi.Name() == "append" && y.Call.Args[0] == a {
					nv = y
				}
			}
			if nv != nil && !seen[nv] {
				seen[nv] = true
				work = append(work, nv)
			}
		}
	}
	return out
}

// storedThrough: pts of every reference-carrying value written into memory denoted by v or its aliases.
func (e *ptsEngine) storedThrough(v ssa.Value, field int, ctx *ptsCtx) map[memObj]bool {
	var res map[memObj]bool
	for _, a := range aliasClosure(v, field) {
		refs := a.Referrers()
		if refs == nil {
			continue
		}
		for _, r := range *refs {
			switch y := r.(type) {
			case *ssa.Store:
				if y.Addr == a && refCarrying(y.Val.Type()) {
					if a == v && field >= 0 {
						// whole-struct copy into the object: only the wanted field of the copied value
						res = union(res, e.fieldOfStruct(y.Val, field, ctx, 0))
					} else {
						res = union(res, e.pts(y.Val, ctx))
					}
				}
			case *ssa.MapUpdate:
				if y.Map == a {
					if refCarrying(y.Value.Type()) {
						res = union(res, e.pts(y.Value, ctx))
					}
					if refCarrying(y.Key.Type()) {
						res = union(res, e.pts(y.Key, ctx))
					}
				}
			case *ssa.Send:
				if y.Chan == a && refCarrying(y.X.Type()) {
					res = union(res, e.pts(y.X, ctx))
				}
			case *ssa.Call:
				bi, ok := y.Call.Value.(*ssa.Builtin)
				if !ok {
					continue
				}
				switch bi.Name() {
				case "copy":
					if y.Call.Args[0] == a {
						res = union(res, e.loadFrom(y.Call.Args[1], nil, ctx, y.Parent()))
					}
				}
			}
		}
		// an append call in the alias set contributes the elements it appends
		if y, ok := a.(*ssa.Call); ok {
			if bi, ok := y.Call.Value.(*ssa.Builtin); ok && bi.Name() == "append" && len(y.Call.Args) == 2 {
				el := y.Call.Args[1]
				if refCarrying(el.Type()) {
					handled := false
					if sl, ok := el.(*ssa.Slice); ok {
						if arr, ok := sl.X.(*ssa.Alloc); ok {
							// the varargs array: its elements
							res = union(res, e.storedThrough(arr, -1, ctx))
							handled = true
						}
					}
					if !handled {
						if _, isStr := el.Type().Underlying().(*types.Basic); !isStr {
							res = union(res, e.loadFrom(el, nil, ctx, y.Parent()))
						}
					}
				}
			}
		}
	}
	return res
}

// content: what was stored into object o (by the function that created it).
func (e *ptsEngine) content(o memObj, field int) map[memObj]bool {
	if o.mark {
		// what is reachable from marked memory stays marked
		return map[memObj]bool{o: true}
	}
	k := contentKey{o, field}
	if e.cRound[k] == e.round || e.cactive[k] {
		return e.cmemo[k]
	}
	e.cactive[k] = true
	var res map[memObj]bool
	switch x := o.v.(type) {
	case *ssa.Alloc, *ssa.MakeSlice, *ssa.MakeMap, *ssa.MakeChan:
		res = e.storedThrough(o.v, field, o.ctx)
	case *ssa.Call:
		if bi, ok := x.Call.Value.(*ssa.Builtin); ok && bi.Name() == "append" {
			res = e.storedThrough(x, -1, o.ctx)
			// the elements already in the base
			res = union(res, e.loadFrom(x.Call.Args[0], nil, o.ctx, x.Parent()))
		} else {
			// result of a library call: whatever is reachable from it is represented by it
			res = map[memObj]bool{o: true}
		}
	default:
		// unknown object (parameter without a caller context, global, captured variable): what is
		// reachable from it is represented by the object itself
		res = map[memObj]bool{o: true}
	}
	delete(e.cactive, k)
	old := e.cmemo[k]
	merged := union(union(nil, old), res)
	if len(merged) != len(old) {
		e.changed = true
	}
	e.cmemo[k] = merged
	e.cRound[k] = e.round
	return merged
}

type contentKey struct {
	o     memObj
	field int
}

// fieldOfStruct: what the reference(s) in field #f of struct value sv can point to.
func (e *ptsEngine) fieldOfStruct(sv ssa.Value, f int, ctx *ptsCtx, depth int) map[memObj]bool {
	if depth > 12 {
		return e.pts(sv, ctx)
	}
	st, ok := sv.Type().Underlying().(*types.Struct)
	if !ok || f >= st.NumFields() {
		return e.pts(sv, ctx)
	}
	if !refCarrying(st.Field(f).Type()) {
		return nil
	}
	switch x := sv.(type) {
	case *ssa.UnOp:
		if x.Op == token.MUL {
			if e.visit != nil {
				e.visit(x)
			}
			var res map[memObj]bool
			objs := e.pts(x.X, ctx)
			for o := range objs {
				if al, ok := o.v.(*ssa.Alloc); ok {
					if ap, ok := al.Type().Underlying().(*types.Pointer); ok && types.Identical(ap.Elem(), sv.Type()) {
						res = union(res, e.content(o, f))
						continue
					}
				}
				res = union(res, e.content(o, -1))
			}
			if base, _ := baseOf(x.X); base != nil {
				if _, isAlloc := base.(*ssa.Alloc); !isAlloc {
					res = union(res, e.storedThrough(base, -1, ctx))
				}
			}
			return res
		}
	case *ssa.Phi:
		var res map[memObj]bool
		for _, ed := range x.Edges {
			res = union(res, e.fieldOfStruct(ed, f, ctx, depth+1))
		}
		return res
	case *ssa.Parameter:
		if ctx != nil {
			fn := x.Parent()
			idx := -1
			for i, p := range fn.Params {
				if p == x {
					idx = i
				}
			}
			cc := ctx.site.Common()
			if !cc.IsInvoke() && idx >= 0 && idx < len(cc.Args) {
				return e.fieldOfStruct(cc.Args[idx], f, ctx.up, depth+1)
			}
			if cc.IsInvoke() && idx >= 1 && idx-1 < len(cc.Args) {
				return e.fieldOfStruct(cc.Args[idx-1], f, ctx.up, depth+1)
			}
		}
	case *ssa.Call:
		cc := &x.Call
		if _, isB := cc.Value.(*ssa.Builtin); isB {
			break
		}
		var targets []*ssa.Function
		if cc.IsInvoke() {
			targets = implementers(e.m, cc.Value.Type(), cc.Method)
		} else if g, _ := calleeOf(cc); g != nil {
			targets = []*ssa.Function{g}
		}
		var res map[memObj]bool
		local := false
		for _, g := range targets {
			if g.Blocks == nil || fnPkg(g) == nil || !e.m.isLocalPkg(fnPkg(g)) {
				continue
			}
			nctx := e.push(x, ctx)
			if nctx == nil {
				continue
			}
			local = true
			for _, b := range g.Blocks {
				if ret, ok := b.Instrs[len(b.Instrs)-1].(*ssa.Return); ok && len(ret.Results) == 1 {
					res = union(res, e.fieldOfStruct(ret.Results[0], f, nctx, depth+1))
				}
			}
		}
		if local {
			return res
		}
	}
	return e.pts(sv, ctx)
}

// refSite: a place where the memory behind `ref` is written (or otherwise must not be a marked object).
type refSite struct {
	fn   *ssa.Function
	in   ssa.Instruction
	ref  ssa.Value
	what string
}

// judgeRefSites evaluates every site with the engine: a site whose reference can reach a marked value
// is reported; a site that reaches a parameter of its own function turns into an obligation on every
// call site of that function inside `reach` (to a fixed point).
func judgeRefSites(m *Module, eng *ptsEngine, reach map[*ssa.Function]reachInfo, sites []refSite, markName func(ssa.Value) string, verb string) (reports []string, nArgs int) {
	type judged struct {
		held   []string
		params []*ssa.Parameter
	}
	judge := func(ref ssa.Value) judged {
		var j judged
		seenH := map[string]bool{}
		for o := range eng.query(ref) {
			if o.mark {
				if w := markName(o.v); w != "" && !seenH[w] {
					seenH[w] = true
					j.held = append(j.held, w)
				}
				continue
			}
			if p, ok := o.v.(*ssa.Parameter); ok && o.ctx == nil {
				j.params = append(j.params, p)
			}
		}
		sort.Strings(j.held)
		return j
	}
	paramHit := map[*ssa.Function]map[int]string{}
	markParam := func(p *ssa.Parameter, what string) bool {
		f := p.Parent()
		for i, q := range f.Params {
			if q == p {
				if paramHit[f] == nil {
					paramHit[f] = map[int]string{}
				}
				if _, ok := paramHit[f][i]; !ok {
					paramHit[f][i] = what
					return true
				}
			}
		}
		return false
	}
	for _, w := range sites {
		j := judge(w.ref)
		for _, h := range j.held {
			reports = append(reports, fmt.Sprintf("%s: %s in %s %s %s", m.Pos(w.in.Pos()), w.what, w.fn.Name(), verb, h))
		}
		for _, p := range j.params {
			markParam(p, w.what)
		}
	}
	reported := map[string]bool{}
	for changed := true; changed; {
		changed = false
		for f := range reach {
			for _, call := range callsIn(f) {
				cc := call.Common()
				var targets []*ssa.Function
				if cc.IsInvoke() {
					targets = implementers(m, cc.Value.Type(), cc.Method)
				} else if g, _ := calleeOf(cc); g != nil {
					targets = []*ssa.Function{g}
				}
				args := cc.Args
				if cc.IsInvoke() {
					args = append([]ssa.Value{cc.Value}, args...)
				}
				for _, g := range targets {
					for ai, a := range args {
						what, ok := paramHit[g][ai]
						if !ok {
							continue
						}
						nArgs++
						j := judge(a)
						for _, h := range j.held {
							msg := fmt.Sprintf("%s: %s passes %s to %s (%s through that parameter)", m.Pos(call.Pos()), f.Name(), h, g.Name(), what)
							if !reported[msg] {
								reported[msg] = true
								reports = append(reports, msg)
							}
						}
						for _, p := range j.params {
							if markParam(p, what) {
								changed = true
							}
						}
					}
				}
			}
		}
	}
	sort.Strings(reports)
	return reports, nArgs
}
