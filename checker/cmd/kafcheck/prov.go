package main

import (
	"go/token"

	"golang.org/x/tools/go/ssa"
)

// E4 value provenance: backward slice over SSA.

// backSlice visits every value v depends on through arithmetic, conversions, phis, loads of local
// allocs, tuple extracts, field/index reads and struct field stores of local composites. Calls are
// leaves (their arguments are visited only when followArgs is set).
func backSlice(v ssa.Value, followArgs bool, visit func(ssa.Value)) {
	seen := map[ssa.Value]bool{}
	var walk func(v ssa.Value)
	walk = func(v ssa.Value) {
		if v == nil || seen[v] {
			return
		}
		seen[v] = true
		visit(v)
		switch x := v.(type) {
		case *ssa.Convert:
			walk(x.X)
		case *ssa.ChangeType:
			walk(x.X)
		case *ssa.MakeInterface:
			walk(x.X)
		case *ssa.ChangeInterface:
			walk(x.X)
		case *ssa.BinOp:
			walk(x.X)
			walk(x.Y)
		case *ssa.UnOp:
			if x.Op == token.MUL {
				switch a := x.X.(type) {
				case *ssa.Alloc:
					if st := lastStoreBefore(a, x); st != nil {
						walk(st.Val)
					} else {
						for _, s := range storesTo(a) {
							walk(s)
						}
						// composite literal built field by field
						walk(a)
					}
					return
				case *ssa.FieldAddr:
					// field of a local composite: follow what was stored into that field
					if al, ok := a.X.(*ssa.Alloc); ok {
						_, fname, _, _ := fieldAddrInfo(a)
						for _, st := range fieldStores(al)[fname] {
							walk(st.Val)
						}
					}
					walk(a.X)
					return
				case *ssa.IndexAddr:
					if !seen[a] {
						seen[a] = true
						visit(a) // the element address itself (which slice, which index)
					}
					walk(a.X)
					walk(a.Index)
					return
				}
			}
			walk(x.X)
		case *ssa.Phi:
			for _, e := range x.Edges {
				walk(e)
			}
		case *ssa.Extract:
			walk(x.Tuple)
		case *ssa.Alloc:
			// aggregate built in place (varargs array, composite literal): follow element/field stores
			if x.Referrers() != nil {
				for _, ref := range *x.Referrers() {
					switch a := ref.(type) {
					case *ssa.Store:
						if a.Addr == ssa.Value(x) {
							walk(a.Val)
						}
					case *ssa.IndexAddr:
						if a.Referrers() != nil {
							for _, rr := range *a.Referrers() {
								if st, ok := rr.(*ssa.Store); ok && st.Addr == ssa.Value(a) {
									walk(st.Val)
								}
							}
						}
					case *ssa.FieldAddr:
						if a.Referrers() != nil {
							for _, rr := range *a.Referrers() {
								if st, ok := rr.(*ssa.Store); ok && st.Addr == ssa.Value(a) {
									walk(st.Val)
								}
							}
						}
					}
				}
			}
		case *ssa.Field:
			walk(x.X)
		case *ssa.FieldAddr:
			walk(x.X)
		case *ssa.IndexAddr:
			walk(x.X)
			walk(x.Index)
		case *ssa.Index:
			walk(x.X)
			walk(x.Index)
		case *ssa.Lookup:
			walk(x.X)
			walk(x.Index)
		case *ssa.Slice:
			walk(x.X)
			walk(x.Low)
			walk(x.High)
		case *ssa.TypeAssert:
			walk(x.X)
		case *ssa.Call:
			if followArgs {
				for _, a := range x.Call.Args {
					walk(a)
				}
				if x.Call.IsInvoke() {
					walk(x.Call.Value) // the receiver of an interface method call
				}
			}
		case *ssa.Next:
			walk(x.Iter)
		case *ssa.Range:
			walk(x.X)
		}
	}
	walk(v)
}

// dependsOnField: does v depend on a load of struct field typ.field ?
func dependsOnField(v ssa.Value, typ, field string) bool {
	hit := false
	backSlice(v, true, func(x ssa.Value) {
		if t, f, _, ok := fieldOf(x); ok && f == field && (typ == "" || t == typ) {
			hit = true
		}
		// element field reads through IndexAddr→FieldAddr
		if u, ok := x.(*ssa.UnOp); ok && u.Op == token.MUL {
			if fa, ok := u.X.(*ssa.FieldAddr); ok {
				if t, f, _, ok := fieldAddrInfo(fa); ok && f == field && (typ == "" || t == typ) {
					hit = true
				}
			}
		}
	})
	return hit
}

// dependsOnCall: does v depend on the result of a call to one of names ?
func dependsOnCall(v ssa.Value, names ...string) bool {
	hit := false
	backSlice(v, true, func(x ssa.Value) {
		if c, ok := x.(*ssa.Call); ok && nameMatches(calleeName(&c.Call), names...) {
			hit = true
		}
	})
	return hit
}

// dynCallsOfField lists calls in fn whose callee value is a load of struct field typ.field
// (e.g. l.onFlush(ctx, x)).
func dynCallsOfField(fn *ssa.Function, typ, field string) []*ssa.Call {
	var out []*ssa.Call
	for _, b := range fn.Blocks {
		for _, in := range b.Instrs {
			c, ok := in.(*ssa.Call)
			if !ok || c.Call.IsInvoke() {
				continue
			}
			if t, f, _, ok := fieldOf(c.Call.Value); ok && t == typ && f == field {
				out = append(out, c)
			}
		}
	}
	return out
}
