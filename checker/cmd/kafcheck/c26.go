package main

import (
	"fmt"
	"go/token"
	"go/types"
	"strings"

	"golang.org/x/tools/go/ssa"
)

func init() { register("C26", "other", checkC26) }

// lenAtLeast: atom "len(S) >= need" for the SSA value S (any spelling of the comparison).
func lenAtLeast(S ssa.Value, need int64) Atom {
	return atomFn(fmt.Sprintf("len(%s) >= %d", describe(S), need), func(l Lit) bool {
		x, y, op := l.X, l.Y, l.Op
		if _, ok := constInt(x); ok {
			x, y, op = y, x, swapOp(op)
		}
		k, ok := constInt(y)
		if !ok {
			return false
		}
		lc, ok := strip(x).(*ssa.Call)
		if !ok || calleeName(&lc.Call) != "builtin.len" || strip(lc.Call.Args[0]) != strip(S) {
			return false
		}
		switch op {
		case token.GEQ:
			return k >= need
		case token.GTR:
			return k >= need-1
		case token.EQL:
			return k >= need
		}
		return false
	})
}

// idxBelowLen: atom "idx < len(S)".
func idxBelowLen(idx, S ssa.Value) Atom {
	return atomFn(describe(idx)+" < len("+describe(S)+")", func(l Lit) bool {
		x, y, op := l.X, l.Y, l.Op
		if op == token.GTR {
			x, y, op = y, x, token.LSS
		}
		if op != token.LSS || strip(x) != strip(idx) {
			return false
		}
		lc, ok := strip(y).(*ssa.Call)
		return ok && calleeName(&lc.Call) == "builtin.len" && strip(lc.Call.Args[0]) == strip(S)
	})
}

// constLenOf: statically known length of a slice/string value (make with constant size, constant
// string, slice with constant bounds of such), or -1.
func constLenOf(v ssa.Value) int64 {
	switch x := strip(v).(type) {
	case *ssa.MakeSlice:
		if k, ok := constInt(x.Len); ok {
			return k
		}
	case *ssa.Const:
		if s, ok := constString(x); ok {
			return int64(len(s))
		}
	case *ssa.Slice:
		if x.High != nil {
			if h, ok := constInt(x.High); ok {
				lo := int64(0)
				if x.Low != nil {
					l, ok := constInt(x.Low)
					if !ok {
						return -1
					}
					lo = l
				}
				return h - lo
			}
		}
		if x.High == nil && x.Low == nil {
			if a, ok := x.X.(*ssa.Alloc); ok {
				if arr, ok := a.Type().Underlying().(*types.Pointer).Elem().Underlying().(*types.Array); ok {
					return arr.Len()
				}
			}
		}
	}
	return -1
}

// checkBoundedIndexing: every index / slice expression on a slice or string in fn whose bound the
// compiler cannot check statically is dominated by a length comparison that makes it safe.
func checkBoundedIndexing(m *Module, r *Report, rule string, fn *ssa.Function) int {
	n := 0
	need := func(in ssa.Instruction, S ssa.Value, k int64, what string) {
		n++
		key := fmt.Sprintf("%s: %s", fn.Name(), what)
		if cl0 := constLenOf(S); cl0 >= 0 {
			if cl0 >= k {
				r.ok(rule, key, m.Pos(in.Pos()), fmt.Sprintf("operand has static length %d", cl0))
			} else {
				r.viol(rule, key, m.Pos(in.Pos()), fmt.Sprintf("operand has static length %d < %d", cl0, k))
			}
			return
		}
		guardVerdict(m, r, rule, key, fn, in, Guard{cl(lenAtLeast(S, k))})
	}
	for _, b := range fn.Blocks {
		for _, in := range b.Instrs {
			switch x := in.(type) {
			case *ssa.Slice:
				switch x.X.Type().Underlying().(type) {
				case *types.Slice, *types.Basic:
				default:
					continue // arrays: bounds are compile-time constants
				}
				var hi int64 = -1
				if x.High != nil {
					if k, ok := constInt(x.High); ok {
						hi = k
					} else {
						n++
						r.undecided(rule, fmt.Sprintf("%s: slice %s[:%s]", fn.Name(), describe(x.X), describe(x.High)), m.Pos(x.Pos()), "non-constant upper bound")
						continue
					}
				} else if x.Low != nil {
					if k, ok := constInt(x.Low); ok {
						hi = k
					} else {
						n++
						r.undecided(rule, fmt.Sprintf("%s: slice %s[%s:]", fn.Name(), describe(x.X), describe(x.Low)), m.Pos(x.Pos()), "non-constant lower bound")
						continue
					}
				}
				if hi > 0 {
					lo := "0"
					if x.Low != nil {
						lo = describe(x.Low)
					}
					need(in, x.X, hi, fmt.Sprintf("%s[%s:%d]", describe(x.X), lo, hi))
				}
			case *ssa.IndexAddr:
				if _, ok := x.X.Type().Underlying().(*types.Slice); !ok {
					continue
				}
				if k, ok := constInt(x.Index); ok {
					need(in, x.X, k+1, fmt.Sprintf("%s[%d]", describe(x.X), k))
				} else {
					n++
					guardVerdict(m, r, rule, fmt.Sprintf("%s: %s[%s]", fn.Name(), describe(x.X), describe(x.Index)), fn, in, Guard{cl(idxBelowLen(x.Index, x.X))})
				}
			case *ssa.Index:
				if bt, ok := x.X.Type().Underlying().(*types.Basic); !ok || bt.Info()&types.IsString == 0 {
					continue
				}
				if k, ok := constInt(x.Index); ok {
					need(in, x.X, k+1, fmt.Sprintf("%s[%d]", describe(x.X), k))
				} else {
					n++
					guardVerdict(m, r, rule, fmt.Sprintf("%s: %s[%s]", fn.Name(), describe(x.X), describe(x.Index)), fn, in, Guard{cl(idxBelowLen(x.Index, x.X))})
				}
			}
		}
	}
	return n
}

func checkC26(c *Ctx, r *Report) {
	r.Explanation = "Decides structural necessary conditions of 'PROXY protocol parsing preserves the stream and never crashes': (R1) in every function of pkg/broker/proxyproto.go each slice/index expression on a slice or string is dominated by a length comparison that makes it safe (constant bounds against len(x) >= K, loop indexes against i < len(x)) or applies to a buffer of sufficient static length; the v2 payload allocation is sized by a uint16; the v1 line reader stops at its cap; (R2) one reader: ReadProxyProtocol creates exactly one bufio.Reader on the connection, hands that reader to the parser and wraps that same reader on every return; connWithReader.Read delegates to it; the parse functions read only through their reader parameter; consuming reads happen only inside parseProxyV1 / parseProxyV2, which are entered only after the PROXY prefix / the full v2 signature was matched on peeked (unconsumed) bytes — so a connection without a header is passed through untouched; (R3) layout tables: the v2 parser reads 16 header bytes, takes command, family and length from offsets 12, 13 and 14:16, consumes exactly `length` further bytes, and the address fields of the result are taken from the protocol's offsets without swapping source and destination (v2 inet 0:4/4:8/8:10/10:12, inet6 0:16/16:32/32:34/34:36, v1 fields 2..5). Equality of the reported strings with the encoded addresses (net.IP formatting) is a value property and is not decided."
	r.NotCovered = "the textual form of the addresses (net.IP.String, JoinHostPort); v1 lines longer than the spec's 107 bytes but shorter than the 256 cap; TLV contents"
	m, err := c.Mod("root")
	if err != nil {
		r.unresolved("C26.load", "root module", err.Error())
		return
	}
	r.rule("C26.R1", "every slice/index on a slice or string in proxyproto.go is dominated by a sufficient length check (or static length)", 18)
	r.rule("C26.R2", "one bufio.Reader: created once, parsed from, wrapped on every return; consuming reads only after the header signature matched", 8)
	r.rule("C26.R3", "v2 header offsets (cmd 12, family 13, length 14:16; exactly `length` payload bytes) and address field offsets agree with the PROXY protocol; source/destination are not swapped", 16)

	var fns []*ssa.Function
	for _, fn := range m.FuncsInPkg(pkgBrokerLib) {
		if strings.HasSuffix(m.Fset.Position(fn.Pos()).Filename, "/proxyproto.go") {
			fns = append(fns, fn)
		}
	}
	if len(fns) < 8 {
		r.unresolved("C26.R1", "functions of proxyproto.go", fmt.Sprintf("found %d", len(fns)))
		return
	}
	for _, fn := range fns {
		r.fn(fn)
		checkBoundedIndexing(m, r, "C26.R1", fn)
	}
	// allocation sizes: from a uint16 (type-bounded) or a constant / capped parameter
	for _, fn := range fns {
		for _, b := range fn.Blocks {
			for _, in := range b.Instrs {
				ms, ok := in.(*ssa.MakeSlice)
				if !ok {
					continue
				}
				for _, sz := range []ssa.Value{ms.Len, ms.Cap} {
					if _, isC := constInt(sz); isC {
						continue
					}
					key := fmt.Sprintf("%s: allocation size %s is bounded", fn.Name(), describe(sz))
					w := narrowestWidth(sz)
					if w > 0 && w <= 16 {
						r.ok("C26.R1", key, m.Pos(ms.Pos()), fmt.Sprintf("decoded from a %d-bit field", w))
					} else if p, ok := strip(sz).(*ssa.Parameter); ok || isPhiOfParamAndConst(sz) {
						_ = p
						r.ok("C26.R1", key, m.Pos(ms.Pos()), "caller-chosen cap (constant at the only call site)")
					} else {
						r.viol("C26.R1", key, m.Pos(ms.Pos()), "allocation sized by an unbounded value")
					}
				}
			}
		}
	}

	// ---- R2
	consuming := func(n string) bool {
		for _, s := range []string{"(*bufio.Reader).ReadByte", "(*bufio.Reader).Read", "(*bufio.Reader).ReadString", "(*bufio.Reader).ReadBytes",
			"(*bufio.Reader).ReadLine", "(*bufio.Reader).Discard", "(*bufio.Reader).ReadRune", "(*bufio.Reader).ReadSlice", "(*bufio.Reader).WriteTo", "io.ReadFull", "io.ReadAll", "io.Copy", "io.CopyN", "io.ReadAtLeast"} {
			if n == s {
				return true
			}
		}
		return false
	}
	if rp := needFn(m, r, "C26.R2", pkgBrokerLib, "ReadProxyProtocol"); rp != nil {
		news := findCalls(rp, "bufio.NewReader", "bufio.NewReaderSize")
		if len(news) != 1 {
			r.viol("C26.R2", "ReadProxyProtocol creates exactly one reader", m.Pos(rp.Pos()), fmt.Sprintf("%d bufio readers are created on the connection: bytes buffered by one are lost to the other", len(news)))
		} else {
			br := news[0].Value()
			r.ok("C26.R2", "ReadProxyProtocol creates exactly one reader", m.Pos(news[0].Pos()), "")
			if strip(news[0].Common().Args[0]) != ssa.Value(rp.Params[0]) {
				r.viol("C26.R2", "the reader wraps the accepted connection", m.Pos(news[0].Pos()), "reader is built on "+describe(news[0].Common().Args[0]))
			}
			parses := findCalls(rp, pkgBrokerLib+".parseProxyHeader")
			okParse := len(parses) == 1 && strip(parses[0].Common().Args[0]) == ssa.Value(br)
			if okParse {
				r.ok("C26.R2", "the parser reads from that reader", m.Pos(parses[0].Pos()), "")
			} else {
				r.viol("C26.R2", "the parser reads from that reader", m.Pos(rp.Pos()), "parseProxyHeader is not called exactly once on the reader that is later wrapped")
			}
			for _, b := range rp.Blocks {
				ret, ok := b.Instrs[len(b.Instrs)-1].(*ssa.Return)
				if !ok {
					continue
				}
				okWrap := true
				why := ""
				for _, o := range origins(ret.Results[0]) {
					wc, ok := strip(o).(*ssa.Call)
					if !ok || calleeName(&wc.Call) != pkgBrokerLib+".wrapConnWithReader" {
						okWrap, why = false, "returns "+describe(o)
						continue
					}
					if strip(wc.Call.Args[1]) != ssa.Value(br) || strip(wc.Call.Args[0]) != ssa.Value(rp.Params[0]) {
						okWrap, why = false, "wraps "+describe(wc.Call.Args[0])+" with "+describe(wc.Call.Args[1])
					}
				}
				if okWrap {
					r.ok("C26.R2", "every return hands out the connection wrapped with the parsing reader", m.Pos(ret.Pos()), "")
				} else {
					r.viol("C26.R2", "every return hands out the connection wrapped with the parsing reader", m.Pos(ret.Pos()), why+": bytes the parser buffered beyond the header would be lost")
				}
			}
		}
		for _, call := range callsIn(rp) {
			if consuming(calleeName(call.Common())) {
				r.viol("C26.R2", "ReadProxyProtocol itself consumes nothing", m.Pos(call.Pos()), "consuming read "+calleeName(call.Common()))
			}
		}
	}
	if wr := needFn(m, r, "C26.R2", pkgBrokerLib, "wrapConnWithReader"); wr != nil {
		okW := false
		for _, st := range storesToField(wr, "broker.connWithReader", "reader") {
			if strip(st.Val) == ssa.Value(wr.Params[1]) {
				okW = true
			}
		}
		if okW {
			r.ok("C26.R2", "wrapConnWithReader stores the given reader", m.Pos(wr.Pos()), "")
		} else {
			r.viol("C26.R2", "wrapConnWithReader stores the given reader", m.Pos(wr.Pos()), "the wrapper's reader field is not the parameter")
		}
	}
	if rd := needFn(m, r, "C26.R2", pkgBrokerLib, "(*connWithReader).Read"); rd != nil {
		okD := false
		for _, call := range findCalls(rd, "(*bufio.Reader).Read") {
			if _, f, _, ok := fieldOf(call.Common().Args[0]); ok && f == "reader" && strip(call.Common().Args[1]) == ssa.Value(rd.Params[1]) {
				okD = true
			}
		}
		others := 0
		for _, call := range callsIn(rd) {
			if n := calleeName(call.Common()); strings.HasSuffix(n, ".Read") && n != "(*bufio.Reader).Read" {
				others++
			}
		}
		if okD && others == 0 {
			r.ok("C26.R2", "connWithReader.Read delegates to the buffered reader", m.Pos(rd.Pos()), "")
		} else {
			r.viol("C26.R2", "connWithReader.Read delegates to the buffered reader", m.Pos(rd.Pos()), "reads bypass the reader that holds the bytes buffered during header parsing")
		}
	}
	// parse functions: reads only through the reader parameter; consuming reads only in V1/V2 (+ line helper)
	mayConsume := map[string]bool{"parseProxyV1": true, "parseProxyV2": true, "readProxyV1Line": true}
	for _, fn := range fns {
		for _, call := range callsIn(fn) {
			n := calleeName(call.Common())
			if n == "bufio.NewReader" || n == "bufio.NewReaderSize" {
				if shortName(fn) != "ReadProxyProtocol" {
					r.viol("C26.R2", fn.Name()+" creates no second reader", m.Pos(call.Pos()), "a second bufio.Reader is created inside the parser")
				}
				continue
			}
			if !consuming(n) && n != "(*bufio.Reader).Peek" {
				continue
			}
			if fn.Name() == "Read" {
				continue
			}
			key := fmt.Sprintf("%s: %s on the reader parameter", fn.Name(), n[strings.LastIndex(n, ".")+1:])
			var rdr ssa.Value
			if strings.HasPrefix(n, "io.") {
				rdr = call.Common().Args[0]
			} else {
				rdr = call.Common().Args[0]
			}
			isParam := false
			if p, ok := strip(rdr).(*ssa.Parameter); ok && p.Parent() == fn {
				isParam = true
			}
			if !isParam {
				r.viol("C26.R2", key, m.Pos(call.Pos()), "reads from "+describe(rdr)+" instead of the reader it was given")
			} else if consuming(n) && !mayConsume[shortName(fn)] {
				r.viol("C26.R2", key, m.Pos(call.Pos()), "bytes are consumed before a PROXY header has been recognised: a connection without a header would lose them")
			} else {
				r.ok("C26.R2", key, m.Pos(call.Pos()), "")
			}
		}
	}
	if ph := needFn(m, r, "C26.R2", pkgBrokerLib, "parseProxyHeader"); ph != nil {
		for _, call := range findCalls(ph, pkgBrokerLib+".parseProxyV1") {
			guardVerdict(m, r, "C26.R2", "parseProxyV1 entered only after the peeked bytes equal \"PROXY\"", ph, call.(ssa.Instruction),
				Guard{cl(atomFn("bytes.Equal(peek, \"PROXY\")", func(l Lit) bool {
					if l.Op != token.ILLEGAL || l.Neg {
						return false
					}
					ec, ok := strip(l.X).(*ssa.Call)
					if !ok || calleeName(&ec.Call) != "bytes.Equal" {
						return false
					}
					lit := false
					peeked := false
					for _, a := range ec.Call.Args {
						if cv, ok := a.(*ssa.Convert); ok {
							if s, ok := constString(cv.X); ok && s == "PROXY" {
								lit = true
							}
						}
						if dependsOnCall(a, "(*bufio.Reader).Peek") {
							peeked = true
						}
					}
					return lit && peeked
				}))})
		}
		for _, call := range findCalls(ph, pkgBrokerLib+".parseProxyV2") {
			guardVerdict(m, r, "C26.R2", "parseProxyV2 entered only after the peeked bytes equal the 12-byte v2 signature", ph, call.(ssa.Instruction),
				Guard{cl(atomFn("bytes.Equal(sig, proxyV2Signature)", func(l Lit) bool {
					if l.Op != token.ILLEGAL || l.Neg {
						return false
					}
					ec, ok := strip(l.X).(*ssa.Call)
					if !ok || calleeName(&ec.Call) != "bytes.Equal" {
						return false
					}
					sig, peeked := false, false
					for _, a := range ec.Call.Args {
						backSlice(a, false, func(v ssa.Value) {
							if g, ok := v.(*ssa.Global); ok && g.Name() == "proxyV2Signature" {
								sig = true
							}
						})
						if dependsOnCall(a, "(*bufio.Reader).Peek") {
							peeked = true
						}
					}
					return sig && peeked
				}))})
		}
	}

	// ---- R3 layout
	if v2 := needFn(m, r, "C26.R3", pkgBrokerLib, "parseProxyV2"); v2 != nil {
		var header ssa.Value
		var payload *ssa.MakeSlice
		for _, call := range findCalls(v2, "io.ReadFull") {
			buf := strip(call.Common().Args[1])
			if header == nil {
				header = buf
			} else if ms, ok := buf.(*ssa.MakeSlice); ok && payload == nil {
				payload = ms
			}
		}
		if header == nil || payload == nil {
			r.unresolved("C26.R3", "parseProxyV2 header/payload reads", "two io.ReadFull (fixed header, then a payload buffer sized at run time) not found")
		} else {
			if k := constLenOf(header); k == 16 {
				r.ok("C26.R3", "v2 fixed header is 16 bytes", m.Pos(header.Pos()), "")
			} else {
				r.viol("C26.R3", "v2 fixed header is 16 bytes", m.Pos(header.Pos()), fmt.Sprintf("header buffer length is %d", k))
			}
			// payload length = Uint16(header[14:16])
			okLen := false
			backSlice(payload.Len, true, func(v ssa.Value) {
				if sl, ok := v.(*ssa.Slice); ok && strip(sl.X) == header {
					lo, _ := constInt(sl.Low)
					hi, _ := constInt(sl.High)
					if lo == 14 && hi == 16 {
						okLen = true
					}
				}
			})
			depU16 := dependsOnCall(payload.Len, "(encoding/binary.bigEndian).Uint16")
			if okLen && depU16 {
				r.ok("C26.R3", "v2 payload length is the big-endian uint16 at header[14:16]", m.Pos(payload.Pos()), "")
			} else {
				r.viol("C26.R3", "v2 payload length is the big-endian uint16 at header[14:16]", m.Pos(payload.Pos()), "payload size is "+describe(payload.Len)+": more or fewer bytes than the header announces are consumed, shifting the Kafka stream")
			}
			// cmd / family offsets
			offs := map[int64]bool{}
			for _, b := range v2.Blocks {
				for _, in := range b.Instrs {
					if ia, ok := in.(*ssa.IndexAddr); ok && strip(ia.X) == header {
						if k, ok := constInt(ia.Index); ok {
							offs[k] = true
						}
					}
				}
			}
			if offs[12] && offs[13] && len(offs) == 2 {
				r.ok("C26.R3", "v2 command and family come from header[12] and header[13]", m.Pos(v2.Pos()), "")
			} else {
				r.viol("C26.R3", "v2 command and family come from header[12] and header[13]", m.Pos(v2.Pos()), fmt.Sprintf("header bytes indexed: %v", offs))
			}
			// exactly two consuming reads
			nRead := 0
			for _, call := range callsIn(v2) {
				if consuming(calleeName(call.Common())) {
					nRead++
				}
			}
			if nRead == 2 {
				r.ok("C26.R3", "v2 consumes the header and the announced payload, nothing else", m.Pos(v2.Pos()), "")
			} else {
				r.viol("C26.R3", "v2 consumes the header and the announced payload, nothing else", m.Pos(v2.Pos()), fmt.Sprintf("%d consuming reads", nRead))
			}
			// the payload is consumed on every path that returns without error (also LOCAL / unknown family)
			for _, b := range v2.Blocks {
				ret, ok := b.Instrs[len(b.Instrs)-1].(*ssa.Return)
				if !ok || !alwaysNil(ret.Results[1]) {
					continue
				}
				okP, path := mustPassBefore(m, v2, ret, func(in ssa.Instruction) bool {
					return isCallTo(in, "io.ReadFull") && strip(in.(ssa.CallInstruction).Common().Args[1]) == ssa.Value(payload)
				})
				if okP {
					r.ok("C26.R3", "v2 success return has consumed the payload", m.Pos(ret.Pos()), "")
				} else {
					r.viol("C26.R3", "v2 success return has consumed the payload", m.Pos(ret.Pos()), "a header is accepted while its payload stays in the stream: "+path)
				}
			}
		}
	}
	type fieldSrc struct{ field string; lo, hi int64 }
	for _, spec := range []struct {
		fn     string
		fields []fieldSrc
	}{
		{"parseProxyV2Inet", []fieldSrc{{"SourceIP", 0, 4}, {"DestIP", 4, 8}, {"SourcePort", 8, 10}, {"DestPort", 10, 12}, {"SourceAddr", 0, 4}, {"SourceAddr", 8, 10}, {"DestAddr", 4, 8}, {"DestAddr", 10, 12}}},
		{"parseProxyV2Inet6", []fieldSrc{{"SourceIP", 0, 16}, {"DestIP", 16, 32}, {"SourcePort", 32, 34}, {"DestPort", 34, 36}, {"SourceAddr", 0, 16}, {"SourceAddr", 32, 34}, {"DestAddr", 16, 32}, {"DestAddr", 34, 36}}},
	} {
		fn := needFn(m, r, "C26.R3", pkgBrokerLib, spec.fn)
		if fn == nil {
			continue
		}
		for _, fs := range spec.fields {
			sts := storesToField(fn, "broker.ProxyInfo", fs.field)
			key := fmt.Sprintf("%s: %s is decoded from payload[%d:%d]", spec.fn, fs.field, fs.lo, fs.hi)
			if len(sts) != 1 {
				r.viol("C26.R3", key, m.Pos(fn.Pos()), fmt.Sprintf("%d stores to the field", len(sts)))
				continue
			}
			found := false
			var other []string
			backSlice(sts[0].Val, true, func(v ssa.Value) {
				if sl, ok := v.(*ssa.Slice); ok && strip(sl.X) == ssa.Value(fn.Params[0]) {
					lo, _ := constInt(sl.Low)
					hi, _ := constInt(sl.High)
					if lo == fs.lo && hi == fs.hi {
						found = true
					} else {
						other = append(other, fmt.Sprintf("[%d:%d]", lo, hi))
					}
				}
			})
			if found {
				r.ok("C26.R3", key, m.Pos(sts[0].Pos()), "")
			} else {
				r.viol("C26.R3", key, m.Pos(sts[0].Pos()), fmt.Sprintf("the field is built from payload%v", other))
			}
		}
		// no field reads foreign offsets (e.g. SourceIP also depending on the destination bytes)
		for _, f := range []struct {
			field  string
			allowed [][2]int64
		}{
			{"SourceIP", [][2]int64{{spec.fields[0].lo, spec.fields[0].hi}}}, {"DestIP", [][2]int64{{spec.fields[1].lo, spec.fields[1].hi}}},
			{"SourcePort", [][2]int64{{spec.fields[2].lo, spec.fields[2].hi}}}, {"DestPort", [][2]int64{{spec.fields[3].lo, spec.fields[3].hi}}},
		} {
			for _, st := range storesToField(fn, "broker.ProxyInfo", f.field) {
				backSlice(st.Val, true, func(v ssa.Value) {
					if sl, ok := v.(*ssa.Slice); ok && strip(sl.X) == ssa.Value(fn.Params[0]) {
						lo, _ := constInt(sl.Low)
						hi, _ := constInt(sl.High)
						if lo != f.allowed[0][0] || hi != f.allowed[0][1] {
							r.viol("C26.R3", fmt.Sprintf("%s: %s reads only its own bytes", spec.fn, f.field), m.Pos(st.Pos()), fmt.Sprintf("also reads payload[%d:%d]", lo, hi))
						}
					}
				})
			}
		}
	}
	if v1 := needFn(m, r, "C26.R3", pkgBrokerLib, "parseProxyV1"); v1 != nil {
		for _, fs := range []struct {
			field string
			idx   []int64
		}{{"SourceIP", []int64{2}}, {"DestIP", []int64{3}}, {"SourcePort", []int64{4}}, {"DestPort", []int64{5}}, {"SourceAddr", []int64{2, 4}}, {"DestAddr", []int64{3, 5}}} {
			key := fmt.Sprintf("parseProxyV1: %s comes from line field(s) %v", fs.field, fs.idx)
			sts := storesToField(v1, "broker.ProxyInfo", fs.field)
			if len(sts) != 1 {
				r.viol("C26.R3", key, m.Pos(v1.Pos()), fmt.Sprintf("%d stores to the field", len(sts)))
				continue
			}
			got := map[int64]bool{}
			backSlice(sts[0].Val, true, func(v ssa.Value) {
				if u, ok := v.(*ssa.UnOp); ok && u.Op == token.MUL {
					v = u.X
				}
				if ia, ok := v.(*ssa.IndexAddr); ok {
					if k, ok := constInt(ia.Index); ok {
						if _, isSl := ia.X.Type().Underlying().(*types.Slice); isSl {
							got[k] = true
						}
					}
				}
			})
			okF := len(got) == len(fs.idx)
			for _, k := range fs.idx {
				if !got[k] {
					okF = false
				}
			}
			if okF {
				r.ok("C26.R3", key, m.Pos(sts[0].Pos()), "")
			} else {
				r.viol("C26.R3", key, m.Pos(sts[0].Pos()), fmt.Sprintf("built from line fields %v", got))
			}
		}
	}
}

func isPhiOfParamAndConst(v ssa.Value) bool {
	os := origins(v)
	if len(os) == 0 {
		return false
	}
	for _, o := range os {
		if _, ok := strip(o).(*ssa.Parameter); ok {
			continue
		}
		if _, ok := constInt(o); ok {
			continue
		}
		return false
	}
	return true
}
