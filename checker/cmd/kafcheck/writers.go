package main

import (
	"fmt"
	"go/token"
	"sort"
	"strings"

	"golang.org/x/tools/go/ssa"
)

// E3 who-may-write / who-may-call helpers.

// fieldWriters returns, per function name, the stores to field `field` of struct type `typ`
// (qualified "pkgpath.Type") anywhere in the module. Map mutations (MapUpdate / delete) through a
// load of the field count as writes when includeMapOps is set.
type fieldWrite struct {
	Fn   *ssa.Function
	In   ssa.Instruction
	Kind string    // "store", "mapupdate", "delete"
	Val  ssa.Value // stored value (store) / value (mapupdate)
}

func fieldWriters(m *Module, typ, field string, includeMapOps bool) []fieldWrite {
	var out []fieldWrite
	for _, fn := range m.AllFuncs {
		for _, b := range fn.Blocks {
			for _, in := range b.Instrs {
				switch x := in.(type) {
				case *ssa.Store:
					if fa, ok := x.Addr.(*ssa.FieldAddr); ok {
						if t, f, _, ok := fieldAddrInfo(fa); ok && t == typ && f == field {
							out = append(out, fieldWrite{fn, in, "store", x.Val})
						}
					}
				case *ssa.MapUpdate:
					if includeMapOps {
						if t, f, _, ok := fieldOf(x.Map); ok && t == typ && f == field {
							out = append(out, fieldWrite{fn, in, "mapupdate", x.Value})
						}
					}
				case *ssa.Call:
					if includeMapOps {
						if bi, ok := x.Call.Value.(*ssa.Builtin); ok && (bi.Name() == "delete" || bi.Name() == "clear") && len(x.Call.Args) > 0 {
							if t, f, _, ok := fieldOf(x.Call.Args[0]); ok && t == typ && f == field {
								out = append(out, fieldWrite{fn, in, bi.Name(), nil})
							}
						}
					}
				}
			}
		}
	}
	return out
}

// checkWriterTable compares the set of functions writing a field with an allow table.
// allowed maps function name → reason. Every writer outside the table is a violation; every table
// entry without a writer is reported as unresolved (the table is stale).
func checkWriterTable(m *Module, r *Report, rule, typ, field string, includeMapOps bool, allowed map[string]string) []fieldWrite {
	ws := fieldWriters(m, typ, field, includeMapOps)
	seen := map[string]bool{}
	short := typ[strings.LastIndex(typ, ".")+1:]
	for _, w := range ws {
		name := funcName(w.Fn)
		r.fn(w.Fn)
		key := fmt.Sprintf("writer of %s.%s: %s", short, field, name)
		if seen[key] {
			continue
		}
		seen[key] = true
		if reason, ok := allowed[name]; ok {
			r.ok(rule, key, m.Pos(w.In.Pos()), "allowed: "+reason)
		} else {
			r.viol(rule, key, m.Pos(w.In.Pos()), fmt.Sprintf("%s of %s.%s outside the confirmed writer table %v", w.Kind, short, field, sortedKeys(allowed)))
		}
	}
	for name := range allowed {
		if !seen[fmt.Sprintf("writer of %s.%s: %s", short, field, name)] {
			// fewer writers than allowed is not a who-may-write violation; the vacuity floor of the rule
			// still fails when too few instances remain
			r.add(rule, fmt.Sprintf("writer of %s.%s: %s", short, field, name), "", Info, "allowed writer no longer writes this field in current source")
		}
	}
	return ws
}

func sortedKeys(m map[string]string) []string {
	ks := make([]string, 0, len(m))
	for k := range m {
		ks = append(ks, k)
	}
	sort.Strings(ks)
	return ks
}

// callersOf lists call sites (in module-local code) of functions whose name matches.
func callersOf(m *Module, names ...string) []callSite {
	var out []callSite
	for _, fn := range m.AllFuncs {
		for _, c := range callsIn(fn) {
			if nameMatches(calleeName(c.Common()), names...) {
				out = append(out, callSite{fn, c})
			}
		}
	}
	return out
}

// flattenSum returns the additive terms of v (through + and conversions); subtraction of a constant
// k is rendered as a constant term -k.
func flattenSum(v ssa.Value) (terms []ssa.Value, consts int64) {
	v = strip(v)
	if b, ok := v.(*ssa.BinOp); ok {
		switch b.Op {
		case token.ADD:
			t1, c1 := flattenSum(b.X)
			t2, c2 := flattenSum(b.Y)
			return append(t1, t2...), c1 + c2
		case token.SUB:
			if k, ok := constInt(b.Y); ok {
				t1, c1 := flattenSum(b.X)
				return t1, c1 - k
			}
		}
	}
	if k, ok := constInt(v); ok {
		return nil, k
	}
	return []ssa.Value{v}, 0
}

// guardVerdict records a checkGuarded result under rule/key.
func guardVerdict(m *Module, r *Report, rule, key string, fn *ssa.Function, sink ssa.Instruction, g Guard) bool {
	res := checkGuarded(m, fn, sink, g)
	if res.OK {
		r.ok(rule, key, m.Pos(sink.Pos()), res.String())
	} else {
		r.viol(rule, key, m.Pos(sink.Pos()), res.String())
	}
	return res.OK
}
