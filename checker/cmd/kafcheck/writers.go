package main

import (
	"sync"
	"fmt"
	"go/token"
	"sort"
	"strings"

	"golang.org/x/tools/go/ssa"
)

// E3 who-may-write / who-may-call helpers.

// fieldWriters returns, per function name, the stores to field `field` of struct type `typ`
// (qualified "pkgpath.Type") anywhere in the module. Map mutations (MapUpdate / delete) through a
// load of the field count as writes when includeMapOps is set.
type fieldWrite struct {
	Fn   *ssa.Function
	In   ssa.Instruction
	Kind string    // "store", "mapupdate", "delete"
	Val  ssa.Value // stored value (store) / value (mapupdate)
}

func fieldWriters(m *Module, typ, field string, includeMapOps bool) []fieldWrite {
	var out []fieldWrite
	for _, fn := range m.AllFuncs {
		for _, b := range fn.Blocks {
			for _, in := range b.Instrs {
				switch x := in.(type) {
				case *ssa.Store:
					if fa, ok := x.Addr.(*ssa.FieldAddr); ok {
						if t, f, _, ok := fieldAddrInfo(fa); ok && t == typ && f == field {
							out = append(out, fieldWrite{fn, in, "store", x.Val})
						}
					}
				case *ssa.MapUpdate:
					if includeMapOps {
						if t, f, _, ok := fieldOf(x.Map); ok && t == typ && f == field {
							out = append(out, fieldWrite{fn, in, "mapupdate", x.Value})
						}
					}
				case *ssa.Call:
					if includeMapOps {
						if bi, ok := x.Call.Value.(*ssa.Builtin); ok && (bi.Name() == "delete" || bi.Name() == "clear") && len(x.Call.Args) > 0 {
							if t, f, _, ok := fieldOf(x.Call.Args[0]); ok && t == typ && f == field {
								out = append(out, fieldWrite{fn, in, bi.Name(), nil})
							}
						}
					}
				}
			}
		}
	}
	return out
}

// checkWriterTable compares the set of functions writing a field with an allow table.
// allowed maps function name → reason. Every writer outside the table is a violation; every table
// entry without a writer is reported as unresolved (the table is stale).
func checkWriterTable(m *Module, r *Report, rule, typ, field string, includeMapOps bool, allowed map[string]string) []fieldWrite {
	ws := fieldWriters(m, typ, field, includeMapOps)
	seen := map[string]bool{}
	short := typ[strings.LastIndex(typ, ".")+1:]
	for _, w := range ws {
		name := funcName(w.Fn)
		r.fn(w.Fn)
		key := fmt.Sprintf("writer of %s.%s: %s", short, field, name)
		if seen[key] {
			continue
		}
		seen[key] = true
		if reason, ok := allowed[name]; ok {
			r.ok(rule, key, m.Pos(w.In.Pos()), "allowed: "+reason)
		} else if via := exclusiveHelperOf(m, w.Fn, func(f *ssa.Function) bool { _, ok := allowed[funcName(f)]; return ok }); via != "" {
			// a helper that only allowed writers call is part of them (extracting statements into a
			// function adds no new way to write the field)
			r.ok(rule, key, m.Pos(w.In.Pos()), "helper called only from allowed writer(s): "+via)
		} else {
			r.viol(rule, key, m.Pos(w.In.Pos()), fmt.Sprintf("%s of %s.%s outside the confirmed writer table %v", w.Kind, short, field, sortedKeys(allowed)))
		}
	}
	for name := range allowed {
		if !seen[fmt.Sprintf("writer of %s.%s: %s", short, field, name)] {
			// fewer writers than allowed is not a who-may-write violation; the vacuity floor of the rule
			// still fails when too few instances remain
			r.add(rule, fmt.Sprintf("writer of %s.%s: %s", short, field, name), "", Info, "allowed writer no longer writes this field in current source")
		}
	}
	return ws
}

func sortedKeys(m map[string]string) []string {
	ks := make([]string, 0, len(m))
	for k := range m {
		ks = append(ks, k)
	}
	sort.Strings(ks)
	return ks
}

// callersOf lists call sites (in module-local code) of functions whose name matches.
func callersOf(m *Module, names ...string) []callSite {
	var out []callSite
	for _, fn := range m.AllFuncs {
		for _, c := range callsIn(fn) {
			if nameMatches(calleeName(c.Common()), names...) {
				out = append(out, callSite{fn, c})
			}
		}
	}
	return out
}

// flattenSum returns the additive terms of v (through + and conversions); subtraction of a constant
// k is rendered as a constant term -k.
func flattenSum(v ssa.Value) (terms []ssa.Value, consts int64) {
	v = strip(v)
	if b, ok := v.(*ssa.BinOp); ok {
		switch b.Op {
		case token.ADD:
			t1, c1 := flattenSum(b.X)
			t2, c2 := flattenSum(b.Y)
			return append(t1, t2...), c1 + c2
		case token.SUB:
			if k, ok := constInt(b.Y); ok {
				t1, c1 := flattenSum(b.X)
				return t1, c1 - k
			}
		}
	}
	if k, ok := constInt(v); ok {
		return nil, k
	}
	return []ssa.Value{v}, 0
}

// guardVerdict records a checkGuarded result under rule/key.
func guardVerdict(m *Module, r *Report, rule, key string, fn *ssa.Function, sink ssa.Instruction, g Guard) bool {
	res := checkGuarded(m, fn, sink, g)
	if res.OK {
		r.ok(rule, key, m.Pos(sink.Pos()), res.String())
	} else {
		r.viol(rule, key, m.Pos(sink.Pos()), res.String())
	}
	return res.OK
}

var callersCache = map[*Module]map[*ssa.Function][]callSite{}
var addrTakenCache = map[*Module]map[*ssa.Function]bool{}

var callersMu sync.Mutex

func moduleCallers(m *Module) (map[*ssa.Function][]callSite, map[*ssa.Function]bool) {
	callersMu.Lock()
	defer callersMu.Unlock()
	if c, ok := callersCache[m]; ok {
		return c, addrTakenCache[m]
	}
	c, a := buildCallers(m)
	callersCache[m], addrTakenCache[m] = c, a
	return c, a
}

// exclusiveHelperOf: fn is not used as a function value and every static caller of fn (transitively,
// through other such helpers, up to depth 4) satisfies isRoot. Returns the names of the roots reached,
// or "" when fn has no callers, escapes, or has a caller outside the roots.
func exclusiveHelperOf(m *Module, fn *ssa.Function, isRoot func(*ssa.Function) bool) string {
	callers, addrTaken := moduleCallers(m)
	roots := map[string]bool{}
	seen := map[*ssa.Function]bool{}
	var ok func(f *ssa.Function, depth int) bool
	ok = func(f *ssa.Function, depth int) bool {
		if seen[f] {
			return true
		}
		seen[f] = true
		if addrTaken[f] || depth > 4 {
			return false
		}
		sites := callers[f]
		if len(sites) == 0 {
			return false
		}
		for _, cs := range sites {
			c := cs.caller
			// a closure is judged as part of the function that defines it
			for c.Parent() != nil {
				c = c.Parent()
			}
			if isRoot(c) {
				roots[c.Name()] = true
				continue
			}
			if !ok(c, depth+1) {
				return false
			}
		}
		return true
	}
	if !ok(fn, 0) || len(roots) == 0 {
		return ""
	}
	var names []string
	for n := range roots {
		names = append(names, n)
	}
	sort.Strings(names)
	return strings.Join(names, ", ")
}

// liftToRoots: an instruction that sits in a helper which only root functions call (directly or through
// other such helpers) is represented, for rules about the roots, by the call sites in the roots. Returns
// the instruction itself when its function is a root, the root call sites when it can be lifted, and
// nil when some caller is not a root (or the helper escapes as a function value).
func liftToRoots(m *Module, in ssa.Instruction, isRoot func(*ssa.Function) bool) []ssa.Instruction {
	callers, addrTaken := moduleCallers(m)
	top := func(f *ssa.Function) *ssa.Function {
		for f.Parent() != nil {
			f = f.Parent()
		}
		return f
	}
	var out []ssa.Instruction
	seen := map[*ssa.Function]bool{}
	var lift func(x ssa.Instruction, depth int) bool
	lift = func(x ssa.Instruction, depth int) bool {
		f := x.Parent()
		if isRoot(top(f)) {
			out = append(out, x)
			return true
		}
		if depth > 4 || addrTaken[f] || seen[f] {
			return false
		}
		seen[f] = true
		sites := callers[f]
		if len(sites) == 0 {
			return false
		}
		for _, cs := range sites {
			ci, ok := cs.in.(ssa.Instruction)
			if !ok || !lift(ci, depth+1) {
				return false
			}
		}
		return true
	}
	if !lift(in, 0) {
		return nil
	}
	return out
}

// fnFamily: fn together with the helpers it owns — functions of the same package that fn (or another
// member of the family) calls statically and that nobody outside the family calls or takes the value
// of. Rules stated about "what fn does" are evaluated over the family, so moving statements of fn
// into a private helper does not change the verdict.
func fnFamily(m *Module, fn *ssa.Function) []*ssa.Function {
	callers, addrTaken := moduleCallers(m)
	fam := map[*ssa.Function]bool{fn: true}
	order := []*ssa.Function{fn}
	top := func(f *ssa.Function) *ssa.Function {
		for f.Parent() != nil {
			f = f.Parent()
		}
		return f
	}
	for changed := true; changed; {
		changed = false
		for _, f := range append([]*ssa.Function{}, order...) {
			for _, wf := range withAnon(f) {
				for _, call := range callsIn(wf) {
					g, _ := calleeOf(call.Common())
					if g == nil || g.Blocks == nil || fam[g] || addrTaken[g] || fnPkg(g) == nil || fnPkg(fn) == nil || fnPkg(g).Path() != fnPkg(fn).Path() {
						continue
					}
					own := true
					for _, cs := range callers[g] {
						if !fam[top(cs.caller)] {
							own = false
						}
					}
					if own {
						fam[g] = true
						order = append(order, g)
						changed = true
					}
				}
			}
		}
	}
	return order
}

// checkReadsOnly: fn computes its answer from the named primary fields of a struct (typ is the
// qualified "pkgpath.Type"). If it also consults another field of that type — a derived index, a
// memo — that field has to be kept in step with the primary ones: every write of a primary field
// anywhere in the module (a store, a map update or delete through it) is followed on every path to
// the writer's return by a store to the derived field, unless the object is being constructed. A
// derived field that some writer leaves alone makes the answer lag behind the primary state.
func checkReadsOnly(m *Module, r *Report, rule, key string, fn *ssa.Function, typ string, allowed ...string) {
	ok := map[string]bool{}
	for _, a := range allowed {
		ok[a] = true
	}
	short := typ[strings.LastIndex(typ, ".")+1:]
	derived := map[string]string{}
	n := 0
	for _, f := range withAnon(fn) {
		for _, b := range f.Blocks {
			for _, in := range b.Instrs {
				fa, isFA := in.(*ssa.FieldAddr)
				if !isFA {
					continue
				}
				tn, field, _, okf := fieldAddrInfo(fa)
				if !okf || tn != typ {
					continue
				}
				n++
				if !ok[field] {
					if _, seen := derived[field]; !seen {
						derived[field] = m.Pos(fa.Pos())
					}
				}
			}
		}
	}
	if n == 0 {
		r.unresolved(rule, key, "no access to "+short+" found")
		return
	}
	if len(derived) == 0 {
		r.ok(rule, key, m.Pos(fn.Pos()), fmt.Sprintf("%d access(es), all of %s.%s", n, short, strings.Join(allowed, "/")))
		return
	}
	var bad []string
	var names []string
	for d := range derived {
		names = append(names, d)
	}
	sort.Strings(names)
	for _, d := range names {
		resets := func(in ssa.Instruction) bool {
			st, isSt := in.(*ssa.Store)
			if !isSt {
				return false
			}
			fa, isFA := st.Addr.(*ssa.FieldAddr)
			if !isFA {
				return false
			}
			tn, f, _, okf := fieldAddrInfo(fa)
			return okf && tn == typ && f == d
		}
		for _, p := range allowed {
			for _, w := range fieldWriters(m, typ, p, true) {
				if w.Fn == fn {
					continue
				}
				// construction of a new object: the derived field starts empty
				if st, isSt := w.In.(*ssa.Store); isSt {
					if fa, isFA := st.Addr.(*ssa.FieldAddr); isFA {
						if _, fresh := strip(fa.X).(*ssa.Alloc); fresh {
							continue
						}
					}
				}
				if mu, isMU := w.In.(*ssa.MapUpdate); isMU {
					if _, _, base, okb := fieldOf(mu.Map); okb {
						if _, fresh := strip(base).(*ssa.Alloc); fresh {
							continue
						}
					}
				}
				if done, path := mustPassAfter(m, w.In, resets); !done {
					bad = append(bad, fmt.Sprintf("%s changes %s.%s at %s and can return without re-setting %s.%s (%s)", funcName(w.Fn), short, p, m.Pos(w.In.Pos()), short, d, path))
				}
			}
		}
	}
	if len(bad) > 0 {
		if len(bad) > 3 {
			bad = append(bad[:3], fmt.Sprintf("… and %d more", len(bad)-3))
		}
		r.viol(rule, key, m.Pos(fn.Pos()), "the answer also depends on "+short+"."+strings.Join(names, ", ")+" (read at "+derived[names[0]]+"), which lags behind: "+strings.Join(bad, "; "))
		return
	}
	r.ok(rule, key, m.Pos(fn.Pos()), "derived field(s) "+strings.Join(names, ", ")+" are re-set by every writer of "+strings.Join(allowed, "/"))
}
