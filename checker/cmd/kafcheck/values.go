package main

import (
	"sync"
	"fmt"
	"go/constant"
	"go/token"
	"go/types"
	"strings"

	"golang.org/x/tools/go/ssa"
)

// strip removes value-preserving wrappers (conversions, interface boxing, type changes).
func strip(v ssa.Value) ssa.Value {
	for {
		switch x := v.(type) {
		case *ssa.Convert:
			v = x.X
		case *ssa.ChangeType:
			v = x.X
		case *ssa.MakeInterface:
			v = x.X
		case *ssa.ChangeInterface:
			v = x.X
		default:
			return v
		}
	}
}

// calleeOf returns the statically known callee (function or interface method object) of a call.
func calleeOf(c *ssa.CallCommon) (fn *ssa.Function, method *types.Func) {
	if c.IsInvoke() {
		return nil, c.Method
	}
	switch f := c.Value.(type) {
	case *ssa.Function:
		return f, nil
	case *ssa.MakeClosure:
		if fn, ok := f.Fn.(*ssa.Function); ok {
			return fn, nil
		}
	}
	return nil, nil
}

// calleeName gives a stable printable name for the callee of a call: "pkg.Func", "(*pkg.T).M",
// "(pkg.I).M" for interface invokes, "builtin.append", or "" for dynamic calls.
func calleeName(c *ssa.CallCommon) string {
	if c.IsInvoke() {
		recv := c.Value.Type()
		return "(" + types.TypeString(recv, nil) + ")." + c.Method.Name()
	}
	switch f := c.Value.(type) {
	case *ssa.Function:
		return funcName(f)
	case *ssa.Builtin:
		return "builtin." + f.Name()
	case *ssa.MakeClosure:
		if fn, ok := f.Fn.(*ssa.Function); ok {
			return funcName(fn)
		}
	}
	return ""
}

func funcName(f *ssa.Function) string {
	if f == nil {
		return ""
	}
	if o := f.Origin(); o != nil {
		f = o
	}
	// a function standing in for a renamed anchor answers to the anchor's name (fold.go); closures
	// inside it follow (their names are derived from the parent's)
	if old, ok := standInLookup(f); ok {
		return old
	}
	if p := f.Parent(); p != nil {
		for top := p; top != nil; top = top.Parent() {
			if old, ok := standInLookup(top); ok {
				return strings.Replace(f.String(), top.String(), old, 1)
			}
		}
	}
	return f.String()
}

// standInName: function standing in for a renamed anchor → the anchor's name. Written while a module
// is loaded, read by rules that may run on another goroutine (thorough-tier replays).
var standInName sync.Map

func standInLookup(f *ssa.Function) (string, bool) {
	v, ok := standInName.Load(f)
	if !ok {
		return "", false
	}
	return v.(string), true
}

// callInstr returns the CallCommon if the instruction is a call/go/defer.
func callCommon(in ssa.Instruction) *ssa.CallCommon {
	if c, ok := in.(ssa.CallInstruction); ok {
		return c.Common()
	}
	return nil
}

// isCallTo reports whether instruction is a call whose callee name matches one of names.
// A name is matched exactly, or, when it starts with "~", as a suffix.
func isCallTo(in ssa.Instruction, names ...string) bool {
	c := callCommon(in)
	if c == nil {
		return false
	}
	return nameMatches(calleeName(c), names...)
}

func nameMatches(n string, names ...string) bool {
	if n == "" {
		return false
	}
	for _, want := range names {
		if strings.HasPrefix(want, "~") {
			if strings.HasSuffix(n, want[1:]) {
				return true
			}
		} else if n == want {
			return true
		}
	}
	return false
}

// constInt returns the integer value of a constant SSA value.
func constInt(v ssa.Value) (int64, bool) {
	c, ok := strip(v).(*ssa.Const)
	if !ok || c.Value == nil {
		return 0, false
	}
	if c.Value.Kind() != constant.Int {
		return 0, false
	}
	i, ok := constant.Int64Val(c.Value)
	return i, ok
}

func constString(v ssa.Value) (string, bool) {
	c, ok := strip(v).(*ssa.Const)
	if !ok || c.Value == nil || c.Value.Kind() != constant.String {
		return "", false
	}
	return constant.StringVal(c.Value), true
}

func isNilConst(v ssa.Value) bool {
	c, ok := v.(*ssa.Const)
	return ok && c.Value == nil
}

// fieldOf: if v is a load of a struct field (through FieldAddr+load, or Field), returns the
// struct's named type name, the field name and the base value.
func fieldOf(v ssa.Value) (typ string, field string, base ssa.Value, ok bool) {
	v = strip(v)
	switch x := v.(type) {
	case *ssa.UnOp:
		if x.Op == token.MUL {
			if fa, ok2 := x.X.(*ssa.FieldAddr); ok2 {
				return fieldAddrInfo(fa)
			}
		}
	case *ssa.Field:
		st := x.X.Type()
		tn, s := structOf(st)
		if s == nil {
			return "", "", nil, false
		}
		return tn, s.Field(x.Field).Name(), x.X, true
	}
	return "", "", nil, false
}

func fieldAddrInfo(fa *ssa.FieldAddr) (typ string, field string, base ssa.Value, ok bool) {
	pt, ok2 := fa.X.Type().Underlying().(*types.Pointer)
	if !ok2 {
		return "", "", nil, false
	}
	tn, s := structOf(pt.Elem())
	if s == nil {
		return "", "", nil, false
	}
	return tn, s.Field(fa.Field).Name(), fa.X, true
}

// structOf returns the qualified name of a (named) struct type and its struct.
func structOf(t types.Type) (string, *types.Struct) {
	name := ""
	if n, ok := t.(*types.Named); ok {
		name = n.Obj().Name()
		if n.Obj().Pkg() != nil {
			name = n.Obj().Pkg().Path() + "." + name
		}
	}
	if a, ok := t.(*types.Alias); ok {
		return structOf(types.Unalias(a))
	}
	s, _ := t.Underlying().(*types.Struct)
	return name, s
}

// describe renders an SSA value in a stable, position-free way for reports.
func describe(v ssa.Value) string { return describeN(v, 4) }

func describeN(v ssa.Value, depth int) string {
	if v == nil {
		return "<nil>"
	}
	if depth == 0 {
		return "…"
	}
	switch x := v.(type) {
	case *ssa.Const:
		if x.Value == nil {
			return "nil"
		}
		return x.Value.ExactString()
	case *ssa.Parameter:
		return x.Name()
	case *ssa.FreeVar:
		return x.Name()
	case *ssa.Global:
		return x.Name()
	case *ssa.Function:
		return funcName(x)
	case *ssa.Call:
		n := calleeName(&x.Call)
		if n == "" {
			n = "dyn:" + describeN(x.Call.Value, depth-1)
		}
		return "call " + n
	case *ssa.Extract:
		return fmt.Sprintf("%s#%d", describeN(x.Tuple, depth), x.Index)
	case *ssa.UnOp:
		if x.Op == token.MUL {
			if fa, ok := x.X.(*ssa.FieldAddr); ok {
				_, f, b, ok2 := fieldAddrInfo(fa)
				if ok2 {
					return describeN(b, depth-1) + "." + f
				}
			}
			return "*" + describeN(x.X, depth-1)
		}
		return x.Op.String() + describeN(x.X, depth-1)
	case *ssa.Field:
		_, f, b, ok := fieldOf(x)
		if ok {
			return describeN(b, depth-1) + "." + f
		}
	case *ssa.FieldAddr:
		_, f, b, ok := fieldAddrInfo(x)
		if ok {
			return "&" + describeN(b, depth-1) + "." + f
		}
	case *ssa.BinOp:
		return "(" + describeN(x.X, depth-1) + " " + x.Op.String() + " " + describeN(x.Y, depth-1) + ")"
	case *ssa.Convert:
		return describeN(x.X, depth)
	case *ssa.ChangeType:
		return describeN(x.X, depth)
	case *ssa.MakeInterface:
		return describeN(x.X, depth)
	case *ssa.Phi:
		parts := []string{}
		for _, e := range x.Edges {
			parts = append(parts, describeN(e, depth-1))
		}
		return "phi(" + strings.Join(parts, ",") + ")"
	case *ssa.Lookup:
		return describeN(x.X, depth-1) + "[" + describeN(x.Index, depth-1) + "]"
	case *ssa.IndexAddr:
		return "&" + describeN(x.X, depth-1) + "[" + describeN(x.Index, depth-1) + "]"
	case *ssa.Index:
		return describeN(x.X, depth-1) + "[" + describeN(x.Index, depth-1) + "]"
	case *ssa.Alloc:
		if x.Comment != "" {
			return "local " + x.Comment
		}
		return "alloc"
	case *ssa.Slice:
		return describeN(x.X, depth-1) + "[:]"
	case *ssa.TypeAssert:
		return describeN(x.X, depth-1) + ".(" + types.TypeString(x.AssertedType, nil) + ")"
	case *ssa.MakeClosure:
		return "closure " + describeN(x.Fn, depth-1)
	}
	return fmt.Sprintf("%T", v)
}

// storesTo collects the values stored into an Alloc (flow-insensitive) in its function.
func storesTo(a *ssa.Alloc) []ssa.Value {
	var out []ssa.Value
	if a.Referrers() == nil {
		return nil
	}
	for _, r := range *a.Referrers() {
		if st, ok := r.(*ssa.Store); ok && st.Addr == a {
			out = append(out, st.Val)
		}
	}
	return out
}

// origins walks back from v through phis, conversions, loads of local allocs and tuple extracts
// and returns the set of originating values (calls, parameters, constants, field loads, …).
func origins(v ssa.Value) []ssa.Value {
	seen := map[ssa.Value]bool{}
	var out []ssa.Value
	var walk func(v ssa.Value)
	walk = func(v ssa.Value) {
		v = strip(v)
		if seen[v] {
			return
		}
		seen[v] = true
		switch x := v.(type) {
		case *ssa.Phi:
			for _, e := range x.Edges {
				walk(e)
			}
			return
		case *ssa.Extract:
			// keep Extract as origin but also expose the tuple
			out = append(out, x)
			return
		case *ssa.UnOp:
			if x.Op == token.MUL {
				if a, ok := x.X.(*ssa.Alloc); ok {
					// the most recent store in the same block decides (defer-spilled results)
					if st := lastStoreBefore(a, x); st != nil {
						walk(st.Val)
						return
					}
					for _, s := range storesTo(a) {
						walk(s)
					}
					return
				}
			}
		}
		out = append(out, v)
	}
	walk(v)
	return out
}

// callOrigin: if v (possibly an Extract of a tuple) originates from a single call, return it.
func callOrigin(v ssa.Value) *ssa.Call {
	v = strip(v)
	if e, ok := v.(*ssa.Extract); ok {
		v = e.Tuple
	}
	c, _ := v.(*ssa.Call)
	return c
}

// callsIn returns every call instruction (call, go, defer) in fn, in block order.
func callsIn(fn *ssa.Function) []ssa.CallInstruction {
	var out []ssa.CallInstruction
	for _, b := range fn.Blocks {
		for _, in := range b.Instrs {
			if c, ok := in.(ssa.CallInstruction); ok {
				out = append(out, c)
			}
		}
	}
	return out
}

// findCalls returns the call instructions in fn whose callee name matches.
func findCalls(fn *ssa.Function, names ...string) []ssa.CallInstruction {
	var out []ssa.CallInstruction
	for _, c := range callsIn(fn) {
		if nameMatches(calleeName(c.Common()), names...) {
			out = append(out, c)
		}
	}
	return out
}

func isErrorType(t types.Type) bool {
	return types.Identical(t, types.Universe.Lookup("error").Type())
}

// appendSite describes one `x = append(base, elem)` with a single appended element.
type appendSite struct {
	At    ssa.Instruction // the append call, or the element store of an index-assigned list
	Call  *ssa.Call
	Base  ssa.Value
	Elem  ssa.Value  // the value stored into the varargs array (nil when spread from a slice)
	Alloc *ssa.Alloc // the local the element was loaded from, if any
}

// appendSites finds append calls in fn whose result type string ends with typeSuffix.
func appendSites(fn *ssa.Function, typeSuffix string) []appendSite {
	var out []appendSite
	for _, b := range fn.Blocks {
		for _, in := range b.Instrs {
			c, ok := in.(*ssa.Call)
			if !ok {
				continue
			}
			bi, ok := c.Call.Value.(*ssa.Builtin)
			if !ok || bi.Name() != "append" || len(c.Call.Args) != 2 {
				continue
			}
			if typeSuffix != "" && !strings.HasSuffix(c.Type().String(), typeSuffix) {
				continue
			}
			site := appendSite{At: c, Call: c, Base: c.Call.Args[0]}
			if sl, ok := c.Call.Args[1].(*ssa.Slice); ok {
				if arr, ok := sl.X.(*ssa.Alloc); ok && arr.Referrers() != nil {
					for _, r := range *arr.Referrers() {
						ia, ok := r.(*ssa.IndexAddr)
						if !ok || ia.Referrers() == nil {
							continue
						}
						for _, rr := range *ia.Referrers() {
							if st, ok := rr.(*ssa.Store); ok && st.Addr == ia {
								site.Elem = st.Val
								if u, ok := st.Val.(*ssa.UnOp); ok && u.Op == token.MUL {
									if a, ok := u.X.(*ssa.Alloc); ok {
										site.Alloc = a
									}
								}
							}
						}
					}
				}
			}
			out = append(out, splitPhiSite(site, 0)...)
		}
	}
	return out
}

// splitPhiSite: when the appended element is a φ (the element was chosen on several branches and
// appended once — the shape left by folding a helper that returns the element), each incoming edge
// is a site of its own: its element is the edge's value and its place is the end of the edge's
// predecessor block, so path rules judge each branch by the checks that branch passed.
func splitPhiSite(site appendSite, depth int) []appendSite {
	var ph *ssa.Phi
	if site.Elem != nil {
		ph, _ = strip(site.Elem).(*ssa.Phi)
	}
	if ph == nil || depth > 4 {
		return []appendSite{site}
	}
	var out []appendSite
	for i, e := range ph.Edges {
		pred := ph.Block().Preds[i]
		s := site
		s.Elem = e
		s.Alloc = nil
		s.At = pred.Instrs[len(pred.Instrs)-1]
		if u, ok := strip(e).(*ssa.UnOp); ok && u.Op == token.MUL {
			if a, ok := u.X.(*ssa.Alloc); ok {
				s.Alloc = a
			}
		}
		out = append(out, splitPhiSite(s, depth+1)...)
	}
	return out
}

// elemSitesT: the places where an element of a list of type …typeSuffix is produced: append calls, and
// stores `list[i] = elem` into a list this function made with make (the pre-sized form of the same
// loop). Call is nil for the indexed form; At is always set.
func elemSitesT(fn *ssa.Function, elemSuffix string) []appendSite {
	var out []appendSite
	for _, s := range appendSites(fn, "") {
		if strings.HasSuffix(elemTypeString(s.Call.Type()), elemSuffix) {
			out = append(out, s)
		}
	}
	for _, b := range fn.Blocks {
		for _, in := range b.Instrs {
			st, ok := in.(*ssa.Store)
			if !ok {
				continue
			}
			ia, ok := st.Addr.(*ssa.IndexAddr)
			if !ok || !strings.HasSuffix(elemTypeString(ia.X.Type()), elemSuffix) {
				continue
			}
			made := false
			for _, o := range origins(ia.X) {
				if _, ok := strip(o).(*ssa.MakeSlice); ok {
					made = true
				}
			}
			if !made {
				continue
			}
			site := appendSite{At: st, Base: ia.X, Elem: st.Val}
			if u, ok := st.Val.(*ssa.UnOp); ok && u.Op == token.MUL {
				if a, ok := u.X.(*ssa.Alloc); ok {
					site.Alloc = a
				}
			}
			out = append(out, site)
		}
	}
	return out
}

// isElemProducer: in is an append of, or an indexed store into, a list of …elemSuffix elements.
func isElemProducer(in ssa.Instruction, elemSuffix string) bool {
	if isAppendOf(in, elemSuffix) {
		return true
	}
	if st, ok := in.(*ssa.Store); ok {
		if ia, ok := st.Addr.(*ssa.IndexAddr); ok && strings.HasSuffix(elemTypeString(ia.X.Type()), elemSuffix) {
			for _, o := range origins(ia.X) {
				if _, ok := strip(o).(*ssa.MakeSlice); ok {
					return true
				}
			}
		}
	}
	return false
}

// fieldStores returns, for a local struct Alloc, the values stored into each of its fields.
func fieldStores(a *ssa.Alloc) map[string][]*ssa.Store {
	out := map[string][]*ssa.Store{}
	if a.Referrers() == nil {
		return out
	}
	for _, r := range *a.Referrers() {
		fa, ok := r.(*ssa.FieldAddr)
		if !ok || fa.Referrers() == nil {
			continue
		}
		_, name, _, ok := fieldAddrInfo(fa)
		if !ok {
			continue
		}
		for _, rr := range *fa.Referrers() {
			if st, ok := rr.(*ssa.Store); ok && st.Addr == fa {
				out[name] = append(out[name], st)
			}
		}
	}
	return out
}

// storesToField lists every Store in fn whose address is field `field` of a struct whose qualified
// type name ends with typ.
func storesToField(fn *ssa.Function, typ, field string) []*ssa.Store {
	var out []*ssa.Store
	for _, b := range fn.Blocks {
		for _, in := range b.Instrs {
			st, ok := in.(*ssa.Store)
			if !ok {
				continue
			}
			fa, ok := st.Addr.(*ssa.FieldAddr)
			if !ok {
				continue
			}
			t, f, _, ok := fieldAddrInfo(fa)
			if ok && f == field && strings.HasSuffix(t, typ) {
				out = append(out, st)
			}
		}
	}
	return out
}

func vmNil() VM { return func(v ssa.Value) bool { return isNilConst(v) } }

// returnsOnlyNonZeroConsts: every return of fn yields an integer constant != 0.
func returnsOnlyNonZeroConsts(fn *ssa.Function) (bool, []int64) {
	var vals []int64
	if fn == nil || fn.Blocks == nil {
		return false, nil
	}
	for _, b := range fn.Blocks {
		for _, in := range b.Instrs {
			r, ok := in.(*ssa.Return)
			if !ok {
				continue
			}
			if len(r.Results) != 1 {
				return false, nil
			}
			for _, o := range origins(r.Results[0]) {
				k, ok := constInt(o)
				if !ok || k == 0 {
					return false, nil
				}
				vals = append(vals, k)
			}
		}
	}
	return len(vals) > 0, vals
}

// lastStoreBefore returns the last Store to alloc `a` that precedes `at` in at's own block.
func lastStoreBefore(a *ssa.Alloc, at ssa.Instruction) *ssa.Store {
	b := at.Block()
	if b == nil {
		return nil
	}
	var last *ssa.Store
	for _, in := range b.Instrs {
		if in == at {
			return last
		}
		if st, ok := in.(*ssa.Store); ok && st.Addr == ssa.Value(a) {
			last = st
		}
	}
	return nil
}

// minMaxCall recognises the builtin min/max (Go 1.21) so that rules written against the
// compare-and-assign spelling accept the builtin one: it returns the operands and whether it is min.
func minMaxCall(v ssa.Value) (args []ssa.Value, isMin bool, ok bool) {
	c, isCall := strip(v).(*ssa.Call)
	if !isCall {
		return nil, false, false
	}
	bi, isB := c.Call.Value.(*ssa.Builtin)
	if !isB || (bi.Name() != "min" && bi.Name() != "max") {
		return nil, false, false
	}
	return c.Call.Args, bi.Name() == "min", true
}

// blocksAfter: the blocks control can be in after leaving block b (b itself only through a cycle).
func blocksAfter(b *ssa.BasicBlock) map[*ssa.BasicBlock]bool {
	seen := map[*ssa.BasicBlock]bool{}
	var dfs func(x *ssa.BasicBlock)
	dfs = func(x *ssa.BasicBlock) {
		for _, s := range x.Succs {
			if !seen[s] {
				seen[s] = true
				dfs(s)
			}
		}
	}
	dfs(b)
	return seen
}

// originsAfter is origins restricted to the paths that start at instruction `from`: a φ-edge counts
// only when its predecessor block can be reached from there (a helper folded into the function
// merges its returns in one φ, and the edges of the returns before `from` are not on these paths).
func originsAfter(v ssa.Value, from ssa.Instruction) []ssa.Value {
	fb := from.Block()
	after := blocksAfter(fb)
	seen := map[ssa.Value]bool{}
	var out []ssa.Value
	var walk func(v ssa.Value)
	walk = func(v ssa.Value) {
		v = strip(v)
		if seen[v] {
			return
		}
		seen[v] = true
		if ph, ok := v.(*ssa.Phi); ok {
			for i, e := range ph.Edges {
				p := ph.Block().Preds[i]
				if p == fb || after[p] {
					walk(e)
				}
			}
			return
		}
		for _, o := range origins(v) {
			if o == v {
				out = append(out, o)
			} else if _, isPhi := o.(*ssa.Phi); isPhi {
				walk(o)
			} else {
				out = append(out, o)
			}
		}
	}
	walk(v)
	return out
}

// valueClassAt: the values c in 0..256 of the integer v (an instruction's result, typically the
// current rune or byte of a loop) for which `target` can be reached from v's definition without v
// being redefined, when every branch that compares v with a constant is decided for v == c and
// every other branch is free. It is the in-line counterpart of predClass.
func valueClassAt(v ssa.Value, target ssa.Instruction) (acc [257]bool, ok bool) {
	def, isInstr := strip(v).(ssa.Instruction)
	if !isInstr || def.Block() == nil {
		return acc, false
	}
	start := locOf(def)
	start.I++
	decide := func(cond ssa.Value, truth bool, c int64) (feasible bool) {
		l := litOf(cond, truth)
		x, y, op := l.X, l.Y, l.Op
		if strip(y) == strip(v) {
			x, y, op = y, x, swapOp(op)
		}
		if strip(x) != strip(v) {
			return true
		}
		k, isC := constInt(y)
		if !isC {
			return true
		}
		switch op {
		case token.EQL:
			return c == k
		case token.NEQ:
			return c != k
		case token.LSS:
			return c < k
		case token.LEQ:
			return c <= k
		case token.GTR:
			return c > k
		case token.GEQ:
			return c >= k
		}
		return true
	}
	for c := int64(0); c <= 256; c++ {
		found, _, _ := search(SearchSpec{Start: start,
			Target:  func(in ssa.Instruction) bool { return in == target },
			Blocker: func(in ssa.Instruction) bool { return in == def },
			Removed: func(from *ssa.BasicBlock, si int) bool {
				ifi, isIf := from.Instrs[len(from.Instrs)-1].(*ssa.If)
				return isIf && !decide(ifi.Cond, si == 0, c)
			}})
		acc[c] = found
	}
	return acc, true
}

// retSite is one way a return hands back a value: the value itself, or — when the returned value is
// a φ (several error sources merged into one `return err`, as after folding a helper) — each input
// of the φ, placed at the end of the block it comes from.
type retSite struct {
	Val ssa.Value
	At  ssa.Instruction
}

func returnSites(ret *ssa.Return, idx int) []retSite {
	var out []retSite
	var walk func(v ssa.Value, at ssa.Instruction, depth int)
	walk = func(v ssa.Value, at ssa.Instruction, depth int) {
		// a result spilled to a local because the function defers (`*r = v; rundefers; return *r`)
		if u, ok := strip(v).(*ssa.UnOp); ok && u.Op == token.MUL && depth < 4 {
			if a, ok := u.X.(*ssa.Alloc); ok {
				if st := lastStoreBefore(a, u); st != nil {
					walk(st.Val, at, depth+1)
					return
				}
			}
		}
		if ph, ok := strip(v).(*ssa.Phi); ok && depth < 4 {
			for i, e := range ph.Edges {
				p := ph.Block().Preds[i]
				walk(e, p.Instrs[len(p.Instrs)-1], depth+1)
			}
			return
		}
		out = append(out, retSite{v, at})
	}
	walk(ret.Results[idx], ret, 0)
	return out
}

// shortName is fn.Name() for table look-ups by short name: a function standing in for a renamed
// anchor answers to the anchor's short name.
func shortName(fn *ssa.Function) string {
	if fn == nil {
		return ""
	}
	if old, ok := standInLookup(fn); ok {
		if i := strings.LastIndex(old, "."); i >= 0 {
			return old[i+1:]
		}
		return old
	}
	return fn.Name()
}
