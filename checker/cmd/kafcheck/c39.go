package main

import (
	"fmt"
	"go/token"
	"strings"

	"golang.org/x/tools/go/ssa"
)

func init() { register("C39", "other", checkC39) }

// loopInduction: v is the induction variable of a counting loop that starts at 0 and is incremented
// by 1 (phi [0, v+1]); returns the phi.
func loopInduction(v ssa.Value) (*ssa.Phi, bool) {
	p, ok := strip(v).(*ssa.Phi)
	if !ok || len(p.Edges) != 2 {
		return nil, false
	}
	zero, step := false, false
	for _, e := range p.Edges {
		if k, ok := constInt(e); ok && k == 0 {
			zero = true
			continue
		}
		if bo, ok := strip(e).(*ssa.BinOp); ok && bo.Op == token.ADD && bo.X == ssa.Value(p) {
			if k, ok := constInt(bo.Y); ok && k == 1 {
				step = true
			}
		}
	}
	return p, zero && step
}

// loopBound: the value the induction phi is compared with (phi < bound) in the loop header.
func loopBound(p *ssa.Phi) ssa.Value {
	b := p.Block()
	if ifi, ok := b.Instrs[len(b.Instrs)-1].(*ssa.If); ok {
		if bo, ok := ifi.Cond.(*ssa.BinOp); ok && bo.Op == token.LSS && bo.X == ssa.Value(p) {
			return bo.Y
		}
	}
	return nil
}

func checkC39(c *Ctx, r *Report) {
	r.Explanation = "Decides structural necessary conditions of 'operator metadata matches deployed brokers and derived names are valid': (R1) in BuildClusterMetadata the broker list is allocated with the replica count, filled by a loop that counts from 0 in steps of 1 up to that same value, storing at index i a broker with NodeID i; buildReplicaIDs receives the same replica value and fills ids[i] = i; every partition list is allocated with the topic's partition count and filled by a 0-based unit-step loop up to the same count with Partition i; each leader is an element of the replica-id list indexed modulo its length; (R2) every value returned by sanitizeBucketName is either the constant default prefix (3..63 characters of [a-z0-9-], no dash at the ends) or has passed an upper bound of 63 and a lower bound of 3 on its length — a value produced by cutting at a constant <= 63 and trimming counts as bounded — and the builder receives only runes that passed the [a-z] or [0-9] range tests or the constant '-'; defaultEtcdSnapshotBucket returns only sanitized values or that constant; (R3) the broker host written into the metadata is <name>-broker-<i>.<headless service>.<namespace>.svc.cluster.local where the pod-name prefix equals the StatefulSet name format and the service part equals brokerHeadlessServiceName's format, with cluster.Name, the loop ordinal and cluster.Namespace as arguments. R2 exposed the missing length cap repaired by e5b68c7. The single-replica advertised-host override is accepted as configured."
	r.NotCovered = "the advertised-host override for single-replica clusters; that the StatefulSet really runs `replicas` pods"
	m, err := c.Mod("root")
	if err != nil {
		r.unresolved("C39.load", "root module", err.Error())
		return
	}
	r.rule("C39.R1", "broker ids, replica ids and partition numbers are 0-based unit-step sequences over the same counts; leaders come from the replica-id list", 5)
	r.rule("C39.R2", "derived bucket names are 3..63 characters of [a-z0-9-]", 6)
	r.rule("C39.R3", "broker host format agrees with the StatefulSet and headless-service name formats", 3)

	bm := needFn(m, r, "C39.R1", pkgOperator, "BuildClusterMetadata")
	if bm != nil {
		// brokers
		var brokersMake *ssa.MakeSlice
		var partsMake *ssa.MakeSlice
		for _, b := range bm.Blocks {
			for _, in := range b.Instrs {
				if ms, ok := in.(*ssa.MakeSlice); ok {
					es := elemTypeString(ms.Type())
					if strings.HasSuffix(es, "kmsg.MetadataResponseBroker") {
						brokersMake = ms
					}
					if strings.HasSuffix(es, "kmsg.MetadataResponseTopicPartition") {
						partsMake = ms
					}
				}
			}
		}
		checkSeq := func(ms *ssa.MakeSlice, what, idField string) {
			if ms == nil {
				r.unresolved("C39.R1", what+" list allocation", "make(...) not found")
				return
			}
			count := ms.Len
			n := 0
			for _, b := range bm.Blocks {
				for _, in := range b.Instrs {
					st, ok := in.(*ssa.Store)
					if !ok {
						continue
					}
					ia, ok := st.Addr.(*ssa.IndexAddr)
					if !ok || strip(ia.X) != ssa.Value(ms) {
						continue
					}
					n++
					key := what + " list is filled with ids 0..count-1"
					phi, okInd := loopInduction(ia.Index)
					if !okInd {
						r.viol("C39.R1", key, m.Pos(st.Pos()), "element index "+describe(ia.Index)+" is not a 0-based unit-step loop variable")
						continue
					}
					bound := loopBound(phi)
					if bound == nil || !(strip(bound) == strip(count) || sameSource(bound, count) || sameFieldLoad(bound, count)) {
						r.viol("C39.R1", key, m.Pos(st.Pos()), "loop bound "+describe(bound)+" is not the count the list was allocated with ("+describe(count)+")")
						continue
					}
					// the stored literal's id field is the induction variable
					okID := false
					if u, ok := st.Val.(*ssa.UnOp); ok {
						if al, ok := u.X.(*ssa.Alloc); ok {
							for _, fs := range fieldStores(al)[idField] {
								if strip(fs.Val) == ssa.Value(phi) {
									okID = true
								}
							}
						}
					}
					if okID {
						r.ok("C39.R1", key, m.Pos(st.Pos()), idField+" = loop ordinal, bound = allocated count")
					} else {
						r.viol("C39.R1", key, m.Pos(st.Pos()), idField+" of the stored element is not the loop ordinal")
					}
				}
			}
			if n == 0 {
				r.unresolved("C39.R1", what+" list element stores", "none found")
			}
		}
		checkSeq(brokersMake, "broker", "NodeID")
		checkSeq(partsMake, "partition", "Partition")
		// replica ids from the same count
		for _, call := range findCalls(bm, pkgOperator+".buildReplicaIDs") {
			if brokersMake != nil && (strip(call.Common().Args[0]) == strip(brokersMake.Len) || sameSource(call.Common().Args[0], brokersMake.Len)) {
				r.ok("C39.R1", "replica ids are built for the broker count", m.Pos(call.Pos()), "")
			} else {
				r.viol("C39.R1", "replica ids are built for the broker count", m.Pos(call.Pos()), "argument is "+describe(call.Common().Args[0]))
			}
		}
		// leader = replicaIDs[… % len(replicaIDs)] (or [0])
		if partsMake != nil {
			for _, b := range bm.Blocks {
				for _, in := range b.Instrs {
					al, ok := in.(*ssa.Alloc)
					if !ok || !strings.HasSuffix(elemOfPtr(al), "kmsg.MetadataResponseTopicPartition") {
						continue
					}
					for _, fs := range fieldStores(al)["Leader"] {
						okL := true
						for _, o := range origins(fs.Val) {
							u, ok := strip(o).(*ssa.UnOp)
							if !ok {
								okL = false
								continue
							}
							ia, ok := u.X.(*ssa.IndexAddr)
							if !ok || !dependsOnCall(ia.X, pkgOperator+".buildReplicaIDs") {
								okL = false
								continue
							}
							if k, ok := constInt(ia.Index); ok && k == 0 {
								continue
							}
							if bo, ok := strip(ia.Index).(*ssa.BinOp); ok && bo.Op == token.REM {
								if lc, ok := strip(bo.Y).(*ssa.Call); ok && calleeName(&lc.Call) == "builtin.len" && dependsOnCall(lc.Call.Args[0], pkgOperator+".buildReplicaIDs") {
									continue
								}
							}
							okL = false
						}
						if okL {
							r.ok("C39.R1", "partition leader is an element of the replica-id list", m.Pos(fs.Pos()), "")
						} else {
							r.viol("C39.R1", "partition leader is an element of the replica-id list", m.Pos(fs.Pos()), "leader is "+describe(fs.Val))
						}
					}
				}
			}
		}
	}
	if br := needFn(m, r, "C39.R1", pkgOperator, "buildReplicaIDs"); br != nil {
		okB := false
		for _, b := range br.Blocks {
			for _, in := range b.Instrs {
				if st, ok := in.(*ssa.Store); ok {
					if ia, ok := st.Addr.(*ssa.IndexAddr); ok {
						if phi, okInd := loopInduction(ia.Index); okInd && strip(st.Val) == ssa.Value(phi) {
							if bound := loopBound(phi); bound != nil && strip(bound) == ssa.Value(br.Params[0]) {
								okB = true
							}
						}
					}
				}
			}
		}
		if okB {
			r.ok("C39.R1", "buildReplicaIDs yields 0..count-1", m.Pos(br.Pos()), "")
		} else {
			r.viol("C39.R1", "buildReplicaIDs yields 0..count-1", m.Pos(br.Pos()), "ids are not the 0-based unit-step sequence up to the argument")
		}
	}

	// ---- R2
	validBucketConst := func(s string) bool {
		if len(s) < 3 || len(s) > 63 || s[0] == '-' || s[len(s)-1] == '-' {
			return false
		}
		for i := 0; i < len(s); i++ {
			ch := s[i]
			if !(ch >= 'a' && ch <= 'z' || ch >= '0' && ch <= '9' || ch == '-') {
				return false
			}
		}
		return true
	}
	if sb := needFn(m, r, "C39.R2", pkgOperator, "sanitizeBucketName"); sb != nil {
		lenOf := func(v ssa.Value, of ssa.Value) bool {
			lc, ok := strip(v).(*ssa.Call)
			return ok && calleeName(&lc.Call) == "builtin.len" && strip(lc.Call.Args[0]) == strip(of)
		}
		cutAndTrim := func(v ssa.Value) bool {
			tc, ok := strip(v).(*ssa.Call)
			if !ok || !strings.HasPrefix(calleeName(&tc.Call), "strings.Trim") {
				return false
			}
			sl, ok := strip(tc.Call.Args[0]).(*ssa.Slice)
			if !ok || sl.High == nil {
				return false
			}
			k, ok := constInt(sl.High)
			return ok && k <= 63 && k >= 3
		}
		for _, b := range sb.Blocks {
			ret, ok := b.Instrs[len(b.Instrs)-1].(*ssa.Return)
			if !ok {
				continue
			}
			rv := ret.Results[0]
			if s, ok := constString(rv); ok {
				if validBucketConst(s) {
					r.ok("C39.R2", fmt.Sprintf("sanitizeBucketName returns the valid constant %q", s), m.Pos(ret.Pos()), "")
				} else {
					r.viol("C39.R2", fmt.Sprintf("sanitizeBucketName returns the valid constant %q", s), m.Pos(ret.Pos()), "constant is not a valid S3 bucket name")
				}
				continue
			}
			// per incoming value (phi edges are judged on the edge that carries them)
			key := "sanitizeBucketName: a computed result is at most 63 characters"
			keyLo := "sanitizeBucketName: a computed result is at least 3 characters"
			type inc struct {
				v    ssa.Value
				pred *ssa.BasicBlock
				succ int
			}
			var incs []inc
			if phi, ok := strip(rv).(*ssa.Phi); ok {
				for i, e := range phi.Edges {
					p := phi.Block().Preds[i]
					si := 0
					for j, s := range p.Succs {
						if s == phi.Block() {
							si = j
						}
					}
					incs = append(incs, inc{e, p, si})
				}
			} else {
				incs = append(incs, inc{rv, nil, 0})
			}
			okUp := true
			whyUp := ""
			// the ends: a computed result is what strings.Trim(_, "-") returned, not a later cut of it
			keyEnds := "sanitizeBucketName: a computed result neither starts nor ends with '-'"
			okEnds, whyEnds := true, ""
			for _, ic := range incs {
				tc, isCall := strip(ic.v).(*ssa.Call)
				trimmed := false
				if isCall && calleeName(&tc.Call) == "strings.Trim" && len(tc.Call.Args) == 2 {
					if cs, ok := constString(tc.Call.Args[1]); ok && cs == "-" {
						trimmed = true
					}
				}
				if !trimmed {
					okEnds, whyEnds = false, "value "+describe(ic.v)+" is returned without being trimmed of '-' afterwards: a cut can end on the separator, and S3 bucket names must start and end with a letter or digit"
				}
			}
			if okEnds {
				r.ok("C39.R2", keyEnds, m.Pos(ret.Pos()), "")
			} else {
				r.viol("C39.R2", keyEnds, m.Pos(ret.Pos()), whyEnds)
			}
			for _, ic := range incs {
				if cutAndTrim(ic.v) {
					continue
				}
				if sl, ok := strip(ic.v).(*ssa.Slice); ok && sl.High != nil {
					if k, ok := constInt(sl.High); ok && k <= 63 {
						continue
					}
				}
				upper := Guard{cl(atomFn("len(v) <= 63", func(l Lit) bool {
					k, ok := constInt(l.Y)
					return ok && lenOf(l.X, ic.v) && ((l.Op == token.LEQ && k <= 63) || (l.Op == token.LSS && k <= 64))
				}))}
				var res GuardResult
				if ic.pred != nil {
					res = edgeGuarded(m, sb, ic.pred, ic.succ, upper)
				} else {
					res = checkGuarded(m, sb, ret, upper)
				}
				if !res.OK {
					okUp, whyUp = false, "value "+describe(ic.v)+" reaches the return without an upper bound on its length: namespace and name can be 63 characters each, the joined name exceeds S3's 63-character limit"
				}
			}
			if okUp {
				r.ok("C39.R2", key, m.Pos(ret.Pos()), "")
			} else {
				r.viol("C39.R2", key, m.Pos(ret.Pos()), whyUp)
			}
			lower := Guard{cl(atomFn("len(result) >= 3", func(l Lit) bool {
				k, ok := constInt(l.Y)
				if !ok {
					return false
				}
				lc, okc := strip(l.X).(*ssa.Call)
				if !okc || calleeName(&lc.Call) != "builtin.len" {
					return false
				}
				return (l.Op == token.GEQ && k >= 3) || (l.Op == token.GTR && k >= 2)
			}))}
			guardVerdict(m, r, "C39.R2", keyLo, sb, ret, lower)
		}
		// what the builder receives
		for _, call := range callsIn(sb) {
			n := calleeName(call.Common())
			switch n {
			case "(*strings.Builder).WriteRune":
				rr := call.Common().Args[1]
				rng := func(lo, hi int64) Guard {
					return Guard{
						cl(atomFn(fmt.Sprintf("r >= %d", lo), func(l Lit) bool {
							k, ok := constInt(l.Y)
							return ok && strip(l.X) == strip(rr) && l.Op == token.GEQ && k == lo
						})),
						cl(atomFn(fmt.Sprintf("r <= %d", hi), func(l Lit) bool {
							k, ok := constInt(l.Y)
							return ok && strip(l.X) == strip(rr) && l.Op == token.LEQ && k == hi
						})),
					}
				}
				ok1 := checkGuarded(m, sb, call.(ssa.Instruction), rng('a', 'z')).OK
				ok2 := checkGuarded(m, sb, call.(ssa.Instruction), rng('0', '9')).OK
				// or a local predicate on the rune whose accepted set lies inside [a-z0-9]
				pred := Guard{cl(atomFn("alnum predicate on the rune", func(l Lit) bool {
					if l.Op != token.ILLEGAL || l.Neg {
						return false
					}
					pc, ok := strip(l.X).(*ssa.Call)
					if !ok || len(pc.Call.Args) != 1 || strip(pc.Call.Args[0]) != strip(rr) {
						return false
					}
					pf, _ := calleeOf(&pc.Call)
					acc, okc, _ := predClass(pf)
					if !okc {
						return false
					}
					for c := 0; c <= 256; c++ {
						if acc[c] && !((c >= 'a' && c <= 'z') || (c >= '0' && c <= '9')) {
							return false
						}
					}
					return true
				}))}
				ok3 := checkGuarded(m, sb, call.(ssa.Instruction), pred).OK
				// or any arrangement of comparisons on the rune under which only [a-z0-9] get here
				ok4 := false
				if acc, okc := valueClassAt(rr, call.(ssa.Instruction)); okc {
					ok4 = true
					for c := 0; c <= 256; c++ {
						if acc[c] && !((c >= 'a' && c <= 'z') || (c >= '0' && c <= '9')) {
							ok4 = false
						}
					}
				}
				if ok1 || ok2 || ok3 || ok4 {
					r.ok("C39.R2", "sanitizeBucketName copies only [a-z0-9] runes", m.Pos(call.Pos()), "")
				} else {
					r.viol("C39.R2", "sanitizeBucketName copies only [a-z0-9] runes", m.Pos(call.Pos()), "a rune outside [a-z] / [0-9] can be written to the bucket name")
				}
			case "(*strings.Builder).WriteByte":
				if k, ok := constInt(call.Common().Args[1]); ok && k == '-' {
					r.ok("C39.R2", "sanitizeBucketName's only other output is '-'", m.Pos(call.Pos()), "")
				} else {
					r.viol("C39.R2", "sanitizeBucketName's only other output is '-'", m.Pos(call.Pos()), "writes "+describe(call.Common().Args[1]))
				}
			case "(*strings.Builder).WriteString":
				r.viol("C39.R2", "sanitizeBucketName writes only checked runes", m.Pos(call.Pos()), "WriteString of unchecked text")
			}
		}
	}
	if db := needFn(m, r, "C39.R2", pkgOperator, "defaultEtcdSnapshotBucket"); db != nil {
		okD := true
		for _, b := range db.Blocks {
			ret, ok := b.Instrs[len(b.Instrs)-1].(*ssa.Return)
			if !ok {
				continue
			}
			for _, o := range origins(ret.Results[0]) {
				if s, ok := constString(o); ok {
					if !validBucketConst(s) {
						okD = false
					}
					continue
				}
				if cc, ok := strip(o).(*ssa.Call); !ok || calleeName(&cc.Call) != pkgOperator+".sanitizeBucketName" {
					okD = false
				}
			}
		}
		if okD {
			r.ok("C39.R2", "defaultEtcdSnapshotBucket returns only sanitized names", m.Pos(db.Pos()), "")
		} else {
			r.viol("C39.R2", "defaultEtcdSnapshotBucket returns only sanitized names", m.Pos(db.Pos()), "a return value bypasses sanitizeBucketName")
		}
	}

	// ---- R3
	if bm != nil {
		var hostShape []strComp
		for _, b := range bm.Blocks {
			for _, in := range b.Instrs {
				if call, ok := in.(*ssa.Call); ok && calleeName(&call.Call) == "fmt.Sprintf" {
					if f, ok := constString(call.Call.Args[0]); ok && strings.Contains(f, "svc.cluster.local") {
						hostShape = mergeLits(strShape(m, call, 1))
					}
				}
			}
		}
		headless := ""
		if hf := m.Func(pkgOperator, "brokerHeadlessServiceName"); hf != nil {
			for _, b := range hf.Blocks {
				if ret, ok := b.Instrs[len(b.Instrs)-1].(*ssa.Return); ok {
					headless = shapeString(mergeLits(strShape(m, ret.Results[0], 0)))
				}
			}
		}
		stsName := ""
		for _, fn := range m.FuncsInPkg(pkgOperator) {
			if !strings.Contains(shortName(fn), "reconcileBrokerStatefulSet") && !strings.Contains(shortName(fn), "reconcileBroker") {
				continue
			}
			for _, call := range findCalls(fn, "fmt.Sprintf") {
				if f, ok := constString(call.Common().Args[0]); ok && f == "%s-broker" {
					stsName = f
				}
			}
		}
		got := shapeString(hostShape)
		want := "‹s›-broker-‹n›.‹s›-broker-headless.‹s›.svc.cluster.local"
		if got == want {
			r.ok("C39.R3", "broker host format", m.Pos(bm.Pos()), got)
		} else {
			r.viol("C39.R3", "broker host format", m.Pos(bm.Pos()), "host is built as "+got+", pods of the StatefulSet are reachable as "+want)
		}
		if headless == "‹s›-broker-headless" {
			r.ok("C39.R3", "headless service name format matches the host's service part", "", headless)
		} else {
			r.viol("C39.R3", "headless service name format matches the host's service part", "", "brokerHeadlessServiceName builds "+headless)
		}
		if stsName == "%s-broker" {
			r.ok("C39.R3", "StatefulSet name format matches the host's pod-name prefix", "", stsName+" + \"-\" + ordinal")
		} else {
			r.viol("C39.R3", "StatefulSet name format matches the host's pod-name prefix", "", "no \"%s-broker\" StatefulSet name found in the broker reconciler")
		}
		// arguments: cluster.Name, ordinal, cluster.Namespace
		if len(hostShape) > 0 {
			var vars []ssa.Value
			for _, cpt := range hostShape {
				if cpt.Var != nil {
					vars = append(vars, cpt.Var)
				}
			}
			okArgs := len(vars) == 4
			if okArgs {
				_, f0, _, ok0 := fieldOf(vars[0])
				_, okI := loopInduction(vars[1])
				_, f2, _, ok2 := fieldOf(vars[2])
				_, f3, _, ok3 := fieldOf(vars[3])
				okArgs = ok0 && f0 == "Name" && okI && ok2 && f2 == "Name" && ok3 && f3 == "Namespace"
			}
			if okArgs {
				r.ok("C39.R3", "broker host arguments are cluster.Name, the broker ordinal, cluster.Name, cluster.Namespace", m.Pos(bm.Pos()), "")
			} else {
				r.viol("C39.R3", "broker host arguments are cluster.Name, the broker ordinal, cluster.Name, cluster.Namespace", m.Pos(bm.Pos()), "arguments differ")
			}
		}
	}
}

func elemOfPtr(a *ssa.Alloc) string {
	return strings.TrimPrefix(typeStringUnaliased(a), "*")
}

func typeStringUnaliased(a *ssa.Alloc) string {
	t := a.Type()
	if pt, ok := t.Underlying().(interface{ Elem() interface{ String() string } }); ok {
		_ = pt
	}
	s := t.String()
	// aliases print with their alias name; map the protocol aliases used by the operator
	s = strings.Replace(s, rootModPath+"/pkg/protocol.MetadataPartition", "github.com/twmb/franz-go/pkg/kmsg.MetadataResponseTopicPartition", 1)
	s = strings.Replace(s, rootModPath+"/pkg/protocol.MetadataBroker", "github.com/twmb/franz-go/pkg/kmsg.MetadataResponseBroker", 1)
	return s
}

// sameFieldLoad: both values are loads of the same field path of the same local (no CSE in go/ssa:
// `topic.Spec.Partitions` is re-loaded at every use).
func sameFieldLoad(a, b ssa.Value) bool {
	ua, ok1 := strip(a).(*ssa.UnOp)
	ub, ok2 := strip(b).(*ssa.UnOp)
	if !ok1 || !ok2 || ua.Op != token.MUL || ub.Op != token.MUL {
		return false
	}
	var root func(v ssa.Value) (ssa.Value, string)
	root = func(v ssa.Value) (ssa.Value, string) {
		if fa, ok := v.(*ssa.FieldAddr); ok {
			_, f, _, _ := fieldAddrInfo(fa)
			r0, p := root(fa.X)
			return r0, p + "." + f
		}
		return v, ""
	}
	ra, pa := root(ua.X)
	rb, pb := root(ub.X)
	_, isAlloc := ra.(*ssa.Alloc)
	return isAlloc && ra == rb && pa == pb && pa != ""
}
