package main

import (
	"fmt"
	"go/token"
	"go/types"
	"sort"
	"strings"

	"golang.org/x/tools/go/ssa"
)

func init() { register("C23", "other", checkC23) }

const (
	pkgACL      = rootModPath + "/pkg/acl"
	sqlModPath  = "github.com/kafscale/platform/addons/processors/sql-processor"
	pkgSQLProxy = sqlModPath + "/internal/proxy"
)

// aclTest is one call in an authorizer's decision function that tests the request against deny or
// allow rules: either one rule (inside a range loop over the list) or the whole list.
type aclTest struct {
	call  *ssa.Call
	list  string // "Deny" | "Allow"
	whole bool   // the whole list is passed (helper scans it)
}

func aclTests(fn *ssa.Function) []aclTest {
	var out []aclTest
	for _, b := range fn.Blocks {
		for _, in := range b.Instrs {
			call, ok := in.(*ssa.Call)
			if !ok {
				continue
			}
			if _, isB := call.Call.Value.(*ssa.Builtin); isB {
				continue
			}
			if bt, ok := call.Type().Underlying().(*types.Basic); !ok || bt.Kind() != types.Bool {
				continue
			}
			for _, a := range call.Call.Args {
				for _, list := range []string{"Deny", "Allow"} {
					if dependsOnField(a, "", list) {
						_, isSlice := a.Type().Underlying().(*types.Slice)
						out = append(out, aclTest{call, list, isSlice})
					}
				}
			}
		}
	}
	return out
}

// followJumps skips blocks that only jump.
func followJumps(b *ssa.BasicBlock) *ssa.BasicBlock {
	for i := 0; i < 8; i++ {
		if len(b.Instrs) == 1 {
			if _, ok := b.Instrs[0].(*ssa.Jump); ok {
				b = b.Succs[0]
				continue
			}
		}
		break
	}
	return b
}

func constBoolReturn(b *ssa.BasicBlock) (bool, bool) {
	ret, isRet := b.Instrs[len(b.Instrs)-1].(*ssa.Return)
	if !isRet || len(ret.Results) != 1 {
		return false, false
	}
	// origins() sees through defer-spilled results (*r = true; rundefers; t = *r; return t)
	os := origins(ret.Results[0])
	if len(os) == 0 {
		return false, false
	}
	val := ""
	for _, o := range os {
		k, isC := strip(o).(*ssa.Const)
		if !isC || k.Value == nil {
			return false, false
		}
		if val != "" && val != k.Value.ExactString() {
			return false, false
		}
		val = k.Value.ExactString()
	}
	if val != "true" && val != "false" {
		return false, false
	}
	return val == "true", true
}

// branch is an If that branches on exactly one boolean value; T / F are the successors taken when
// that value is true / false (negations in the condition are resolved).
type branch struct {
	If   *ssa.If
	T, F *ssa.BasicBlock
}

// ifsOn finds the branches on exactly value v.
func ifsOn(fn *ssa.Function, v ssa.Value) []branch {
	var out []branch
	for _, b := range fn.Blocks {
		if ifi, ok := b.Instrs[len(b.Instrs)-1].(*ssa.If); ok {
			l := litOf(ifi.Cond, true)
			if l.Op == token.ILLEGAL && l.X == v {
				if l.Neg {
					out = append(out, branch{ifi, b.Succs[1], b.Succs[0]})
				} else {
					out = append(out, branch{ifi, b.Succs[0], b.Succs[1]})
				}
			}
		}
	}
	return out
}

// denyExhausted: atoms that are established exactly when the deny rules were all consulted without
// a match: the negative result of a whole-list test, or the exit edge of a range loop over the list.
func denyExhausted() Atom {
	return atomFn("deny rules exhausted without a match", func(l Lit) bool {
		if l.Op == token.ILLEGAL {
			if !l.Neg {
				return false
			}
			c, ok := strip(l.X).(*ssa.Call)
			if !ok {
				return false
			}
			for _, a := range c.Call.Args {
				if _, isSlice := a.Type().Underlying().(*types.Slice); isSlice && dependsOnField(a, "", "Deny") {
					return true
				}
			}
			return false
		}
		// rangeindex loop exit: !(i+1 < len(deny)) i.e. i+1 >= len(deny)
		idx, ln := l.X, l.Y
		switch l.Op {
		case token.GEQ:
		case token.LEQ:
			idx, ln = l.Y, l.X
		default:
			return false
		}
		lc, ok := strip(ln).(*ssa.Call)
		if !ok || calleeName(&lc.Call) != "builtin.len" || !dependsOnField(lc.Call.Args[0], "", "Deny") {
			return false
		}
		// the index is the range loop's induction variable (phi −1, +1)
		bo, ok := strip(idx).(*ssa.BinOp)
		if !ok || bo.Op != token.ADD {
			return false
		}
		phi, ok := bo.X.(*ssa.Phi)
		if !ok || phi.Block().Comment != "rangeindex.loop" {
			return false
		}
		return true
	})
}

// pureMatchers: starting from the callees of the tests, every module-local function reachable
// through static calls reads only its parameters: no globals, no captured variables, and calls only
// into the allow-listed pure library functions.
func pureMatchers(m *Module, r *Report, rule string, roots []*ssa.Function) {
	pureLib := func(n string) bool {
		return strings.HasPrefix(n, "strings.") || n == "path.Match" || strings.HasPrefix(n, "builtin.") || strings.HasPrefix(n, "unicode.") || strings.HasPrefix(n, "path/filepath.Match")
	}
	seen := map[*ssa.Function]bool{}
	var visit func(f *ssa.Function)
	visit = func(f *ssa.Function) {
		if seen[f] {
			return
		}
		seen[f] = true
		r.fn(f)
		bad := ""
		if len(f.FreeVars) > 0 {
			bad = "captures variables"
		}
		for _, b := range f.Blocks {
			for _, in := range b.Instrs {
				for _, op := range in.Operands(nil) {
					if op == nil || *op == nil {
						continue
					}
					if g, ok := (*op).(*ssa.Global); ok {
						bad = "reads or writes package variable " + g.Name()
					}
				}
				if ci, ok := in.(ssa.CallInstruction); ok {
					n := calleeName(ci.Common())
					if callee, _ := calleeOf(ci.Common()); callee != nil && callee.Blocks != nil && m.isLocalPkg(fnPkg(callee)) {
						visit(callee)
					} else if !pureLib(n) {
						bad = "calls " + n + " (not on the pure-function list)"
					}
				}
				if _, ok := in.(*ssa.Store); ok {
					// stores into locals are fine; into parameters' pointees are not
					st := in.(*ssa.Store)
					if _, isAlloc := st.Addr.(*ssa.Alloc); !isAlloc {
						root := st.Addr
						for {
							switch x := root.(type) {
							case *ssa.FieldAddr:
								root = x.X
								continue
							case *ssa.IndexAddr:
								root = x.X
								continue
							}
							break
						}
						if _, isAlloc := root.(*ssa.Alloc); !isAlloc {
							bad = "stores through " + describe(st.Addr)
						}
					}
				}
			}
		}
		key := "matcher " + funcName(f) + " depends only on its arguments"
		if bad == "" {
			r.ok(rule, key, m.Pos(f.Pos()), "")
		} else {
			r.viol(rule, key, m.Pos(f.Pos()), bad+": a rule's verdict could then depend on other rules or on hidden state, which breaks monotonicity")
		}
	}
	for _, f := range roots {
		visit(f)
	}
}

func checkC23(c *Ctx, r *Report) {
	r.Explanation = "Decides the structural shape of both ACL decision functions (pkg/acl (*Authorizer).Allows and the SQL proxy's ACL.Allows), from which 'deny overrides', 'defaults apply' and monotonicity follow: (R1) every deny test that matches leads to `return false`; every allow test is reachable only after the deny rules were exhausted without a match (exit edge of the range loop over the whole deny list, or negative result of the whole-list helper); every constant `true` is returned only under an allow match or because enforcement is off; the remaining returns are the default; (R2) the matcher functions reachable from the tests read only their arguments (no package variables, no captured state, only allow-listed pure library calls), so each rule's verdict is independent of the other rules — with R1 this makes adding an allow rule only add `true` paths and adding a deny rule only add `false` paths; list helpers return true only from inside their loop and false only after it; (R3) the default decision does not depend on the rule lists (pkg/acl reads the defaultAllow field, written only by the constructor). In the SQL proxy the default is `len(Allow)==0`, so adding the first allow rule removes access to every other topic: reported as KNOWN-FINDING K8 (tests pin that allow-list semantics). Pattern semantics (what `orders-*` matches) are not decided."
	r.NotCovered = "the matching semantics of name patterns (prefix wildcard, path.Match classes); principal normalisation"
	r.rule("C23.R1", "deny match → return false; allow tests only after the deny rules are exhausted; constant true only under allow match or enforcement off", 8)
	r.rule("C23.R2", "matchers depend only on their arguments; list helpers return true only from a pattern match and false only after the scan", 6)
	r.rule("C23.R3", "the default decision (no rule matched) does not depend on the rule lists", 2)

	type spec struct {
		mod, pkg, fn, label string
	}
	for _, sp := range []spec{
		{"root", pkgACL, "(*Authorizer).Allows", "acl.Authorizer.Allows"},
		{"sql", pkgSQLProxy, "ACL.Allows", "sqlproxy.ACL.Allows"},
	} {
		m, err := c.Mod(sp.mod)
		if err != nil {
			r.unresolved("C23.load", sp.mod+" module", err.Error())
			continue
		}
		fn := needFn(m, r, "C23.R1", sp.pkg, sp.fn)
		if fn == nil {
			continue
		}
		tests := aclTests(fn)
		// the decisions the function can return, one per input of a merged return value (a function
		// that computes `ok := decide(…)`, counts, and returns ok has one return and several decisions)
		var vrets []retSite
		for _, b := range fn.Blocks {
			if ret, ok := b.Instrs[len(b.Instrs)-1].(*ssa.Return); ok && len(ret.Results) > 0 {
				vrets = append(vrets, returnSites(ret, 0)...)
			}
		}
		// edgeDecision: the decision taken when control enters block b (through pure jumps)
		edgeDecision := func(b *ssa.BasicBlock) (retSite, bool) {
			for i := 0; i < 8; i++ {
				for _, vr := range vrets {
					if vr.At.Block() == b {
						return vr, true
					}
				}
				if len(b.Instrs) == 1 {
					if _, ok := b.Instrs[0].(*ssa.Jump); ok {
						b = b.Succs[0]
						continue
					}
				}
				break
			}
			return retSite{}, false
		}
		var nD, nA int
		var roots []*ssa.Function
		trueEdgeTo := map[*ssa.BasicBlock]string{} // blocks entered on a test's true edge
		for _, t := range tests {
			if callee, _ := calleeOf(&t.call.Call); callee != nil {
				// a library scan with a predicate literal: the matcher is the predicate (which may
				// capture the request's action / resource / name: those are arguments of the decision)
				if n := calleeName(&t.call.Call); strings.HasPrefix(n, "slices.ContainsFunc") || strings.HasPrefix(n, "slices.IndexFunc") {
					if mc, ok := t.call.Call.Args[len(t.call.Call.Args)-1].(*ssa.MakeClosure); ok {
						for _, cc := range callsIn(mc.Fn.(*ssa.Function)) {
							if g, _ := calleeOf(cc.Common()); g != nil && g.Blocks != nil && m.isLocalPkg(fnPkg(g)) {
								roots = append(roots, g)
							}
						}
					}
				} else {
					roots = append(roots, callee)
				}
			}
			ifs := ifsOn(fn, t.call)
			switch t.list {
			case "Deny":
				nD++
				key := fmt.Sprintf("%s: deny match (%s) returns false", sp.label, calleeShort(t.call))
				if len(ifs) == 0 {
					// `return !match(deny)` style is not an accepted idiom
					r.viol("C23.R1", key, m.Pos(t.call.Pos()), "the result of the deny test does not decide a branch that returns false: a matching deny rule no longer denies")
					continue
				}
				for _, ifi := range ifs {
					tgt := followJumps(ifi.T)
					deniesHere := false
					if v, ok := constBoolReturn(tgt); ok && !v {
						deniesHere = true
					} else if vr, ok := edgeDecision(ifi.T); ok {
						if c, isC := strip(vr.Val).(*ssa.Const); isC && c.Value != nil && c.Value.ExactString() == "false" {
							deniesHere = true
						}
					}
					if deniesHere {
						r.ok("C23.R1", key, m.Pos(t.call.Pos()), "")
					} else {
						r.viol("C23.R1", key, m.Pos(t.call.Pos()), "a matching deny rule does not lead to `return false`: deny no longer overrides")
					}
				}
			case "Allow":
				nA++
				key := fmt.Sprintf("%s: allow test (%s) only after the deny rules are exhausted", sp.label, calleeShort(t.call))
				guardVerdict(m, r, "C23.R1", key, fn, t.call, Guard{cl(denyExhausted())})
				for _, ifi := range ifs {
					trueEdgeTo[ifi.T] = "allow"
				}
			}
		}
		if nD == 0 || nA == 0 {
			r.unresolved("C23.R1", sp.label+" deny/allow tests", fmt.Sprintf("found %d deny and %d allow tests", nD, nA))
			continue
		}
		// loop-form tests must sit in a range loop over the complete list
		for _, t := range tests {
			if t.whole {
				continue
			}
			key := fmt.Sprintf("%s: %s rules are scanned by a range loop over the whole list", sp.label, strings.ToLower(t.list))
			ok := false
			for b := t.call.Block(); b != nil; b = b.Idom() {
				if b.Comment == "rangeindex.body" || b.Comment == "rangeindex.loop" {
					ok = true
					break
				}
			}
			if ok {
				r.ok("C23.R1", key, m.Pos(t.call.Pos()), "")
			} else {
				r.viol("C23.R1", key, m.Pos(t.call.Pos()), "per-rule test outside a range loop")
			}
		}
		// returns
		enforcementOff := Clause{Atoms: []Atom{
			atomFn("receiver == nil", func(l Lit) bool {
				return l.Op == token.EQL && ((isNilConst(l.Y) && l.X == ssa.Value(fn.Params[0])) || (isNilConst(l.X) && l.Y == ssa.Value(fn.Params[0])))
			}),
			atomBool("!enabled", vmField("", "enabled"), false),
			atomFn("allow match", func(l Lit) bool {
				if l.Op != token.ILLEGAL || l.Neg {
					return false
				}
				for _, t := range tests {
					if t.list == "Allow" && l.X == ssa.Value(t.call) {
						return true
					}
				}
				return false
			}),
		}}
		for _, vr := range vrets {
			b := vr.At.Block()
			ret := vr.At
			for _, o := range origins(vr.Val) {
				switch x := strip(o).(type) {
				case *ssa.Const:
					if x.Value == nil {
						continue
					}
					if x.Value.ExactString() == "true" {
						res := checkGuarded(m, fn, ret, Guard{enforcementOff})
						key := sp.label + ": constant true is returned only under an allow match or with enforcement off"
						if res.OK {
							r.ok("C23.R1", key, m.Pos(ret.Pos()), res.String())
							continue
						}
						// a constant default: does the condition that selects it read a rule list?
						dep := ""
						for d := b.Idom(); d != nil && dep == ""; d = d.Idom() {
							if ifi, ok := d.Instrs[len(d.Instrs)-1].(*ssa.If); ok {
								for _, list := range []string{"Allow", "Deny"} {
									if dep == "" && dependsOnCallArgField(ifi.Cond, list) {
										dep = list
									}
								}
							}
						}
						if dep != "" {
							r.viol("C23.R3", sp.label+": default decision is independent of the rule lists", m.Pos(ret.Pos()),
								"`true` is the default while the "+dep+" list is empty and `false` once it is not: adding the first allow rule removes access to everything it does not match (not monotone)")
						} else {
							r.viol("C23.R1", key, m.Pos(ret.Pos()), res.String())
						}
					} else {
						// constant false: under a deny match (checked above) — or a default
						underDeny := false
						for _, t := range tests {
							if t.list != "Deny" {
								continue
							}
							for _, ifi := range ifsOn(fn, t.call) {
								if followJumps(ifi.T) == b {
									underDeny = true
								}
								if d, ok := edgeDecision(ifi.T); ok && d.At == vr.At {
									underDeny = true
								}
							}
						}
						key := sp.label + ": constant false is returned only under a deny match"
						if underDeny {
							r.ok("C23.R1", key, m.Pos(ret.Pos()), "")
						} else {
							r.viol("C23.R1", key, m.Pos(ret.Pos()), "a constant denial that is not the consequence of a deny rule (the default must come from configuration)")
						}
					}
				case *ssa.Call:
					isAllowTest := false
					for _, t := range tests {
						if t.call == x && t.list == "Allow" && t.whole {
							isAllowTest = true
						}
					}
					key := sp.label + ": returns the verdict of the whole-list allow test"
					if isAllowTest {
						r.ok("C23.R1", key, m.Pos(ret.Pos()), "")
					} else {
						r.undecided("C23.R1", sp.label+": return value "+describe(x), m.Pos(ret.Pos()), "not an accepted decision shape")
					}
				default:
					if _, f, _, ok := fieldOf(o); ok {
						key := sp.label + ": default decision is independent of the rule lists"
						if f == "defaultAllow" {
							r.ok("C23.R3", key, m.Pos(ret.Pos()), "returns the configured default field")
						} else {
							r.viol("C23.R3", key, m.Pos(ret.Pos()), "default comes from field "+f)
						}
					} else if dependsOnField(o, "", "Allow") || dependsOnField(o, "", "Deny") {
						r.viol("C23.R3", sp.label+": default decision is independent of the rule lists", m.Pos(ret.Pos()), "the returned default "+describe(o)+" is computed from the rule lists: adding a rule can flip decisions it does not match")
					} else {
						r.undecided("C23.R1", sp.label+": return value "+describe(o), m.Pos(ret.Pos()), "not an accepted decision shape")
					}
				}
			}
		}
		pureMatchers(m, r, "C23.R2", roots)
		// list helpers (whole-list tests): true only from inside the loop on a positive pattern test,
		// false only after the loop (or for an empty list)
		doneHelper := map[*ssa.Function]bool{}
		for _, t := range tests {
			if !t.whole {
				continue
			}
			h, _ := calleeOf(&t.call.Call)
			if h == nil || h.Blocks == nil || doneHelper[h] {
				continue
			}
			doneHelper[h] = true
			key := "list helper " + funcName(h) + " is an any-match scan"
			bad := ""
			for _, b := range h.Blocks {
				v, ok := constBoolReturn(b)
				if !ok {
					if _, isRet := b.Instrs[len(b.Instrs)-1].(*ssa.Return); isRet {
						bad = "non-constant return"
					}
					continue
				}
				inLoop := false
				for d := b; d != nil; d = d.Idom() {
					if d.Comment == "rangeindex.body" {
						inLoop = true
					}
				}
				if v && !inLoop {
					bad = "returns true outside the per-pattern loop"
				}
				if !v && inLoop {
					bad = "returns false from inside the loop: one non-matching pattern hides later matching ones, so adding a rule can remove a match"
				}
			}
			if bad == "" {
				r.ok("C23.R2", key, m.Pos(h.Pos()), "")
			} else {
				r.viol("C23.R2", key, m.Pos(h.Pos()), bad)
			}
		}
	}
	// defaultAllow has one writer: the constructor
	if m, err := c.Mod("root"); err == nil {
		checkWriterTable(m, r, "C23.R3", pkgACL+".Authorizer", "defaultAllow", false, map[string]string{
			pkgACL + ".NewAuthorizer": "construction from Config.DefaultPolicy",
		})
		ws := fieldWriters(m, pkgACL+".Authorizer", "defaultAllow", false)
		sort.Slice(ws, func(i, j int) bool { return ws[i].In.Pos() < ws[j].In.Pos() })
		for _, w := range ws {
			if dependsOnField(w.Val, "", "Principals") || dependsOnField(w.Val, "", "Allow") || dependsOnField(w.Val, "", "Deny") {
				r.viol("C23.R3", "defaultAllow is computed from the policy string only", m.Pos(w.In.Pos()), "depends on the rule lists")
			}
		}
	}
}

func calleeShort(c *ssa.Call) string {
	n := calleeName(&c.Call)
	return n[strings.LastIndex(n, ".")+1:]
}

// dependsOnCallArgField: v depends (through call arguments as well) on a load of field `field`.
func dependsOnCallArgField(v ssa.Value, field string) bool {
	return dependsOnField(v, "", field)
}
