package main

import (
	"sync"
	"bufio"
	"bytes"
	"fmt"
	"go/token"
	"go/types"
	"os"
	"path/filepath"
	"sort"
	"strings"

	"golang.org/x/tools/go/ssa"
	"golang.org/x/tools/go/ssa/ssautil"
)

// Helper folding (DESIGN §2.4). The rules are anchored on the functions that exist at the pinned
// commit (anchors/known_funcs.txt lists them). An unexported function that is not in that list was
// introduced later — typically split out of an anchored function — and no rule can name it, so
// before any rule runs every static call to such a function is replaced by a copy of its body
// (ssa.KafInline). The rules then see the anchored function as it would read with the helper
// written in line; a helper whose every use was folded is dropped from the function list.

// Folded records what folding did, for the evidence file.
type Folded struct {
	Helper string `json:"helper"`
	Sites  int    `json:"call_sites_folded"`
	Kept   string `json:"kept_because,omitempty"`
}

var knownFuncs map[string]bool
var knownSigs = map[string]string{}

// sigKey: a function's parameter and result types (names dropped), the part of an anchor that a
// pure rename leaves unchanged.
func sigKey(fn *ssa.Function) string {
	sig := fn.Signature
	var sb strings.Builder
	if sig.Recv() != nil {
		sb.WriteString(types.TypeString(sig.Recv().Type(), nil))
	}
	sb.WriteString("(")
	for i := 0; i < sig.Params().Len(); i++ {
		if i > 0 {
			sb.WriteString(",")
		}
		sb.WriteString(types.TypeString(sig.Params().At(i).Type(), nil))
	}
	if sig.Variadic() {
		sb.WriteString("...")
	}
	sb.WriteString(")(")
	for i := 0; i < sig.Results().Len(); i++ {
		if i > 0 {
			sb.WriteString(",")
		}
		sb.WriteString(types.TypeString(sig.Results().At(i).Type(), nil))
	}
	sb.WriteString(")")
	return sb.String()
}

var knownMu sync.Mutex

// foldMu serialises helper folding: the vendored ssa additions keep package-level bookkeeping.
var foldMu sync.Mutex

func loadKnownFuncs() map[string]bool {
	knownMu.Lock()
	defer knownMu.Unlock()
	if knownFuncs != nil {
		return knownFuncs
	}
	knownFuncs = map[string]bool{}
	b, err := os.ReadFile(filepath.Join(verifRoot, "anchors", "known_funcs.txt"))
	if err != nil {
		return knownFuncs
	}
	sc := bufio.NewScanner(bytes.NewReader(b))
	sc.Buffer(make([]byte, 1<<20), 1<<20)
	for sc.Scan() {
		if l := strings.TrimSpace(sc.Text()); l != "" && !strings.HasPrefix(l, "#") {
			name, sig, _ := strings.Cut(l, "\t")
			knownFuncs[name] = true
			knownSigs[name] = sig
		}
	}
	return knownFuncs
}

// namedLocalFuncs: the module's own source-level functions and methods (no closures, no wrappers).
func namedLocalFuncs(m *Module) []*ssa.Function {
	var out []*ssa.Function
	for fn := range ssautil.AllFunctions(m.Prog) {
		if fn.Parent() != nil || fn.Synthetic != "" || fn.Blocks == nil {
			continue
		}
		if p := fnPkg(fn); p == nil || !m.isLocalPkg(p) {
			continue
		}
		out = append(out, fn)
	}
	sort.Slice(out, func(i, j int) bool { return out[i].String() < out[j].String() })
	return out
}

func localFuncsWithBodies(m *Module) []*ssa.Function {
	var out []*ssa.Function
	for fn := range ssautil.AllFunctions(m.Prog) {
		if fn.Blocks == nil {
			continue
		}
		if p := fnPkg(fn); p == nil || !m.isLocalPkg(p) {
			continue
		}
		out = append(out, fn)
	}
	sort.Slice(out, func(i, j int) bool {
		if out[i].String() != out[j].String() {
			return out[i].String() < out[j].String()
		}
		return out[i].Pos() < out[j].Pos()
	})
	return out
}

func (m *Module) foldNewHelpers() error {
	foldMu.Lock()
	defer foldMu.Unlock()
	known := loadKnownFuncs()
	if len(known) == 0 || os.Getenv("KAFCHECK_NOFOLD") != "" {
		return nil
	}
	// a pure rename of an anchored function: the listed name is gone from a loaded package and exactly
	// one function that is not on the list has its receiver, parameter and result types. That
	// function stands in for the anchor (it is neither folded nor reported as unknown).
	m.Renamed = map[string]*ssa.Function{}
	{
		present := map[string]bool{}
		bySig := map[string][]*ssa.Function{}
		pkgOf := func(full string) string {
			n := strings.TrimPrefix(strings.TrimPrefix(full, "("), "*")
			if i := strings.LastIndex(n, "."); i > 0 {
				n = n[:i]
			}
			n = strings.TrimSuffix(n, ")")
			if i := strings.LastIndex(n, "."); i > 0 && strings.Contains(full, ").") {
				n = n[:i]
			}
			return n
		}
		for _, fn := range namedLocalFuncs(m) {
			present[fn.String()] = true
			if !known[fn.String()] {
				if p := fnPkg(fn); p != nil {
					bySig[p.Path()+"|"+sigKey(fn)] = append(bySig[p.Path()+"|"+sigKey(fn)], fn)
				}
			}
		}
		taken := map[*ssa.Function]bool{}
		var names []string
		for name := range known {
			names = append(names, name)
		}
		sort.Strings(names)
		for _, name := range names {
			if present[name] || knownSigs[name] == "" {
				continue
			}
			pp := pkgOf(name)
			if _, local := m.SSAPkgs[pp]; !local {
				continue
			}
			c := bySig[pp+"|"+knownSigs[name]]
			if len(c) == 1 && !taken[c[0]] {
				taken[c[0]] = true
				m.Renamed[name] = c[0]
			}
		}
	}
	isStandIn := map[*ssa.Function]bool{}
	for old, f := range m.Renamed {
		isStandIn[f] = true
		standInName.Store(f, old)
	}
	cands := map[*ssa.Function]bool{}
	for _, fn := range namedLocalFuncs(m) {
		if isStandIn[fn] {
			m.Folded = append(m.Folded, Folded{Helper: fn.String(), Kept: "stands in for a renamed anchor"})
			continue
		}
		if known[fn.String()] || token.IsExported(fn.Name()) || fn.Name() == "init" || fn.Name() == "main" {
			continue
		}
		if ok, why := ssa.KafInlinable(fn); !ok {
			m.Folded = append(m.Folded, Folded{Helper: fn.String(), Kept: "cannot be folded: " + why})
			continue
		}
		cands[fn] = true
	}
	if len(cands) == 0 {
		return nil
	}
	callsCand := func(fn *ssa.Function) bool {
		for _, b := range fn.Blocks {
			for _, in := range b.Instrs {
				if c, ok := in.(*ssa.Call); ok {
					if cal := c.Call.StaticCallee(); cal != nil && cands[cal] && cal != fn {
						return true
					}
				}
			}
		}
		return false
	}
	sites := map[*ssa.Function]int{}
	touched := map[*ssa.Function]bool{}
	for round := 0; round < 6; round++ {
		changed := false
		for _, F := range localFuncsWithBodies(m) {
			var calls []*ssa.Call
			for _, b := range F.Blocks {
				for _, in := range b.Instrs {
					c, ok := in.(*ssa.Call)
					if !ok {
						continue
					}
					cal := c.Call.StaticCallee()
					if cal == nil || !cands[cal] || cal == F || callsCand(cal) {
						continue // bottom-up: a helper is folded once it calls no other helper
					}
					calls = append(calls, c)
				}
			}
			for _, c := range calls {
				cal := c.Call.StaticCallee()
				if ok, _ := ssa.KafInline(c); ok {
					sites[cal]++
					touched[F] = true
					changed = true
				}
			}
		}
		if !changed {
			break
		}
	}
	for F := range touched {
		if cands[F] {
			continue // a helper's own body is not looked at again once it is folded
		}
		ssa.KafNormalize(F)
		var buf bytes.Buffer
		if !ssa.KafSanity(F, &buf) {
			return fmt.Errorf("helper folding produced an inconsistent body for %s: %s", F, buf.String())
		}
	}
	// a helper every use of which was folded is no longer part of the program the rules look at
	used := map[*ssa.Function]string{}
	var rands []*ssa.Value
	for fn := range ssautil.AllFunctions(m.Prog) {
		if cands[fn] && sites[fn] > 0 {
			// its own body does not keep it alive
			continue
		}
		for _, b := range fn.Blocks {
			for _, in := range b.Instrs {
				rands = in.Operands(rands[:0])
				for _, r := range rands {
					if *r == nil {
						continue
					}
					if f, ok := (*r).(*ssa.Function); ok && cands[f] {
						used[f] = "still referenced from " + fn.String()
					}
				}
			}
		}
	}
	ifaceMethods := map[string]bool{}
	for _, p := range m.Pkgs {
		sc := p.Types.Scope()
		for _, n := range sc.Names() {
			if tn, ok := sc.Lookup(n).(*types.TypeName); ok {
				if it, ok := tn.Type().Underlying().(*types.Interface); ok {
					for i := 0; i < it.NumMethods(); i++ {
						ifaceMethods[it.Method(i).Name()] = true
					}
				}
			}
		}
	}
	m.Absorbed = map[*ssa.Function]bool{}
	var names []*ssa.Function
	for fn := range cands {
		names = append(names, fn)
	}
	sort.Slice(names, func(i, j int) bool { return names[i].String() < names[j].String() })
	for _, fn := range names {
		f := Folded{Helper: fn.String(), Sites: sites[fn]}
		switch {
		case sites[fn] == 0:
			f.Kept = "no static call site could be folded"
		case used[fn] != "":
			f.Kept = used[fn]
		case fn.Signature.Recv() != nil && ifaceMethods[fn.Name()]:
			f.Kept = "may be called through an interface"
		default:
			m.Absorbed[fn] = true
			for _, a := range withAnon(fn)[1:] {
				_ = a // closures of an absorbed helper live on in the callers (AnonFuncs were appended)
			}
		}
		m.Folded = append(m.Folded, f)
	}
	return nil
}
