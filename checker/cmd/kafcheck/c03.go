package main

import (
	"fmt"
	"go/token"
	"sort"
	"strings"

	"golang.org/x/tools/go/ssa"
)

func init() { register("C03", "other", checkC03) }

func vmAnyOrigin(m VM) VM { return func(v ssa.Value) bool { return anyOrigin(v, m) } }

var keyFuncs = map[string][]string{
	"(*" + pkgStorage + ".PartitionLog).segmentKey":    {"namespace", "topic", "partition"},
	"(*" + pkgStorage + ".PartitionLog).indexKey":      {"namespace", "topic", "partition"},
	"(*" + pkgStorage + ".PartitionLog).segmentPrefix": {"namespace", "topic", "partition"},
	"(*" + pkgStorage + ".PartitionLog).cacheTopicKey": {"namespace", "topic"},
}

// freshBytes decides whether v is, on every path, a freshly allocated / downloaded byte slice
// (never an alias of cache- or buffer-owned storage). Returns the offending origin otherwise.
func freshBytes(m *Module, v ssa.Value, seen map[ssa.Value]bool, depth int) (bool, string) {
	return freshBytesR(m, v, seen, depth, nil)
}

// infeasibleEdges: phi edges that cannot be taken on any path reaching `at`, derived from boolean
// phis with constant incoming values that a dominating branch has tested (correlated phis:
// `used := false; if … { data = x; used = true }; if used { return data }`).
func infeasibleEdges(at ssa.Instruction) map[*ssa.BasicBlock]map[int]bool {
	out := map[*ssa.BasicBlock]map[int]bool{}
	fn := at.Parent()
	for _, b := range fn.Blocks {
		if len(b.Instrs) == 0 {
			continue
		}
		ifi, ok := b.Instrs[len(b.Instrs)-1].(*ssa.If)
		if !ok {
			continue
		}
		for si, truth := range []bool{true, false} {
			s := b.Succs[si]
			if len(s.Preds) != 1 || !s.Dominates(at.Block()) {
				continue
			}
			l := litOf(ifi.Cond, truth)
			if l.Op != token.ILLEGAL {
				continue
			}
			phi, ok := l.X.(*ssa.Phi)
			if !ok {
				continue
			}
			want := !l.Neg
			for i, e := range phi.Edges {
				if c, ok := e.(*ssa.Const); ok && c.Value != nil && c.Value.Kind().String() == "Bool" {
					if (c.Value.ExactString() == "true") != want {
						if out[phi.Block()] == nil {
							out[phi.Block()] = map[int]bool{}
						}
						out[phi.Block()][i] = true
					}
				}
			}
		}
	}
	return out
}

func freshBytesR(m *Module, v ssa.Value, seen map[ssa.Value]bool, depth int, infeasible map[*ssa.BasicBlock]map[int]bool) (bool, string) {
	v = strip(v)
	if seen[v] {
		return true, ""
	}
	seen[v] = true
	if depth > 6 {
		return false, "call depth exceeded at " + describe(v)
	}
	switch x := v.(type) {
	case *ssa.Const:
		if x.Value == nil {
			return true, ""
		}
	case *ssa.Phi:
		for i, e := range x.Edges {
			if infeasible[x.Block()][i] {
				continue
			}
			if ok, why := freshBytesR(m, e, seen, depth, infeasible); !ok {
				return false, why
			}
		}
		return true, ""
	case *ssa.Slice:
		return freshBytes(m, x.X, seen, depth)
	case *ssa.Extract:
		return freshBytes(m, x.Tuple, seen, depth)
	case *ssa.MakeSlice:
		return true, ""
	case *ssa.UnOp:
		if x.Op == token.MUL {
			if a, ok := x.X.(*ssa.Alloc); ok {
				if st := lastStoreBefore(a, x); st != nil {
					return freshBytes(m, st.Val, seen, depth)
				}
				for _, s := range storesTo(a) {
					if ok, why := freshBytes(m, s, seen, depth); !ok {
						return false, why
					}
				}
				return true, ""
			}
		}
	case *ssa.Call:
		n := calleeName(&x.Call)
		switch {
		case n == "builtin.append":
			return freshBytes(m, x.Call.Args[0], seen, depth)
		case strings.HasSuffix(n, "S3Client).DownloadSegment"), strings.HasSuffix(n, "S3Client).DownloadIndex"):
			return true, ""
		}
		if f, _ := calleeOf(&x.Call); f != nil && f.Blocks != nil && m.isLocalPkg(fnPkg(f)) {
			for _, b := range f.Blocks {
				for _, in := range b.Instrs {
					if ret, ok := in.(*ssa.Return); ok && len(ret.Results) > 0 {
						if ok, why := freshBytes(m, ret.Results[0], seen, depth+1); !ok {
							return false, why + " (via " + funcName(f) + ")"
						}
					}
				}
			}
			return true, ""
		}
	}
	return false, describe(v)
}

func checkC03(c *Ctx, r *Report) {
	r.Explanation = "Decides four structural necessary conditions of 'fetch returns exactly the acknowledged bytes of this partition': (R1) every S3 and cache key used by PartitionLog comes from its four key builders, which read exactly namespace/topic/partition, and cache calls pass l.partition; (R2) handleFetch reaches PartitionLog.Read only with FetchOffset strictly below the watermark obtained from waitForFetchData; (R3) every value Read returns is a fresh allocation or an S3 download, never an alias of cache- or buffer-owned storage; (R4) l.segments is written only by the constructor, by RestoreFromS3 from a slice sorted on baseOffset, and by uploadFlush appending to the existing list. It does not decide byte-for-byte equality or batch-boundary arithmetic."
	r.NotCovered = "byte-for-byte equality with produced batches; batch-boundary arithmetic in computeSegmentRange (C04); ordering across segments at run time"
	m, err := c.Mod("root")
	if err != nil {
		r.unresolved("C03.load", "root module", err.Error())
		return
	}
	r.rule("C03.R1", "S3/cache keys used by *PartitionLog come from segmentKey/indexKey/segmentPrefix/cacheTopicKey (or a key listed under its own prefix); cache calls pass l.partition; key builders read exactly namespace, topic, partition", 14)
	r.rule("C03.R2", "plog.Read in handleFetch has passed part.FetchOffset < nextOffset (watermark from waitForFetchData)", 1)
	r.rule("C03.R3", "bytes returned by PartitionLog.Read are fresh allocations or S3 downloads", 3)
	r.rule("C03.R4", "l.segments writers: NewPartitionLog, RestoreFromS3 (after sort.Slice on baseOffset), uploadFlush (append to the existing list)", 5)

	// ---- R1: key builders
	names := make([]string, 0, len(keyFuncs))
	for n := range keyFuncs {
		names = append(names, n)
	}
	sort.Strings(names)
	for _, name := range names {
		want := keyFuncs[name]
		short := name[strings.LastIndex(name, ".")+1:]
		fn := needFn(m, r, "C03.R1", pkgStorage, "(*PartitionLog)."+short)
		if fn == nil {
			continue
		}
		got := map[string]bool{}
		for _, b := range fn.Blocks {
			for _, in := range b.Instrs {
				if fa, ok := in.(*ssa.FieldAddr); ok {
					if t, f, _, ok := fieldAddrInfo(fa); ok && t == tPartitionLog {
						got[f] = true
					}
				}
			}
		}
		var gl []string
		for f := range got {
			gl = append(gl, f)
		}
		sort.Strings(gl)
		want = append([]string(nil), want...)
		sort.Strings(want)
		if strings.Join(gl, ",") == strings.Join(want, ",") {
			r.ok("C03.R1", "key builder "+short+" reads "+strings.Join(want, ","), m.Pos(fn.Pos()), "")
		} else {
			r.viol("C03.R1", "key builder "+short+" reads "+strings.Join(want, ","), m.Pos(fn.Pos()), "reads fields "+strings.Join(gl, ",")+" of PartitionLog")
		}
	}
	// key arguments
	keyCalls := []string{"~S3Client).UploadSegment", "~S3Client).UploadIndex", "~S3Client).DownloadSegment", "~S3Client).DownloadIndex", "~S3Client).ListSegments",
		"(*" + pkgCache + ".SegmentCache).GetSegment", "(*" + pkgCache + ".SegmentCache).SetSegment"}
	okKey := vmOr(vmCall(names...), func(v ssa.Value) bool {
		// obj.Key of an object listed under l.segmentPrefix()
		t, f, _, ok := fieldOf(v)
		return ok && f == "Key" && strings.HasSuffix(t, "storage.S3Object")
	})
	perFn := map[string]int{}
	for _, fn := range m.FuncsInPkg(pkgStorage) {
		recv := fn
		for recv.Parent() != nil {
			recv = recv.Parent()
		}
		if recv.Signature.Recv() == nil || !strings.HasSuffix(recv.Signature.Recv().Type().String(), "storage.PartitionLog") {
			continue
		}
		for _, call := range findCalls(fn, keyCalls...) {
			r.CallSites++
			r.fn(fn)
			cc := call.Common()
			n := calleeName(cc)
			short := n[strings.LastIndex(n, ".")+1:]
			perFn[funcName(fn)+"/"+short]++
			key := fmt.Sprintf("%s in %s #%d", short, funcName(fn), perFn[funcName(fn)+"/"+short])
			var keyArg ssa.Value
			var partArg ssa.Value
			if cc.IsInvoke() {
				keyArg = cc.Args[1] // ctx, key
			} else {
				keyArg = cc.Args[1] // recv, topic, partition, base
				partArg = cc.Args[2]
			}
			bad := ""
			if !allOrigins(derefLocal(keyArg), okKey) {
				bad = "key argument is " + describe(keyArg) + ", not built by segmentKey/indexKey/segmentPrefix/cacheTopicKey"
			}
			if partArg != nil {
				if _, f, _, ok := fieldOf(derefLocal(partArg)); !ok || f != "partition" {
					bad += " partition argument is " + describe(partArg) + ", not l.partition"
				}
			}
			if bad == "" {
				r.ok("C03.R1", key, m.Pos(call.Pos()), "key from key builder")
			} else {
				r.viol("C03.R1", key, m.Pos(call.Pos()), bad)
			}
		}
	}

	// ---- R2
	if hf := needFn(m, r, "C03.R2", pkgBroker, "(*handler).handleFetch"); hf != nil {
		fo := vmField("kmsg.FetchRequestTopicPartition", "FetchOffset")
		wm := vmAnyOrigin(vmCall("(*" + pkgBroker + ".handler).waitForFetchData"))
		g := Guard{
			cl(atomCmp("FetchOffset<=watermark", fo, token.LEQ, wm), atomCmp("FetchOffset<watermark", fo, token.LSS, wm)),
			cl(atomCmp("FetchOffset!=watermark", fo, token.NEQ, wm), atomCmp("FetchOffset<watermark", fo, token.LSS, wm)),
		}
		reads := findCalls(hf, fnRead)
		if len(reads) == 0 {
			r.unresolved("C03.R2", "handleFetch → plog.Read", "call not found")
		}
		for i, rd := range reads {
			guardVerdict(m, r, "C03.R2", fmt.Sprintf("handleFetch plog.Read #%d below watermark", i+1), hf, rd, g)
		}
	}

	// ---- R3
	if rd := needFn(m, r, "C03.R3", pkgStorage, "(*PartitionLog).Read"); rd != nil {
		n := 0
		for _, b := range rd.Blocks {
			for _, in := range b.Instrs {
				ret, ok := in.(*ssa.Return)
				if !ok || len(ret.Results) == 0 || isNilConst(ret.Results[0]) {
					continue
				}
				n++
				ok2, why := freshBytesR(m, ret.Results[0], map[ssa.Value]bool{}, 0, infeasibleEdges(ret))
				key := fmt.Sprintf("Read return #%d (%s)", n, describeN(ret.Results[0], 2))
				if ok2 {
					r.ok("C03.R3", key, m.Pos(ret.Pos()), "fresh allocation or S3 download on every path")
				} else {
					r.viol("C03.R3", key, m.Pos(ret.Pos()), "returned bytes may alias shared storage: "+why)
				}
			}
		}
	}

	// ---- R5
	r.rule("C03.R5", "slices handed out by *WriteBuffer methods (Drain, RecordsFrom) are fresh allocations, never aliases of the live b.batches backing array", 2)
	checkBufferFresh(m, r, "C03.R5")

	// ---- R4
	ws := checkWriterTable(m, r, "C03.R4", tPartitionLog, "segments", false, map[string]string{
		pkgStorage + ".NewPartitionLog":                    "empty list",
		"(*" + pkgStorage + ".PartitionLog).RestoreFromS3": "sorted list rebuilt from S3",
		fnUploadFlush: "append of the segment just committed",
	})
	for _, w := range ws {
		switch funcName(w.Fn) {
		case "(*" + pkgStorage + ".PartitionLog).RestoreFromS3":
			isSort := func(in ssa.Instruction) bool {
				if !isCallTo(in, "sort.Slice", "sort.SliceStable", "slices.SortFunc") {
					return false
				}
				// comparator must compare baseOffset with <
				cc := callCommon(in)
				mc, ok := cc.Args[len(cc.Args)-1].(*ssa.MakeClosure)
				if !ok {
					return false
				}
				for _, b := range mc.Fn.(*ssa.Function).Blocks {
					for _, x := range b.Instrs {
						if bo, ok := x.(*ssa.BinOp); ok && bo.Op == token.LSS {
							_, f1, _, ok1 := fieldOf(bo.X)
							_, f2, _, ok2 := fieldOf(bo.Y)
							if ok1 && ok2 && f1 == "baseOffset" && f2 == "baseOffset" {
								return true
							}
						}
					}
				}
				return false
			}
			ok, path := mustPassBefore(m, w.Fn, w.In, isSort)
			if ok {
				r.ok("C03.R4", "RestoreFromS3 assigns l.segments after sort on baseOffset", m.Pos(w.In.Pos()), "sort.Slice(baseOffset <) dominates the store")
			} else {
				r.viol("C03.R4", "RestoreFromS3 assigns l.segments after sort on baseOffset", m.Pos(w.In.Pos()), "store reachable without ascending sort on baseOffset: "+path)
			}
		case fnUploadFlush:
			okShape := false
			if call, ok := strip(w.Val).(*ssa.Call); ok && calleeName(&call.Call) == "builtin.append" {
				if t, f, _, ok := fieldOf(call.Call.Args[0]); ok && t == tPartitionLog && f == "segments" {
					okShape = true
				}
			}
			if okShape {
				r.ok("C03.R4", "uploadFlush extends l.segments by append", m.Pos(w.In.Pos()), "")
			} else {
				r.viol("C03.R4", "uploadFlush extends l.segments by append", m.Pos(w.In.Pos()), "stored value is "+describe(w.Val))
			}
		}
	}
}

// derefLocal: a load from a captured/spilled local resolves to what was stored in it, including
// through closure bindings (free variables bound to the parent's allocs).
func derefLocal(v ssa.Value) ssa.Value {
	u, ok := strip(v).(*ssa.UnOp)
	if !ok || u.Op != token.MUL {
		return v
	}
	fv, ok := u.X.(*ssa.FreeVar)
	if !ok {
		return v
	}
	fn := fv.Parent()
	parent := fn.Parent()
	if parent == nil {
		return v
	}
	idx := -1
	for i, f := range fn.FreeVars {
		if f == fv {
			idx = i
		}
	}
	for _, b := range parent.Blocks {
		for _, in := range b.Instrs {
			if mc, ok := in.(*ssa.MakeClosure); ok && mc.Fn == ssa.Value(fn) && idx >= 0 {
				if a, ok := mc.Bindings[idx].(*ssa.Alloc); ok {
					sts := storesTo(a)
					if len(sts) == 1 {
						return sts[0]
					}
				}
			}
		}
	}
	return v
}
