package main

import (
	"fmt"
	"go/token"
	"strings"

	"golang.org/x/tools/go/ssa"
)

func init() { register("C05", "other", checkC05) }

const tSegmentArtifact = pkgStorage + ".SegmentArtifact"

// etcdConditionalPut: the etcd write whose key comes from keyFn is an OpPut/OpDelete inside a Txn with a
// non-empty If(...); a bare KV.Put / KV.Delete on such a key is a violation. Returns number of writes seen.
func etcdConditionalWrites(m *Module, r *Report, rule string, fn *ssa.Function, keyFns []string, label string) int {
	n := 0
	for _, call := range callsIn(fn) {
		cc := call.Common()
		name := calleeName(cc)
		isBare := strings.HasSuffix(name, "KV).Put") || strings.HasSuffix(name, "KV).Delete") || strings.HasSuffix(name, "Client).Put") || strings.HasSuffix(name, "Client).Delete")
		isOp := strings.HasSuffix(name, "client/v3.OpPut") || strings.HasSuffix(name, "client/v3.OpDelete")
		if !isBare && !isOp {
			continue
		}
		var keyArg ssa.Value
		if isBare {
			keyArg = cc.Args[1] // ctx, key
		} else {
			keyArg = cc.Args[0]
		}
		if !keyDependsOn(m, fn, keyArg, keyFns) {
			continue
		}
		n++
		r.CallSites++
		key := fmt.Sprintf("%s etcd write #%d in %s", label, n, funcName(fn))
		if isBare {
			r.viol(rule, key, m.Pos(call.Pos()), "unconditional "+name[strings.LastIndex(name, ".")+1:]+" on the key: must be an Op inside a Txn whose If compares the key")
			continue
		}
		// OpPut result must flow into Txn.Then of a chain that has a non-empty If
		opVal, _ := call.(*ssa.Call)
		okTxn := false
		why := "Op does not reach Txn.Then"
		for _, c2 := range callsIn(fn) {
			cc2 := c2.Common()
			if !strings.HasSuffix(calleeName(cc2), "Txn).Then") {
				continue
			}
			uses := false
			for _, a := range cc2.Args {
				backSlice(a, false, func(x ssa.Value) {
					if x == ssa.Value(opVal) {
						uses = true
					}
				})
				// variadic: slice of a varargs array whose element store holds the op
				if sl, ok := a.(*ssa.Slice); ok {
					if arr, ok := sl.X.(*ssa.Alloc); ok && arr.Referrers() != nil {
						for _, ref := range *arr.Referrers() {
							if ia, ok := ref.(*ssa.IndexAddr); ok && ia.Referrers() != nil {
								for _, rr := range *ia.Referrers() {
									if st, ok := rr.(*ssa.Store); ok && strip(st.Val) == ssa.Value(opVal) {
										uses = true
									}
								}
							}
						}
					}
				}
			}
			if !uses {
				continue
			}
			// receiver chain must contain an If with at least one comparison
			recv := cc2.Value
			hasIf := false
			backSlice(recv, false, func(x ssa.Value) {
				if c3, ok := x.(*ssa.Call); ok && strings.HasSuffix(calleeName(&c3.Call), "Txn).If") {
					for _, a := range c3.Call.Args {
						if sl, ok := a.(*ssa.Slice); ok {
							if _, ok := sl.X.(*ssa.Alloc); ok {
								hasIf = true
							}
						} else if !isNilConst(a) {
							hasIf = true
						}
					}
				}
				if c3, ok := x.(*ssa.Call); ok {
					// walk up the receiver of chained invokes
					_ = c3
				}
			})
			if !hasIf {
				// chained invoke: receiver of Then is result of If(...)
				if rc, ok := recv.(*ssa.Call); ok && strings.HasSuffix(calleeName(&rc.Call), "Txn).If") && len(rc.Call.Args) > 0 {
					if sl, ok := rc.Call.Args[0].(*ssa.Slice); ok && sl.X != nil {
						hasIf = true
					}
				}
			}
			if hasIf {
				// every comparison handed to If must be able to detect a concurrent update of the key:
				// ModRevision / Version / Value of the key, or CreateRevision == 0 (key absent).
				// CreateRevision == <non-zero> never changes on update and guards nothing.
				var ifCall *ssa.Call
				backSlice(recv, false, func(x ssa.Value) {
					if c3, ok := x.(*ssa.Call); ok && strings.HasSuffix(calleeName(&c3.Call), "Txn).If") {
						ifCall = c3
					}
				})
				if rc, ok := recv.(*ssa.Call); ok && strings.HasSuffix(calleeName(&rc.Call), "Txn).If") {
					ifCall = rc
				}
				weak := ""
				nCmp := 0
				if ifCall != nil {
					for _, a := range ifCall.Call.Args {
						backSlice(a, false, func(x ssa.Value) {
							cmp, ok := x.(*ssa.Call)
							if !ok || !strings.HasSuffix(calleeName(&cmp.Call), "client/v3.Compare") {
								return
							}
							nCmp++
							tgt := callOrigin(cmp.Call.Args[0])
							tn := ""
							if tgt != nil {
								tn = calleeName(&tgt.Call)
							}
							// only an equality can pin the key to the state that was read / expected:
							// "exists" (> 0), "changed" (!=) or range comparisons let another owner's value through
							if op, okop := constString(cmp.Call.Args[1]); !okop || op != "=" {
								weak = "If compares with operator " + describe(cmp.Call.Args[1]) + " at " + m.Pos(cmp.Pos()) + ": only \"=\" pins the key to an expected value; an inequality (e.g. CreateRevision > 0, 'the key exists') accepts a key that another owner has written"
								return
							}
							switch {
							case strings.HasSuffix(tn, "client/v3.ModRevision"), strings.HasSuffix(tn, "client/v3.Version"), strings.HasSuffix(tn, "client/v3.Value"):
							case strings.HasSuffix(tn, "client/v3.CreateRevision"):
								if k, okc := constInt(cmp.Call.Args[2]); !okc || k != 0 {
									weak = "If compares CreateRevision(key) with a non-zero value at " + m.Pos(cmp.Pos()) + ": it does not change when the key is updated, so the swap is unconditional for existing keys"
								}
							default:
								weak = "If compares " + tn + " at " + m.Pos(cmp.Pos()) + ", which does not detect concurrent updates"
							}
						})
					}
				}
				if nCmp == 0 {
					weak = "no clientv3.Compare reaches Txn.If"
				}
				if weak == "" {
					okTxn = true
				} else {
					why = weak
				}
			} else {
				why = "Txn has no If(...) comparison"
			}
		}
		if okTxn {
			r.ok(rule, key, m.Pos(call.Pos()), "Op inside Txn with If comparison")
		} else {
			r.viol(rule, key, m.Pos(call.Pos()), why)
		}
	}
	return n
}

// keyDependsOn: the key argument is built by one of keyFns — in this function, or (when it is a
// parameter) at every call site of this function.
func keyDependsOn(m *Module, fn *ssa.Function, keyArg ssa.Value, keyFns []string) bool {
	if dependsOnCall(keyArg, keyFns...) {
		return true
	}
	// "field:<Type>.<name>": the key is built from that field (the key builder written in line)
	for _, k := range keyFns {
		if rest, ok := strings.CutPrefix(k, "field:"); ok {
			if i := strings.LastIndex(rest, "."); i > 0 && dependsOnField(keyArg, "", rest[i+1:]) {
				hit := false
				backSlice(keyArg, true, func(x ssa.Value) {
					if t, f, _, okf := fieldOf(x); okf && f == rest[i+1:] && strings.HasSuffix(t, rest[:i]) {
						hit = true
					}
				})
				if hit {
					return true
				}
			}
		}
	}
	// a key given as "=<literal>" in keyFns matches a constant key
	if s, ok := constString(keyArg); ok {
		for _, k := range keyFns {
			if k == "="+s {
				return true
			}
		}
	}
	p, ok := strip(keyArg).(*ssa.Parameter)
	if !ok {
		return false
	}
	idx := -1
	for i, q := range fn.Params {
		if q == p {
			idx = i
		}
	}
	sites := callersOf(m, funcName(fn))
	if idx < 0 || len(sites) == 0 {
		return false
	}
	for _, cs := range sites {
		if !dependsOnCall(cs.in.Common().Args[idx], keyFns...) {
			return false
		}
	}
	return true
}

func checkC05(c *Ctx, r *Report) {
	r.Explanation = "Decides three structural necessary conditions of 'the durable high watermark never regresses or runs ahead of S3': (R1) every artifact handed to the onFlush callback is either the artifact whose upload just succeeded or a value read from the last committed l.segments entry — never derived from nextOffset; (R2) in cmd/broker only the onFlush closure and the post-restore sync (guarded by lastOffset >= nextOffset) call Store.UpdateOffsets; (R3) both UpdateOffsets implementations compare with the stored value before writing (map compare / etcd Txn with If). It does not decide ordering between brokers or etcd's linearizability."
	r.NotCovered = "ordering between brokers; etcd linearizability; the acks=0/flush-disabled mode"
	m, err := c.Mod("root")
	if err != nil {
		r.unresolved("C05.load", "root module", err.Error())
		return
	}
	// ---- R0: "uploaded" in R1 means the objects reached S3: C01's clauses about uploadFlush (commit
	// after both uploads succeeded; an upload closure reports success only after its upload did).
	r.rule("C05.R0", "C01.R2 holds (a committed segment was uploaded): what the published offset rests on", 4)
	sub := newReport("C01")
	checkC01(c, sub)
	for _, x := range sub.Results {
		if x.Status != Info && x.Rule == "C01.R2" {
			r.add("C05.R0", x.Rule+": "+x.Construct, x.Pos, x.Status, x.Detail)
		}
	}
	r.rule("C05.R4", "the S3 client reports an upload as successful only when it was (what 'uploaded' in R1 rests on)", 3)
	checkS3ClientErrors(m, r, "C05.R4")
	r.rule("C05.R1", "the SegmentArtifact passed to l.onFlush has a LastOffset that does not depend on nextOffset: it is the uploaded artifact (call dominated by err(uploadFlush)==nil) or built from the last l.segments entry", 2)
	r.rule("C05.R2", "who-may-call Store.UpdateOffsets in cmd/broker: the onFlush closure given to NewPartitionLog and the post-restore sync in getPartitionLog (dominated by lastOffset >= nextOffset)", 2)
	r.rule("C05.R3", "each Store.UpdateOffsets implementation writes only after comparing with the stored value (in-memory: lookup of the same map; etcd: Txn with If)", 2)

	// ---- R1
	n := 0
	for _, fn := range m.FuncsInPkg(pkgStorage) {
		for _, call := range dynCallsOfField(fn, tPartitionLog, "onFlush") {
			n++
			r.fn(fn)
			r.CallSites++
			key := fmt.Sprintf("l.onFlush call in %s", funcName(fn))
			arg := call.Call.Args[len(call.Call.Args)-1]
			var bad []string
			needGuard := false
			for _, o := range origins(arg) {
				switch x := o.(type) {
				case *ssa.Alloc:
					sts := fieldStores(x)["LastOffset"]
					if len(sts) == 0 {
						bad = append(bad, "fresh artifact without LastOffset")
					}
					for _, st := range sts {
						if dependsOnField(st.Val, tPartitionLog, "nextOffset") {
							bad = append(bad, "LastOffset derives from l.nextOffset ("+describe(st.Val)+" at "+m.Pos(st.Pos())+")")
						} else if !dependsOnField(st.Val, tPartitionLog, "segments") {
							bad = append(bad, "LastOffset ("+describe(st.Val)+") is not read from l.segments")
						}
					}
				case *ssa.Const:
					// nil: call is skipped by the target != nil check
				default:
					if callOrigin(o) != nil && nameMatches(calleeName(&callOrigin(o).Call), fnPrepareFlush) {
						needGuard = true
					} else if p, ok := o.(*ssa.Parameter); ok {
						bad = append(bad, "artifact is parameter "+p.Name())
					} else {
						bad = append(bad, "artifact origin "+describe(o))
					}
				}
			}
			if needGuard {
				g := Guard{cl(atomErrNil(fnUploadFlush), atomCmp("artifact==nil", vmCallResult(0, fnPrepareFlush), token.EQL, vmNil())).re(fnUploadFlush)}
				if res := checkGuarded(m, fn, call, g); !res.OK {
					bad = append(bad, res.String())
				}
			}
			if len(bad) == 0 {
				r.ok("C05.R1", key, m.Pos(call.Pos()), "artifact is the uploaded one (after err(uploadFlush)==nil) or read from the last committed segment")
			} else {
				r.viol("C05.R1", key, m.Pos(call.Pos()), strings.Join(bad, "; "))
			}
		}
	}
	if n == 0 {
		r.unresolved("C05.R1", "l.onFlush calls", "none found in package storage")
	}

	// ---- R2
	for _, cs := range callersOf(m, "~metadata.Store).UpdateOffsets") {
		if p := fnPkg(cs.caller); p == nil || p.Path() != pkgBroker {
			continue
		}
		r.fn(cs.caller)
		r.CallSites++
		top := cs.caller
		for top.Parent() != nil {
			top = top.Parent()
		}
		call, _ := cs.in.(*ssa.Call)
		if funcName(top) != "(*"+pkgBroker+".handler).getPartitionLog" || call == nil {
			r.viol("C05.R2", "UpdateOffsets call in "+funcName(top), m.Pos(cs.in.Pos()), "Store.UpdateOffsets called outside getPartitionLog's onFlush closure / post-restore sync")
			continue
		}
		// onFlush closure: the enclosing closure is an argument of NewPartitionLog and the offset is artifact.LastOffset
		off := call.Call.Args[len(call.Call.Args)-1]
		if t, f, base, ok := fieldOf(off); ok && t == tSegmentArtifact && f == "LastOffset" {
			if _, isParam := strip(base).(*ssa.Parameter); isParam {
				r.ok("C05.R2", "UpdateOffsets in onFlush closure publishes artifact.LastOffset", m.Pos(call.Pos()), "")
				continue
			}
		}
		// post-restore sync
		g := Guard{cl(atomCmp("lastOffset>=nextOffset", vmCall("(*"+pkgStorage+".PartitionLog).RestoreFromS3"), token.GEQ, vmCall("~metadata.Store).NextOffset")))}
		if allOrigins(derefLocal(off), vmCall("(*"+pkgStorage+".PartitionLog).RestoreFromS3")) {
			guardVerdict(m, r, "C05.R2", "UpdateOffsets post-restore sync guarded by lastOffset>=nextOffset", cs.caller, call, g)
		} else {
			r.viol("C05.R2", "UpdateOffsets call in getPartitionLog with offset "+describe(off), m.Pos(call.Pos()), "offset is neither artifact.LastOffset nor RestoreFromS3's result")
		}
	}

	// ---- R3 in-memory
	if uo := needFn(m, r, "C05.R3", pkgMetadata, "(*InMemoryStore).UpdateOffsets"); uo != nil {
		nw := 0
		lookupOfOffsets := func(v ssa.Value) bool {
			for _, o := range origins(v) {
				x := o
				if e, ok := x.(*ssa.Extract); ok {
					x = e.Tuple
				}
				if lk, ok := x.(*ssa.Lookup); ok {
					if _, f, _, ok := fieldOf(lk.X); ok && f == "offsets" {
						return true
					}
				}
			}
			return false
		}
		for _, b := range uo.Blocks {
			for _, in := range b.Instrs {
				mu, ok := in.(*ssa.MapUpdate)
				if !ok {
					continue
				}
				if _, f, _, ok := fieldOf(mu.Map); !ok || f != "offsets" {
					continue
				}
				nw++
				g := Guard{cl(
					atomFn("stored value compared", func(l Lit) bool {
						switch l.Op {
						case token.LSS, token.LEQ, token.GTR, token.GEQ:
							return lookupOfOffsets(l.X) || lookupOfOffsets(l.Y)
						}
						return false
					}),
					atomFn("key absent", func(l Lit) bool {
						return l.Op == token.ILLEGAL && l.Neg && lookupOfOffsets(l.X)
					}))}
				guardVerdict(m, r, "C05.R3", "InMemoryStore.UpdateOffsets write compares with stored value", uo, mu, g)
			}
		}
		if nw == 0 {
			r.unresolved("C05.R3", "InMemoryStore.UpdateOffsets write", "no map update of offsets found")
		}
	}
	// ---- R3 etcd
	if uo := needFn(m, r, "C05.R3", pkgMetadata, "(*EtcdStore).UpdateOffsets"); uo != nil {
		if etcdConditionalWrites(m, r, "C05.R3", uo, []string{pkgMetadata + ".offsetKey"}, "next_offset") == 0 {
			r.unresolved("C05.R3", "EtcdStore.UpdateOffsets write", "no etcd write keyed by offsetKey found")
		}
	}
}
