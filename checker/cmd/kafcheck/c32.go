package main

import (
	"fmt"
	"go/token"
	"strings"

	"golang.org/x/tools/go/ssa"
)

func init() { register("C32", "other", checkC32) }

func checkC32(c *Ctx, r *Report) {
	r.Explanation = "Decides structural necessary conditions of 'an LFS HTTP upload reported successful is stored and acknowledged': (R1) in handleHTTPProduce and handleHTTPUploadComplete the 200 status is written only after the error of forwardToBackend and of lfsProduceAckError were both nil, the acknowledgement check is applied to the very bytes forwardToBackend returned, and lfsProduceAckError returns nil only after the reply decoded and the scan over all answered partitions found no non-zero error code (a non-zero code returns an error from inside the scan) and at least one partition; (R2) the 200 status has passed err(UploadStream)==nil resp. err(CompleteMultipartUpload)==nil and the declared-checksum comparison; the envelope that is produced and returned carries the key the object was stored under and the size and SHA-256 reported by the uploader (single request) or accumulated by the session hashers (multipart), and the body of the 200 reply encodes that same envelope; (R3) the part list given to CompleteMultipartUpload is built from the server-side session.Parts (ETags looked up there, keys from ranging over it) under a cardinality comparison between the client's list and session.Parts, after total-uploaded == declared size. R1 and R3 exposed the two defects repaired by 0142bb5 and a53c6e8. S3's own multipart semantics are not decided."
	r.NotCovered = "S3's multipart assembly semantics; ordering of the checksum comparison relative to CompleteMultipartUpload (an already completed object is orphaned, not served); the Kafka-protocol produce path (C31)"
	m, err := c.Mod("root")
	if err != nil {
		r.unresolved("C32.load", "root module", err.Error())
		return
	}
	r.rule("C32.R1", "200 only after the broker's reply was decoded and every partition acknowledged with code 0", 6)
	r.rule("C32.R2", "200 only after the S3 write succeeded and the declared checksum matched; envelope fields come from the uploader / session hashers; the reply body is that envelope", 8)
	r.rule("C32.R3", "multipart completion uses the server-side part list under a cardinality check, after all declared bytes arrived", 3)
	r.rule("C32.R4", "the S3 uploader reports a write as successful only when the S3 call that finishes it succeeded", 5)
	checkUploaderErrors(m, r)

	fwd := lfsMod + "forwardToBackend"
	ack := pkgProxy + ".lfsProduceAckError"

	for _, h := range []struct {
		fn, label, s3call string
	}{
		{"(*lfsModule).handleHTTPProduce", "handleHTTPProduce", "~s3Uploader).UploadStream"},
		{"(*lfsModule).handleHTTPUploadComplete", "handleHTTPUploadComplete", "~s3Uploader).CompleteMultipartUpload"},
	} {
		fn := needFn(m, r, "C32.R1", pkgProxy, h.fn)
		if fn == nil {
			continue
		}
		var ok200 []ssa.CallInstruction
		for _, call := range callsIn(fn) {
			if strings.HasSuffix(calleeName(call.Common()), "http.ResponseWriter).WriteHeader") {
				if k, ok := constInt(call.Common().Args[0]); ok && k == 200 {
					ok200 = append(ok200, call)
				}
			}
		}
		if len(ok200) == 0 {
			r.unresolved("C32.R1", h.label+" success status", "no WriteHeader(200) found")
			continue
		}
		for _, w := range ok200 {
			guardVerdict(m, r, "C32.R1", h.label+": 200 only after forward and acknowledgement errors were nil", fn, w.(ssa.Instruction),
				Guard{cl(atomErrNil(fwd, ack))})
			// paths that leave the forward call with a non-nil error cannot reach the 200 (it is guarded
			// by the nil-ness of an error whose only origins are the forward and the acknowledgement
			// check — previous obligation), so they need not pass the acknowledgement check
			fwdFailed := passEdges(fn, []Atom{atomFn("forward failed", func(l Lit) bool {
				return l.Op == token.NEQ && isNilConst(l.Y) && isExtractOf(l.X, 1, fwd)
			})})
			found, _, wpath := search(SearchSpec{Start: Loc{fn.Blocks[0], 0}, Target: func(in ssa.Instruction) bool { return in == w.(ssa.Instruction) },
				Removed: func(b *ssa.BasicBlock, si int) bool { _, ok := fwdFailed[edge{b, si}]; return ok },
				Blocker: func(in ssa.Instruction) bool { return isCallTo(in, ack) }})
			okAck, path := !found, renderPath(m, wpath)
			if okAck {
				r.ok("C32.R1", h.label+": the broker's reply is inspected before 200", m.Pos(w.Pos()), "")
			} else {
				r.viol("C32.R1", h.label+": the broker's reply is inspected before 200", m.Pos(w.Pos()), "200 reachable without lfsProduceAckError: a per-partition rejection by the broker is reported as success: "+path)
			}
			guardVerdict(m, r, "C32.R2", h.label+": 200 only after the S3 write succeeded", fn, w.(ssa.Instruction), Guard{cl(atomErrNil(h.s3call))})
		}
		for _, ac := range findCalls(fn, ack) {
			if isExtractOf(ac.Common().Args[0], 0, fwd) {
				r.ok("C32.R1", h.label+": the inspected bytes are the reply forwardToBackend returned", m.Pos(ac.Pos()), "")
			} else {
				r.viol("C32.R1", h.label+": the inspected bytes are the reply forwardToBackend returned", m.Pos(ac.Pos()), "argument is "+describe(ac.Common().Args[0]))
			}
		}
		// discarded forward results
		for _, fc := range findCalls(fn, fwd) {
			used := false
			if v := fc.Value(); v != nil && v.Referrers() != nil {
				for _, ref := range *v.Referrers() {
					if e, ok := ref.(*ssa.Extract); ok && e.Index == 0 && e.Referrers() != nil && len(*e.Referrers()) > 0 {
						used = true
					}
				}
			}
			if used {
				r.ok("C32.R1", h.label+": the reply of forwardToBackend is not discarded", m.Pos(fc.Pos()), "")
			} else {
				r.viol("C32.R1", h.label+": the reply of forwardToBackend is not discarded", m.Pos(fc.Pos()), "the byte result is dropped (`_`)")
			}
		}

		// ---- R2 envelope provenance
		var envAlloc *ssa.Alloc
		for _, ec := range findCalls(fn, pkgLFS+".EncodeEnvelope") {
			backSlice(ec.Common().Args[0], false, func(v ssa.Value) {
				if a, ok := v.(*ssa.Alloc); ok && strings.HasSuffix(a.Type().String(), "lfs.Envelope") {
					envAlloc = a
				}
			})
		}
		if envAlloc == nil {
			r.unresolved("C32.R2", h.label+" envelope literal", "not found")
			continue
		}
		fs := fieldStores(envAlloc)
		chk := func(field, what string, okf func(v ssa.Value) bool) {
			key := h.label + ": envelope." + field + " " + what
			if len(fs[field]) == 1 && okf(fs[field][0].Val) {
				r.ok("C32.R2", key, m.Pos(fs[field][0].Pos()), "")
			} else if len(fs[field]) == 1 {
				r.viol("C32.R2", key, m.Pos(fs[field][0].Pos()), "value is "+describe(fs[field][0].Val))
			} else {
				r.viol("C32.R2", key, m.Pos(envAlloc.Pos()), fmt.Sprintf("field set %d times", len(fs[field])))
			}
		}
		s3calls := findCalls(fn, h.s3call)
		if len(s3calls) != 1 {
			r.unresolved("C32.R2", h.label+" S3 write call", fmt.Sprintf("found %d", len(s3calls)))
			continue
		}
		s3args := s3calls[0].Common().Args // recv, ctx, key, …
		chk("Key", "is the key the object was written under", func(v ssa.Value) bool {
			return strip(v) == strip(s3args[2]) || describe(v) == describe(s3args[2])
		})
		if h.label == "handleHTTPProduce" {
			chk("Size", "is the uploader's byte count", func(v ssa.Value) bool { return isExtractOf(v, 3, h.s3call) })
			chk("SHA256", "is the uploader's SHA-256", func(v ssa.Value) bool { return isExtractOf(v, 0, h.s3call) })
		} else {
			chk("Size", "is the session's byte count", func(v ssa.Value) bool { _, f, _, ok := fieldOf(v); return ok && f == "TotalUploaded" })
			chk("SHA256", "is the digest accumulated by the session hasher", func(v ssa.Value) bool {
				ec, ok := strip(v).(*ssa.Call)
				return ok && calleeName(&ec.Call) == "encoding/hex.EncodeToString" && dependsOnField(ec.Call.Args[0], "", "sha256Hasher")
			})
		}
		// the 200 body encodes that envelope
		okBody := false
		for _, call := range callsIn(fn) {
			if calleeName(call.Common()) == "(*encoding/json.Encoder).Encode" {
				hit := false
				backSlice(call.Common().Args[1], false, func(v ssa.Value) {
					if v == ssa.Value(envAlloc) {
						hit = true
					}
				})
				if hit {
					for _, w := range ok200 {
						if instrDominates(w.(ssa.Instruction), call.(ssa.Instruction)) {
							okBody = true
						}
					}
				}
			}
		}
		if okBody {
			r.ok("C32.R2", h.label+": the 200 body is the produced envelope", m.Pos(ok200[0].Pos()), "")
		} else {
			r.viol("C32.R2", h.label+": the 200 body is the produced envelope", m.Pos(ok200[0].Pos()), "the reply does not encode the envelope that was sent to the broker")
		}
		// declared checksum compared (EqualFold) before success
		cmpFound := false
		for _, call := range findCalls(fn, "strings.EqualFold") {
			// the failing branch (not equal) must not reach 200
			for _, br := range ifsOnAny(fn, call.Value()) {
				if f, _, _ := search(SearchSpec{Start: Loc{br.F, 0}, Target: func(in ssa.Instruction) bool {
					for _, w := range ok200 {
						if in == ssa.Instruction(w) {
							return true
						}
					}
					return false
				}}); !f {
					cmpFound = true
				}
			}
		}
		if cmpFound {
			r.ok("C32.R2", h.label+": a declared checksum that does not match never reaches 200", m.Pos(fn.Pos()), "")
		} else {
			r.viol("C32.R2", h.label+": a declared checksum that does not match never reaches 200", m.Pos(fn.Pos()), "no EqualFold comparison whose mismatch branch excludes the success reply")
		}
	}

	// ---- lfsProduceAckError itself
	if af := needFn(m, r, "C32.R1", pkgProxy, "lfsProduceAckError"); af != nil {
		// a non-zero code leads to a non-nil error from inside the scan
		okScan := false
		for _, b := range af.Blocks {
			ifi, ok := b.Instrs[len(b.Instrs)-1].(*ssa.If)
			if !ok {
				continue
			}
			l := litOf(ifi.Cond, true)
			if l.Op != token.NEQ {
				continue
			}
			if _, f, _, ok := fieldOf(l.X); !ok || f != "ErrorCode" {
				continue
			}
			if k, ok := constInt(l.Y); !ok || k != 0 {
				continue
			}
			tgt := followJumps(b.Succs[0])
			if ret, ok := tgt.Instrs[len(tgt.Instrs)-1].(*ssa.Return); ok && !alwaysNil(ret.Results[0]) {
				inLoop := false
				for d := b; d != nil; d = d.Idom() {
					if d.Comment == "rangeindex.body" {
						inLoop = true
					}
				}
				okScan = inLoop
			}
		}
		if okScan {
			r.ok("C32.R1", "lfsProduceAckError: a non-zero partition code returns an error from inside the scan", m.Pos(af.Pos()), "")
		} else {
			r.viol("C32.R1", "lfsProduceAckError: a non-zero partition code returns an error from inside the scan", m.Pos(af.Pos()), "no `part.ErrorCode != 0 → return err` inside the partition loop")
		}
		for _, b := range af.Blocks {
			ret, ok := b.Instrs[len(b.Instrs)-1].(*ssa.Return)
			if !ok || !alwaysNil(ret.Results[0]) {
				continue
			}
			inLoop := false
			for d := b; d != nil; d = d.Idom() {
				if d.Comment == "rangeindex.body" {
					inLoop = true
				}
			}
			g := Guard{cl(atomErrNil(pkgProxy + ".parseProduceResponse"))}
			res := checkGuarded(m, af, ret, g)
			if !inLoop && res.OK {
				r.ok("C32.R1", "lfsProduceAckError: nil only after decoding and the complete scan", m.Pos(ret.Pos()), "")
			} else {
				r.viol("C32.R1", "lfsProduceAckError: nil only after decoding and the complete scan", m.Pos(ret.Pos()), "a nil return is reachable from inside the scan or without a decoded reply")
			}
		}
	}

	// ---- R3
	if uc := m.Func(pkgProxy, "(*lfsModule).handleHTTPUploadComplete"); uc != nil {
		cm := findCalls(uc, "~s3Uploader).CompleteMultipartUpload")
		if len(cm) == 1 {
			call := cm[0]
			parts := call.Common().Args[4]
			// every append feeding `parts` takes its ETag from session.Parts and its number from ranging it
			okSrv := true
			why := ""
			n := 0
			for _, site := range elemSitesT(uc, "types.CompletedPart") {
				n++
				if site.Alloc == nil {
					okSrv, why = false, "non-literal part"
					continue
				}
				fsp := fieldStores(site.Alloc)
				for _, f := range []string{"ETag", "PartNumber"} {
					if len(fsp[f]) != 1 {
						okSrv, why = false, f+" not set once"
						continue
					}
					if !dependsOnField(fsp[f][0].Val, pkgProxy+".uploadSession", "Parts") {
						okSrv, why = false, f+" is "+describe(fsp[f][0].Val)+" (client-supplied), not taken from session.Parts"
					}
				}
			}
			_ = parts
			if n > 0 && okSrv {
				r.ok("C32.R3", "completion parts are built from the server-side session.Parts", m.Pos(call.Pos()), "")
			} else {
				r.viol("C32.R3", "completion parts are built from the server-side session.Parts", m.Pos(call.Pos()), why)
			}
			lenOf := func(v ssa.Value, field string) bool {
				lc, ok := strip(v).(*ssa.Call)
				if !ok || calleeName(&lc.Call) != "builtin.len" {
					return false
				}
				if field == "" {
					return !dependsOnField(lc.Call.Args[0], pkgProxy+".uploadSession", "Parts")
				}
				return dependsOnField(lc.Call.Args[0], pkgProxy+".uploadSession", field)
			}
			guardVerdict(m, r, "C32.R3", "completion requires the client's list to cover every uploaded part", uc, call.(ssa.Instruction),
				Guard{cl(atomFn("len(listed) == len(session.Parts)", func(l Lit) bool {
					if l.Op != token.EQL {
						return false
					}
					return (lenOf(l.X, "") && lenOf(l.Y, "Parts")) || (lenOf(l.Y, "") && lenOf(l.X, "Parts"))
				}))})
			guardVerdict(m, r, "C32.R3", "completion requires all declared bytes to have arrived", uc, call.(ssa.Instruction),
				Guard{cl(atomFn("TotalUploaded == SizeBytes", func(l Lit) bool {
					if l.Op != token.EQL {
						return false
					}
					_, f1, _, ok1 := fieldOf(l.X)
					_, f2, _, ok2 := fieldOf(l.Y)
					return ok1 && ok2 && ((f1 == "TotalUploaded" && f2 == "SizeBytes") || (f2 == "TotalUploaded" && f1 == "SizeBytes"))
				}))})
		} else {
			r.unresolved("C32.R3", "CompleteMultipartUpload call", fmt.Sprintf("found %d", len(cm)))
		}
	}
}

// ifsOnAny: branches whose condition is built from v through negation / short-circuit only.
func ifsOnAny(fn *ssa.Function, v ssa.Value) []branch {
	var out []branch
	if v == nil {
		return nil
	}
	for _, b := range fn.Blocks {
		if ifi, ok := b.Instrs[len(b.Instrs)-1].(*ssa.If); ok {
			l := litOf(ifi.Cond, true)
			if l.Op == token.ILLEGAL && l.X == v {
				if l.Neg {
					out = append(out, branch{ifi, b.Succs[1], b.Succs[0]})
				} else {
					out = append(out, branch{ifi, b.Succs[0], b.Succs[1]})
				}
			}
		}
	}
	return out
}

// checkUploaderErrors: each write method of s3Uploader returns a nil error only on a path where the
// most recent finishing S3 call's error was tested nil (a swallowed NoSuchUpload, a dropped retry
// error, … would let the HTTP handler answer 200 for an object that was never assembled).
func checkUploaderErrors(m *Module, r *Report) {
	table := []struct {
		method string
		calls  []string
	}{
		{"(*s3Uploader).Upload", []string{"~.PutObject", "~s3Uploader).multipartUpload"}},
		{"(*s3Uploader).UploadStream", []string{"~.CompleteMultipartUpload", "~.PutObject", "~s3Uploader).Upload"}},
		{"(*s3Uploader).UploadPart", []string{"~.UploadPart"}},
		{"(*s3Uploader).CompleteMultipartUpload", []string{"~.CompleteMultipartUpload"}},
		{"(*s3Uploader).multipartUpload", []string{"~.CompleteMultipartUpload"}},
	}
	for _, t := range table {
		fn := needFn(m, r, "C32.R4", pkgProxy, t.method)
		if fn == nil {
			continue
		}
		r.fn(fn)
		g := Guard{cl(atomErrNil(t.calls...)).re(t.calls...)}
		key := t.method + " returns nil only after its finishing S3 call succeeded"
		n, why := 0, ""
		for _, b := range fn.Blocks {
			ret, ok := b.Instrs[len(b.Instrs)-1].(*ssa.Return)
			if !ok || len(ret.Results) == 0 {
				continue
			}
			errRes := ret.Results[len(ret.Results)-1]
			canNil := false
			for _, o := range origins(errRes) {
				if isNilConst(o) {
					canNil = true
				}
			}
			if nilness(errRes, b) == isNonNil {
				continue // an error return: the value was just tested non-nil
			}
			if !canNil {
				// handing back the finishing call's own error is the other accepted shape
				pass := len(origins(errRes)) > 0
				for _, o := range origins(errRes) {
					var c *ssa.Call
					switch x := strip(o).(type) {
					case *ssa.Extract:
						c, _ = x.Tuple.(*ssa.Call)
					case *ssa.Call:
						c = x
					}
					if c == nil || !nameMatches(calleeName(&c.Call), t.calls...) {
						pass = false
					}
				}
				if pass {
					n++
				}
				continue
			}
			n++
			if res := checkGuarded(m, fn, ret, g); !res.OK {
				why = "success is reported at " + m.Pos(ret.Pos()) + " although the finishing S3 call was not seen to succeed: " + res.String()
			}
		}
		switch {
		case n == 0:
			r.unresolved("C32.R4", key, "no success return found")
		case why != "":
			r.viol("C32.R4", key, m.Pos(fn.Pos()), why)
		default:
			r.ok("C32.R4", key, m.Pos(fn.Pos()), fmt.Sprintf("%d success return(s)", n))
		}
	}
}
