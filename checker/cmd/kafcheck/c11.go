package main

import (
	"fmt"
	"go/ast"
	"go/constant"
	"go/parser"
	"go/token"
	"go/types"
	"os"
	"os/exec"
	"path/filepath"
	"sort"
	"strconv"
	"strings"

	"golang.org/x/tools/go/packages"
	"golang.org/x/tools/go/ssa"
)

func init() { register("C11", "other", checkC11) }

type kmsgInfo struct {
	Key        map[string]int64 // type name → Key()
	MaxVersion map[string]int64
	FlexFrom   map[string]int64 // IsFlexible: Version >= N (-1 = never)
}

// loadKmsg parses the one-line Key/MaxVersion/IsFlexible methods of franz-go's generated kmsg types.
func loadKmsg(repo string) (*kmsgInfo, error) {
	goEnv()
	cmd := exec.Command("go", "list", "-f", "{{.Dir}}", "github.com/twmb/franz-go/pkg/kmsg")
	cmd.Dir = repo
	cmd.Env = os.Environ()
	out, err := cmd.Output()
	if err != nil {
		return nil, fmt.Errorf("go list kmsg: %v", err)
	}
	dir := strings.TrimSpace(string(out))
	fset := token.NewFileSet()
	info := &kmsgInfo{Key: map[string]int64{}, MaxVersion: map[string]int64{}, FlexFrom: map[string]int64{}}
	files, _ := filepath.Glob(filepath.Join(dir, "*.go"))
	for _, f := range files {
		if strings.HasSuffix(f, "_test.go") {
			continue
		}
		af, err := parser.ParseFile(fset, f, nil, parser.SkipObjectResolution)
		if err != nil {
			return nil, err
		}
		for _, d := range af.Decls {
			fd, ok := d.(*ast.FuncDecl)
			if !ok || fd.Recv == nil || len(fd.Recv.List) != 1 || fd.Body == nil || len(fd.Body.List) != 1 {
				continue
			}
			name := fd.Name.Name
			if name != "Key" && name != "MaxVersion" && name != "IsFlexible" {
				continue
			}
			st, ok := fd.Recv.List[0].Type.(*ast.StarExpr)
			if !ok {
				continue
			}
			id, ok := st.X.(*ast.Ident)
			if !ok {
				continue
			}
			ret, ok := fd.Body.List[0].(*ast.ReturnStmt)
			if !ok || len(ret.Results) != 1 {
				continue
			}
			switch name {
			case "Key", "MaxVersion":
				if bl, ok := ret.Results[0].(*ast.BasicLit); ok {
					n, _ := strconv.ParseInt(bl.Value, 10, 64)
					if name == "Key" {
						info.Key[id.Name] = n
					} else {
						info.MaxVersion[id.Name] = n
					}
				}
			case "IsFlexible":
				switch e := ret.Results[0].(type) {
				case *ast.Ident:
					if e.Name == "false" {
						info.FlexFrom[id.Name] = -1
					}
				case *ast.BinaryExpr:
					if bl, ok := e.Y.(*ast.BasicLit); ok && e.Op == token.GEQ {
						n, _ := strconv.ParseInt(bl.Value, 10, 64)
						info.FlexFrom[id.Name] = n
					}
				}
			}
		}
	}
	if len(info.Key) < 50 {
		return nil, fmt.Errorf("parsed only %d kmsg Key() methods from %s", len(info.Key), dir)
	}
	return info, nil
}

type apiRange struct{ key, min, max int64 }

// apiVersionTable extracts {key,min,max} triples from the first composite literal of struct elements
// in function `fname` of package p (AST + constant evaluation).
func apiVersionTable(p *packages.Package, fname string) ([]apiRange, token.Pos) {
	var out []apiRange
	var pos token.Pos
	for _, f := range p.Syntax {
		for _, d := range f.Decls {
			fd, ok := d.(*ast.FuncDecl)
			if !ok || fd.Name.Name != fname || fd.Body == nil {
				continue
			}
			pos = fd.Pos()
			ast.Inspect(fd.Body, func(n ast.Node) bool {
				cl, ok := n.(*ast.CompositeLit)
				if !ok || len(out) > 0 {
					return true
				}
				var rows []apiRange
				for _, el := range cl.Elts {
					row, ok := el.(*ast.CompositeLit)
					if !ok || len(row.Elts) != 3 {
						return true
					}
					var vals [3]int64
					for i, e := range row.Elts {
						if kv, ok := e.(*ast.KeyValueExpr); ok {
							e = kv.Value
						}
						tv, ok := p.TypesInfo.Types[e]
						if !ok || tv.Value == nil || tv.Value.Kind() != constant.Int {
							return true
						}
						vals[i], _ = constant.Int64Val(tv.Value)
					}
					rows = append(rows, apiRange{vals[0], vals[1], vals[2]})
				}
				if len(rows) > 5 {
					out = rows
				}
				return true
			})
		}
	}
	return out, pos
}

func checkC11(c *Ctx, r *Report) {
	r.Explanation = "Decides table-agreement conditions necessary for 'every advertised API version is served with a decodable response': (T1) every key the broker advertises with min>=0 has a case for the kmsg request type with that Key() in (*handler).Handle's type switch; (T2) 0<=min<=max<=MaxVersion() of the kmsg request type, for broker and proxy tables; (T3) no version guard of the form header.APIVersion <op> K that leads directly to an error return rejects a version inside the advertised range of the API whose handler contains it; (T4) the proxy advertises a sub-range of the broker per key; (T5) every protocol.EncodeResponse call encodes the response type paired with the request type of the case / handler it is in, with header.CorrelationID and header.APIVersion (ApiVersions' downgrade to 0 is the one listed exception), and EncodeResponse derives the header shape from resp.IsFlexible() except for key 18. It does not decide that field contents decode, nor unadvertised versions."
	r.NotCovered = "that field contents decode at each version; behaviour for unadvertised versions; kmsg's own encoders"
	m, err := c.Mod("root")
	if err != nil {
		r.unresolved("C11.load", "root module", err.Error())
		return
	}
	r.rule("C11.T1", "each advertised key (min>=0) has a case *kmsg.XRequest with that Key() in Handle's type switch", 21)
	r.rule("C11.T2", "0 <= min <= max <= kmsg MaxVersion() for broker and proxy tables", 42)
	r.rule("C11.T3", "version guards that return an error reject no advertised version", 1)
	r.rule("C11.T4", "proxy advertised range ⊆ broker advertised range per key", 21)
	r.rule("C11.T5", "EncodeResponse calls are paired: *kmsg.XResponse in the XRequest case/handler, header.CorrelationID, header.APIVersion; header shape from IsFlexible() except key 18", 25)

	km, err := loadKmsg(c.Repo)
	if err != nil {
		r.unresolved("C11.kmsg", "kmsg source", err.Error())
		return
	}
	keyToReq := map[int64]string{}
	for name, k := range km.Key {
		if strings.HasSuffix(name, "Request") {
			keyToReq[k] = name
		}
	}
	bp := m.ByPath[pkgBroker]
	pp := m.ByPath[pkgProxy]
	if bp == nil || pp == nil {
		r.unresolved("C11.load", "cmd/broker or cmd/proxy", "package not loaded")
		return
	}
	btab, bpos := apiVersionTable(bp, "generateApiVersions")
	ptab, ppos := apiVersionTable(pp, "generateProxyApiVersions")
	if len(btab) == 0 || len(ptab) == 0 {
		r.unresolved("C11.T1", "advertised tables", fmt.Sprintf("broker %d rows, proxy %d rows", len(btab), len(ptab)))
		return
	}
	// Handle's type switch cases
	cases := map[string]bool{}
	for _, f := range bp.Syntax {
		for _, d := range f.Decls {
			fd, ok := d.(*ast.FuncDecl)
			if !ok || fd.Name.Name != "Handle" || fd.Recv == nil {
				continue
			}
			ast.Inspect(fd.Body, func(n ast.Node) bool {
				ts, ok := n.(*ast.TypeSwitchStmt)
				if !ok {
					return true
				}
				for _, s := range ts.Body.List {
					cc := s.(*ast.CaseClause)
					for _, e := range cc.List {
						if t := bp.TypesInfo.TypeOf(e); t != nil {
							cases[types.TypeString(t, func(*types.Package) string { return "" })] = true
						}
					}
				}
				return false
			})
		}
	}
	brange := map[int64]apiRange{}
	for _, row := range btab {
		brange[row.key] = row
		req := keyToReq[row.key]
		key := fmt.Sprintf("broker key %d (%s)", row.key, strings.TrimSuffix(req, "Request"))
		if req == "" {
			r.viol("C11.T1", key, m.Pos(bpos), "no kmsg request type has this Key()")
			continue
		}
		if cases["*"+req] {
			r.ok("C11.T1", key, m.Pos(bpos), "case *kmsg."+req)
		} else {
			r.viol("C11.T1", key, m.Pos(bpos), "advertised but Handle has no case *kmsg."+req)
		}
		mv := km.MaxVersion[req]
		if 0 <= row.min && row.min <= row.max && row.max <= mv {
			r.ok("C11.T2", key+" range", m.Pos(bpos), fmt.Sprintf("[%d,%d] ⊆ [0,%d]", row.min, row.max, mv))
		} else {
			r.viol("C11.T2", key+" range", m.Pos(bpos), fmt.Sprintf("[%d,%d] not within codec range [0,%d]", row.min, row.max, mv))
		}
	}
	for _, row := range ptab {
		req := keyToReq[row.key]
		key := fmt.Sprintf("proxy key %d (%s)", row.key, strings.TrimSuffix(req, "Request"))
		mv := km.MaxVersion[req]
		if req != "" && 0 <= row.min && row.min <= row.max && row.max <= mv {
			r.ok("C11.T2", key+" range", m.Pos(ppos), fmt.Sprintf("[%d,%d] ⊆ [0,%d]", row.min, row.max, mv))
		} else {
			r.viol("C11.T2", key+" range", m.Pos(ppos), fmt.Sprintf("[%d,%d] not within codec range [0,%d]", row.min, row.max, mv))
		}
		b, ok := brange[row.key]
		if ok && b.min <= row.min && row.max <= b.max {
			r.ok("C11.T4", key+" ⊆ broker", m.Pos(ppos), fmt.Sprintf("[%d,%d] ⊆ [%d,%d]", row.min, row.max, b.min, b.max))
		} else {
			r.viol("C11.T4", key+" ⊆ broker", m.Pos(ppos), fmt.Sprintf("proxy advertises [%d,%d], broker [%d,%d] (present=%v)", row.min, row.max, b.min, b.max, ok))
		}
	}

	// ---- T3 / T5: per function with a *kmsg.XRequest parameter, and per case of Handle
	reqOfFn := func(fn *ssa.Function) string {
		for _, p := range fn.Params {
			ts := p.Type().String()
			if strings.HasPrefix(ts, "*github.com/twmb/franz-go/pkg/kmsg.") && strings.HasSuffix(ts, "Request") {
				return strings.TrimPrefix(ts, "*github.com/twmb/franz-go/pkg/kmsg.")
			}
		}
		return ""
	}
	// caseOf: the request type whose type-switch case dominates instruction `at` in Handle (or the
	// creation of the closure containing it).
	var caseOf func(at ssa.Instruction) string
	caseOf = func(at ssa.Instruction) string {
		fn := at.Parent()
		if fn.Parent() != nil {
			// find the MakeClosure in the parent
			for _, b := range fn.Parent().Blocks {
				for _, in := range b.Instrs {
					if mc, ok := in.(*ssa.MakeClosure); ok && mc.Fn == ssa.Value(fn) {
						return caseOf(mc)
					}
				}
			}
			return ""
		}
		if rq := reqOfFn(fn); rq != "" {
			return rq
		}
		best := ""
		for _, b := range fn.Blocks {
			ifi, ok := b.Instrs[len(b.Instrs)-1].(*ssa.If)
			if !ok {
				continue
			}
			l := litOf(ifi.Cond, true)
			if l.Op != token.ILLEGAL || l.Neg {
				continue
			}
			ex, ok := l.X.(*ssa.Extract)
			if !ok {
				continue
			}
			ta, ok := ex.Tuple.(*ssa.TypeAssert)
			if !ok || !ta.CommaOk {
				continue
			}
			ts := ta.AssertedType.String()
			if !strings.HasPrefix(ts, "*github.com/twmb/franz-go/pkg/kmsg.") || !strings.HasSuffix(ts, "Request") {
				continue
			}
			s := b.Succs[0]
			if len(s.Preds) == 1 && s.Dominates(at.Block()) {
				best = strings.TrimPrefix(ts, "*github.com/twmb/franz-go/pkg/kmsg.")
			}
		}
		return best
	}
	var fns []*ssa.Function
	for _, fn := range m.FuncsInPkg(pkgBroker) {
		fns = append(fns, fn)
	}
	sort.Slice(fns, func(i, j int) bool { return fns[i].Pos() < fns[j].Pos() })
	for _, fn := range fns {
		for _, enc := range findCalls(fn, pkgProtocol+".EncodeResponse") {
			r.CallSites++
			r.fn(fn)
			args := enc.Common().Args
			req := caseOf(enc)
			respT := ""
			if mi, ok := args[2].(*ssa.MakeInterface); ok {
				respT = strings.TrimPrefix(mi.X.Type().String(), "*github.com/twmb/franz-go/pkg/kmsg.")
			}
			key := fmt.Sprintf("EncodeResponse in %s (%s)", funcName(fn), respT)
			var bad []string
			if req == "" {
				bad = append(bad, "cannot determine which request case this call belongs to")
			} else if strings.TrimSuffix(req, "Request")+"Response" != respT {
				bad = append(bad, fmt.Sprintf("encodes %s in the %s path", respT, req))
			}
			if _, f, _, ok := fieldOf(args[0]); !ok || f != "CorrelationID" {
				bad = append(bad, "correlation id is "+describe(args[0])+", not header.CorrelationID")
			}
			verOK := false
			if _, f, _, ok := fieldOf(args[1]); ok && f == "APIVersion" {
				verOK = true
			} else if req == "ApiVersionsRequest" {
				// listed exception: phi(header.APIVersion, 0)
				verOK = true
				for _, o := range origins(args[1]) {
					_, f, _, okf := fieldOf(o)
					k, okc := constInt(o)
					if !(okf && f == "APIVersion") && !(okc && k == 0) {
						verOK = false
					}
				}
			}
			if !verOK {
				bad = append(bad, "version argument is "+describe(args[1])+", not header.APIVersion")
			}
			if len(bad) == 0 {
				r.ok("C11.T5", key, m.Pos(enc.Pos()), "paired with "+req)
			} else {
				r.viol("C11.T5", key, m.Pos(enc.Pos()), strings.Join(bad, "; "))
			}
		}
		// T3: version guards
		for _, b := range fn.Blocks {
			ifi, ok := b.Instrs[len(b.Instrs)-1].(*ssa.If)
			if !ok {
				continue
			}
			for si, truth := range []bool{true, false} {
				l := litOf(ifi.Cond, truth)
				if l.Op == token.ILLEGAL {
					continue
				}
				_, f, _, okf := fieldOf(l.X)
				k, okc := constInt(l.Y)
				if !okf || f != "APIVersion" || !okc {
					continue
				}
				// does this edge lead directly to an error return?
				s := b.Succs[si]
				rejects := false
				if ret, ok := s.Instrs[len(s.Instrs)-1].(*ssa.Return); ok && len(ret.Results) == 2 && !alwaysNil(ret.Results[1]) && len(s.Preds) == 1 {
					rejects = true
				}
				if !rejects {
					continue
				}
				req := caseOf(ifi)
				key := fmt.Sprintf("version guard APIVersion %s %d in %s", l.Op, k, funcName(fn))
				if req == "" {
					r.undecided("C11.T3", key, m.Pos(ifi.Pos()), "cannot determine the API this guard belongs to")
					continue
				}
				rg, okr := brange[km.Key[req]]
				if !okr {
					r.add("C11.T3", key, m.Pos(ifi.Pos()), Info, req+" is not advertised")
					continue
				}
				var rejected []int64
				for v := rg.min; v <= rg.max; v++ {
					hit := false
					switch l.Op {
					case token.GTR:
						hit = v > k
					case token.GEQ:
						hit = v >= k
					case token.LSS:
						hit = v < k
					case token.LEQ:
						hit = v <= k
					case token.EQL:
						hit = v == k
					case token.NEQ:
						hit = v != k
					}
					if hit {
						rejected = append(rejected, v)
					}
				}
				if len(rejected) == 0 {
					r.ok("C11.T3", key, m.Pos(ifi.Pos()), fmt.Sprintf("rejects nothing in advertised [%d,%d] of %s", rg.min, rg.max, req))
				} else {
					r.viol("C11.T3", key, m.Pos(ifi.Pos()), fmt.Sprintf("rejects advertised versions %v of %s (advertised [%d,%d])", rejected, req, rg.min, rg.max))
				}
			}
		}
	}
	// EncodeResponse header rule
	// the same two header arguments at every other EncodeResponse call of the module (the server's
	// error reply, the proxy's merged and local replies): the reply is encoded at the version the
	// client asked in, with the client's correlation id
	for _, pk := range []string{pkgBrokerLib, pkgProxy} {
		var pfns []*ssa.Function
		for _, fn0 := range m.FuncsInPkg(pk) {
			pfns = append(pfns, withAnon(fn0)...)
		}
		sort.Slice(pfns, func(i, j int) bool { return pfns[i].Pos() < pfns[j].Pos() })
		seenKey := map[string]int{}
		for _, fn := range pfns {
			for _, enc := range findCalls(fn, pkgProtocol+".EncodeResponse") {
				r.CallSites++
				r.fn(fn)
				args := enc.Common().Args
				key := fmt.Sprintf("EncodeResponse in %s uses the request's correlation id and version", funcName(fn))
				seenKey[key]++
				if seenKey[key] > 1 {
					key = fmt.Sprintf("%s [%d]", key, seenKey[key])
				}
				var bad []string
				if _, f, _, ok := fieldOf(args[0]); !ok || f != "CorrelationID" {
					bad = append(bad, "correlation id is "+describe(args[0])+", not header.CorrelationID")
				}
				verOK := true
				for _, o := range origins(args[1]) {
					_, f, _, okf := fieldOf(o)
					k, okc := constInt(o)
					if !(okf && f == "APIVersion") && !(okc && k == 0) {
						verOK = false
					}
				}
				if len(origins(args[1])) == 0 {
					verOK = false
				}
				if !verOK {
					bad = append(bad, "version argument is "+describe(args[1])+", not header.APIVersion: the client cannot decode a reply encoded at another version")
				}
				if len(bad) == 0 {
					r.ok("C11.T5", key, m.Pos(enc.Pos()), "")
				} else {
					r.viol("C11.T5", key, m.Pos(enc.Pos()), strings.Join(bad, "; "))
				}
			}
		}
	}
	if er := needFn(m, r, "C11.T5", pkgProtocol, "EncodeResponse"); er != nil {
		okFlex, okKey := false, false
		for _, call := range callsIn(er) {
			n := calleeName(call.Common())
			if strings.HasSuffix(n, "kmsg.Response).IsFlexible") {
				okFlex = true
			}
			if strings.HasSuffix(n, "kmsg.Response).Key") {
				okKey = true
			}
		}
		k18 := false
		for _, b := range er.Blocks {
			for _, in := range b.Instrs {
				if bo, ok := in.(*ssa.BinOp); ok && (bo.Op == token.NEQ || bo.Op == token.EQL) {
					if k, ok := constInt(bo.Y); ok && k == 18 {
						k18 = true
					}
				}
			}
		}
		if okFlex && okKey && k18 {
			r.ok("C11.T5", "EncodeResponse header shape from IsFlexible() except key 18", m.Pos(er.Pos()), "")
		} else {
			r.viol("C11.T5", "EncodeResponse header shape from IsFlexible() except key 18", m.Pos(er.Pos()), fmt.Sprintf("IsFlexible used=%v Key used=%v compared with 18=%v", okFlex, okKey, k18))
		}
	}
	// ---- T6: the response header writer
	r.rule("C11.T6", "encodeResponseHeader writes the correlation id big-endian at bytes 0..3 (byte k = id >> 8*(3-k)) of every buffer it returns, followed for flexible headers by one zero byte; EncodeResponse passes its correlationID parameter through", 2)
	if eh := needFn(m, r, "C11.T6", pkgProtocol, "encodeResponseHeader"); eh != nil {
		corr := eh.Params[0]
		type bufInfo struct {
			pos    token.Pos
			shifts map[int64]int64 // byte index → shift amount of the correlation id
			other  map[int64]string
			size   int64
		}
		bufs := map[ssa.Value]*bufInfo{}
		rootOf := func(v ssa.Value) ssa.Value {
			v = strip(v)
			if sl, ok := v.(*ssa.Slice); ok && sl.Low == nil && sl.High == nil {
				return sl.X
			}
			return v
		}
		for _, b := range eh.Blocks {
			for _, in := range b.Instrs {
				st, ok := in.(*ssa.Store)
				if !ok {
					continue
				}
				ia, ok := st.Addr.(*ssa.IndexAddr)
				if !ok {
					continue
				}
				k, ok := constInt(ia.Index)
				if !ok {
					r.undecided("C11.T6", "encodeResponseHeader byte stores have constant indexes", m.Pos(st.Pos()), "index "+describe(ia.Index))
					continue
				}
				root := rootOf(ia.X)
				if a, ok := root.(*ssa.Alloc); ok && a.Comment == "varargs" {
					continue // the temporary array of append(buf, 0): the appended tagged-field byte
				}
				bi := bufs[root]
				if bi == nil {
					bi = &bufInfo{pos: st.Pos(), shifts: map[int64]int64{}, other: map[int64]string{}, size: constLenOf(ia.X)}
					bufs[root] = bi
				}
				val := st.Val
				if cv, ok := val.(*ssa.Convert); ok {
					val = cv.X
				}
				switch x := val.(type) {
				case *ssa.BinOp:
					if sh, ok := constInt(x.Y); ok && x.Op == token.SHR && strip(x.X) == ssa.Value(corr) {
						bi.shifts[k] = sh
						continue
					}
				case *ssa.Parameter:
					if x == corr {
						bi.shifts[k] = 0
						continue
					}
				}
				if c0, ok := constInt(st.Val); ok {
					bi.other[k] = fmt.Sprintf("%d", c0)
				} else {
					bi.other[k] = describe(st.Val)
				}
			}
		}
		if len(bufs) == 0 {
			// binary.BigEndian.PutUint32 form
			puts := findCalls(eh, "(encoding/binary.bigEndian).PutUint32")
			okPut := false
			for _, p := range puts {
				if dependsOnParam(p.Common().Args[2], corr) {
					okPut = true
				}
			}
			if okPut {
				r.ok("C11.T6", "correlation id is written big-endian", m.Pos(eh.Pos()), "binary.BigEndian.PutUint32")
			} else {
				r.unresolved("C11.T6", "correlation id byte stores", "neither byte stores nor PutUint32 found")
			}
		}
		for _, bi := range bufs {
			want := map[int64]int64{0: 24, 1: 16, 2: 8, 3: 0}
			bad := ""
			for k, sh := range want {
				if got, ok := bi.shifts[k]; !ok {
					bad = fmt.Sprintf("byte %d does not receive the correlation id", k)
				} else if got != sh {
					bad = fmt.Sprintf("byte %d receives id >> %d, big-endian needs id >> %d: ids above 65535 are echoed with swapped bytes", k, got, sh)
				}
			}
			for k := range bi.shifts {
				if k > 3 {
					bad = fmt.Sprintf("byte %d also receives correlation id bits", k)
				}
			}
			for k, v := range bi.other {
				if k != 4 || v != "0" {
					bad = fmt.Sprintf("byte %d is set to %s", k, v)
				}
			}
			key := fmt.Sprintf("%d-byte response header carries the correlation id big-endian", bi.size)
			if bad == "" {
				r.ok("C11.T6", key, m.Pos(bi.pos), "")
			} else {
				r.viol("C11.T6", key, m.Pos(bi.pos), bad)
			}
		}
		if er := m.Func(pkgProtocol, "EncodeResponse"); er != nil {
			okPass := false
			for _, call := range findCalls(er, pkgProtocol+".encodeResponseHeader") {
				if strip(call.Common().Args[0]) == ssa.Value(er.Params[0]) {
					okPass = true
				}
			}
			if okPass {
				r.ok("C11.T6", "EncodeResponse hands its correlationID to the header writer", m.Pos(er.Pos()), "")
			} else {
				r.viol("C11.T6", "EncodeResponse hands its correlationID to the header writer", m.Pos(er.Pos()), "the header is built from another value")
			}
		}
	}
}

func dependsOnParam(v ssa.Value, p *ssa.Parameter) bool {
	hit := false
	backSlice(v, true, func(x ssa.Value) {
		if x == ssa.Value(p) {
			hit = true
		}
	})
	return hit
}
