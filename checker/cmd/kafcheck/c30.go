package main

import (
	"fmt"
	"go/token"
	"strings"

	"golang.org/x/tools/go/ssa"
)

func init() { register("C30", "other", checkC30) }

const lfsMod = "(*" + pkgProxy + ".lfsModule)."

// extractOf: v is result #idx of a call to one of names.
func isExtractOf(v ssa.Value, idx int, names ...string) bool {
	for _, o := range origins(v) {
		if !vmCallResult(idx, names...)(o) {
			return false
		}
	}
	return len(origins(v)) > 0
}

func checkC30(c *Ctx, r *Report) {
	r.Explanation = "Decides structural necessary conditions of 'LFS readers never return a blob that fails its envelope checksum': (R1) every return of Resolver.Resolve that hands out fetched bytes has passed (ValidateChecksum off ∨ the envelope declares no checksum ∨ computed == expected) and (MaxSize <= 0 ∨ len(payload) <= MaxSize), the checksum is computed over the very value that is returned, and `expected`/`ok` come from EnvelopeChecksum of the decoded envelope; (R2) Consumer.Unwrap likewise (no size limit is configured there); (R3) in streamDownloadWithVerify the 200 status and the copy to the client have passed written <= expectedSize, written >= expectedSize and actualSHA == expectedSHA; the hash is fed every chunk that is written to the temporary file (same slice value, no path from the file write to the next read that skips the hasher), actualSHA is the hasher's sum, the S3 body is read only through io.LimitReader(body, expectedSize+1), and the only thing copied to the client is the verified temporary file; (R4) handleHTTPDownload reaches the stream path only after the digest was checked to be 64 hex characters, the size to be positive, below the blob cap and not MaxInt64, and it passes the normalised digest and the declared size on. R3's lower size bound exposed the undersized-object case repaired by 9fe7343. The fallback table of EnvelopeChecksum (which field supplies the expected value) is listed as not covered."
	r.NotCovered = "which envelope field EnvelopeChecksum prefers (fallback table); hash function correctness; presign mode (no bytes pass through the proxy)"
	m, err := c.Mod("root")
	if err != nil {
		r.unresolved("C30.load", "root module", err.Error())
		return
	}
	r.rule("C30.R1", "Resolver.Resolve returns fetched bytes only after the checksum comparison (when enabled and declared) and the size limit", 3)
	r.rule("C30.R2", "Consumer.Unwrap returns the fetched blob only after the checksum comparison (when enabled and declared)", 2)
	r.rule("C30.R3", "streamDownloadWithVerify sends 200/bytes only after size and SHA-256 verification of exactly what it buffered", 6)
	r.rule("C30.R4", "handleHTTPDownload validates digest shape and size bounds before the stream path and forwards them unchanged", 3)
	r.rule("C30.R5", "the digest compared is the digest declared: no code reachable from Resolve / Unwrap / DecodeEnvelope / EnvelopeChecksum rewrites Envelope.SHA256, Checksum or ChecksumAlg (hex case folding of the same field excepted)", 1)
	r.Explanation += " (R5) nothing reachable from Resolve, Unwrap, DecodeEnvelope or EnvelopeChecksum stores into Envelope.SHA256, Checksum or ChecksumAlg other than a case-folded copy of the same field."
	checkDigestNotRewritten(m, r, "C30.R5")

	envCk := pkgLFS + ".EnvelopeChecksum"
	compCk := pkgLFS + ".ComputeChecksum"
	cmpAtom := atomFn("computed == expected", func(l Lit) bool {
		if l.Op != token.EQL {
			return false
		}
		a := isExtractOf(l.X, 0, compCk) && isExtractOf(l.Y, 1, envCk)
		b := isExtractOf(l.Y, 0, compCk) && isExtractOf(l.X, 1, envCk)
		return a || b
	})
	noDecl := atomFn("envelope declares no checksum (ok == false)", func(l Lit) bool {
		return l.Op == token.ILLEGAL && l.Neg && isExtractOf(l.X, 2, envCk)
	})

	type reader struct {
		rule, pkgFn, label, fetch, flagField string
		payloadIdx                            int
		sizeLimit                             bool
	}
	for _, rd := range []reader{
		{"C30.R1", "(*Resolver).Resolve", "Resolver.Resolve", "~lfs.S3Reader).Fetch", "ValidateChecksum", 0, true},
		{"C30.R2", "(*Consumer).Unwrap", "Consumer.Unwrap", "~lfs.BlobFetcher).Fetch", "validateChecksum", 1, false},
	} {
		fn := needFn(m, r, rd.rule, pkgLFS, rd.pkgFn)
		if fn == nil {
			continue
		}
		fetches := findCalls(fn, rd.fetch)
		if len(fetches) != 1 {
			r.unresolved(rd.rule, rd.label+" fetch call", fmt.Sprintf("found %d", len(fetches)))
			continue
		}
		fetched := fetches[0].Value()
		isFetched := func(v ssa.Value) bool {
			hit := false
			backSlice(v, false, func(x ssa.Value) {
				if e, ok := x.(*ssa.Extract); ok && e.Tuple == ssa.Value(fetched) && e.Index == 0 {
					hit = true
				}
			})
			return hit
		}
		flagOff := atomBool("!"+rd.flagField, vmField("", rd.flagField), false)
		nRet := 0
		for _, b := range fn.Blocks {
			ret, ok := b.Instrs[len(b.Instrs)-1].(*ssa.Return)
			if !ok {
				continue
			}
			if !isFetched(ret.Results[rd.payloadIdx]) {
				continue
			}
			nRet++
			g := Guard{cl(flagOff, noDecl, cmpAtom)}
			guardVerdict(m, r, rd.rule, rd.label+": fetched bytes are returned only after checksum verification", fn, ret, g)
			if rd.sizeLimit {
				guardVerdict(m, r, rd.rule, rd.label+": fetched bytes are returned only within MaxSize", fn, ret, Guard{cl(
					atomFn("MaxSize <= 0", func(l Lit) bool {
						_, f, _, ok := fieldOf(l.X)
						k, okc := constInt(l.Y)
						return ok && f == "MaxSize" && okc && k == 0 && l.Op == token.LEQ
					}),
					atomFn("len(payload) <= MaxSize", func(l Lit) bool {
						if l.Op != token.LEQ {
							return false
						}
						_, f, _, ok := fieldOf(l.Y)
						if !ok || f != "MaxSize" {
							return false
						}
						lc, ok := strip(l.X).(*ssa.Call)
						return ok && calleeName(&lc.Call) == "builtin.len" && isFetched(lc.Call.Args[0])
					}))})
			}
		}
		if nRet == 0 {
			r.unresolved(rd.rule, rd.label+" success return", "no return carrying the fetched bytes found")
		}
		// the checksum is computed over the fetched value with the envelope's algorithm
		for _, cc := range findCalls(fn, compCk) {
			a := cc.Common().Args
			key := rd.label + ": checksum is computed over the fetched bytes with the envelope's algorithm"
			if isFetched(a[1]) && isExtractOf(a[0], 0, envCk) {
				r.ok(rd.rule, key, m.Pos(cc.Pos()), "")
			} else {
				r.viol(rd.rule, key, m.Pos(cc.Pos()), "ComputeChecksum("+describe(a[0])+", "+describe(a[1])+")")
			}
		}
		for _, ec := range findCalls(fn, envCk) {
			key := rd.label + ": expected checksum comes from the decoded envelope"
			if dependsOnCall(ec.Common().Args[0], pkgLFS+".DecodeEnvelope") {
				r.ok(rd.rule, key, m.Pos(ec.Pos()), "")
			} else {
				r.viol(rd.rule, key, m.Pos(ec.Pos()), "EnvelopeChecksum argument is "+describe(ec.Common().Args[0]))
			}
		}
	}

	// ---- R3
	if sd := needFn(m, r, "C30.R3", pkgProxy, "(*lfsModule).streamDownloadWithVerify"); sd != nil {
		var expectedSHA, expectedSize *ssa.Parameter
		for _, p := range sd.Params {
			switch p.Name() {
			case "expectedSHA":
				expectedSHA = p
			case "expectedSize":
				expectedSize = p
			}
		}
		if expectedSHA == nil || expectedSize == nil {
			r.unresolved("C30.R3", "streamDownloadWithVerify parameters", "expectedSHA / expectedSize not found")
		} else {
			// the running byte counter: the value compared with expectedSize
			isWritten := func(v ssa.Value) bool {
				// a phi/sum fed by the read loop's n
				dep := false
				backSlice(v, false, func(x ssa.Value) {
					if e, ok := x.(*ssa.Extract); ok {
						if c, ok := e.Tuple.(*ssa.Call); ok && strings.HasSuffix(calleeName(&c.Call), "io.Reader).Read") {
							dep = true
						}
					}
				})
				return dep
			}
			notOver := atomFn("written <= expectedSize", func(l Lit) bool {
				return l.Op == token.LEQ && isWritten(l.X) && strip(l.Y) == ssa.Value(expectedSize) ||
					l.Op == token.GEQ && isWritten(l.Y) && strip(l.X) == ssa.Value(expectedSize)
			})
			notUnder := atomFn("written >= expectedSize", func(l Lit) bool {
				return l.Op == token.GEQ && isWritten(l.X) && strip(l.Y) == ssa.Value(expectedSize) ||
					l.Op == token.LEQ && isWritten(l.Y) && strip(l.X) == ssa.Value(expectedSize) ||
					l.Op == token.EQL && ((isWritten(l.X) && strip(l.Y) == ssa.Value(expectedSize)) || (isWritten(l.Y) && strip(l.X) == ssa.Value(expectedSize)))
			})
			exact := atomFn("written == expectedSize", func(l Lit) bool {
				return l.Op == token.EQL && ((isWritten(l.X) && strip(l.Y) == ssa.Value(expectedSize)) || (isWritten(l.Y) && strip(l.X) == ssa.Value(expectedSize)))
			})
			var hasherSum ssa.Value
			for _, call := range callsIn(sd) {
				if strings.HasSuffix(calleeName(call.Common()), "hash.Hash).Sum") {
					hasherSum = call.Value()
				}
			}
			shaEq := atomFn("actualSHA == expectedSHA", func(l Lit) bool {
				if l.Op != token.EQL {
					return false
				}
				x, y := l.X, l.Y
				if strip(x) == ssa.Value(expectedSHA) {
					x, y = y, x
				}
				if strip(y) != ssa.Value(expectedSHA) {
					return false
				}
				// x = hex.EncodeToString(hasher.Sum(nil))
				ec, ok := strip(x).(*ssa.Call)
				return ok && calleeName(&ec.Call) == "encoding/hex.EncodeToString" && hasherSum != nil && dependsOnCallValue(ec.Call.Args[0], hasherSum)
			})
			g := Guard{cl(notOver, exact), cl(notUnder, exact), cl(shaEq)}
			nSink := 0
			for _, call := range callsIn(sd) {
				n := calleeName(call.Common())
				isSink := false
				what := ""
				switch {
				case strings.HasSuffix(n, "http.ResponseWriter).WriteHeader"):
					if k, ok := constInt(call.Common().Args[0]); ok && k == 200 {
						isSink, what = true, "WriteHeader(200)"
					}
				case n == "io.Copy" || n == "io.CopyN" || n == "io.CopyBuffer":
					if strings.HasSuffix(call.Common().Args[0].Type().String(), "http.ResponseWriter") || strip(call.Common().Args[0]).Type().String() == "net/http.ResponseWriter" {
						isSink, what = true, "io.Copy(w, …)"
					}
				case strings.HasSuffix(n, "http.ResponseWriter).Write"):
					isSink, what = true, "w.Write"
				}
				if !isSink {
					continue
				}
				nSink++
				guardVerdict(m, r, "C30.R3", "stream download: "+what+" only after size and SHA-256 verification", sd, call.(ssa.Instruction), g)
				if strings.HasPrefix(what, "io.Copy") {
					src := call.Common().Args[1]
					if dependsOnCall(src, "os.CreateTemp") {
						r.ok("C30.R3", "stream download: the body sent is the verified temporary file", m.Pos(call.Pos()), "")
					} else {
						r.viol("C30.R3", "stream download: the body sent is the verified temporary file", m.Pos(call.Pos()), "source of the copy is "+describe(src)+", not the buffered file that was hashed")
					}
				}
			}
			if nSink < 2 {
				r.unresolved("C30.R3", "stream download response sinks", fmt.Sprintf("found %d (expected WriteHeader(200) and io.Copy)", nSink))
			}
			// hasher fed with every chunk written to the temp file
			var fileWrites, hashWrites []ssa.CallInstruction
			for _, call := range callsIn(sd) {
				n := calleeName(call.Common())
				if n == "(*os.File).Write" {
					fileWrites = append(fileWrites, call)
				}
				if strings.HasSuffix(n, "hash.Hash).Write") {
					hashWrites = append(hashWrites, call)
				}
			}
			if len(fileWrites) == 1 && len(hashWrites) == 1 {
				fw, hw := fileWrites[0], hashWrites[0]
				if strip(fw.Common().Args[1]) == strip(hw.Common().Args[0]) {
					r.ok("C30.R3", "stream download: the hasher receives the same chunk that is written to the file", m.Pos(hw.Pos()), "")
				} else {
					r.viol("C30.R3", "stream download: the hasher receives the same chunk that is written to the file", m.Pos(hw.Pos()), "file gets "+describe(fw.Common().Args[1])+", hasher gets "+describe(hw.Common().Args[0]))
				}
				// from the file write, every path to the next Read (or to the size check) passes the hasher
				// write, except the error exits that return
				found, _, path := search(SearchSpec{Start: nextLoc(fw),
					Target: func(in ssa.Instruction) bool {
						return isCallTo(in, "~io.Reader).Read") || strings.HasSuffix(calleeNameOf(in), "hash.Hash).Sum")
					},
					Blocker: func(in ssa.Instruction) bool { return in == ssa.Instruction(hw) }})
				if found {
					r.viol("C30.R3", "stream download: no buffered chunk escapes the hash", m.Pos(fw.Pos()), "a chunk can be written to the file without being hashed: "+renderPath(m, path))
				} else {
					r.ok("C30.R3", "stream download: no buffered chunk escapes the hash", m.Pos(fw.Pos()), "")
				}
			} else {
				r.unresolved("C30.R3", "stream download buffer loop", fmt.Sprintf("%d file writes, %d hasher writes", len(fileWrites), len(hashWrites)))
			}
			// S3 body only through LimitReader(body, expectedSize+1)
			lims := findCalls(sd, "io.LimitReader")
			okLim := false
			for _, lc := range lims {
				terms, k := flattenSum(lc.Common().Args[1])
				if len(terms) == 1 && strip(terms[0]) == ssa.Value(expectedSize) && k == 1 && dependsOnField(lc.Common().Args[0], "", "Body") {
					okLim = true
				}
			}
			if okLim && len(lims) == 1 {
				r.ok("C30.R3", "stream download: S3 body is read through io.LimitReader(body, expectedSize+1)", m.Pos(lims[0].Pos()), "")
			} else {
				r.viol("C30.R3", "stream download: S3 body is read through io.LimitReader(body, expectedSize+1)", m.Pos(sd.Pos()), "the cap that makes oversize detectable is missing or different")
			}
			for _, call := range callsIn(sd) {
				if isCallTo(call, "~io.Reader).Read", "~io.ReadCloser).Read", "io.ReadAll", "io.ReadFull") {
					if !dependsOnCall(call.Common().Value, "io.LimitReader") && !dependsOnCall(firstArg(call), "io.LimitReader") {
						r.viol("C30.R3", "stream download: every read of the S3 body goes through the limiter", m.Pos(call.Pos()), "read on "+describe(call.Common().Value))
					}
				}
			}
		}
	}

	// ---- R4
	if hd := needFn(m, r, "C30.R4", pkgProxy, "(*lfsModule).handleHTTPDownload"); hd != nil {
		calls := findCalls(hd, lfsMod+"streamDownloadWithVerify")
		if len(calls) != 1 {
			r.unresolved("C30.R4", "handleHTTPDownload stream call", fmt.Sprintf("found %d", len(calls)))
		} else {
			call := calls[0]
			sizeField := func(v ssa.Value) bool {
				_, f, _, ok := fieldOf(v)
				return ok && f == "Size"
			}
			// `mode` is compared with "stream" both in the validation block (mode == "stream" && size…)
			// and in the dispatching switch. A path that skips a size check because mode != "stream"
			// cannot reach the stream call when both comparisons read the same SSA value and the call is
			// guarded by mode == "stream": those skipping edges count as discharged.
			var modeVal ssa.Value
			for _, b := range hd.Blocks {
				if ifi, ok := b.Instrs[len(b.Instrs)-1].(*ssa.If); ok {
					l := litOf(ifi.Cond, true)
					if s, ok := constString(l.Y); ok && s == "stream" && l.Op == token.EQL {
						if checkGuarded(m, hd, call.(ssa.Instruction), Guard{cl(atomFn("", func(l2 Lit) bool {
							s2, ok2 := constString(l2.Y)
							return ok2 && s2 == "stream" && l2.Op == token.EQL && l2.X == l.X
						}))}).OK {
							modeVal = l.X
						}
					}
				}
			}
			notStream := atomFn("mode != \"stream\" (cannot reach the stream call)", func(l Lit) bool {
				s, ok := constString(l.Y)
				return modeVal != nil && ok && s == "stream" && l.Op == token.NEQ && l.X == modeVal
			})
			g := Guard{
				cl(atomFn("len(expectedSHA) == 64", func(l Lit) bool {
					if l.Op != token.EQL {
						return false
					}
					k, ok := constInt(l.Y)
					lc, ok2 := strip(l.X).(*ssa.Call)
					return ok && k == 64 && ok2 && calleeName(&lc.Call) == "builtin.len"
				})),
				cl(atomErrNil("encoding/hex.DecodeString")),
				cl(atomFn("Integrity.Size > 0", func(l Lit) bool {
					k, ok := constInt(l.Y)
					return ok && k == 0 && l.Op == token.GTR && sizeField(l.X)
				}), notStream),
				cl(atomFn("Integrity.Size != MaxInt64", func(l Lit) bool {
					k, ok := constInt(l.Y)
					return ok && k == 9223372036854775807 && l.Op == token.NEQ && sizeField(l.X)
				}), notStream),
				cl(atomFn("maxBlob <= 0", func(l Lit) bool {
					_, f, _, ok := fieldOf(l.X)
					k, okc := constInt(l.Y)
					return ok && f == "maxBlob" && okc && k == 0 && l.Op == token.LEQ
				}), atomFn("Integrity.Size <= maxBlob", func(l Lit) bool {
					_, f, _, ok := fieldOf(l.Y)
					return ok && f == "maxBlob" && l.Op == token.LEQ && sizeField(l.X)
				}), notStream),
			}
			guardVerdict(m, r, "C30.R4", "stream path entered only with a 64-hex digest and a positive, capped size", hd, call.(ssa.Instruction), g)
			a := call.Common().Args
			// receiver, r, w, requestID, bucket, key, expectedSHA, expectedSize, start
			// (through a φ when the validation sits in a folded helper that returns "", 0, false on
			// its rejecting paths: the constant inputs belong to paths that never reach the call)
			nonConst := func(v ssa.Value) []ssa.Value {
				var out []ssa.Value
				for _, o := range origins(v) {
					if _, isC := strip(o).(*ssa.Const); !isC {
						out = append(out, o)
					}
				}
				return out
			}
			okArgs := len(a) >= 8 && dependsOnField(a[6], "", "SHA256") && len(nonConst(a[7])) > 0
			if okArgs {
				for _, o := range nonConst(a[7]) {
					if !sizeField(o) {
						okArgs = false
					}
				}
			}
			dec := findCalls(hd, "encoding/hex.DecodeString")
			sameDigest := len(dec) == 1 && len(a) >= 7 && len(nonConst(a[6])) > 0
			if sameDigest {
				for _, o := range nonConst(a[6]) {
					if strip(dec[0].Common().Args[0]) != strip(o) {
						sameDigest = false
					}
				}
			}
			if okArgs && sameDigest {
				r.ok("C30.R4", "the validated digest and the declared size are what the stream path verifies against", m.Pos(call.Pos()), "")
			} else {
				r.viol("C30.R4", "the validated digest and the declared size are what the stream path verifies against", m.Pos(call.Pos()), "the values validated are not the values passed on")
			}
			// bucket / key restriction before any S3 access
			g2 := Guard{cl(atomFn("req.Bucket == m.s3Bucket", func(l Lit) bool {
				if l.Op != token.EQL {
					return false
				}
				_, f1, _, ok1 := fieldOf(l.X)
				_, f2, _, ok2 := fieldOf(l.Y)
				return ok1 && ok2 && ((f1 == "Bucket" && f2 == "s3Bucket") || (f2 == "Bucket" && f1 == "s3Bucket"))
			})), cl(atomErrNil(lfsMod + "lfsValidateObjectKey"))}
			guardVerdict(m, r, "C30.R4", "download is restricted to the proxy's bucket and a validated object key", hd, call.(ssa.Instruction), g2)
		}
	}
}

func calleeNameOf(in ssa.Instruction) string {
	if c := callCommon(in); c != nil {
		return calleeName(c)
	}
	return ""
}

func firstArg(c ssa.CallInstruction) ssa.Value {
	if len(c.Common().Args) > 0 {
		return c.Common().Args[0]
	}
	return c.Common().Value
}

// dependsOnCallValue: v depends on the specific call value target.
func dependsOnCallValue(v ssa.Value, target ssa.Value) bool {
	hit := false
	backSlice(v, true, func(x ssa.Value) {
		if x == target {
			hit = true
		}
	})
	return hit
}

// checkDigestNotRewritten (C30.R5, added after a seeded change trimmed the decoded digest so that a
// blank one became "declares no checksum"): between decoding and comparison nobody rewrites the
// fields EnvelopeChecksum reads.
func checkDigestNotRewritten(m *Module, r *Report, rule string) {
	var roots []*ssa.Function
	for _, n := range []string{"(*Resolver).Resolve", "(*Consumer).Unwrap", "DecodeEnvelope", "EnvelopeChecksum"} {
		if f := needFn(m, r, rule, pkgLFS, n); f != nil {
			roots = append(roots, f)
		}
	}
	if len(roots) != 4 {
		return
	}
	reach := reachFrom(m, roots)
	digest := map[string]bool{"SHA256": true, "Checksum": true, "ChecksumAlg": true}
	bad := 0
	for fn := range reach {
		r.fn(fn)
		for _, b := range fn.Blocks {
			for _, in := range b.Instrs {
				st, ok := in.(*ssa.Store)
				if !ok {
					continue
				}
				fa, ok := st.Addr.(*ssa.FieldAddr)
				if !ok {
					continue
				}
				t, f, _, ok := fieldAddrInfo(fa)
				if !ok || t != pkgLFS+".Envelope" || !digest[f] {
					continue
				}
				caseOnly := dependsOnField(st.Val, "", f)
				backSlice(st.Val, true, func(x ssa.Value) {
					if c, ok := x.(*ssa.Call); ok && !nameMatches(calleeName(&c.Call), "strings.ToLower", "strings.ToUpper") {
						caseOnly = false
					}
				})
				if caseOnly {
					continue
				}
				bad++
				r.viol(rule, "Envelope."+f+" rewritten in "+funcName(fn), m.Pos(st.Pos()), "the reader path ("+chainTo(reach, fn)+") stores "+describe(st.Val)+" into the field EnvelopeChecksum reads: the value compared (or its emptiness, which decides whether anything is compared) is no longer the one the envelope declares")
			}
		}
	}
	if bad == 0 {
		r.ok(rule, fmt.Sprintf("no digest field of Envelope is rewritten in the %d functions reachable from the readers", len(reach)), m.Pos(roots[0].Pos()), "")
	}
}
