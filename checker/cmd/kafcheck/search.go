package main

import (
	"fmt"
	"go/token"
	"go/types"
	"sort"
	"strings"

	"golang.org/x/tools/go/ssa"
)

// ---------------------------------------------------------------------------------------------
// Literals: what is known on a CFG edge leaving an If.

// Lit is an atomic fact known to hold on an edge: either a comparison "X Op Y" or the truth value
// of a boolean value ("X is true" when Op==token.ILLEGAL && !Neg, "X is false" when Neg).
type Lit struct {
	Op   token.Token // EQL NEQ LSS LEQ GTR GEQ, or ILLEGAL for plain boolean truth
	X, Y ssa.Value
	Neg  bool // only for boolean truth literals
}

func (l Lit) String() string {
	if l.Op == token.ILLEGAL {
		if l.Neg {
			return "!(" + describe(l.X) + ")"
		}
		return describe(l.X)
	}
	return describe(l.X) + " " + l.Op.String() + " " + describe(l.Y)
}

func negOp(op token.Token) token.Token {
	switch op {
	case token.EQL:
		return token.NEQ
	case token.NEQ:
		return token.EQL
	case token.LSS:
		return token.GEQ
	case token.GEQ:
		return token.LSS
	case token.GTR:
		return token.LEQ
	case token.LEQ:
		return token.GTR
	}
	return token.ILLEGAL
}

func swapOp(op token.Token) token.Token {
	switch op {
	case token.LSS:
		return token.GTR
	case token.GTR:
		return token.LSS
	case token.LEQ:
		return token.GEQ
	case token.GEQ:
		return token.LEQ
	}
	return op
}

// litOf decomposes an If condition into the literal known when the condition has value `truth`.
func litOf(cond ssa.Value, truth bool) Lit {
	for {
		if u, ok := cond.(*ssa.UnOp); ok && u.Op == token.NOT {
			cond = u.X
			truth = !truth
			continue
		}
		break
	}
	if b, ok := cond.(*ssa.BinOp); ok {
		switch b.Op {
		case token.EQL, token.NEQ, token.LSS, token.LEQ, token.GTR, token.GEQ:
			op := b.Op
			if !truth {
				op = negOp(op)
			}
			// comparisons of a bool against a constant bool collapse to truth literals
			if c, ok := b.Y.(*ssa.Const); ok && c.Value != nil && c.Value.Kind().String() == "Bool" {
				val := c.Value.ExactString() == "true"
				if op == token.EQL {
					return litOf(b.X, val)
				}
				if op == token.NEQ {
					return litOf(b.X, !val)
				}
			}
			return Lit{Op: op, X: b.X, Y: b.Y}
		}
	}
	return Lit{Op: token.ILLEGAL, X: cond, Neg: !truth}
}

// ---------------------------------------------------------------------------------------------
// Atoms: patterns over literals.

// Atom decides whether a literal establishes the fact the rule asks for.
type Atom struct {
	Name  string
	Match func(l Lit) bool
}

// VM is a value matcher.
type VM func(v ssa.Value) bool

func anyOrigin(v ssa.Value, m VM) bool {
	for _, o := range origins(v) {
		if m(o) {
			return true
		}
	}
	return false
}

func allOrigins(v ssa.Value, m VM) bool {
	os := origins(v)
	if len(os) == 0 {
		return false
	}
	for _, o := range os {
		if !m(o) {
			return false
		}
	}
	return true
}

// vmCall matches a value that is (a result of) a call to one of the named callees.
func vmCall(names ...string) VM {
	return func(v ssa.Value) bool {
		c := callOrigin(v)
		return c != nil && nameMatches(calleeName(&c.Call), names...)
	}
}

// vmCallResult matches result #idx of a call to one of the named callees (idx 0 also matches a
// single-result call).
func vmCallResult(idx int, names ...string) VM {
	return func(v ssa.Value) bool {
		v = strip(v)
		if e, ok := v.(*ssa.Extract); ok {
			c, ok := e.Tuple.(*ssa.Call)
			return ok && e.Index == idx && nameMatches(calleeName(&c.Call), names...)
		}
		c, ok := v.(*ssa.Call)
		return ok && idx == 0 && nameMatches(calleeName(&c.Call), names...)
	}
}

// vmField matches a load of field `field` of struct type whose qualified name ends with typ.
func vmField(typ, field string) VM {
	return func(v ssa.Value) bool {
		t, f, _, ok := fieldOf(v)
		return ok && f == field && (typ == "" || strings.HasSuffix(t, typ))
	}
}

func vmConstInt(k int64) VM {
	return func(v ssa.Value) bool {
		i, ok := constInt(v)
		return ok && i == k
	}
}

func vmAnyConst() VM {
	return func(v ssa.Value) bool { _, ok := strip(v).(*ssa.Const); return ok }
}

func vmIs(target ssa.Value) VM {
	return func(v ssa.Value) bool { return strip(v) == strip(target) }
}

func vmAny() VM { return func(ssa.Value) bool { return true } }

func vmOr(ms ...VM) VM {
	return func(v ssa.Value) bool {
		for _, m := range ms {
			if m(v) {
				return true
			}
		}
		return false
	}
}

// atomErrNil: "the error result of a call to one of names is nil".
func atomErrNil(names ...string) Atom {
	m := vmCall(names...)
	return Atom{Name: "err(" + strings.Join(names, "|") + ")==nil", Match: func(l Lit) bool {
		if l.Op != token.EQL {
			return false
		}
		x, y := l.X, l.Y
		if isNilConst(x) {
			x, y = y, x
		}
		if !isNilConst(y) || !isErrorType(x.Type()) {
			return false
		}
		return allOrigins(x, m)
	}}
}

// atomCmp: comparison "X op Y" (also matched with operands swapped and op mirrored).
func atomCmp(name string, x VM, op token.Token, y VM) Atom {
	return Atom{Name: name, Match: func(l Lit) bool {
		if l.Op == token.ILLEGAL {
			return false
		}
		if l.Op == op && anyOriginAll(l.X, x) && anyOriginAll(l.Y, y) {
			return true
		}
		if swapOp(l.Op) == op && anyOriginAll(l.Y, x) && anyOriginAll(l.X, y) {
			return true
		}
		return false
	}}
}

func anyOriginAll(v ssa.Value, m VM) bool {
	if m(v) {
		return true
	}
	return allOrigins(v, m)
}

// atomTrue / atomFalse: boolean value (call result, field load, comma-ok) is true / false.
func atomBool(name string, x VM, want bool) Atom {
	return Atom{Name: name, Match: func(l Lit) bool {
		if l.Op != token.ILLEGAL {
			return false
		}
		if l.Neg == want {
			return false
		}
		return anyOriginAll(l.X, x)
	}}
}

// atomAny matches any literal accepted by f.
func atomFn(name string, f func(l Lit) bool) Atom { return Atom{Name: name, Match: f} }

// ---------------------------------------------------------------------------------------------
// Search primitive.

// Loc is a position inside a function: block + instruction index.
type Loc struct {
	B *ssa.BasicBlock
	I int
}

type edge struct {
	from *ssa.BasicBlock
	succ int
}

// SearchSpec: find a path from Start to any Target instruction that does not execute a Blocker
// instruction and does not traverse a Removed edge.
type SearchSpec struct {
	Start   Loc
	Target  func(in ssa.Instruction) bool
	Blocker func(in ssa.Instruction) bool
	Removed func(from *ssa.BasicBlock, succIdx int) bool
	// ExitIsTarget: reaching a Return instruction counts as target.
	ExitIsTarget bool
}

// PathStep is one element of a witness path.
type PathStep struct {
	Block int
	Pos   token.Pos
}

// search runs a BFS over basic blocks. Returns the witness (sequence of blocks) and the target
// instruction reached.
func search(spec SearchSpec) (found bool, target ssa.Instruction, path []*ssa.BasicBlock) {
	type node struct {
		b    *ssa.BasicBlock
		prev *node
	}
	// scan a block from index i; returns (target reached, blocked)
	scan := func(b *ssa.BasicBlock, i int) (ssa.Instruction, bool) {
		for ; i < len(b.Instrs); i++ {
			in := b.Instrs[i]
			if spec.Target != nil && spec.Target(in) {
				return in, false
			}
			if spec.ExitIsTarget {
				if _, ok := in.(*ssa.Return); ok {
					return in, false
				}
			}
			if spec.Blocker != nil && spec.Blocker(in) {
				return nil, true
			}
		}
		return nil, false
	}
	mk := func(n *node) []*ssa.BasicBlock {
		var p []*ssa.BasicBlock
		for ; n != nil; n = n.prev {
			p = append([]*ssa.BasicBlock{n.b}, p...)
		}
		return p
	}
	start := &node{b: spec.Start.B}
	if t, blocked := scan(spec.Start.B, spec.Start.I); t != nil {
		return true, t, mk(start)
	} else if blocked {
		return false, nil, nil
	}
	// visited is keyed by (block, predecessor it was entered from): the predecessor decides the value
	// of the block's phis, which lets constant-infeasible branch edges be pruned (correlated phis:
	// `code := x; if bad { code = 17 }; if code == 0 { sink }`).
	type vkeyT struct{ b, from *ssa.BasicBlock }
	visited := map[vkeyT]bool{}
	queue := []*node{start}
	for len(queue) > 0 {
		n := queue[0]
		queue = queue[1:]
		var from *ssa.BasicBlock
		if n.prev != nil {
			from = n.prev.b
		}
		for si, s := range n.b.Succs {
			if spec.Removed != nil && spec.Removed(n.b, si) {
				continue
			}
			if from != nil && phiEdgeInfeasible(n.b, from, si) {
				continue
			}
			if visited[vkeyT{s, n.b}] {
				continue
			}
			visited[vkeyT{s, n.b}] = true
			nn := &node{b: s, prev: n}
			t, blocked := scan(s, 0)
			if t != nil {
				return true, t, mk(nn)
			}
			if blocked {
				continue
			}
			queue = append(queue, nn)
		}
	}
	return false, nil, nil
}

// phiEdgeInfeasible: block b was entered from predecessor `from`; b ends in an If whose condition
// compares a phi of b (or is a boolean phi of b) with a constant; the phi's incoming value on that
// edge is itself a constant. Then exactly one successor is feasible.
func phiEdgeInfeasible(b, from *ssa.BasicBlock, si int) bool {
	if len(b.Instrs) == 0 {
		return false
	}
	ifi, ok := b.Instrs[len(b.Instrs)-1].(*ssa.If)
	if !ok {
		return false
	}
	pi := -1
	for i, p := range b.Preds {
		if p == from {
			if pi >= 0 {
				return false // entered twice from the same block (both If edges): ambiguous
			}
			pi = i
		}
	}
	if pi < 0 {
		return false
	}
	l := litOf(ifi.Cond, si == 0)
	incoming := func(v ssa.Value) (*ssa.Const, bool) {
		p, ok := strip(v).(*ssa.Phi)
		if !ok || p.Block() != b || pi >= len(p.Edges) {
			return nil, false
		}
		c, ok := strip(p.Edges[pi]).(*ssa.Const)
		return c, ok && c.Value != nil
	}
	if l.Op == token.ILLEGAL {
		c, ok := incoming(l.X)
		if !ok || c.Value.Kind().String() != "Bool" {
			return false
		}
		val := c.Value.ExactString() == "true"
		return val == l.Neg // literal says X is (not Neg); infeasible when the constant disagrees
	}
	if l.Op != token.EQL && l.Op != token.NEQ {
		return false
	}
	// comparison with nil: the incoming value may be known nil / non-nil without being a constant
	// (a folded helper's `return err` under `if err != nil`, `return &E{}`, `return nil`, all merged
	// in one φ that the caller tests again)
	if x, y, ok := phiVsNil(b, l.X, l.Y); ok {
		if p := x.(*ssa.Phi); pi < len(p.Edges) {
			_ = y
			switch nilness(p.Edges[pi], from) {
			case isNil:
				return l.Op == token.NEQ
			case isNonNil:
				return l.Op == token.EQL
			}
		}
		return false
	}
	c, ok := incoming(l.X)
	k, ok2 := strip(l.Y).(*ssa.Const)
	if !ok || !ok2 || k.Value == nil {
		c, ok = incoming(l.Y)
		k, ok2 = strip(l.X).(*ssa.Const)
		if !ok || !ok2 || k.Value == nil {
			return false
		}
	}
	equal := c.Value.ExactString() == k.Value.ExactString()
	if l.Op == token.EQL {
		return !equal
	}
	return equal
}

// phiVsNil: one side is a φ of block b, the other the nil constant.
func phiVsNil(b *ssa.BasicBlock, x, y ssa.Value) (ssa.Value, ssa.Value, bool) {
	isNilConst := func(v ssa.Value) bool {
		c, ok := strip(v).(*ssa.Const)
		return ok && c.Value == nil && !isBasicType(c.Type())
	}
	if p, ok := strip(x).(*ssa.Phi); ok && p.Block() == b && isNilConst(y) {
		return p, y, true
	}
	if p, ok := strip(y).(*ssa.Phi); ok && p.Block() == b && isNilConst(x) {
		return p, x, true
	}
	return nil, nil, false
}

func isBasicType(t types.Type) bool {
	_, ok := t.Underlying().(*types.Basic)
	return ok
}

const (
	unknownNil = iota
	isNil
	isNonNil
)

// nilness of value v when control leaves block `at` : by construction (nil constant, a fresh
// object), or because `at` is only entered over branch edges that compared v with nil.
func nilness(v ssa.Value, at *ssa.BasicBlock) int {
	switch x := v.(type) {
	case *ssa.Const:
		if x.Value == nil && !isBasicType(x.Type()) {
			return isNil
		}
		return unknownNil
	case *ssa.MakeInterface:
		if _, isPtr := x.X.Type().Underlying().(*types.Pointer); !isPtr {
			return isNonNil
		}
		if _, isAlloc := x.X.(*ssa.Alloc); isAlloc {
			return isNonNil
		}
		return unknownNil // a typed nil pointer in an interface is still a non-nil interface, but stay modest
	case *ssa.Alloc, *ssa.MakeMap, *ssa.MakeSlice, *ssa.MakeChan, *ssa.MakeClosure, *ssa.Function:
		return isNonNil
	case *ssa.Call:
		if n := calleeName(&x.Call); n == "fmt.Errorf" || n == "errors.New" {
			return isNonNil // both always build an error value
		}
	}
	// … or because a dominating branch on v decided it: a successor of that branch which has the
	// branch as its only predecessor and dominates `at` can only have been entered over that edge
	for depth, d := 0, at; depth < 16 && d != nil; depth, d = depth+1, d.Idom() {
		p := d.Idom()
		if p == nil || len(p.Instrs) == 0 || len(p.Succs) != 2 || p.Succs[0] == p.Succs[1] {
			continue
		}
		ifi, ok := p.Instrs[len(p.Instrs)-1].(*ssa.If)
		if !ok {
			continue
		}
		for si := 0; si < 2; si++ {
			sc := p.Succs[si]
			if len(sc.Preds) != 1 || !sc.Dominates(at) {
				continue
			}
			l := litOf(ifi.Cond, si == 0)
			if l.Op != token.EQL && l.Op != token.NEQ {
				continue
			}
			a, c := l.X, l.Y
			if strip(c) == strip(v) {
				a, c = c, a
			}
			k, isC := strip(c).(*ssa.Const)
			if strip(a) != strip(v) || !isC || k.Value != nil || isBasicType(k.Type()) {
				continue
			}
			if l.Op == token.EQL {
				return isNil
			}
			return isNonNil
		}
	}
	for depth, b := 0, at; depth < 4 && b != nil && len(b.Preds) == 1; depth, b = depth+1, b.Preds[0] {
		p := b.Preds[0]
		ifi, ok := p.Instrs[len(p.Instrs)-1].(*ssa.If)
		if !ok {
			continue
		}
		if p.Succs[0] == p.Succs[1] {
			continue
		}
		l := litOf(ifi.Cond, p.Succs[0] == b)
		if l.Op != token.EQL && l.Op != token.NEQ {
			continue
		}
		a, c := l.X, l.Y
		if strip(c) == strip(v) {
			a, c = c, a
		}
		k, isC := strip(c).(*ssa.Const)
		if strip(a) != strip(v) || !isC || k.Value != nil || isBasicType(k.Type()) {
			continue
		}
		if l.Op == token.EQL {
			return isNil
		}
		return isNonNil
	}
	return unknownNil
}

// passEdges computes, for a function, the set of If-edges on which at least one atom of the clause
// is established.
func passEdges(fn *ssa.Function, clause []Atom) map[edge]string {
	out := map[edge]string{}
	for _, b := range fn.Blocks {
		if len(b.Instrs) == 0 {
			continue
		}
		ifi, ok := b.Instrs[len(b.Instrs)-1].(*ssa.If)
		if !ok {
			continue
		}
		for si, truth := range []bool{true, false} {
			l := litOf(ifi.Cond, truth)
			for _, a := range clause {
				if a.Match(l) {
					out[edge{b, si}] = a.Name + " via " + l.String()
					break
				}
			}
		}
	}
	return out
}

// Clause is a disjunction of atoms. Reeval names calls whose execution invalidates the clause
// (the path since the *last* such call must pass an establishing edge).
type Clause struct {
	Atoms  []Atom
	Reeval []string
}

// Guard is a conjunction of clauses (CNF).
type Guard []Clause

func cl(atoms ...Atom) Clause { return Clause{Atoms: atoms} }

func (c Clause) re(names ...string) Clause { c.Reeval = names; return c }

func (c Clause) String() string {
	var as []string
	for _, a := range c.Atoms {
		as = append(as, a.Name)
	}
	return "(" + strings.Join(as, " ∨ ") + ")"
}

func (g Guard) String() string {
	var cs []string
	for _, c := range g {
		cs = append(cs, c.String())
	}
	return strings.Join(cs, " ∧ ")
}

// GuardResult reports one failed clause with its witness path.
type GuardResult struct {
	OK      bool
	Clause  string
	Witness string
	Edges   []string // pass edges used (for evidence)
}

func (r GuardResult) String() string {
	if r.OK {
		return "guarded; pass edges: " + strings.Join(r.Edges, "; ")
	}
	return "clause " + r.Clause + " not established on path " + r.Witness
}

// checkGuarded decides whether every path from the function entry to the sink instruction passes,
// for every clause, an edge establishing one of the clause's atoms.
func checkGuarded(m *Module, fn *ssa.Function, sink ssa.Instruction, g Guard) GuardResult {
	res := GuardResult{OK: true}
	isSink := func(in ssa.Instruction) bool { return in == sink }
	for _, clause := range g {
		pe := passEdges(fn, clause.Atoms)
		removed := func(b *ssa.BasicBlock, si int) bool { _, ok := pe[edge{b, si}]; return ok }
		var ds []string
		for _, d := range pe {
			ds = append(ds, d)
		}
		sort.Strings(ds)
		res.Edges = append(res.Edges, ds...)
		cname := clause.String()
		blocker := func(x ssa.Instruction) bool { return len(clause.Reeval) > 0 && isCallTo(x, clause.Reeval...) }
		// (a) from entry
		if ok, _, path := search(SearchSpec{Start: Loc{fn.Blocks[0], 0}, Target: isSink, Removed: removed}); ok {
			return GuardResult{OK: false, Clause: cname, Witness: "from entry: " + renderPath(m, path)}
		}
		// (b) from each re-evaluation site
		if len(clause.Reeval) > 0 {
			for _, b := range fn.Blocks {
				for i, in := range b.Instrs {
					if !isCallTo(in, clause.Reeval...) {
						continue
					}
					if ok, _, path := search(SearchSpec{Start: Loc{b, i + 1}, Target: isSink, Blocker: blocker, Removed: removed}); ok {
						return GuardResult{OK: false, Clause: cname,
							Witness: fmt.Sprintf("from call at %s: %s", m.Pos(in.Pos()), renderPath(m, path))}
					}
				}
			}
		}
	}
	return res
}

func renderPath(m *Module, path []*ssa.BasicBlock) string {
	var parts []string
	for _, b := range path {
		parts = append(parts, fmt.Sprintf("b%d@%s", b.Index, blockPos(m, b)))
	}
	if len(parts) > 14 {
		parts = append(append(parts[:6:6], "…"), parts[len(parts)-6:]...)
	}
	return strings.Join(parts, " → ")
}

func blockPos(m *Module, b *ssa.BasicBlock) string {
	for _, in := range b.Instrs {
		if in.Pos().IsValid() {
			p := m.Fset.Position(in.Pos())
			return fmt.Sprintf("L%d", p.Line)
		}
	}
	return "L?"
}

// locOf finds the location of an instruction.
func locOf(in ssa.Instruction) Loc {
	b := in.Block()
	for i, x := range b.Instrs {
		if x == in {
			return Loc{b, i}
		}
	}
	return Loc{b, 0}
}

// mustPassBefore: every path entry → sink executes an instruction satisfying `pass`.
func mustPassBefore(m *Module, fn *ssa.Function, sink ssa.Instruction, pass func(ssa.Instruction) bool) (bool, string) {
	ok, _, path := search(SearchSpec{Start: Loc{fn.Blocks[0], 0}, Target: func(in ssa.Instruction) bool { return in == sink }, Blocker: pass})
	if ok {
		return false, renderPath(m, path)
	}
	return true, ""
}

// mustPassAfter: every path from `from` to a function return executes an instruction satisfying `pass`.
func mustPassAfter(m *Module, from ssa.Instruction, pass func(ssa.Instruction) bool) (bool, string) {
	l := locOf(from)
	l.I++
	ok, _, path := search(SearchSpec{Start: l, ExitIsTarget: true, Blocker: pass})
	if ok {
		return false, renderPath(m, path)
	}
	return true, ""
}
