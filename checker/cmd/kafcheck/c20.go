package main

import (
	"fmt"
	"strings"

	"golang.org/x/tools/go/ssa"
)

func init() { register("C20", "other", checkC20) }

func checkC20(c *Ctx, r *Report) {
	r.Explanation = "Decides three structural necessary conditions of 'routing tables converge to the current lease owners': (W1) revision continuity — every clientv3 Watch started by PartitionRouter/GroupRouter carries WithRev(x) where x derives from the router's rev field, and rev is written only from the Header.Revision of the Get that filled the table (in the same critical section as the table swap) or of a watch response; (W2) after the watch channel closes, loadAll runs before the next Watch; (W3) the table is replaced wholesale only by loadAll and both routes and rev are only accessed under r.mu. The first rule exposed the load→watch gap repaired by 1be757e. It does not decide etcd's own delivery guarantees."
	r.NotCovered = "etcd's watch delivery guarantees; compaction handling beyond 'channel closes → reload'"
	m, err := c.Mod("root")
	if err != nil {
		r.unresolved("C20.load", "root module", err.Error())
		return
	}
	r.rule("C20.W1", "Watch(…, WithRev(f(r.rev))); r.rev written only from Header.Revision of the load / watch response", 6)
	r.rule("C20.W4", "loadAll's table and revision are one etcd snapshot: the range read is not repeated within a load unless pinned to one revision", 2)
	r.rule("C20.W2", "in watch(): after the channel closes loadAll is called before the next Watch", 2)
	r.rule("C20.W3", "routes replaced wholesale only by loadAll (and the constructor)", 4)

	for _, rt := range []string{"PartitionRouter", "GroupRouter"} {
		typ := pkgMetadata + "." + rt
		wf := needFn(m, r, "C20.W1", pkgMetadata, "(*"+rt+").watch")
		la := needFn(m, r, "C20.W1", pkgMetadata, "(*"+rt+").loadAll")
		if wf == nil || la == nil {
			continue
		}
		// W4: the table and the revision are one snapshot: the range read that fills the table runs
		// once per load; a read repeated in a loop (paging) sees each page at a different revision
		// unless every page is pinned to one revision with WithRev, and a change to an already-read
		// page is then neither in the table nor replayed by the watch that resumes after the last page.
		gets := findCalls(la, "~client/v3.KV).Get")
		if len(gets) == 0 {
			r.unresolved("C20.W4", rt+".loadAll range read", "no etcd Get found")
		}
		for gi, g := range gets {
			key := fmt.Sprintf("%s.loadAll range read #%d is a single-revision snapshot", rt, gi+1)
			gb := g.Block()
			inLoop := false
			for b := range blocksAfter(gb) {
				if b == gb {
					inLoop = true
				}
			}
			pinned := false
			for _, a := range g.Common().Args {
				backSlice(a, false, func(v ssa.Value) {
					if wc, ok := v.(*ssa.Call); ok && strings.HasSuffix(calleeName(&wc.Call), "client/v3.WithRev") {
						pinned = true
					}
				})
			}
			switch {
			case !inLoop:
				r.ok("C20.W4", key, m.Pos(g.Pos()), "one read per load")
			case pinned:
				r.ok("C20.W4", key, m.Pos(g.Pos()), "repeated, every read pinned with WithRev")
			default:
				r.viol("C20.W4", key, m.Pos(g.Pos()), "the read is repeated in a loop without WithRev: pages come from different revisions, so the installed table is not the state at the revision the watch resumes from")
			}
		}
		watches := findCalls(wf, "~client/v3.Watcher).Watch")
		if len(watches) == 0 {
			r.unresolved("C20.W1", rt+" Watch call", "not found")
		}
		for _, w := range watches {
			okRev := false
			// options are a variadic slice: look for a WithRev call feeding it
			for _, a := range w.Common().Args {
				backSlice(a, false, func(v ssa.Value) {
					if wc, ok := v.(*ssa.Call); ok && strings.HasSuffix(calleeName(&wc.Call), "client/v3.WithRev") {
						if dependsOnField(wc.Call.Args[0], typ, "rev") {
							okRev = true
						}
					}
				})
			}
			key := rt + ".watch resumes from the loaded revision"
			if okRev {
				r.ok("C20.W1", key, m.Pos(w.Pos()), "WithRev(r.rev+…)")
			} else {
				r.viol("C20.W1", key, m.Pos(w.Pos()), "Watch is started without WithRev(<revision of the loaded table>): lease changes between the Get and the Watch are lost")
			}
			// W2
			found, _, path := search(SearchSpec{Start: nextLoc(w), Target: func(in ssa.Instruction) bool { return in == ssa.Instruction(w) },
				Blocker: func(in ssa.Instruction) bool { return isCallTo(in, "(*"+typ+").loadAll") }})
			if found {
				r.viol("C20.W2", rt+".watch reloads before re-watching", m.Pos(w.Pos()), "the watch can be re-established without loadAll: "+renderPath(m, path))
			} else {
				r.ok("C20.W2", rt+".watch reloads before re-watching", m.Pos(w.Pos()), "")
			}
		}
		// writers of rev
		for _, w := range fieldWriters(m, typ, "rev", false) {
			r.fn(w.Fn)
			key := rt + ".rev written from Header.Revision in " + w.Fn.Name()
			fromHeader := dependsOnField(w.Val, "", "Revision")
			okFn := w.Fn == la || w.Fn == wf
			if fromHeader && okFn {
				r.ok("C20.W1", key, m.Pos(w.In.Pos()), "")
			} else {
				r.viol("C20.W1", key, m.Pos(w.In.Pos()), "rev is set to "+describe(w.Val)+" (must be the Header.Revision of the load or of a watch response, in loadAll/watch)")
			}
			if w.Fn == la {
				// same critical section as the table swap
				paired := false
				for _, rs := range storesToField(la, "metadata."+rt, "routes") {
					var first, second ssa.Instruction = rs, w.In
					if instrDominates(w.In, rs) {
						first, second = w.In, rs
					}
					if found, _, _ := search(SearchSpec{Start: nextLoc(first), ExitIsTarget: true,
						Target:  func(in ssa.Instruction) bool { return isCallTo(in, "(*sync.RWMutex).Unlock") },
						Blocker: func(in ssa.Instruction) bool { return in == second }}); !found {
						paired = true
					}
				}
				if paired {
					r.ok("C20.W1", rt+".loadAll swaps table and revision together", m.Pos(w.In.Pos()), "")
				} else {
					r.viol("C20.W1", rt+".loadAll swaps table and revision together", m.Pos(w.In.Pos()), "routes and rev are not updated in one critical section")
				}
			}
		}
		// W3
		for _, w := range fieldWriters(m, typ, "routes", false) {
			r.fn(w.Fn)
			n := funcName(w.Fn)
			key := "whole-table write of " + rt + ".routes in " + w.Fn.Name()
			if w.Fn == la || strings.HasSuffix(n, ".New"+rt) {
				r.ok("C20.W3", key, m.Pos(w.In.Pos()), "")
			} else {
				r.viol("C20.W3", key, m.Pos(w.In.Pos()), "routing table replaced outside loadAll")
			}
		}
	}
	checkLockset(m, r, "C20.W3L", "router routes/rev accessed only under r.mu",
		[]guardSpec{{Pkg: pkgMetadata, Type: "PartitionRouter", Mutex: "mu", Fields: []string{"routes", "rev"}},
			{Pkg: pkgMetadata, Type: "GroupRouter", Mutex: "mu", Fields: []string{"routes", "rev"}}}, 6)
}
