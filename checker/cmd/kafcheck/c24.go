package main

import (
	"fmt"
	"go/token"
	"sort"
	"strings"

	"golang.org/x/tools/go/ssa"
)

func init() { register("C24", "other", checkC24) }

const hPrefix = "(*" + pkgBroker + ".handler)."

var allowFns = []string{hPrefix + "allowTopic", hPrefix + "allowTopics", hPrefix + "allowGroup", hPrefix + "allowGroups", hPrefix + "allowCluster", hPrefix + "allowAdmin"}

// c24Sink: a sensitive operation and the ACL actions that authorise it (frozen from today's tree,
// consistent with Kafka's operation table: write = produce, read = fetch, group membership and
// commits = group_write, group inspection = group_read, deletion = group_admin, topic admin = admin).
type c24Sink struct {
	callee  string   // suffix match on callee name
	label   string
	actions []string // accepted action constants ("admin" also matches allowAdmin)
}

var c24Sinks = []c24Sink{
	{"metadata.Store).CreateTopic", "Store.CreateTopic", []string{"admin", "produce", "fetch"}}, // direct admin API; auto-create is reached through ensureTopic under the data-path permission
	{"metadata.Store).DeleteTopic", "Store.DeleteTopic", []string{"admin"}},
	{"metadata.Store).CreatePartitions", "Store.CreatePartitions", []string{"admin"}},
	{"metadata.Store).UpdateTopicConfig", "Store.UpdateTopicConfig", []string{"admin"}},
	{"broker.GroupCoordinator).JoinGroup", "coordinator.JoinGroup", []string{"group_write"}},
	{"broker.GroupCoordinator).SyncGroup", "coordinator.SyncGroup", []string{"group_write"}},
	{"broker.GroupCoordinator).Heartbeat", "coordinator.Heartbeat", []string{"group_write"}},
	{"broker.GroupCoordinator).LeaveGroup", "coordinator.LeaveGroup", []string{"group_write"}},
	{"broker.GroupCoordinator).OffsetCommit", "coordinator.OffsetCommit", []string{"group_write"}},
	{"broker.GroupCoordinator).OffsetFetch", "coordinator.OffsetFetch", []string{"group_read"}},
	{"broker.GroupCoordinator).DescribeGroups", "coordinator.DescribeGroups", []string{"group_read"}},
	{"broker.GroupCoordinator).ListGroups", "coordinator.ListGroups", []string{"group_read"}},
	{"broker.GroupCoordinator).DeleteGroups", "coordinator.DeleteGroups", []string{"group_admin"}},
	{"storage.PartitionLog).AppendBatch", "PartitionLog.AppendBatch", []string{"produce"}},
	{"storage.PartitionLog).Read", "PartitionLog.Read", []string{"fetch"}},
	{"broker.handler).ensureTopic", "ensureTopic (auto-create)", []string{"produce", "fetch", "admin"}},
	{"broker.handler).getPartitionLog", "getPartitionLog (may auto-create)", []string{"produce", "fetch"}},
}

// allowAction returns the ACL action a call to one of the allow* helpers checks.
func allowAction(c *ssa.Call) string {
	n := calleeName(&c.Call)
	if strings.HasSuffix(n, ".allowAdmin") {
		return "admin"
	}
	act := "?"
	for _, a := range c.Call.Args {
		if s, ok := constString(a); ok && strings.HasSuffix(a.Type().String(), "acl.Action") {
			act = s
		}
	}
	return act
}

func allowAtom(actions []string) Atom {
	return atomFn("allow*("+strings.Join(actions, "|")+") == true", func(l Lit) bool {
		if l.Op != token.ILLEGAL || l.Neg {
			return false
		}
		os := origins(l.X)
		if len(os) == 0 {
			return false
		}
		for _, o := range os {
			c, ok := strip(o).(*ssa.Call)
			if !ok || !nameMatches(calleeName(&c.Call), allowFns...) {
				return false
			}
			act := allowAction(c)
			okAct := false
			for _, a := range actions {
				if a == act {
					okAct = true
				}
			}
			if !okAct {
				return false
			}
		}
		return true
	})
}

type c24ctx struct {
	m       *Module
	reach   map[*ssa.Function]bool
	callers map[*ssa.Function][]ssa.Instruction // call sites / MakeClosure sites inside reach
}

func buildC24(m *Module, root *ssa.Function) *c24ctx {
	cx := &c24ctx{m: m, reach: map[*ssa.Function]bool{}, callers: map[*ssa.Function][]ssa.Instruction{}}
	var visit func(f *ssa.Function)
	visit = func(f *ssa.Function) {
		if cx.reach[f] || f.Blocks == nil {
			return
		}
		if p := fnPkg(f); p == nil || p.Path() != pkgBroker {
			return
		}
		cx.reach[f] = true
		for _, b := range f.Blocks {
			for _, in := range b.Instrs {
				switch x := in.(type) {
				case *ssa.MakeClosure:
					if g, ok := x.Fn.(*ssa.Function); ok {
						cx.callers[g] = append(cx.callers[g], in)
						visit(g)
					}
				case ssa.CallInstruction:
					if g, _ := calleeOf(x.Common()); g != nil {
						if _, isMC := x.Common().Value.(*ssa.MakeClosure); !isMC {
							cx.callers[g] = append(cx.callers[g], in)
						}
						visit(g)
					}
				}
			}
		}
	}
	visit(root)
	return cx
}

// guarded: is instruction `at` in fn protected by an allow check for one of `actions`, locally or at
// every site that calls / creates fn (up to depth)?
func (cx *c24ctx) guarded(fn *ssa.Function, at ssa.Instruction, actions []string, depth int, root *ssa.Function) (bool, string) {
	g := Guard{cl(allowAtom(actions)).re(allowFns...)}
	res := checkGuarded(cx.m, fn, at, g)
	if res.OK {
		return true, "checked in " + fn.Name() + ": " + strings.Join(res.Edges, "; ")
	}
	if fn == root || depth == 0 {
		return false, fmt.Sprintf("no allow check for action %v on path %s", actions, res.Witness)
	}
	sites := cx.callers[fn]
	if len(sites) == 0 {
		return false, "function has no call site inside the request path and is not guarded locally: " + res.Witness
	}
	var hows []string
	for _, s := range sites {
		ok, how := cx.guarded(s.Parent(), s, actions, depth-1, root)
		if !ok {
			return false, fmt.Sprintf("reached through %s at %s, where: %s", s.Parent().Name(), cx.m.Pos(s.Pos()), how)
		}
		hows = append(hows, how)
	}
	return true, "every caller is guarded: " + strings.Join(hows, " | ")
}

// filterIdiom: the sink's request argument is a local copy whose list field was replaced by a slice
// that only receives elements under an allow check (allowed = append(allowed, id)).
func (cx *c24ctx) filterIdiom(fn *ssa.Function, call ssa.CallInstruction, actions []string) (bool, string) {
	for _, a := range call.Common().Args {
		al, ok := strip(a).(*ssa.Alloc)
		if !ok {
			continue
		}
		for fname, sts := range fieldStores(al) {
			for _, st := range sts {
				// the stored slice: every append feeding it is guarded
				var appends []*ssa.Call
				bad := false
				for _, o := range origins(st.Val) {
					if _, isMake := strip(o).(*ssa.MakeSlice); isMake {
						continue // the empty initial list
					}
					c, ok := strip(o).(*ssa.Call)
					if !ok {
						bad = true
						continue
					}
					switch calleeName(&c.Call) {
					case "builtin.append":
						appends = append(appends, c)
					default:
						if !strings.HasPrefix(calleeName(&c.Call), "builtin.") {
							bad = true
						}
					}
				}
				// also appends that feed the same local through phis
				seen := map[*ssa.Call]bool{}
				var work []*ssa.Call
				work = append(work, appends...)
				for len(work) > 0 {
					c := work[0]
					work = work[1:]
					if seen[c] {
						continue
					}
					seen[c] = true
					for _, o := range origins(c.Call.Args[0]) {
						if c2, ok := strip(o).(*ssa.Call); ok && calleeName(&c2.Call) == "builtin.append" {
							work = append(work, c2)
						}
					}
				}
				if bad || len(seen) == 0 {
					continue
				}
				all := true
				for c := range seen {
					if !checkGuarded(cx.m, fn, c, Guard{cl(allowAtom(actions)).re(allowFns...)}).OK {
						all = false
					}
				}
				if all {
					return true, fmt.Sprintf("filter-then-forward: request field %s holds only elements appended under an allow check (%d append sites)", fname, len(seen))
				}
			}
		}
	}
	return false, ""
}

func checkC24(c *Ctx, r *Report) {
	r.Explanation = "Decides two structural necessary conditions of 'with ACLs on, an unauthorized request changes nothing and leaks nothing': (R1) every call site, in code reachable from (*handler).Handle, of a sensitive operation (topic create/delete/grow/config, every group-coordinator entry point, PartitionLog.AppendBatch/Read, ensureTopic, getPartitionLog) has passed a positive allow* check for an ACL action that authorises that operation — in the same function since the last re-evaluation of the check (per-topic loops), or at every site that calls or creates the enclosing function up to Handle, or through the filter-then-forward idiom (the forwarded list only receives elements appended under the check); for produce and fetch the topic given to getPartitionLog is the value that was checked; (R2) on the branch taken when an allow check fails, every path to the function's return (or to the next evaluation of the same check) writes one of the *_AUTHORIZATION_FAILED codes, calls an unauthorized* responder, or records the item in a denied-set that is mapped to such a code. R1 exposed the unauthenticated Metadata auto-create repaired by cd451db. Which permission is right for each API is frozen from today's tree as a table; metadata visibility of topic names is not covered."
	r.NotCovered = "visibility of topic names and partition counts through Metadata; the window between the check and the operation; ACL matching itself (C23)"
	m, err := c.Mod("root")
	if err != nil {
		r.unresolved("C24.load", "root module", err.Error())
		return
	}
	r.rule("C24.R1", "every sensitive-operation call site reachable from Handle has passed an allow* check for an authorising action (local / every caller / filter-then-forward)", 19)
	r.rule("C24.R2", "the failing branch of every allow* check answers with an *_AUTHORIZATION_FAILED code before returning", 22)
	r.rule("C24.R3", "the topic handed to getPartitionLog in produce/fetch is the value the allow check was applied to", 2)
	r.rule("C24.R8", "resource names are matched byte-exactly: in acl.nameMatches neither the rule's name nor the requested name passes through a case-folding function (Kafka topic and group names are case-sensitive: a grant on `orders` says nothing about `Orders`)", 1)
	r.Explanation += " (R8) acl.nameMatches compares resource names without case folding (no strings.EqualFold / ToLower / ToUpper / unicode mapping on a value derived from its parameters)."
	if nm := needFn(m, r, "C24.R8", pkgACL, "nameMatches"); nm != nil {
		r.fn(nm)
		bad := ""
		for _, call := range callsIn(nm) {
			cn := calleeName(call.Common())
			if nameMatches(cn, "strings.EqualFold", "strings.ToLower", "strings.ToUpper", "strings.ToTitle", "strings.Title", "strings.ToLowerSpecial", "strings.ToUpperSpecial", "strings.Map", "bytes.EqualFold", "bytes.ToLower", "bytes.ToUpper") || strings.HasPrefix(cn, "unicode.") || strings.HasPrefix(cn, "golang.org/x/text/") {
				bad = cn + " at " + m.Pos(call.Pos())
			}
		}
		if bad == "" {
			r.ok("C24.R8", "acl.nameMatches compares names without case folding", m.Pos(nm.Pos()), "")
		} else {
			r.viol("C24.R8", "acl.nameMatches compares names without case folding", m.Pos(nm.Pos()), "resource names go through "+bad+": a principal granted `orders` is authorised for the distinct resource `Orders` (and every other case variant)")
		}
	}

	root := needFn(m, r, "C24.R1", pkgBroker, "(*handler).Handle")
	if root == nil {
		return
	}
	cx := buildC24(m, root)
	var fns []*ssa.Function
	for f := range cx.reach {
		fns = append(fns, f)
	}
	sort.Slice(fns, func(i, j int) bool { return fns[i].Pos() < fns[j].Pos() })
	r.Extra["functions_reachable_from_Handle"] = len(fns)

	isAllowWrapper := func(f *ssa.Function) bool {
		return nameMatches(funcName(f), allowFns...)
	}
	authCodes := map[int64]bool{29: true, 30: true, 31: true}
	// unauthorized responders: functions that store an authorization code
	storesAuthCode := func(f *ssa.Function) bool {
		for _, g := range withAnon(f) {
			for _, b := range g.Blocks {
				for _, in := range b.Instrs {
					if st, ok := in.(*ssa.Store); ok {
						for _, o := range origins(st.Val) {
							if k, ok := constInt(o); ok && authCodes[k] {
								if fa, ok := st.Addr.(*ssa.FieldAddr); ok {
									if _, f, _, ok := fieldAddrInfo(fa); ok && f == "ErrorCode" {
										return true
									}
								}
								if _, ok := st.Addr.(*ssa.Alloc); ok {
									return true
								}
							}
						}
					}
				}
			}
		}
		return false
	}

	nSinks := 0
	for _, fn := range fns {
		if isAllowWrapper(fn) {
			continue
		}
		for _, call := range callsIn(fn) {
			name := calleeName(call.Common())
			for _, sk := range c24Sinks {
				if !strings.HasSuffix(name, sk.callee) {
					continue
				}
				// ensureTopic inside getPartitionLog is covered by the getPartitionLog sink itself
				if strings.HasSuffix(sk.callee, "ensureTopic") && strings.HasPrefix(shortName(fn), "getPartitionLog") {
					continue
				}
				if strings.HasSuffix(sk.callee, "Store).CreateTopic") && shortName(fn) == "ensureTopic" {
					continue // ensureTopic's own call sites are sinks
				}
				nSinks++
				r.fn(fn)
				r.CallSites++
				key := fmt.Sprintf("%s in %s", sk.label, fn.Name())
				ok, how := cx.guarded(fn, call.(ssa.Instruction), sk.actions, 4, root)
				if !ok {
					if ok2, how2 := cx.filterIdiom(fn, call, sk.actions); ok2 {
						ok, how = true, how2
					}
				}
				if ok {
					r.ok("C24.R1", key, m.Pos(call.Pos()), how)
				} else {
					r.viol("C24.R1", key, m.Pos(call.Pos()), "sensitive operation reachable without authorisation: "+how)
				}
			}
		}
	}
	if nSinks == 0 {
		r.unresolved("C24.R1", "sensitive call sites", "none found")
	}

	// ---- R3
	for _, hn := range []string{"(*handler).handleProduce", "(*handler).handleFetch"} {
		fn := needFn(m, r, "C24.R3", pkgBroker, hn)
		if fn == nil {
			continue
		}
		allows := findCalls(fn, hPrefix+"allowTopic")
		gpl := findCalls(fn, hPrefix+"getPartitionLog")
		key := fn.Name() + ": checked topic == opened topic"
		if len(allows) != 1 || len(gpl) == 0 {
			r.undecided("C24.R3", key, m.Pos(fn.Pos()), fmt.Sprintf("expected one allowTopic and ≥1 getPartitionLog, found %d and %d", len(allows), len(gpl)))
			continue
		}
		checked := allows[0].Common().Args[2]
		for _, g := range gpl {
			opened := g.Common().Args[2]
			if sameSource(checked, opened) || describe(checked) == describe(opened) {
				r.ok("C24.R3", key, m.Pos(g.Pos()), describe(checked))
			} else {
				r.viol("C24.R3", key, m.Pos(g.Pos()), "allowTopic is applied to "+describe(checked)+" but the log of "+describe(opened)+" is opened")
			}
		}
	}

	// ---- R2
	for _, fn := range fns {
		if isAllowWrapper(fn) {
			continue
		}
		for _, call := range findCalls(fn, allowFns...) {
			cv, ok := call.(*ssa.Call)
			if !ok {
				continue
			}
			ifs := ifsOn(fn, cv)
			key := fmt.Sprintf("denial of %s(%s) in %s is answered with an authorization error", calleeShort(cv), allowAction(cv), fn.Name())
			if len(ifs) == 0 {
				r.undecided("C24.R2", key, m.Pos(call.Pos()), "the result of the check is not branched on directly")
				continue
			}
			// denied-set maps: local maps whose comma-ok lookup leads to an auth code store
			deniedMaps := map[ssa.Value]bool{}
			for _, b := range fn.Blocks {
				for _, in := range b.Instrs {
					lk, ok := in.(*ssa.Lookup)
					if !ok || !lk.CommaOk {
						continue
					}
					for _, ifi := range ifsOnExtract(fn, lk) {
						tb := followJumps(ifi.T)
						for _, in2 := range tb.Instrs {
							if st, ok := in2.(*ssa.Store); ok {
								if k, ok := constInt(st.Val); ok && authCodes[k] {
									deniedMaps[mapRoot(lk.X)] = true
								}
							}
						}
					}
				}
			}
			evidence := func(in ssa.Instruction) bool {
				switch x := in.(type) {
				case *ssa.Store:
					for _, o := range origins(x.Val) {
						if k, ok := constInt(o); ok && authCodes[k] {
							return true
						}
					}
				case *ssa.MapUpdate:
					return deniedMaps[mapRoot(x.Map)]
				case ssa.CallInstruction:
					for _, a := range x.Common().Args {
						if k, ok := constInt(a); ok && authCodes[k] {
							return true
						}
					}
					if g, _ := calleeOf(x.Common()); g != nil && strings.HasPrefix(g.Name(), "unauthorized") && storesAuthCode(g) {
						return true
					}
				}
				return false
			}
			for _, ifi := range ifs {
				start := Loc{ifi.F, 0}
				// the denial region: blocks dominated by the failing branch's first block
				regionHasEvidence := false
				if len(ifi.F.Preds) == 1 {
					for _, b := range fn.Blocks {
						if !ifi.F.Dominates(b) {
							continue
						}
						for _, in := range b.Instrs {
							if evidence(in) {
								regionHasEvidence = true
							}
						}
					}
				}
				found, tgt, path := search(SearchSpec{Start: start, ExitIsTarget: true,
					Target: func(in ssa.Instruction) bool { return in == ssa.Instruction(cv) },
					Blocker: func(in ssa.Instruction) bool {
						if evidence(in) {
							return true
						}
						if c2, ok := in.(*ssa.Call); ok && c2 != cv && nameMatches(calleeName(&c2.Call), allowFns...) {
							return true // responsibility passes to the next check of a compound condition
						}
						return false
					}})
				if found && regionHasEvidence {
					r.ok("C24.R2", key, m.Pos(call.Pos()), "the denial branch writes the authorization code per requested item (no item, no code)")
				} else if found {
					what := "returns"
					if tgt == ssa.Instruction(cv) {
						what = "moves on to the next item"
					}
					r.viol("C24.R2", key, m.Pos(call.Pos()), "after a failed check the handler "+what+" without an authorization error: "+renderPath(m, path))
				} else {
					r.ok("C24.R2", key, m.Pos(call.Pos()), "")
				}
			}
		}
	}
}

// ifsOnExtract: Ifs branching on the ok component of a comma-ok lookup.
func ifsOnExtract(fn *ssa.Function, lk *ssa.Lookup) []branch {
	var out []branch
	if lk.Referrers() == nil {
		return nil
	}
	for _, ref := range *lk.Referrers() {
		if ex, ok := ref.(*ssa.Extract); ok && ex.Index == 1 {
			out = append(out, ifsOn(fn, ex)...)
		}
	}
	return out
}

// mapRoot: the local variable (alloc) or SSA value a map operand comes from.
func mapRoot(v ssa.Value) ssa.Value {
	v = strip(v)
	// a φ all of whose non-nil inputs are one map is that map (a folded helper returning the map
	// on its normal returns and nil beside an error)
	if _, ok := v.(*ssa.Phi); ok {
		var one ssa.Value
		n := 0
		for _, o := range origins(v) {
			if c, isC := o.(*ssa.Const); isC && c.Value == nil {
				continue
			}
			if one != o {
				one = o
				n++
			}
		}
		if n == 1 {
			v = strip(one)
		}
	}
	if u, ok := v.(*ssa.UnOp); ok && u.Op == token.MUL {
		return u.X
	}
	return v
}
