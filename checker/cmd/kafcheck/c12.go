package main

import (
	"fmt"
	"go/types"
	"go/constant"
	"go/token"
	"strings"

	"golang.org/x/tools/go/ssa"
)

// Consumer-group coordinator properties: C12, C13, C14, C43 (pkg/broker/coordinator.go).

func init() {
	register("C12", "other", checkC12)
	register("C13", "other", checkC13)
	register("C14", "other", checkC14)
	register("C43", "other", checkC43)
}

const (
	tGroupState  = pkgBrokerLib + ".groupState"
	tMemberState = pkgBrokerLib + ".memberState"
	coord        = "(*" + pkgBrokerLib + ".GroupCoordinator)."
	gstate       = "(*" + pkgBrokerLib + ".groupState)."
)

// group phase constants (iota order in coordinator.go, re-read from the source on every run)
func groupPhaseConsts(m *Module) map[string]int64 {
	out := map[string]int64{}
	for _, n := range []string{"groupStateEmpty", "groupStatePreparingRebalance", "groupStateCompletingRebalance", "groupStateStable", "groupStateDead"} {
		if v, ok := pkgConstInt(m, pkgBrokerLib, n); ok {
			out[n] = v
		}
	}
	return out
}

// edgeGuarded: every path from entry that traverses CFG edge (pred → pred.Succs[si]) has passed, for
// each clause, an establishing edge (the edge itself may be the establishing one).
func edgeGuarded(m *Module, fn *ssa.Function, pred *ssa.BasicBlock, si int, g Guard) GuardResult {
	for _, clause := range g {
		pe := passEdges(fn, clause.Atoms)
		if _, ok := pe[edge{pred, si}]; ok {
			continue
		}
		removed := func(b *ssa.BasicBlock, s int) bool { _, ok := pe[edge{b, s}]; return ok }
		term := pred.Instrs[len(pred.Instrs)-1]
		if ok, _, path := search(SearchSpec{Start: Loc{fn.Blocks[0], 0}, Target: func(in ssa.Instruction) bool { return in == term }, Removed: removed}); ok {
			return GuardResult{OK: false, Clause: clause.String(), Witness: renderPath(m, path)}
		}
	}
	return GuardResult{OK: true}
}

func atomGenerationEqual() Atom {
	return atomFn("req.Generation==state.generationID", func(l Lit) bool {
		if l.Op != token.EQL {
			return false
		}
		_, f1, _, ok1 := fieldOf(l.X)
		_, f2, _, ok2 := fieldOf(l.Y)
		return ok1 && ok2 && ((f1 == "Generation" && f2 == "generationID") || (f2 == "Generation" && f1 == "generationID"))
	})
}

// member present: comma-ok lookup on state.members is true, or the looked-up member != nil
func atomMemberPresent() Atom {
	isMembersLookup := func(v ssa.Value) bool {
		for _, o := range origins(v) {
			x := o
			if e, ok := x.(*ssa.Extract); ok {
				x = e.Tuple
			}
			lk, ok := x.(*ssa.Lookup)
			if !ok {
				return false
			}
			if _, f, _, ok := fieldOf(lk.X); !ok || f != "members" {
				return false
			}
		}
		return true
	}
	return atomFn("member present in state.members", func(l Lit) bool {
		if l.Op == token.ILLEGAL {
			if e, ok := l.X.(*ssa.Extract); ok && e.Index == 1 && !l.Neg {
				return isMembersLookup(e)
			}
			return false
		}
		if l.Op == token.NEQ && isNilConst(l.Y) {
			return isMembersLookup(l.X)
		}
		return false
	})
}

func atomStateNonNil() Atom {
	return atomCmp("state!=nil", vmCall(coord+"loadGroupIfMissing", coord+"ensureGroup"), token.NEQ, vmNil())
}

func atomPhaseIs(name string, k int64) Atom {
	return atomCmp("state.state=="+name, vmField("broker.groupState", "state"), token.EQL, vmConstInt(k))
}

// storesConst finds stores of integer constant k into field `field` of a struct whose type name ends with typ.
func storesConst(fn *ssa.Function, typ, field string, k int64) []*ssa.Store {
	var out []*ssa.Store
	for _, st := range storesToField(fn, typ, field) {
		if v, ok := constInt(st.Val); ok && v == k {
			out = append(out, st)
		}
	}
	return out
}

// ---------------------------------------------------------------------------------------------

func checkC12(c *Ctx, r *Report) {
	r.Explanation = "Decides two structural necessary conditions of 'each partition goes to exactly one current subscriber, one assignment per generation': (R1) the assignment map of a group is replaced only in SyncGroup — by the leader, in CompletingRebalance, while it is still empty — in startRebalance (which bumps the generation) and at construction/restore; other writers only delete the entry of a member that is itself being removed; (R2) in assignPartitions the member that receives a partition is indexed out of the eligible slice, every append to eligible has passed memberSubscribes(member, topic), and there is exactly one unconditional append per partition iteration. It does not decide balance or the modulo arithmetic."
	r.NotCovered = "balance; 'exactly once' as arithmetic over idx % len(eligible); consistency with cluster metadata"
	m, err := c.Mod("root")
	if err != nil {
		r.unresolved("C12.load", "root module", err.Error())
		return
	}
	ph := groupPhaseConsts(m)
	r.rule("C12.R1", "who-may-replace groupState.assignments: SyncGroup (state==Completing ∧ len(assignments)==0 ∧ member==leader), startRebalance, ensureGroup/restoreGroupState constructions; per-key deletes only next to a member removal", 5)
	r.rule("C12.R2", "assignPartitions: receiver is eligible[…]; every append to eligible passed memberSubscribes==true; one unconditional append per partition", 2)

	ws := checkWriterTable(m, r, "C12.R1", tGroupState, "assignments", false, map[string]string{
		coord + "SyncGroup":                    "leader computes the assignment once per generation",
		gstate + "startRebalance":              "reset together with the generation bump",
		coord + "ensureGroup":                  "construction of an empty group",
		pkgBrokerLib + ".restoreGroupState":    "construction from the persisted group",
	})
	for _, w := range ws {
		if funcName(w.Fn) != coord+"SyncGroup" {
			continue
		}
		g := Guard{
			cl(atomPhaseIs("CompletingRebalance", ph["groupStateCompletingRebalance"])),
			cl(atomFn("len(state.assignments)==0", func(l Lit) bool {
				if l.Op != token.EQL {
					return false
				}
				k, ok := constInt(l.Y)
				lc, ok2 := l.X.(*ssa.Call)
				if !ok || k != 0 || !ok2 || calleeName(&lc.Call) != "builtin.len" {
					return false
				}
				_, f, _, ok3 := fieldOf(lc.Call.Args[0])
				return ok3 && f == "assignments"
			})),
			cl(atomFn("req.MemberID==state.leaderID", func(l Lit) bool {
				if l.Op != token.EQL {
					return false
				}
				_, f1, _, ok1 := fieldOf(l.X)
				_, f2, _, ok2 := fieldOf(l.Y)
				return ok1 && ok2 && ((f1 == "MemberID" && f2 == "leaderID") || (f2 == "MemberID" && f1 == "leaderID"))
			})),
		}
		guardVerdict(m, r, "C12.R1", "SyncGroup computes assignments once, by the leader", w.Fn, w.In, g)
		if call := callOrigin(w.Val); call == nil || calleeName(&call.Call) != coord+"assignPartitions" {
			r.viol("C12.R1", "SyncGroup assignment value", m.Pos(w.In.Pos()), "stored value is "+describe(w.Val)+", not assignPartitions(...)")
		}
	}
	// startRebalance: the non-empty branch increments generationID in the same function
	if sr := needFn(m, r, "C12.R1", pkgBrokerLib, "(*groupState).startRebalance"); sr != nil {
		incs := storesToField(sr, "broker.groupState", "generationID")
		if len(incs) == 0 {
			r.viol("C12.R1", "startRebalance bumps generation with the reset", m.Pos(sr.Pos()), "assignments reset without a generation change")
		} else {
			r.ok("C12.R1", "startRebalance bumps generation with the reset", m.Pos(incs[0].Pos()), "")
		}
	}

	// ---- R2
	if ap := needFn(m, r, "C12.R2", pkgBrokerLib, "(*GroupCoordinator).assignPartitions"); ap != nil {
		// eligible = the []string slice the receiver is indexed out of; its appends must be guarded
		eligibleVals := map[ssa.Value]bool{}
		for _, site := range appendSites(ap, "[]int32") {
			if site.Call.Referrers() == nil {
				continue
			}
			for _, ref := range *site.Call.Referrers() {
				mu, ok := ref.(*ssa.MapUpdate)
				if !ok {
					continue
				}
				lk, ok := strip(mu.Map).(*ssa.Lookup)
				if !ok {
					continue
				}
				for _, o := range origins(lk.Index) {
					if u, ok := o.(*ssa.UnOp); ok && u.Op == token.MUL {
						if ia, ok := u.X.(*ssa.IndexAddr); ok {
							eligibleVals[ia.X] = true
							for _, oo := range origins(ia.X) {
								eligibleVals[oo] = true
							}
						}
					}
				}
			}
		}
		nEl := 0
		var eligiblePhis = eligibleVals
		for _, site := range appendSites(ap, "[]string") {
			if !eligibleVals[site.Call] {
				continue
			}
			nEl++
			g := Guard{cl(atomBool("memberSubscribes(member, topic)", vmCall(pkgBrokerLib+".memberSubscribes"), true)).re(pkgBrokerLib + ".memberSubscribes")}
			guardVerdict(m, r, "C12.R2", "append to eligible passed memberSubscribes", ap, site.At, g)
		}
		if nEl == 0 {
			r.viol("C12.R2", "append to eligible passed memberSubscribes", m.Pos(ap.Pos()), "the slice the partition receiver is taken from is not built by memberSubscribes-guarded appends")
		}
		// receiver
		nRecv := 0
		for _, site := range appendSites(ap, "[]int32") {
			// result[memberID][topic] = append(result[memberID][topic], partition): find the map update that stores this append
			if site.Call.Referrers() == nil {
				continue
			}
			for _, ref := range *site.Call.Referrers() {
				mu, ok := ref.(*ssa.MapUpdate)
				if !ok {
					continue
				}
				// mu.Map = result[memberID]  (a Lookup on result with key memberID)
				lk, ok := strip(mu.Map).(*ssa.Lookup)
				if !ok {
					continue
				}
				nRecv++
				okIdx := false
				for _, o := range origins(lk.Index) {
					if u, ok := o.(*ssa.UnOp); ok && u.Op == token.MUL {
						if ia, ok := u.X.(*ssa.IndexAddr); ok {
							for _, oo := range origins(ia.X) {
								if eligiblePhis[oo] {
									okIdx = true
								}
							}
						}
					}
				}
				if okIdx {
					r.ok("C12.R2", "partition receiver is taken from eligible", m.Pos(mu.Pos()), "")
				} else {
					r.viol("C12.R2", "partition receiver is taken from eligible", m.Pos(mu.Pos()), "receiver "+describe(lk.Index)+" is not an element of the eligible slice")
				}
				// unconditional within the partition loop: the append's block is the loop body entered on every iteration
				// (no If between the range step and the append other than the range condition itself)
				b := site.Call.Block()
				cond := 0
				for _, p := range b.Preds {
					if _, ok := p.Instrs[len(p.Instrs)-1].(*ssa.If); ok {
						cond++
					}
				}
				if len(b.Preds) == 1 && strings.Contains(b.Comment, "range") || cond <= 1 {
					r.ok("C12.R2", "one append per partition iteration", m.Pos(site.Call.Pos()), b.Comment)
				} else {
					r.viol("C12.R2", "one append per partition iteration", m.Pos(site.Call.Pos()), "append is under an additional condition")
				}
			}
		}
		if nRecv == 0 {
			r.unresolved("C12.R2", "partition receiver", "no result[member][topic] update found")
		}
	}

	// ---- R3: every membership change made by the sweep reaches the rebalance trigger
	r.rule("C12.R4", "the eligibility test and the member order are computed from the current subscription / member set (memberState.topics, groupState.members), not from a derived field", 2)
	r.rule("C12.R7", "each member's assignment list has storage of its own: no slice stored into groupState.assignments is carried from one iteration of the enclosing member loop to the next", 1)
	r.Explanation += " (R7) no slice stored into groupState.assignments inside a loop descends from a value carried around that loop: each member's assignment list has a backing array of its own (restoreGroupState after a failover)."
	checkAssignmentStorage(m, r, "C12.R7")
	if ms := needFn(m, r, "C12.R4", pkgBrokerLib, "memberSubscribes"); ms != nil {
		checkReadsOnly(m, r, "C12.R4", "memberSubscribes decides from memberState.topics alone", ms, pkgBrokerLib+".memberState", "topics")
	}
	if sm := needFn(m, r, "C12.R4", pkgBrokerLib, "(*groupState).sortedMembers"); sm != nil {
		checkReadsOnly(m, r, "C12.R4", "sortedMembers lists groupState.members as it is now", sm, pkgBrokerLib+".groupState", "members")
	}
	r.rule("C12.R3", "a member removed by the expiry / lagger sweep is always reported (so that cleanupGroups starts a rebalance and the member's partitions are reassigned)", 2)
	sweepDels := map[*ssa.Function][]ssa.Instruction{}
	isSweep := func(f *ssa.Function) bool {
		return funcName(f) == gstate+"removeExpiredMembers" || funcName(f) == gstate+"dropRebalanceLaggers"
	}
	for _, w := range fieldWriters(m, tGroupState, "members", true) {
		if w.Kind != "delete" {
			continue
		}
		// a delete inside a helper that only the sweeps (and other allowed removers) call is judged at
		// the helper's call site in the sweep
		for _, site := range liftToRoots(m, w.In, func(f *ssa.Function) bool {
			return isSweep(f) || funcName(f) == coord+"LeaveGroup"
		}) {
			if isSweep(site.Parent()) {
				sweepDels[site.Parent()] = append(sweepDels[site.Parent()], site)
			}
		}
	}
	for fn, ds := range sweepDels {
		removalReported(m, r, "C12.R3", fn, ds)
	}
}

// ---------------------------------------------------------------------------------------------

func checkC13(c *Ctx, r *Report) {
	r.Explanation = "Decides four structural necessary conditions of fencing: (R1) OffsetCommit reaches store.CommitConsumerOffset only with groupErr==NONE, and the phi edge that carries NONE is taken only after state!=nil ∧ member present ∧ req.Generation==state.generationID; (R2) Heartbeat refreshes lastHeartbeat and answers NONE only after member present ∧ generation equal ∧ state==Stable; (R3) SyncGroup answers NONE only after generation equal ∧ member present; (R4) generationID is written only by startRebalance (increment), restoreGroupState and construction. It does not cover the window between the check under c.mu and the store write after unlock."
	r.NotCovered = "the window between the generation check (under c.mu) and the offset write (after unlock)"
	m, err := c.Mod("root")
	if err != nil {
		r.unresolved("C13.load", "root module", err.Error())
		return
	}
	ph := groupPhaseConsts(m)
	r.rule("C13.R1", "CommitConsumerOffset guarded by groupErr==NONE; the NONE edge of groupErr guarded by state!=nil ∧ member present ∧ generation equal", 2)
	r.rule("C13.R2", "Heartbeat: lastHeartbeat refresh and NONE reply guarded by member present ∧ generation equal ∧ state==Stable", 2)
	r.rule("C13.R3", "SyncGroup: NONE reply guarded by generation equal ∧ member present", 1)
	r.rule("C13.R4", "who-may-write groupState.generationID: startRebalance (+1), restoreGroupState", 2)
	r.rule("C13.R8", "a member id is never issued twice: every key JoinGroup adds to groupState.members for a new member comes from a random source (math/rand or crypto/rand), not from state that starts over when the group is reaped, recreated or restored — (id, generation) is the whole of a member's credential, and generations start over too", 1)
	r.Explanation += " (R8) the id under which JoinGroup registers a new member derives from a math/rand or crypto/rand call (an id computed from per-incarnation state would be issued again after the group is recreated, and a stale member's (id, generation) would pass the fence)."
	if jg := needFn(m, r, "C13.R8", pkgBrokerLib, "(*GroupCoordinator).JoinGroup"); jg != nil {
		n := 0
		for _, b := range jg.Blocks {
			for _, in := range b.Instrs {
				mu, ok := in.(*ssa.MapUpdate)
				if !ok {
					continue
				}
				if _, f, _, okf := fieldOf(mu.Map); !okf || f != "members" {
					continue
				}
				// only registrations of a fresh member (the stored value is a new memberState)
				if _, isAlloc := strip(mu.Value).(*ssa.Alloc); !isAlloc {
					continue
				}
				n++
				key := "JoinGroup registers a new member under a random id"
				random := false
				backSlice(mu.Key, true, func(x ssa.Value) {
					if c, ok := x.(*ssa.Call); ok {
						cn := calleeName(&c.Call)
						if strings.HasPrefix(cn, "math/rand.") || strings.HasPrefix(cn, "math/rand/v2.") || strings.HasPrefix(cn, "crypto/rand.") || strings.HasPrefix(cn, "(*math/rand.Rand).") {
							random = true
						}
						if f, _ := calleeOf(&c.Call); f != nil && f.Blocks != nil && !random {
							// one level into a local helper such as newMemberID
							for _, fb := range f.Blocks {
								for _, fin := range fb.Instrs {
									if c2, ok := fin.(*ssa.Call); ok {
										cn2 := calleeName(&c2.Call)
										if strings.HasPrefix(cn2, "math/rand.") || strings.HasPrefix(cn2, "math/rand/v2.") || strings.HasPrefix(cn2, "crypto/rand.") || strings.HasPrefix(cn2, "(*math/rand.Rand).") {
											random = true
										}
									}
								}
							}
						}
					}
				})
				if random {
					r.ok("C13.R8", key, m.Pos(mu.Pos()), "")
				} else {
					r.viol("C13.R8", key, m.Pos(mu.Pos()), "the new member's id is "+describe(mu.Key)+" — no random source behind it: ids computed from group state repeat once that state starts over (group reaped and recreated, coordinator failover), and a stale member holding the same (id, generation) passes the fence")
				}
			}
		}
		if n == 0 {
			r.unresolved("C13.R8", "JoinGroup: registration of a new member", "no members[id] = &memberState{} found")
		}
	}
	r.rule("C13.R5", "group snapshots are written to the store in the order the state changed: every snapshot write (PutConsumerGroup, and the delete-when-empty in the same helper) runs with the coordinator's mutex held", 2)
	checkPersistUnderLock(m, r, "C13.R5")
	fence := Guard{cl(atomStateNonNil()), cl(atomMemberPresent()), cl(atomGenerationEqual())}

	if oc := needFn(m, r, "C13.R1", pkgBrokerLib, "(*GroupCoordinator).OffsetCommit"); oc != nil {
		commits := findCalls(oc, "~metadata.Store).CommitConsumerOffset")
		if len(commits) == 0 {
			r.unresolved("C13.R1", "CommitConsumerOffset call", "not found")
		}
		for _, cm := range commits {
			// guard: code == NONE where code derives from the groupErr phi
			var phi *ssa.Phi
			g := Guard{cl(atomFn("groupErr==NONE", func(l Lit) bool {
				if l.Op != token.EQL {
					return false
				}
				if k, ok := constInt(l.Y); !ok || k != 0 {
					return false
				}
				if p, ok := strip(l.X).(*ssa.Phi); ok {
					phi = p
					return true
				}
				return false
			}))}
			if !guardVerdict(m, r, "C13.R1", "CommitConsumerOffset only with groupErr==NONE", oc, cm, g) || phi == nil {
				continue
			}
			n := 0
			// (phi, edge index) pairs whose incoming value is the constant NONE, through nested phis
			type pe struct {
				p *ssa.Phi
				i int
			}
			var zeroEdges []pe
			seenPhi := map[*ssa.Phi]bool{}
			var collect func(p *ssa.Phi)
			collect = func(p *ssa.Phi) {
				if seenPhi[p] {
					return
				}
				seenPhi[p] = true
				for i, e := range p.Edges {
					if k, ok := constInt(e); ok && k == 0 {
						zeroEdges = append(zeroEdges, pe{p, i})
					} else if pp, ok := strip(e).(*ssa.Phi); ok {
						collect(pp)
					}
				}
			}
			collect(phi)
			for _, ze := range zeroEdges {
				phi, i := ze.p, ze.i
				{
					n++
					pred := phi.Block().Preds[i]
					si := 0
					for j, s := range pred.Succs {
						if s == phi.Block() {
							si = j
						}
					}
					res := edgeGuarded(m, oc, pred, si, fence)
					key := fmt.Sprintf("groupErr=NONE edge #%d is fenced", n)
					if res.OK {
						r.ok("C13.R1", key, m.Pos(phi.Pos()), "state!=nil ∧ member present ∧ generation equal")
					} else {
						r.viol("C13.R1", key, m.Pos(phi.Pos()), res.String())
					}
				}
			}
			if n == 0 {
				r.undecided("C13.R1", "groupErr=NONE edge", m.Pos(phi.Pos()), "no constant NONE edge into groupErr")
			}
		}
	}
	// ---- R2
	if hb := needFn(m, r, "C13.R2", pkgBrokerLib, "(*GroupCoordinator).Heartbeat"); hb != nil {
		g := Guard{cl(atomMemberPresent()), cl(atomGenerationEqual()), cl(atomPhaseIs("Stable", ph["groupStateStable"]))}
		for _, st := range storesToField(hb, "broker.memberState", "lastHeartbeat") {
			guardVerdict(m, r, "C13.R2", "Heartbeat refresh of lastHeartbeat is fenced", hb, st, g)
		}
		for _, call := range callsIn(hb) {
			cc := call.Common()
			if f, _ := calleeOf(cc); f != nil && f.Parent() == hb && len(cc.Args) == 1 {
				if k, ok := constInt(cc.Args[0]); ok && k == 0 {
					guardVerdict(m, r, "C13.R2", "Heartbeat NONE reply is fenced", hb, call, g)
				}
			}
		}
	}
	// ---- R3
	if sg := needFn(m, r, "C13.R3", pkgBrokerLib, "(*GroupCoordinator).SyncGroup"); sg != nil {
		g := Guard{cl(atomGenerationEqual()), cl(atomMemberPresent())}
		sts := storesConst(sg, "kmsg.SyncGroupResponse", "ErrorCode", 0)
		if len(sts) == 0 {
			r.unresolved("C13.R3", "SyncGroup NONE reply", "store of NONE not found")
		}
		for _, st := range sts {
			guardVerdict(m, r, "C13.R3", "SyncGroup NONE reply is fenced", sg, st, g)
		}
	}
	// ---- R4
	ws := checkWriterTable(m, r, "C13.R4", tGroupState, "generationID", false, map[string]string{
		gstate + "startRebalance":           "increment",
		pkgBrokerLib + ".restoreGroupState": "persisted generation",
	})
	for _, w := range ws {
		if funcName(w.Fn) == gstate+"startRebalance" {
			terms, k := flattenSum(w.Val)
			ok := k == 1 && len(terms) == 1
			if ok {
				_, f, _, okf := fieldOf(terms[0])
				ok = okf && f == "generationID"
			}
			if ok {
				r.ok("C13.R4", "startRebalance increments generationID by one", m.Pos(w.In.Pos()), "")
			} else {
				r.viol("C13.R4", "startRebalance increments generationID by one", m.Pos(w.In.Pos()), "new generation is "+describe(w.Val))
			}
		}
	}
}

// ---------------------------------------------------------------------------------------------

func checkC14(c *Ctx, r *Report) {
	r.Explanation = "Decides four structural necessary conditions of 'rebalances complete only when every member has rejoined': (R1) JoinGroup answers NONE only when ready, and ready is true only because the group is Stable/CompletingRebalance or completeIfReady() returned true; (R2) completeIfReady is the only writer of state=CompletingRebalance and cannot return true after seeing a member whose joinGeneration differs from the generation; (R3) the member list is attached only for ready ∧ memberID==leaderID; (R4) leaderID is written only by the listed functions with a key of members or the empty string. It does not decide the liveness clause (every sync then succeeds)."
	r.NotCovered = "the liveness clause 'then every member's sync succeeds'"
	m, err := c.Mod("root")
	if err != nil {
		r.unresolved("C14.load", "root module", err.Error())
		return
	}
	ph := groupPhaseConsts(m)
	r.rule("C14.R1", "JoinGroup: ErrorCode=NONE dominated by ready; ready's true edges come from state∈{Stable,Completing} or completeIfReady()", 2)
	r.rule("C14.R2", "only completeIfReady writes state=CompletingRebalance; its `return true` is unreachable after a joinGeneration mismatch", 2)
	r.rule("C14.R3", "resp.Members = encodeMemberSubscriptions(...) only under ready ∧ memberID==state.leaderID", 1)
	r.rule("C14.R4", "who-may-write groupState.leaderID", 5)
	r.rule("C14.R7", "the leader is elected from the member set as it is now: sortedMembers reads groupState.members and no derived order", 1)
	if sm := needFn(m, r, "C14.R7", pkgBrokerLib, "(*groupState).sortedMembers"); sm != nil {
		checkReadsOnly(m, r, "C14.R7", "sortedMembers lists groupState.members as it is now", sm, pkgBrokerLib+".groupState", "members")
	}

	isReady := func(v ssa.Value) bool {
		p, ok := v.(*ssa.Phi)
		return ok && anyOrigin(p, vmCall(gstate+"completeIfReady"))
	}
	atomReady := atomFn("ready", func(l Lit) bool { return l.Op == token.ILLEGAL && !l.Neg && isReady(l.X) })
	if jg := needFn(m, r, "C14.R1", pkgBrokerLib, "(*GroupCoordinator).JoinGroup"); jg != nil {
		sts := storesConst(jg, "kmsg.JoinGroupResponse", "ErrorCode", 0)
		if len(sts) == 0 {
			r.unresolved("C14.R1", "JoinGroup NONE reply", "store of NONE not found")
		}
		for _, st := range sts {
			guardVerdict(m, r, "C14.R1", "JoinGroup NONE reply dominated by ready", jg, st, Guard{cl(atomReady)})
		}
		// ready's edges (recursively through nested phis of the || chain)
		for _, b := range jg.Blocks {
			for _, in := range b.Instrs {
				p, ok := in.(*ssa.Phi)
				if !ok || !isReady(p) {
					continue
				}
				bad := ""
				seenPhi := map[*ssa.Phi]bool{}
				var checkPhi func(p *ssa.Phi)
				checkPhi = func(p *ssa.Phi) {
					if seenPhi[p] {
						return
					}
					seenPhi[p] = true
					for i, e := range p.Edges {
						if cst, ok := e.(*ssa.Const); ok && cst.Value != nil {
							if cst.Value.ExactString() == "true" {
								pred := p.Block().Preds[i]
								si := 0
								for j, s := range pred.Succs {
									if s == p.Block() {
										si = j
									}
								}
								res := edgeGuarded(m, jg, pred, si, Guard{cl(atomPhaseIs("Stable", ph["groupStateStable"]), atomPhaseIs("CompletingRebalance", ph["groupStateCompletingRebalance"]))})
								if !res.OK {
									bad = "ready=true edge not justified by state∈{Stable,Completing}: " + res.String()
								}
							}
							continue
						}
						if co := callOrigin(e); co != nil && calleeName(&co.Call) == gstate+"completeIfReady" {
							continue
						}
						if pp, ok := e.(*ssa.Phi); ok {
							checkPhi(pp)
							continue
						}
						if bo, ok := e.(*ssa.BinOp); ok && bo.Op == token.EQL {
							if _, f, _, okf := fieldOf(bo.X); okf && f == "state" {
								if k, okc := constInt(bo.Y); okc && (k == ph["groupStateStable"] || k == ph["groupStateCompletingRebalance"]) {
									continue
								}
							}
						}
						bad = "ready takes value " + describe(e)
					}
				}
				checkPhi(p)
				if bad == "" {
					r.ok("C14.R1", "ready is true only via Stable/Completing or completeIfReady()", m.Pos(p.Pos()), "")
				} else {
					r.viol("C14.R1", "ready is true only via Stable/Completing or completeIfReady()", m.Pos(p.Pos()), bad)
				}
			}
		}
		// R3
		nm := 0
		for _, st := range storesToField(jg, "kmsg.JoinGroupResponse", "Members") {
			if co := callOrigin(st.Val); co == nil || calleeName(&co.Call) != coord+"encodeMemberSubscriptions" {
				continue
			}
			nm++
			g := Guard{cl(atomReady), cl(atomFn("memberID==state.leaderID", func(l Lit) bool {
				if l.Op != token.EQL {
					return false
				}
				_, f1, _, ok1 := fieldOf(l.X)
				_, f2, _, ok2 := fieldOf(l.Y)
				return (ok1 && f1 == "leaderID") || (ok2 && f2 == "leaderID")
			}))}
			guardVerdict(m, r, "C14.R3", "member list attached only for the leader when ready", jg, st, g)
		}
		if nm == 0 {
			r.unresolved("C14.R3", "resp.Members = encodeMemberSubscriptions", "store not found")
		}
	}
	// ---- R2
	comp := ph["groupStateCompletingRebalance"]
	nW := 0
	for _, w := range fieldWriters(m, tGroupState, "state", false) {
		if k, ok := constInt(w.Val); ok && k == comp {
			nW++
			if funcName(w.Fn) == gstate+"completeIfReady" {
				r.ok("C14.R2", "writer of state=CompletingRebalance: completeIfReady", m.Pos(w.In.Pos()), "")
			} else {
				r.viol("C14.R2", "writer of state=CompletingRebalance: "+funcName(w.Fn), m.Pos(w.In.Pos()), "only completeIfReady may enter CompletingRebalance")
			}
		}
	}
	if nW == 0 {
		r.unresolved("C14.R2", "writer of state=CompletingRebalance", "none found")
	}
	if cr := needFn(m, r, "C14.R2", pkgBrokerLib, "(*groupState).completeIfReady"); cr != nil {
		mismatch := passEdges(cr, []Atom{atomFn("joinGeneration!=generationID", func(l Lit) bool {
			if l.Op != token.NEQ {
				return false
			}
			_, f1, _, ok1 := fieldOf(l.X)
			_, f2, _, ok2 := fieldOf(l.Y)
			return ok1 && ok2 && ((f1 == "joinGeneration" && f2 == "generationID") || (f2 == "joinGeneration" && f1 == "generationID"))
		})})
		if len(mismatch) == 0 {
			r.viol("C14.R2", "completeIfReady checks every member's joinGeneration", m.Pos(cr.Pos()), "no joinGeneration != generationID comparison")
		}
		for e := range mismatch {
			found, tgt, path := search(SearchSpec{Start: Loc{e.from.Succs[e.succ], 0}, Target: func(in ssa.Instruction) bool {
				ret, ok := in.(*ssa.Return)
				if !ok || len(ret.Results) != 1 {
					if st, ok := in.(*ssa.Store); ok {
						if k, okc := constInt(st.Val); okc && k == comp {
							if fa, ok := st.Addr.(*ssa.FieldAddr); ok {
								if _, f, _, _ := fieldAddrInfo(fa); f == "state" {
									return true
								}
							}
						}
					}
					return false
				}
				cst, ok := ret.Results[0].(*ssa.Const)
				return !ok || cst.Value == nil || cst.Value.ExactString() != "false"
			}})
			if found {
				r.viol("C14.R2", "completeIfReady cannot complete after a lagging member", m.Pos(tgt.Pos()), "reachable after joinGeneration != generationID: "+renderPath(m, path))
			} else {
				r.ok("C14.R2", "completeIfReady cannot complete after a lagging member", m.Pos(cr.Pos()), "mismatch edge reaches only `return false`")
			}
		}
	}
	// ---- R6 (added after a seeded change): once the group is Stable — the leader has synced — no
	// member's SyncGroup is answered REBALANCE_IN_PROGRESS. Every such reply in SyncGroup is guarded
	// by a test that excludes the Stable state (state == X for another state, or state != Stable).
	r.rule("C14.R6", "SyncGroup answers REBALANCE_IN_PROGRESS only while the group is not Stable", 3)
	if sg := needFn(m, r, "C14.R6", pkgBrokerLib, "(*GroupCoordinator).SyncGroup"); sg != nil {
		stable, okStable := int64(0), false
		if p := m.ByPath[pkgBrokerLib]; p != nil {
			if cst, ok := p.Types.Scope().Lookup("groupStateStable").(*types.Const); ok {
				if v, ok2 := constant.Int64Val(cst.Val()); ok2 {
					stable, okStable = v, true
				}
			}
		}
		if !okStable {
			r.unresolved("C14.R6", "groupStateStable constant", "not found")
		} else {
			notStable := Guard{cl(atomFn("state != Stable", func(l Lit) bool {
				_, f, _, ok := fieldOf(l.X)
				if !ok || f != "state" {
					return false
				}
				k, ok := constInt(l.Y)
				if !ok {
					return false
				}
				return (l.Op == token.EQL && k != stable) || (l.Op == token.NEQ && k == stable)
			}))}
			n := 0
			for _, fn := range withAnon(sg) {
				_ = fn
			}
			for _, call := range callsIn(sg) {
				// mkErrResp(code) closure calls and direct ErrorCode stores with the constant 27
				args := call.Common().Args
				if len(args) == 0 {
					continue
				}
				k, ok := constInt(args[len(args)-1])
				if !ok || k != 27 {
					continue
				}
				isLocal := false
				switch cv := strip(call.Common().Value).(type) {
				case *ssa.MakeClosure:
					isLocal = true
				case *ssa.Function:
					isLocal = cv.Parent() == sg
				}
				if !isLocal {
					continue
				}
				n++
				guardVerdict(m, r, "C14.R6", fmt.Sprintf("SyncGroup REBALANCE_IN_PROGRESS reply #%d is given only to a group that is not Stable", n), sg, call.(ssa.Instruction), notStable)
			}
			// … or the code written directly into a response
			for _, st := range storesToField(sg, "kmsg.SyncGroupResponse", "ErrorCode") {
				if k, ok := constInt(st.Val); ok && k == 27 {
					n++
					guardVerdict(m, r, "C14.R6", fmt.Sprintf("SyncGroup REBALANCE_IN_PROGRESS reply #%d is given only to a group that is not Stable", n), sg, st, notStable)
				}
			}
			if n == 0 {
				r.unresolved("C14.R6", "SyncGroup REBALANCE_IN_PROGRESS replies", "none found")
			}
		}
	}

	// ---- R5
	r.rule("C14.R5", "after delete(members, k) every path to return clears/re-elects the leader (store to leaderID, ensureLeader()), has checked leaderID != k, or deletes the whole group; startRebalance re-validates the leader unconditionally", 2)
	checkLeaderAfterDelete(m, r, "C14.R5")

	// ---- R4
	ws := checkWriterTable(m, r, "C14.R4", tGroupState, "leaderID", false, map[string]string{
		coord + "JoinGroup":                 "first joiner becomes leader",
		coord + "LeaveGroup":                "cleared when the leader leaves",
		gstate + "ensureLeader":             "first of sortedMembers() or empty",
		gstate + "startRebalance":           "cleared for an empty group",
		gstate + "removeExpiredMembers":     "cleared when the leader expires",
		gstate + "dropRebalanceLaggers":     "cleared when the leader lags",
		pkgBrokerLib + ".restoreGroupState": "persisted leader (then ensureLeader)",
	})
	for _, w := range ws {
		okv := false
		if s, ok := constString(w.Val); ok && s == "" {
			okv = true
		}
		for _, o := range origins(w.Val) {
			// element of sortedMembers(), the joining member id, or the persisted leader
			if u, ok := o.(*ssa.UnOp); ok && u.Op == token.MUL {
				if ia, ok := u.X.(*ssa.IndexAddr); ok && allOrigins(ia.X, vmCall(gstate+"sortedMembers")) {
					okv = true
				}
			}
			if _, f, _, ok := fieldOf(o); ok && (f == "MemberID" || f == "Leader") {
				okv = true
			}
			if co := callOrigin(o); co != nil && calleeName(&co.Call) == coord+"newMemberID" {
				okv = true
			}
		}
		if !okv {
			r.viol("C14.R4", "leaderID value in "+funcName(w.Fn), m.Pos(w.In.Pos()), "leader set to "+describe(w.Val)+", which is neither \"\" nor a member id")
		}
	}
}

// ---------------------------------------------------------------------------------------------

func checkC43(c *Ctx, r *Report) {
	r.Explanation = "Decides three structural necessary conditions of member expiry: (R1) members are deleted only in removeExpiredMembers (after now.Sub(lastHeartbeat) > timeout), in dropRebalanceLaggers (after the deadline checks and joinGeneration != generationID) and in LeaveGroup (the caller's own id); (R2) in cleanupGroups a removal is always followed by startRebalance or deletion of the group before the next group is examined; (R3) lastHeartbeat is refreshed on every successful Heartbeat and on every JoinGroup. The timing clauses themselves (once the timeout has passed, cleanup-interval granularity) are not decided."
	r.NotCovered = "the timing clauses ('once the timeout has passed'), cleanup-interval granularity"
	m, err := c.Mod("root")
	if err != nil {
		r.unresolved("C43.load", "root module", err.Error())
		return
	}
	r.rule("C43.R1", "who-may-delete groupState.members, each under its guard", 3)
	r.rule("C43.R2", "every removal is reported by the sweep helpers, and in cleanupGroups a reported removal is followed by startRebalance or group deletion before the next group", 3)
	r.rule("C43.R4", "the expiry sweep examines every member on every call: each return of removeExpiredMembers lies behind the range over groupState.members (no shortcut decides from a remembered deadline)", 1)
	if re := needFn(m, r, "C43.R4", pkgBrokerLib, "(*groupState).removeExpiredMembers"); re != nil {
		var rng ssa.Instruction
		for _, b := range re.Blocks {
			for _, in := range b.Instrs {
				if x, ok := in.(*ssa.Range); ok {
					if _, f, _, okf := fieldOf(x.X); okf && f == "members" {
						rng = x
					}
				}
			}
		}
		if rng == nil {
			r.unresolved("C43.R4", "removeExpiredMembers scan", "no range over groupState.members")
		} else {
			n := 0
			for _, b := range re.Blocks {
				ret, ok := b.Instrs[len(b.Instrs)-1].(*ssa.Return)
				if !ok {
					continue
				}
				n++
				key := fmt.Sprintf("removeExpiredMembers return #%d comes after the scan of all members", n)
				if ok, path := mustPassBefore(m, re, ret, func(in ssa.Instruction) bool { return in == rng }); ok {
					r.ok("C43.R4", key, m.Pos(ret.Pos()), "")
				} else {
					r.viol("C43.R4", key, m.Pos(ret.Pos()), "the sweep can return without looking at the members: "+path+" — a member whose session lapsed in the meantime stays in the group and no rebalance starts")
				}
			}
		}
	}
	r.rule("C43.R3", "lastHeartbeat refreshed before every NONE heartbeat reply and on every JoinGroup", 2)
	r.rule("C43.R5", "every generation bump re-arms the rebalance window: after generationID++ each path to a return stores time.Now().Add(rebalanceTimeout) into rebalanceDeadline; every other store of the deadline is the zero time or such a fresh value", 4)
	r.Explanation += " (R5) after every generationID++ each path to a return re-arms rebalanceDeadline with time.Now().Add(rebalanceTimeout) (or bumpRebalanceDeadline), and every other store of the deadline is the zero time or such a fresh value."
	checkDeadlineRearmed(m, r, "C43.R5")

	dels := map[string][]ssa.Instruction{}
	removers := map[string]bool{gstate + "removeExpiredMembers": true, gstate + "dropRebalanceLaggers": true, coord + "LeaveGroup": true}
	for _, w := range fieldWriters(m, tGroupState, "members", true) {
		if w.Kind != "delete" {
			continue
		}
		// a delete inside a helper that only the three removers call is judged at the helper's call
		// site in the remover (extracting the removal into a function adds no new remover)
		lifted := liftToRoots(m, w.In, func(f *ssa.Function) bool { return removers[funcName(f)] })
		if lifted == nil {
			dels[funcName(w.Fn)] = append(dels[funcName(w.Fn)], w.In)
			continue
		}
		for _, site := range lifted {
			dels[funcName(site.Parent())] = append(dels[funcName(site.Parent())], site)
		}
	}
	allowed := map[string]Guard{
		gstate + "removeExpiredMembers": {cl(atomFn("now.Sub(lastHeartbeat) > timeout", func(l Lit) bool {
			return l.Op == token.GTR && dependsOnCall(l.X, "(time.Time).Sub") && dependsOnField(l.X, tMemberState, "lastHeartbeat")
		}))},
		gstate + "dropRebalanceLaggers": {
			cl(atomBool("!deadline.IsZero()", vmCall("(time.Time).IsZero"), false)),
			cl(atomBool("!now.Before(deadline)", vmCall("(time.Time).Before"), false)),
			cl(atomFn("joinGeneration!=generationID", func(l Lit) bool {
				if l.Op != token.NEQ {
					return false
				}
				_, f1, _, ok1 := fieldOf(l.X)
				_, f2, _, ok2 := fieldOf(l.Y)
				return ok1 && ok2 && ((f1 == "joinGeneration" && f2 == "generationID") || (f2 == "joinGeneration" && f1 == "generationID"))
			})),
		},
		coord + "LeaveGroup": {cl(atomMemberPresent())},
	}
	for fnName, ins := range dels {
		g, ok := allowed[fnName]
		for _, in := range ins {
			if !ok {
				r.viol("C43.R1", "delete(members) in "+fnName, m.Pos(in.Pos()), "member removal outside removeExpiredMembers / dropRebalanceLaggers / LeaveGroup")
				continue
			}
			guardVerdict(m, r, "C43.R1", "delete(members) in "+fnName+" under its guard", in.Parent(), in, g)
			if fnName == coord+"LeaveGroup" {
				call := in.(*ssa.Call)
				if len(call.Call.Args) < 2 {
					continue
				}
				if _, f, _, okf := fieldOf(call.Call.Args[len(call.Call.Args)-1]); !okf || f != "MemberID" {
					r.viol("C43.R1", "LeaveGroup deletes the caller's own id", m.Pos(in.Pos()), "deleted key is "+describe(call.Call.Args[1]))
				}
			}
		}
	}
	for fnName := range allowed {
		if len(dels[fnName]) == 0 {
			r.unresolved("C43.R1", "delete(members) in "+fnName, "expected removal site not found")
		}
	}
	for _, fnName := range []string{gstate + "removeExpiredMembers", gstate + "dropRebalanceLaggers"} {
		if len(dels[fnName]) > 0 {
			removalReported(m, r, "C43.R2", dels[fnName][0].Parent(), dels[fnName])
		}
	}

	// ---- R2
	if cg := needFn(m, r, "C43.R2", pkgBrokerLib, "(*GroupCoordinator).cleanupGroups"); cg != nil {
		bad := ""
		for _, src := range []string{gstate + "removeExpiredMembers", gstate + "dropRebalanceLaggers"} {
			calls := findCalls(cg, src)
			if len(calls) == 0 {
				bad = "cleanupGroups does not call " + src
				continue
			}
			// paths on which this call reported "nothing removed" are exempt
			falseEdges := passEdges(cg, []Atom{atomBool("nothing removed", vmCall(src), false)})
			for _, call := range calls {
				found, _, path := search(SearchSpec{Start: nextLoc(call),
					Removed: func(b *ssa.BasicBlock, si int) bool { _, ok := falseEdges[edge{b, si}]; return ok },
					Target: func(in ssa.Instruction) bool {
						if _, ok := in.(*ssa.Return); ok {
							return true
						}
						return isCallTo(in, gstate+"removeExpiredMembers")
					},
					Blocker: func(in ssa.Instruction) bool {
						if isCallTo(in, gstate+"startRebalance") {
							return true
						}
						if c2, ok := in.(*ssa.Call); ok && calleeName(&c2.Call) == "builtin.delete" {
							if _, f, _, ok := fieldOf(c2.Call.Args[0]); ok && f == "groups" {
								return true
							}
						}
						return false
					}})
				if found {
					bad = "after " + src[strings.LastIndex(src, ".")+1:] + " reported a removal the loop can continue without startRebalance or group deletion: " + renderPath(m, path)
				}
			}
		}
		if bad == "" {
			r.ok("C43.R2", "cleanupGroups rebalances or deletes after a removal", m.Pos(cg.Pos()), "")
		} else {
			r.viol("C43.R2", "cleanupGroups rebalances or deletes after a removal", m.Pos(cg.Pos()), bad)
		}
	}

	// ---- R3
	if hb := needFn(m, r, "C43.R3", pkgBrokerLib, "(*GroupCoordinator).Heartbeat"); hb != nil {
		for _, call := range callsIn(hb) {
			cc := call.Common()
			if f, _ := calleeOf(cc); f != nil && f.Parent() == hb && len(cc.Args) == 1 {
				if k, ok := constInt(cc.Args[0]); ok && k == 0 {
					ok2, path := mustPassBefore(m, hb, call, func(in ssa.Instruction) bool {
						st, ok := in.(*ssa.Store)
						if !ok {
							return false
						}
						fa, ok := st.Addr.(*ssa.FieldAddr)
						if !ok {
							return false
						}
						_, f, _, _ := fieldAddrInfo(fa)
						return f == "lastHeartbeat" && dependsOnCall(st.Val, "time.Now")
					})
					if ok2 {
						r.ok("C43.R3", "successful Heartbeat refreshes lastHeartbeat", m.Pos(call.Pos()), "")
					} else {
						r.viol("C43.R3", "successful Heartbeat refreshes lastHeartbeat", m.Pos(call.Pos()), "NONE reply reachable without the refresh: "+path)
					}
				}
			}
		}
	}
	if jg := needFn(m, r, "C43.R3", pkgBrokerLib, "(*GroupCoordinator).JoinGroup"); jg != nil {
		for _, b := range jg.Blocks {
			for _, in := range b.Instrs {
				ret, ok := in.(*ssa.Return)
				if !ok || len(ret.Results) != 2 || alwaysNil(ret.Results[0]) {
					continue
				}
				ok2, path := mustPassBefore(m, jg, ret, func(in ssa.Instruction) bool {
					st, ok := in.(*ssa.Store)
					if !ok {
						return false
					}
					fa, ok := st.Addr.(*ssa.FieldAddr)
					if !ok {
						return false
					}
					_, f, _, _ := fieldAddrInfo(fa)
					return f == "lastHeartbeat" && dependsOnCall(st.Val, "time.Now")
				})
				if ok2 {
					r.ok("C43.R3", "JoinGroup refreshes lastHeartbeat", m.Pos(ret.Pos()), "")
				} else {
					r.viol("C43.R3", "JoinGroup refreshes lastHeartbeat", m.Pos(ret.Pos()), "response returned without the refresh: "+path)
				}
			}
		}
	}
}

// removalReported: in a bool-returning helper that deletes members, every path from a delete to a
// return yields true. The flag is monotone (false initially, only ever assigned true), so the
// returned value is true iff the path crossed a CFG edge on which one of the phis feeding the
// return receives the constant true.
func removalReported(m *Module, r *Report, rule string, fn *ssa.Function, dels []ssa.Instruction) {
	feeding := map[*ssa.Phi]bool{}
	var rets []*ssa.Return
	var collect func(v ssa.Value)
	collect = func(v ssa.Value) {
		if p, ok := v.(*ssa.Phi); ok && !feeding[p] {
			feeding[p] = true
			for _, e := range p.Edges {
				collect(e)
			}
		}
	}
	for _, b := range fn.Blocks {
		if ret, ok := b.Instrs[len(b.Instrs)-1].(*ssa.Return); ok && len(ret.Results) == 1 {
			rets = append(rets, ret)
			collect(ret.Results[0])
		}
	}
	isTrue := func(v ssa.Value) bool {
		k, ok := v.(*ssa.Const)
		return ok && k.Value != nil && k.Value.ExactString() == "true"
	}
	isFalse := func(v ssa.Value) bool {
		k, ok := v.(*ssa.Const)
		return ok && k.Value != nil && k.Value.ExactString() == "false"
	}
	trueEdge := map[edge]bool{}
	for p := range feeding {
		for i, e := range p.Edges {
			pred := p.Block().Preds[i]
			if isTrue(e) {
				for si, sb := range pred.Succs {
					if sb == p.Block() {
						trueEdge[edge{pred, si}] = true
					}
				}
			}
		}
	}
	for _, d := range dels {
		key := "a removal in " + fn.Name() + " is always reported to the caller"
		// a constant-false input to a feeding phi on an edge reachable after the delete would reset the flag
		reset := ""
		for p := range feeding {
			for i, e := range p.Edges {
				if !isFalse(e) {
					continue
				}
				pred := p.Block().Preds[i]
				if found, _, _ := search(SearchSpec{Start: nextLoc(d), Target: func(in ssa.Instruction) bool { return in.Block() == pred }}); found {
					reset = "the flag can be reset to false after the removal (edge from " + blockPos(m, pred) + ")"
				}
			}
		}
		found, tgt, path := search(SearchSpec{Start: nextLoc(d),
			Removed: func(b *ssa.BasicBlock, si int) bool { return trueEdge[edge{b, si}] },
			Target: func(in ssa.Instruction) bool {
				ret, ok := in.(*ssa.Return)
				return ok && !isTrue(ret.Results[0])
			}})
		switch {
		case reset != "":
			r.viol(rule, key, m.Pos(d.Pos()), reset)
		case found:
			r.viol(rule, key, m.Pos(d.Pos()), "a member is deleted but the function can still return false, so the caller starts no rebalance and the member's partitions stay unowned: "+renderPath(m, path)+" → return at "+m.Pos(tgt.Pos()))
		default:
			r.ok(rule, key, m.Pos(d.Pos()), "")
		}
	}
	_ = rets
}

// checkPersistUnderLock: a snapshot written outside c.mu can land after a later one and put an old
// generation (with members that were fenced since) back into the store; a coordinator that reloads
// it accepts their stale commits. Every store write of group state happens under GroupCoordinator.mu,
// locally or at every call site of the helper that performs it (recursively).
func checkPersistUnderLock(m *Module, r *Report, rule string) {
	mu := pkgBrokerLib + ".GroupCoordinator.mu"
	callers, _ := buildCallers(m)
	locks := map[*ssa.Function]*fnLocks{}
	get := func(fn *ssa.Function) *fnLocks {
		if l, ok := locks[fn]; ok {
			return l
		}
		l := computeLocks(fn, lockSet{})
		locks[fn] = l
		return l
	}
	var heldAtSite func(fn *ssa.Function, at ssa.Instruction, base ssa.Value, depth int) (bool, string)
	heldAtSite = func(fn *ssa.Function, at ssa.Instruction, base ssa.Value, depth int) (bool, string) {
		if mode, ok := get(fn).heldAt(at)[lockKey{canonBase(base), mu}]; ok && mode == 2 {
			return true, ""
		}
		// the coordinator is this function's own receiver / parameter: the callers must hold it
		pi := -1
		for i, p := range fn.Params {
			if ssa.Value(p) == strip(base) {
				pi = i
			}
		}
		if pi < 0 || depth > 4 {
			return false, fmt.Sprintf("%s at %s runs without c.mu", describeInstr(at), m.Pos(at.Pos()))
		}
		sites := callers[fn]
		if len(sites) == 0 {
			return false, fmt.Sprintf("%s performs the write without c.mu and has no caller that holds it", funcName(fn))
		}
		for _, cs := range sites {
			if _, isGo := cs.in.(*ssa.Go); isGo {
				return false, fmt.Sprintf("go %s at %s", funcName(fn), m.Pos(cs.in.Pos()))
			}
			args := cs.in.Common().Args
			if pi >= len(args) {
				continue
			}
			if ok, why := heldAtSite(cs.caller, cs.in.(ssa.Instruction), args[pi], depth+1); !ok {
				return false, fmt.Sprintf("%s is called at %s without c.mu (%s)", fn.Name(), m.Pos(cs.in.Pos()), why)
			}
		}
		return true, ""
	}
	n := 0
	for _, fn0 := range m.FuncsInPkg(pkgBrokerLib) {
		for _, fn := range withAnon(fn0) {
			for _, call := range callsIn(fn) {
				cc := call.Common()
				if !cc.IsInvoke() || (cc.Method.Name() != "PutConsumerGroup" && cc.Method.Name() != "DeleteConsumerGroup") {
					continue
				}
				// the admin DeleteGroups request ends the group's existence and writes no snapshot;
				// only the snapshot path (the helper that also puts) is ordered by the mutex
				if cc.Method.Name() == "DeleteConsumerGroup" && len(findCalls(fn, "~metadata.Store).PutConsumerGroup")) == 0 {
					continue
				}
				// the store is a field of the coordinator
				_, f, base, ok := fieldOf(cc.Value)
				if !ok || f != "store" {
					continue
				}
				n++
				key := fmt.Sprintf("%s in %s runs under the coordinator's mutex", cc.Method.Name(), fn.Name())
				if okH, why := heldAtSite(fn, call.(ssa.Instruction), base, 0); okH {
					r.ok(rule, key, m.Pos(call.Pos()), "")
				} else {
					r.viol(rule, key, m.Pos(call.Pos()), why+": a delayed snapshot can overwrite a newer one, restoring a generation and members that were already fenced")
				}
			}
		}
	}
	if n == 0 {
		r.unresolved(rule, "group state writes", "none found")
	}
}

// checkDeadlineRearmed (C43.R5, added after a seeded change kept an expired deadline across the
// follow-up rebalance): a generation bump resets every member to "has not rejoined", so the lagger
// sweep may only act on a deadline armed at or after that bump.
func checkDeadlineRearmed(m *Module, r *Report, rule string) {
	fresh := func(v ssa.Value) bool {
		return dependsOnCall(v, "(time.Time).Add") && dependsOnCall(v, "time.Now") && dependsOnField(v, "", "rebalanceTimeout")
	}
	isArm := func(in ssa.Instruction) bool {
		if st, ok := in.(*ssa.Store); ok {
			if fa, ok := st.Addr.(*ssa.FieldAddr); ok {
				if t, f, _, ok := fieldAddrInfo(fa); ok && t == tGroupState && f == "rebalanceDeadline" {
					return fresh(st.Val)
				}
			}
		}
		return isCallTo(in, gstate+"bumpRebalanceDeadline")
	}
	bumps := 0
	for _, w := range fieldWriters(m, tGroupState, "generationID", false) {
		bo, ok := strip(w.Val).(*ssa.BinOp)
		if !ok || bo.Op != token.ADD {
			continue // restored from the persisted record, not a bump
		}
		bumps++
		r.fn(w.Fn)
		key := "generation bump in " + funcName(w.Fn) + " re-arms rebalanceDeadline"
		if ok, path := mustPassAfter(m, w.In, isArm); ok {
			r.ok(rule, key, m.Pos(w.In.Pos()), "")
		} else {
			r.viol(rule, key, m.Pos(w.In.Pos()), "after the generation bump a return is reachable without a fresh time.Now().Add(rebalanceTimeout) deadline (the lagger sweep would act on the previous rebalance's deadline): "+path)
		}
	}
	if bumps == 0 {
		r.unresolved(rule, "generation bumps", "no generationID increment found")
	}
	n := 0
	for _, w := range fieldWriters(m, tGroupState, "rebalanceDeadline", false) {
		n++
		key := fmt.Sprintf("deadline stored in %s is zero or fresh", funcName(w.Fn))
		zero := false
		if c, ok := strip(w.Val).(*ssa.Const); ok && c.Value == nil {
			zero = true
		}
		if u, ok := w.Val.(*ssa.UnOp); ok && u.Op == token.MUL {
			if a, ok := u.X.(*ssa.Alloc); ok {
				zero = true
				for _, ref := range *a.Referrers() {
					if _, isStore := ref.(*ssa.Store); isStore {
						zero = false
					}
				}
			}
		}
		if zero || fresh(w.Val) {
			r.ok(rule, key, m.Pos(w.In.Pos()), "")
		} else {
			r.viol(rule, key, m.Pos(w.In.Pos()), "stored value is "+describe(w.Val)+", neither time.Time{} nor time.Now().Add(rebalanceTimeout)")
		}
	}
	if n == 0 {
		r.unresolved(rule, "rebalanceDeadline stores", "none found")
	}
}

// checkAssignmentStorage (C12.R7, added after a seeded change reused one backing array for every
// restored member's assignment list, so that after a failover all members held the last member's
// partitions).
func checkAssignmentStorage(m *Module, r *Report, rule string) {
	n := 0
	for _, w := range fieldWriters(m, tGroupState, "assignments", true) {
		if w.Kind != "mapupdate" {
			continue
		}
		var outer *ssa.BasicBlock
		for d := w.In.Block(); d != nil; d = d.Idom() {
			if d.Comment == "rangeiter.loop" || d.Comment == "rangeindex.loop" || d.Comment == "for.loop" {
				outer = d
			}
		}
		if outer == nil {
			continue
		}
		n++
		r.fn(w.Fn)
		key := "assignment list stored in " + shortName(w.Fn) + " is not shared between iterations"
		seen := map[ssa.Value]bool{}
		var carried *ssa.Phi
		var walk func(v ssa.Value)
		walk = func(v ssa.Value) {
			v = strip(v)
			if v == nil || seen[v] {
				return
			}
			seen[v] = true
			switch x := v.(type) {
			case *ssa.Phi:
				if x.Block() == outer {
					carried = x
					return
				}
				for _, e := range x.Edges {
					walk(e)
				}
			case *ssa.Slice:
				walk(x.X)
			case *ssa.Call:
				if bi, ok := x.Call.Value.(*ssa.Builtin); ok && bi.Name() == "append" && len(x.Call.Args) > 0 {
					walk(x.Call.Args[0])
				}
			}
		}
		walk(w.Val)
		if carried != nil {
			r.viol(rule, key, m.Pos(w.In.Pos()), "the stored slice descends from "+describe(carried)+", a value carried around the loop at "+m.Pos(outer.Instrs[0].Pos())+": every iteration's list shares one backing array, so all members end up with the last one's partitions")
		} else {
			r.ok(rule, key, m.Pos(w.In.Pos()), "")
		}
	}
	if n == 0 {
		r.unresolved(rule, "stores into groupState.assignments inside a loop", "none found (restoreGroupState is expected)")
	}
}
