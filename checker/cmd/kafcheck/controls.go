package main

import (
	"sync"
	"strconv"
	"encoding/json"
	"fmt"
	"os"
	"os/exec"
	"path/filepath"
	"runtime"
	"runtime/debug"
	"sort"
	"strings"
)

// control is one sensitivity control: a single edit of the current source, applied in memory through
// packages.Config.Overlay, on which the named rule must fire.
type control struct {
	Name            string `json:"name"`
	File            string `json:"file"` // repository-relative
	Find            string `json:"find"`
	Replace         string `json:"replace"`
	ExpectRule      string `json:"expect_rule"`
	ExpectConstruct string `json:"expect_construct,omitempty"` // substring
	Why             string `json:"why,omitempty"`
	// Edits: further edits applied together with File/Find/Replace (multi-site variants).
	Edits []struct {
		File    string `json:"file"`
		Find    string `json:"find"`
		Replace string `json:"replace"`
	} `json:"edits,omitempty"`
}

type controlResult struct {
	Name   string `json:"name"`
	Status string `json:"status"` // fired | missed | skipped
	Detail string `json:"detail"`
}

func loadControls(id string) []control {
	b, err := os.ReadFile(filepath.Join(verifRoot, "controls", strings.ToLower(id)+".json"))
	if err != nil {
		return nil
	}
	var cs []control
	if err := json.Unmarshal(b, &cs); err != nil {
		fmt.Fprintf(os.Stderr, "controls %s: %v\n", id, err)
		os.Exit(2)
	}
	return cs
}

// seedControls replays the confirmed seeded changes filed under /verif/seeded/<name>/ for this
// property: patch.diff is applied to scratch copies of the touched files (outside /repo) and the
// result is loaded through the packages overlay; the check must report something it does not report
// on the base.
// ctlJob is the expensive part of one control (load the module with the overlay, run the property's
// rules, classify): jobs of one property run on a small worker pool and write out[idx].
type ctlJob struct {
	idx int
	run func() controlResult
}

func seedControls(base *Ctx, id string, baseRep *Report) ([]controlResult, []ctlJob) {
	var out []controlResult
	var jobs []ctlJob
	dirs, _ := filepath.Glob(filepath.Join(verifRoot, "seeded", "*", "meta.json"))
	sort.Strings(dirs)
	for _, mf := range dirs {
		b, err := os.ReadFile(mf)
		if err != nil {
			continue
		}
		var meta struct {
			Property string `json:"property"`
			Detected string `json:"detected_by_checks"`
			Also     []string `json:"also_checked_by"`
		}
		if json.Unmarshal(b, &meta) != nil {
			continue
		}
		applies := meta.Property == id
		for _, a := range meta.Also {
			if a == id {
				applies = true
			}
		}
		if !applies || !strings.HasPrefix(meta.Detected, "yes") {
			continue
		}
		name := "seed:" + filepath.Base(filepath.Dir(mf))
		patch := filepath.Join(filepath.Dir(mf), "patch.diff")
		pb, err := os.ReadFile(patch)
		if err != nil {
			out = append(out, controlResult{name, "skipped", "patch.diff missing"})
			continue
		}
		var files []string
		for _, line := range strings.Split(string(pb), "\n") {
			if strings.HasPrefix(line, "+++ b/") {
				files = append(files, strings.TrimPrefix(line, "+++ b/"))
			}
		}
		tmp, err := os.MkdirTemp("", "kafcheck-seed-")
		if err != nil {
			out = append(out, controlResult{name, "skipped", err.Error()})
			continue
		}
		okCopy := true
		for _, f := range files {
			src, err := os.ReadFile(filepath.Join(base.Repo, f))
			if err != nil {
				okCopy = false
				break
			}
			os.MkdirAll(filepath.Dir(filepath.Join(tmp, f)), 0o755)
			os.WriteFile(filepath.Join(tmp, f), src, 0o644)
		}
		if !okCopy {
			os.RemoveAll(tmp)
			out = append(out, controlResult{name, "skipped", "a patched file no longer exists"})
			continue
		}
		cmd := exec.Command("patch", "-p1", "-s", "--no-backup-if-mismatch", "-d", tmp, "-i", patch)
		if outp, err := cmd.CombinedOutput(); err != nil {
			os.RemoveAll(tmp)
			out = append(out, controlResult{name, "skipped", "patch no longer applies to the current source: " + strings.TrimSpace(string(outp))})
			continue
		}
		overlay := map[string][]byte{}
		for _, f := range files {
			nb, _ := os.ReadFile(filepath.Join(tmp, f))
			overlay[filepath.Join(base.Repo, f)] = nb
		}
		os.RemoveAll(tmp)
		out = append(out, controlResult{name, "pending", ""})
		jobs = append(jobs, ctlJob{len(out) - 1, func() controlResult {
			ctx := &Ctx{Repo: base.Repo, Tier: "quick", Overlay: overlay, mods: map[string]*Module{}}
			rep := runProp(ctx, id)
			fired := ""
			for _, r := range rep.Results {
				if r.Status != Violation && r.Status != Undecided && r.Status != Unresolved {
					continue
				}
				already := false
				for _, br := range baseRep.Results {
					if br.Rule == r.Rule && br.Construct == r.Construct && (br.Status == r.Status || br.Status == Known) {
						already = true
					}
				}
				if !already {
					fired = fmt.Sprintf("%s %s | %s", r.Status, r.Rule, r.Construct)
					break
				}
			}
			if fired != "" {
				return controlResult{name, "fired", fired}
			}
			return controlResult{name, "missed", "the seeded change is no longer reported"}
		}})
	}
	return out, jobs
}

// refactorControls: negative controls. /verif/refactors/<tag>/patch.diff are behaviour-preserving
// refactorings (helper extraction, inverted conditions, switch for if-chains, pre-sized make for append,
// concatenation for Sprintf, renames …) written independently of the checker; each passes the
// repository's tests. For every one whose meta.json lists this property the check must stay silent:
// a report on such a tree is a false alarm.
func refactorControls(base *Ctx, id string, baseRep *Report) ([]controlResult, []ctlJob) {
	var out []controlResult
	var jobs []ctlJob
	metas, _ := filepath.Glob(filepath.Join(verifRoot, "refactors", "*", "meta.json"))
	sort.Strings(metas)
	for _, mf := range metas {
		b, err := os.ReadFile(mf)
		if err != nil {
			continue
		}
		var meta struct {
			Properties []string `json:"properties"`
		}
		if json.Unmarshal(b, &meta) != nil {
			continue
		}
		applies := false
		for _, p := range meta.Properties {
			if p == id {
				applies = true
			}
		}
		if !applies {
			continue
		}
		name := "refactor:" + filepath.Base(filepath.Dir(mf))
		patch := filepath.Join(filepath.Dir(mf), "patch.diff")
		pb, err := os.ReadFile(patch)
		if err != nil {
			out = append(out, controlResult{name, "skipped", "patch.diff missing"})
			continue
		}
		var files []string
		for _, line := range strings.Split(string(pb), "\n") {
			if strings.HasPrefix(line, "+++ b/") {
				files = append(files, strings.TrimPrefix(line, "+++ b/"))
			}
		}
		tmp, err := os.MkdirTemp("", "kafcheck-ref-")
		if err != nil {
			out = append(out, controlResult{name, "skipped", err.Error()})
			continue
		}
		okCopy := true
		for _, f := range files {
			src, err := os.ReadFile(filepath.Join(base.Repo, f))
			if err != nil {
				okCopy = false
				break
			}
			os.MkdirAll(filepath.Dir(filepath.Join(tmp, f)), 0o755)
			os.WriteFile(filepath.Join(tmp, f), src, 0o644)
		}
		if !okCopy {
			os.RemoveAll(tmp)
			out = append(out, controlResult{name, "skipped", "a patched file no longer exists"})
			continue
		}
		cmd := exec.Command("patch", "-p1", "-s", "--no-backup-if-mismatch", "-d", tmp, "-i", patch)
		if outp, err := cmd.CombinedOutput(); err != nil {
			os.RemoveAll(tmp)
			out = append(out, controlResult{name, "skipped", "patch no longer applies to the current source: " + strings.TrimSpace(string(outp))})
			continue
		}
		overlay := map[string][]byte{}
		for _, f := range files {
			nb, _ := os.ReadFile(filepath.Join(tmp, f))
			overlay[filepath.Join(base.Repo, f)] = nb
		}
		os.RemoveAll(tmp)
		out = append(out, controlResult{name, "pending", ""})
		jobs = append(jobs, ctlJob{len(out) - 1, func() controlResult {
			ctx := &Ctx{Repo: base.Repo, Tier: "quick", Overlay: overlay, mods: map[string]*Module{}}
			rep := runProp(ctx, id)
			alarm := ""
			for _, r := range rep.Results {
				if r.Status != Violation && r.Status != Undecided && r.Status != Unresolved {
					continue
				}
				already := false
				for _, br := range baseRep.Results {
					if br.Rule == r.Rule && br.Construct == r.Construct && (br.Status == r.Status || br.Status == Known) {
						already = true
					}
				}
				// a known finding keyed by construct stays known on the refactored tree
				for _, f := range loadKnown().Findings {
					if f.Property == id && f.Rule == r.Rule && f.Construct == r.Construct {
						already = true
					}
				}
				if !already {
					alarm = fmt.Sprintf("%s %s | %s | %s", r.Status, r.Rule, r.Construct, r.Detail)
					break
				}
			}
			if alarm != "" {
				return controlResult{name, "false-alarm", alarm}
			}
			return controlResult{name, "quiet", "no report on the behaviour-preserving variant"}
		}})
	}
	return out, jobs
}

func runControls(base *Ctx, id string, baseRep *Report) []controlResult {
	var out []controlResult
	var jobs []ctlJob
	{
		o, j := seedControls(base, id, baseRep)
		for _, x := range j {
			jobs = append(jobs, ctlJob{x.idx + len(out), x.run})
		}
		out = append(out, o...)
		o, j = refactorControls(base, id, baseRep)
		for _, x := range j {
			jobs = append(jobs, ctlJob{x.idx + len(out), x.run})
		}
		out = append(out, o...)
	}
	for _, c := range loadControls(id) {
		c := c
		abs := filepath.Join(base.Repo, c.File)
		src, err := os.ReadFile(abs)
		if err != nil || !strings.Contains(string(src), c.Find) {
			out = append(out, controlResult{c.Name, "skipped", "search text not present in " + c.File + " (source changed); control not applicable"})
			continue
		}
		edited := strings.Replace(string(src), c.Find, c.Replace, 1)
		overlay := map[string][]byte{abs: []byte(edited)}
		skip := false
		for _, e := range c.Edits {
			a2 := filepath.Join(base.Repo, e.File)
			cur, ok := overlay[a2]
			if !ok {
				b, err := os.ReadFile(a2)
				if err != nil {
					skip = true
					break
				}
				cur = b
			}
			if !strings.Contains(string(cur), e.Find) {
				skip = true
				break
			}
			overlay[a2] = []byte(strings.Replace(string(cur), e.Find, e.Replace, 1))
		}
		if skip {
			out = append(out, controlResult{c.Name, "skipped", "search text of a secondary edit not present (source changed); control not applicable"})
			continue
		}
		out = append(out, controlResult{c.Name, "pending", ""})
		jobs = append(jobs, ctlJob{len(out) - 1, func() controlResult {
		ctx := &Ctx{Repo: base.Repo, Tier: "quick", Overlay: overlay, mods: map[string]*Module{}}
		rep := runProp(ctx, id)
		fired := false
		detail := ""
		for _, r := range rep.Results {
			if r.Status != Violation && r.Status != Undecided && r.Status != Unresolved {
				continue
			}
			if r.Rule == c.ExpectRule && (c.ExpectConstruct == "" || strings.Contains(r.Construct, c.ExpectConstruct)) {
				// must not already be failing on the base
				already := false
				for _, br := range baseRep.Results {
					if br.Rule == r.Rule && br.Construct == r.Construct && br.Status == r.Status {
						already = true
					}
				}
				if !already {
					fired = true
					detail = fmt.Sprintf("%s %s | %s", r.Status, r.Rule, r.Construct)
					break
				}
			}
		}
		if fired {
			return controlResult{c.Name, "fired", detail}
		}
		{
			var got []string
			for _, r := range rep.Results {
				if r.Status == Violation || r.Status == Undecided || r.Status == Unresolved {
					got = append(got, r.Rule+"|"+r.Construct+"|"+r.Detail)
				}
			}
			return controlResult{c.Name, "missed", fmt.Sprintf("expected %s to fire; got %v", c.ExpectRule, got)}
		}
		}})
	}
	runCtlJobs(out, jobs)
	return out
}


// runCtlJobs executes the replays on a worker pool (KAFCHECK_PAR, default 4: each replay holds one
// loaded module, about 1 GB) and stores each result at its place.
func runCtlJobs(out []controlResult, jobs []ctlJob) {
	par := 4
	if v := os.Getenv("KAFCHECK_PAR"); v != "" {
		if n, err := strconv.Atoi(v); err == nil && n > 0 {
			par = n
		}
	}
	sem := make(chan struct{}, par)
	var wg sync.WaitGroup
	for _, j := range jobs {
		wg.Add(1)
		sem <- struct{}{}
		go func(j ctlJob) {
			defer wg.Done()
			defer func() { <-sem }()
			defer func() {
				if e := recover(); e != nil {
					out[j.idx] = controlResult{out[j.idx].Name, "missed", fmt.Sprintf("replay panicked: %v", e)}
				}
			}()
			out[j.idx] = j.run()
			runtime.GC()
			debug.FreeOSMemory()
		}(j)
	}
	wg.Wait()
}
