package main

import (
	"encoding/json"
	"fmt"
	"os"
	"path/filepath"
	"runtime"
	"runtime/debug"
	"strings"
)

// control is one sensitivity control: a single edit of the current source, applied in memory through
// packages.Config.Overlay, on which the named rule must fire.
type control struct {
	Name            string `json:"name"`
	File            string `json:"file"` // repository-relative
	Find            string `json:"find"`
	Replace         string `json:"replace"`
	ExpectRule      string `json:"expect_rule"`
	ExpectConstruct string `json:"expect_construct,omitempty"` // substring
	Why             string `json:"why,omitempty"`
	// Edits: further edits applied together with File/Find/Replace (multi-site variants).
	Edits []struct {
		File    string `json:"file"`
		Find    string `json:"find"`
		Replace string `json:"replace"`
	} `json:"edits,omitempty"`
}

type controlResult struct {
	Name   string `json:"name"`
	Status string `json:"status"` // fired | missed | skipped
	Detail string `json:"detail"`
}

func loadControls(id string) []control {
	b, err := os.ReadFile(filepath.Join(verifRoot, "controls", strings.ToLower(id)+".json"))
	if err != nil {
		return nil
	}
	var cs []control
	if err := json.Unmarshal(b, &cs); err != nil {
		fmt.Fprintf(os.Stderr, "controls %s: %v\n", id, err)
		os.Exit(2)
	}
	return cs
}

func runControls(base *Ctx, id string, baseRep *Report) []controlResult {
	var out []controlResult
	for _, c := range loadControls(id) {
		abs := filepath.Join(base.Repo, c.File)
		src, err := os.ReadFile(abs)
		if err != nil || !strings.Contains(string(src), c.Find) {
			out = append(out, controlResult{c.Name, "skipped", "search text not present in " + c.File + " (source changed); control not applicable"})
			continue
		}
		edited := strings.Replace(string(src), c.Find, c.Replace, 1)
		overlay := map[string][]byte{abs: []byte(edited)}
		skip := false
		for _, e := range c.Edits {
			a2 := filepath.Join(base.Repo, e.File)
			cur, ok := overlay[a2]
			if !ok {
				b, err := os.ReadFile(a2)
				if err != nil {
					skip = true
					break
				}
				cur = b
			}
			if !strings.Contains(string(cur), e.Find) {
				skip = true
				break
			}
			overlay[a2] = []byte(strings.Replace(string(cur), e.Find, e.Replace, 1))
		}
		if skip {
			out = append(out, controlResult{c.Name, "skipped", "search text of a secondary edit not present (source changed); control not applicable"})
			continue
		}
		ctx := &Ctx{Repo: base.Repo, Tier: "quick", Overlay: overlay, mods: map[string]*Module{}}
		rep := runProp(ctx, id)
		fired := false
		detail := ""
		for _, r := range rep.Results {
			if r.Status != Violation && r.Status != Undecided && r.Status != Unresolved {
				continue
			}
			if r.Rule == c.ExpectRule && (c.ExpectConstruct == "" || strings.Contains(r.Construct, c.ExpectConstruct)) {
				// must not already be failing on the base
				already := false
				for _, br := range baseRep.Results {
					if br.Rule == r.Rule && br.Construct == r.Construct && br.Status == r.Status {
						already = true
					}
				}
				if !already {
					fired = true
					detail = fmt.Sprintf("%s %s | %s", r.Status, r.Rule, r.Construct)
					break
				}
			}
		}
		if fired {
			out = append(out, controlResult{c.Name, "fired", detail})
		} else {
			var got []string
			for _, r := range rep.Results {
				if r.Status == Violation || r.Status == Undecided || r.Status == Unresolved {
					got = append(got, r.Rule+"|"+r.Construct+"|"+r.Detail)
				}
			}
			out = append(out, controlResult{c.Name, "missed", fmt.Sprintf("expected %s to fire; got %v", c.ExpectRule, got)})
		}
		ctx = nil
		runtime.GC()
		debug.FreeOSMemory()
	}
	return out
}
