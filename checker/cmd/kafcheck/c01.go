package main

import (
	"fmt"
	"go/token"
	"strings"

	"golang.org/x/tools/go/ssa"
)

const (
	pkgBroker   = rootModPath + "/cmd/broker"
	pkgStorage  = rootModPath + "/pkg/storage"
	pkgCache    = rootModPath + "/pkg/cache"
	pkgMetadata = rootModPath + "/pkg/metadata"
	pkgBrokerLib = rootModPath + "/pkg/broker"
	pkgProtocol = rootModPath + "/pkg/protocol"
	pkgProxy    = rootModPath + "/cmd/proxy"

	fnAppendBatch  = "(*" + pkgStorage + ".PartitionLog).AppendBatch"
	fnFlush        = "(*" + pkgStorage + ".PartitionLog).Flush"
	fnRead         = "(*" + pkgStorage + ".PartitionLog).Read"
	fnPrepareFlush = "(*" + pkgStorage + ".PartitionLog).prepareFlush"
	fnUploadFlush  = "(*" + pkgStorage + ".PartitionLog).uploadFlush"
	fnDrain        = "(*" + pkgStorage + ".WriteBuffer).Drain"
)

// restoreMethods: *WriteBuffer methods that put drained batches back (confirmed by reading buffer.go).
var restoreMethods = []string{
	"(*" + pkgStorage + ".WriteBuffer).Prepend",
	"(*" + pkgStorage + ".WriteBuffer).Restore",
}

// needFn resolves an anchor or records it as unresolved.
func needFn(m *Module, r *Report, rule, pkg, name string) *ssa.Function {
	fn := m.Func(pkg, name)
	if fn == nil || fn.Blocks == nil {
		r.unresolved(rule, pkg+"."+name, "anchor function not found in current source")
		return nil
	}
	r.fn(fn)
	return fn
}

// produceEntries classifies the per-partition response entries of handleProduce.
type produceEntry struct {
	site    appendSite
	success bool
	why     string
}

func produceEntries(m *Module, fn *ssa.Function) []produceEntry {
	bp := m.Func(pkgBroker, "(*handler).backpressureErrorCode")
	bpNonZero, _ := returnsOnlyNonZeroConsts(bp)
	var out []produceEntry
	for _, s := range appendSites(fn, "kmsg.ProduceResponseTopicPartition") {
		e := produceEntry{site: s}
		if s.Alloc == nil {
			e.success = true
			e.why = "appended element is not a local; treated as potential success entry"
			out = append(out, e)
			continue
		}
		stores := fieldStores(s.Alloc)["ErrorCode"]
		if len(stores) == 0 {
			e.success = true
			e.why = "ErrorCode never set (zero value = success)"
		}
		for _, st := range stores {
			if k, ok := constInt(st.Val); ok {
				if k == 0 {
					e.success = true
					e.why = "ErrorCode = 0"
				}
				continue
			}
			if c := callOrigin(st.Val); c != nil && bpNonZero && nameMatches(calleeName(&c.Call), "("+"*"+pkgBroker+".handler).backpressureErrorCode") {
				continue
			}
			e.success = true
			e.why = "ErrorCode = " + describe(st.Val) + " (not provably non-zero)"
		}
		out = append(out, e)
	}
	return out
}

func init() { register("C01", "other", checkC01) }

func checkC01(c *Ctx, r *Report) {
	r.Explanation = "Decides five structural necessary conditions of C01 on every path of the code: (R1) handleProduce emits a success entry only after AppendBatch succeeded and, unless acks==0 or flushOnAck is off, after Flush returned nil; (R2) uploadFlush commits a segment only after both S3 uploads succeeded and the upload closures cannot drop the upload error; (R3) batches drained from the write buffer are never discarded: every exit after Drain parks, commits or restores them; (R4) Flush waits for an in-flight flush and returns nil only when nothing was drained or the upload succeeded; (R5) the shared flush state is only touched under PartitionLog.mu. It does not enumerate interleavings or fault sequences; it shows that none of the structural ways to acknowledge un-uploaded data is present."
	r.NotCovered = "enumeration of interleavings x fault sequences; durability of the S3 service itself; restart behaviour (C06)"
	m, err := c.Mod("root")
	if err != nil {
		r.unresolved("C01.load", "root module", err.Error())
		return
	}
	r.rule("C01.R1", "every success entry appended by handleProduce has passed err(AppendBatch)==nil ∧ (err(Flush)==nil ∨ req.Acks==0 ∨ h.flushOnAck==false)", 1)
	r.rule("C01.R2", "in uploadFlush the l.segments commit is dominated by g.Wait()==nil; each g.Go closure returns the error of its S3 upload on every path after the upload", 3)
	r.rule("C01.R3", "the result of WriteBuffer.Drain flows only into BuildSegment / len / l.flushingBatches; from Drain every path to a return parks, restores, or found nothing drained; every un-park (flushingBatches = nil) is dominated by a commit to l.segments or a restore call", 3)
	r.rule("C01.R4", "Flush calls prepareFlush only after the `for l.flushing` wait loop exited, and returns nil only with artifact==nil or err(uploadFlush)==nil", 2)

	// ---- R1
	if hp := needFn(m, r, "C01.R1", pkgBroker, "(*handler).handleProduce"); hp != nil {
		g := Guard{
			cl(atomErrNil(fnAppendBatch)).re(fnAppendBatch),
			cl(atomErrNil(fnFlush),
				atomCmp("req.Acks==0", vmField("kmsg.ProduceRequest", "Acks"), token.EQL, vmConstInt(0)),
				atomBool("h.flushOnAck==false", vmField("handler", "flushOnAck"), false)).re(fnFlush, fnAppendBatch),
		}
		n := 0
		for _, e := range produceEntries(m, hp) {
			r.CallSites++
			if !e.success {
				r.add("C01.R1", fmt.Sprintf("handleProduce error entry #%d", r.CallSites), m.Pos(e.site.Call.Pos()), Info, "ErrorCode provably non-zero")
				continue
			}
			n++
			res := checkGuarded(m, hp, e.site.At, g)
			key := fmt.Sprintf("handleProduce success entry #%d (%s)", n, e.why)
			if res.OK {
				r.ok("C01.R1", key, m.Pos(e.site.Call.Pos()), res.String())
			} else {
				r.viol("C01.R1", key, m.Pos(e.site.Call.Pos()), res.String())
			}
		}
	}

	// ---- R2
	if uf := needFn(m, r, "C01.R2", pkgStorage, "(*PartitionLog).uploadFlush"); uf != nil {
		waitOK := Guard{cl(atomErrNil("(*golang.org/x/sync/errgroup.Group).Wait"))}
		commits := storesToField(uf, "storage.PartitionLog", "segments")
		if len(commits) == 0 {
			r.unresolved("C01.R2", "uploadFlush commit to l.segments", "no store to PartitionLog.segments found in uploadFlush")
		}
		for i, st := range commits {
			res := checkGuarded(m, uf, st, waitOK)
			key := fmt.Sprintf("uploadFlush store l.segments #%d", i+1)
			if res.OK {
				r.ok("C01.R2", key, m.Pos(st.Pos()), res.String())
			} else {
				r.viol("C01.R2", key, m.Pos(st.Pos()), res.String())
			}
		}
		// upload closures
		seen := map[string]int{}
		for _, call := range findCalls(uf, "(*golang.org/x/sync/errgroup.Group).Go") {
			args := call.Common().Args
			if len(args) == 0 {
				continue
			}
			mc, ok := args[len(args)-1].(*ssa.MakeClosure)
			if !ok {
				r.undecided("C01.R2", "g.Go argument", m.Pos(call.Pos()), "argument is not a closure literal")
				continue
			}
			cfn := mc.Fn.(*ssa.Function)
			r.fn(cfn)
			for _, up := range []string{"UploadSegment", "UploadIndex"} {
				ups := findCalls(cfn, "~S3Client)."+up)
				for _, u := range ups {
					seen[up]++
					ok, detail := errorReturned(m, cfn, u.(*ssa.Call))
					key := "uploadFlush closure returns err(" + up + ")"
					if ok {
						r.ok("C01.R2", key, m.Pos(u.Pos()), detail)
					} else {
						r.viol("C01.R2", key, m.Pos(u.Pos()), detail)
					}
					// … and reports success (a nil constant) only after the upload itself succeeded:
					// a path that returns nil without uploading commits a segment S3 never got
					if len(ups) > 0 {
						for _, b := range cfn.Blocks {
							ret, ok := b.Instrs[len(b.Instrs)-1].(*ssa.Return)
							if !ok || len(ret.Results) == 0 {
								continue
							}
							yieldsNil := false
							for _, o := range origins(ret.Results[len(ret.Results)-1]) {
								if c, isC := o.(*ssa.Const); isC && c.Value == nil {
									yieldsNil = true
								}
							}
							if !yieldsNil || nilness(ret.Results[len(ret.Results)-1], b) == isNonNil {
								continue
							}
							guardVerdict(m, r, "C01.R2", "uploadFlush closure reports success only after "+up+" succeeded", cfn, ret,
								Guard{cl(atomErrNil("~S3Client)."+up))})
						}
					}
				}
			}
		}
		for _, up := range []string{"UploadSegment", "UploadIndex"} {
			if seen[up] == 0 {
				r.unresolved("C01.R2", "uploadFlush closure calling "+up, "no errgroup closure uploads via S3Client."+up)
			}
		}
	}

	// ---- R3
	checkDrainTypestate(m, r)
	// parked batches must not share memory with the live buffer (a later append would overwrite them
	// before they are uploaded or restored)
	checkS3ClientErrors(m, r, "C01.R2")
	checkBufferFresh(m, r, "C01.R3")
	checkPrependKeepsBoth(m, r, "C01.R3")

	// ---- R4
	if fl := needFn(m, r, "C01.R4", pkgStorage, "(*PartitionLog).Flush"); fl != nil {
		notFlushing := Guard{cl(atomBool("l.flushing==false", vmField("storage.PartitionLog", "flushing"), false))}
		pfs := findCalls(fl, fnPrepareFlush)
		if len(pfs) == 0 {
			r.unresolved("C01.R4", "Flush → prepareFlush", "call not found")
		}
		for _, pf := range pfs {
			res := checkGuarded(m, fl, pf, notFlushing)
			// additionally: no Unlock between the last flushing check and prepareFlush is covered by lockset (R5)
			if res.OK {
				r.ok("C01.R4", "Flush calls prepareFlush after wait loop", m.Pos(pf.Pos()), res.String())
			} else {
				r.viol("C01.R4", "Flush calls prepareFlush after wait loop", m.Pos(pf.Pos()), res.String())
			}
		}
		g := Guard{cl(
			atomCmp("artifact==nil", vmCallResult(0, fnPrepareFlush), token.EQL, vmNil()),
			atomErrNil(fnUploadFlush))}
		n := 0
		for _, b := range fl.Blocks {
			for _, in := range b.Instrs {
				ret, ok := in.(*ssa.Return)
				if !ok || len(ret.Results) != 1 {
					continue
				}
				couldBeNil := false
				for _, o := range origins(ret.Results[0]) {
					if isNilConst(o) {
						couldBeNil = true
					}
				}
				if !couldBeNil {
					continue
				}
				n++
				res := checkGuarded(m, fl, ret, g)
				key := fmt.Sprintf("Flush return nil #%d", n)
				if res.OK {
					r.ok("C01.R4", key, m.Pos(ret.Pos()), res.String())
				} else {
					r.viol("C01.R4", key, m.Pos(ret.Pos()), res.String())
				}
			}
		}
	}

	// ---- R5 lockset on the flush state
	checkLockset(m, r, "C01.R5", "PartitionLog.{flushing,flushingBatches,segments,nextOffset} accessed only with PartitionLog.mu held",
		[]guardSpec{{Pkg: pkgStorage, Type: "PartitionLog", Mutex: "mu", Fields: []string{"flushing", "flushingBatches", "segments", "nextOffset"}}}, 8)
}

// errorReturned: on every path from call `c` (whose single result is an error) to a return of fn,
// the returned value is exactly that call's result.
func errorReturned(m *Module, fn *ssa.Function, c *ssa.Call) (bool, string) {
	l := locOf(c)
	l.I++
	bad := ""
	n := 0
	for _, b := range fn.Blocks {
		for _, in := range b.Instrs {
			ret, ok := in.(*ssa.Return)
			if !ok {
				continue
			}
			if found, _, _ := search(SearchSpec{Start: l, Target: func(x ssa.Instruction) bool { return x == ret }}); !found {
				continue
			}
			n++
			if len(ret.Results) == 0 {
				bad = "return without value at " + m.Pos(ret.Pos())
				continue
			}
			rv := ret.Results[len(ret.Results)-1]
			for _, o := range originsAfter(rv, c) {
				if callOrigin(o) != c {
					bad = fmt.Sprintf("return at %s yields %s, not the upload error", m.Pos(ret.Pos()), describe(o))
				}
			}
		}
	}
	if n == 0 {
		return false, "no return reachable after the call"
	}
	if bad != "" {
		return false, bad
	}
	return true, fmt.Sprintf("%d return(s) after the call yield its error", n)
}

// checkDrainTypestate implements C01.R3 over package storage.
func checkDrainTypestate(m *Module, r *Report) {
	nDrain := 0
	for _, fn := range m.FuncsInPkg(pkgStorage) {
		for _, dc := range findCalls(fn, fnDrain) {
			nDrain++
			r.fn(fn)
			call, ok := dc.(*ssa.Call)
			if !ok {
				r.viol("C01.R3", "Drain result discarded in "+funcName(fn), m.Pos(dc.Pos()), "go/defer of Drain drops the batches")
				continue
			}
			// (a) uses of the drained value
			okUses := true
			var bad []string
			if call.Referrers() == nil || len(*call.Referrers()) == 0 {
				okUses = false
				bad = append(bad, "result unused")
			} else {
				for _, ref := range *call.Referrers() {
					if !drainUseAllowed(ref, call) {
						okUses = false
						bad = append(bad, fmt.Sprintf("%s at %s", ref.String(), m.Pos(ref.Pos())))
					}
				}
			}
			key := "Drain result uses in " + funcName(fn)
			if okUses {
				r.ok("C01.R3", key, m.Pos(call.Pos()), "flows only into BuildSegment, len, restore calls and l.flushingBatches")
			} else {
				r.viol("C01.R3", key, m.Pos(call.Pos()), "drained batches escape to: "+strings.Join(bad, "; "))
			}
			// (b) every path from Drain to a return parks / restores / had nothing drained
			emptyEdges := passEdges(fn, []Atom{atomFn("len(drained)==0", func(l Lit) bool {
				if l.Op != token.EQL {
					return false
				}
				if k, ok := constInt(l.Y); !ok || k != 0 {
					return false
				}
				lc, ok := l.X.(*ssa.Call)
				if !ok || calleeName(&lc.Call) != "builtin.len" {
					return false
				}
				return strip(lc.Call.Args[0]) == ssa.Value(call)
			})})
			loc := locOf(call)
			loc.I++
			found, _, path := search(SearchSpec{Start: loc, ExitIsTarget: true,
				Removed: func(b *ssa.BasicBlock, si int) bool { _, ok := emptyEdges[edge{b, si}]; return ok },
				Blocker: func(in ssa.Instruction) bool {
					if st, ok := in.(*ssa.Store); ok {
						if fa, ok := st.Addr.(*ssa.FieldAddr); ok {
							if _, f, _, ok := fieldAddrInfo(fa); ok && f == "flushingBatches" && strip(st.Val) == ssa.Value(call) {
								return true
							}
						}
					}
					if isCallTo(in, restoreMethods...) {
						cc := callCommon(in)
						for _, a := range cc.Args {
							if strip(a) == ssa.Value(call) {
								return true
							}
						}
					}
					return false
				}})
			key = "Drain → exit in " + funcName(fn)
			if found {
				r.viol("C01.R3", key, m.Pos(call.Pos()), "a return is reachable after Drain without parking the batches in l.flushingBatches or restoring them to the buffer: "+renderPath(m, path))
			} else {
				r.ok("C01.R3", key, m.Pos(call.Pos()), "every exit after Drain parks, restores, or saw len==0")
			}
		}
		// (c) un-park sites
		for _, st := range storesToField(fn, "storage.PartitionLog", "flushingBatches") {
			if !isNilConst(st.Val) {
				continue
			}
			r.fn(fn)
			isCommitOrRestore := func(in ssa.Instruction) bool {
				if s2, ok := in.(*ssa.Store); ok {
					if fa, ok := s2.Addr.(*ssa.FieldAddr); ok {
						if t, f, _, ok := fieldAddrInfo(fa); ok && f == "segments" && strings.HasSuffix(t, "storage.PartitionLog") {
							return true
						}
					}
				}
				if isCallTo(in, restoreMethods...) {
					// the restored value must be the parked batches
					for _, a := range callCommon(in).Args {
						if _, f, _, ok := fieldOf(a); ok && f == "flushingBatches" {
							return true
						}
					}
				}
				return false
			}
			ok, path := mustPassBefore(m, fn, st, isCommitOrRestore)
			key := fmt.Sprintf("un-park l.flushingBatches=nil in %s [%s]", funcName(fn), unparkKind(fn, st))
			if ok {
				r.ok("C01.R3", key, m.Pos(st.Pos()), "dominated by a commit to l.segments or a restore of the parked batches")
			} else {
				r.viol("C01.R3", key, m.Pos(st.Pos()), "parked batches are dropped: path reaches the un-park without commit or restore: "+path)
			}
		}
	}
	if nDrain == 0 {
		r.unresolved("C01.R3", "calls to WriteBuffer.Drain", "none found in package storage")
	}
}

// unparkKind distinguishes the un-park sites of a function in a position-free way: by whether the
// site is control dependent on a failed errgroup wait.
func unparkKind(fn *ssa.Function, st *ssa.Store) string {
	g := Guard{cl(atomErrNil("(*golang.org/x/sync/errgroup.Group).Wait"))}
	if res := checkGuarded(nil2(), fn, st, g); res.OK {
		return "after successful upload"
	}
	return "upload-failure path"
}

var nilModule *Module

func nil2() *Module {
	if nilModule == nil {
		nilModule = &Module{Fset: token.NewFileSet()}
	}
	return nilModule
}

func drainUseAllowed(ref ssa.Instruction, drained *ssa.Call) bool {
	switch x := ref.(type) {
	case *ssa.DebugRef:
		return true
	case *ssa.Call:
		n := calleeName(&x.Call)
		if n == "builtin.len" || n == pkgStorage+".BuildSegment" || nameMatches(n, restoreMethods...) {
			return true
		}
		return false
	case *ssa.Store:
		if fa, ok := x.Addr.(*ssa.FieldAddr); ok {
			if _, f, _, ok := fieldAddrInfo(fa); ok && f == "flushingBatches" && x.Val == ssa.Value(drained) {
				return true
			}
		}
		return false
	}
	return false
}

// checkPrependKeepsBoth: the restore helper builds the new buffer from the restored batches followed by
// everything that is in the buffer now (what other producers appended since the drain and were, or
// will be, acknowledged for). Accepted shapes: append(append(_, batches...), b.batches...),
// slices.Concat(batches, b.batches), or make(len(batches)+len(b.batches)) filled by two copies at
// offsets 0 and len(batches).
func checkPrependKeepsBoth(m *Module, r *Report, rule string) {
	fn := m.Func(pkgStorage, "(*WriteBuffer).Prepend")
	key := "Prepend keeps the restored batches and everything appended since the drain, in that order"
	if fn == nil {
		r.unresolved(rule, key, "(*WriteBuffer).Prepend not found")
		return
	}
	r.fn(fn)
	param := ssa.Value(fn.Params[1])
	isParam := func(v ssa.Value) bool {
		v = strip(v)
		if v == param {
			return true
		}
		if sl, ok := v.(*ssa.Slice); ok && sl.Low == nil && strip(sl.X) == param {
			return true
		}
		return false
	}
	isCur := func(v ssa.Value) bool {
		_, f, _, ok := fieldOf(v)
		return ok && f == "batches"
	}
	lenOf := func(v ssa.Value, pred func(ssa.Value) bool) bool {
		lc, ok := strip(v).(*ssa.Call)
		return ok && calleeName(&lc.Call) == "builtin.len" && pred(lc.Call.Args[0])
	}
	var stores []*ssa.Store
	for _, st := range storesToField(fn, "WriteBuffer", "batches") {
		stores = append(stores, st)
	}
	if len(stores) != 1 {
		r.viol(rule, key, m.Pos(fn.Pos()), fmt.Sprintf("%d assignments to b.batches in Prepend", len(stores)))
		return
	}
	v := strip(stores[0].Val)
	why := ""
	switch x := v.(type) {
	case *ssa.Call:
		n := calleeName(&x.Call)
		switch {
		case n == "builtin.append":
			if !isCur(x.Call.Args[1]) {
				why = "the last append does not add the buffer's current batches (" + describe(x.Call.Args[1]) + ")"
				break
			}
			inner, ok := strip(x.Call.Args[0]).(*ssa.Call)
			switch {
			case ok && calleeName(&inner.Call) == "builtin.append" && isParam(inner.Call.Args[1]):
				// append(append(base, batches...), cur...): base must be empty
				if ms, ok := strip(inner.Call.Args[0]).(*ssa.MakeSlice); ok {
					if k, ok := constInt(ms.Len); !ok || k != 0 {
						why = "the restored batches are appended onto a non-empty slice"
					}
				} else if c0, ok := strip(inner.Call.Args[0]).(*ssa.Const); !ok || !c0.IsNil() {
					if sl, ok := strip(inner.Call.Args[0]).(*ssa.Slice); !ok || sl.High == nil {
						why = "the restored batches are appended onto " + describe(inner.Call.Args[0])
					}
				}
			case isParam(x.Call.Args[0]):
			case ok && strings.HasSuffix(calleeName(&inner.Call), "slices.Clone") && isParam(inner.Call.Args[0]):
			default:
				why = "the slice the current batches are appended to does not hold the restored batches (" + describe(x.Call.Args[0]) + ")"
			}
		case strings.HasSuffix(n, "slices.Concat"):
			why = "slices.Concat arguments are not (restored, current)"
			if sl, ok := x.Call.Args[0].(*ssa.Slice); ok {
				if elems, ok := variadicElems(sl); ok && len(elems) == 2 && isParam(elems[0]) && isCur(elems[1]) {
					why = ""
				}
			}
		default:
			why = "b.batches is assigned " + describe(v)
		}
	case *ssa.MakeSlice:
		terms, k := flattenSum(x.Len)
		if !(len(terms) == 2 && k == 0 && ((lenOf(terms[0], isParam) && lenOf(terms[1], isCur)) || (lenOf(terms[1], isParam) && lenOf(terms[0], isCur)))) {
			why = "the new buffer's length is " + describe(x.Len) + ", not len(restored)+len(current): a copy beyond that length stores nothing"
			break
		}
		gotA, gotB := false, false
		for _, call := range callsIn(fn) {
			cc := call.Common()
			if calleeName(cc) != "builtin.copy" {
				continue
			}
			dst := strip(cc.Args[0])
			if dst == ssa.Value(x) && isParam(cc.Args[1]) {
				gotA = true
			}
			// the second copy starts at len(restored) — or at what the first copy returned, which is
			// that length (the destination is at least as long)
			firstCopyCount := func(v ssa.Value) bool {
				c0, ok := strip(v).(*ssa.Call)
				return ok && calleeName(&c0.Call) == "builtin.copy" && strip(c0.Call.Args[0]) == ssa.Value(x) && isParam(c0.Call.Args[1])
			}
			if sl, ok := dst.(*ssa.Slice); ok && strip(sl.X) == ssa.Value(x) && sl.Low != nil && (lenOf(sl.Low, isParam) || firstCopyCount(sl.Low)) && isCur(cc.Args[1]) {
				gotB = true
			}
		}
		if !gotA || !gotB {
			why = "the two copies (restored at 0, current at len(restored)) are not both present"
		}
	default:
		why = "b.batches is assigned " + describe(v)
	}
	if why == "" {
		r.ok(rule, key, m.Pos(stores[0].Pos()), "")
	} else {
		r.viol(rule, key, m.Pos(stores[0].Pos()), why+" — batches appended by other producers between the drain and the failed upload would be lost although their producers are acknowledged by the next flush")
	}
}

// checkS3ClientErrors: the production S3 client reports success only for an upload that succeeded.
// UploadSegment/UploadIndex hand back putObject's result; putObject returns nil only on a path where
// the most recent PutObject call's error was tested nil (a later PutObject invalidates the earlier
// test), so a failed retry cannot be reported as success.
func checkS3ClientErrors(m *Module, r *Report, rule string) {
	for _, name := range []string{"(*awsS3Client).UploadSegment", "(*awsS3Client).UploadIndex"} {
		fn := m.Func(pkgStorage, name)
		key := name + " returns the result of the object upload"
		if fn == nil {
			r.unresolved(rule, key, "not found")
			continue
		}
		r.fn(fn)
		bad := ""
		var put *ssa.Call
		for _, c := range findCalls(fn, pkgStorage+".(*awsS3Client).putObject", "("+"*"+pkgStorage+".awsS3Client).putObject") {
			put, _ = c.(*ssa.Call)
		}
		if put == nil {
			for _, c := range callsIn(fn) {
				if strings.HasSuffix(calleeName(c.Common()), ".putObject") {
					put, _ = c.(*ssa.Call)
				}
			}
		}
		if put == nil {
			bad = "no call of putObject"
		} else {
			for _, b := range fn.Blocks {
				if ret, ok := b.Instrs[len(b.Instrs)-1].(*ssa.Return); ok {
					if strip(ret.Results[0]) != ssa.Value(put) && isNilConst(ret.Results[0]) {
						bad = "returns nil without handing back the upload's error at " + m.Pos(ret.Pos())
					}
				}
			}
		}
		if bad == "" {
			r.ok(rule, key, m.Pos(fn.Pos()), "")
		} else {
			r.viol(rule, key, m.Pos(fn.Pos()), bad)
		}
	}
	fn := m.Func(pkgStorage, "(*awsS3Client).putObject")
	key := "(*awsS3Client).putObject returns nil only after its most recent PutObject call succeeded"
	if fn == nil {
		r.unresolved(rule, key, "not found")
		return
	}
	r.fn(fn)
	g := Guard{cl(atomErrNil("~S3API).PutObject", "~.PutObject")).re("~S3API).PutObject", "~.PutObject")}
	n := 0
	okAll := true
	why := ""
	for _, b := range fn.Blocks {
		ret, ok := b.Instrs[len(b.Instrs)-1].(*ssa.Return)
		if !ok {
			continue
		}
		// which incoming values can be nil
		for _, o := range origins(ret.Results[0]) {
			if !isNilConst(o) {
				continue
			}
			n++
			res := checkGuarded(m, fn, ret, g)
			if !res.OK {
				okAll = false
				why = "success is reported at " + m.Pos(ret.Pos()) + " on a path where the last PutObject call was not seen to succeed: " + res.String()
			}
		}
	}
	switch {
	case n == 0:
		r.unresolved(rule, key, "no nil return found")
	case okAll:
		r.ok(rule, key, m.Pos(fn.Pos()), fmt.Sprintf("%d success return(s)", n))
	default:
		r.viol(rule, key, m.Pos(fn.Pos()), why)
	}
}
