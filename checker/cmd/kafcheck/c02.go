package main

import (
	"go/types"
	"fmt"
	"go/token"

	"golang.org/x/tools/go/ssa"
)

const (
	tPartitionLog = pkgStorage + ".PartitionLog"
	fnNewBatch    = pkgStorage + ".NewRecordBatchFromBytes"
)

func init() { register("C02", "other", checkC02) }

// vmExact matches exactly the given SSA value (no conversion stripping).
func vmExact(target ssa.Value) VM { return func(v ssa.Value) bool { return v == target } }

func checkC02(c *Ctx, r *Report) {
	r.Explanation = "Decides four structural necessary conditions of offset uniqueness/contiguity: (R1) PartitionLog.nextOffset is written only by NewPartitionLog, AppendBatch and RestoreFromS3, and the restore write only grows it; (R2) AppendBatch advances nextOffset by exactly load(nextOffset)+int64(LastOffsetDelta)+1, LastOffset is the new value-1, the only producer of batches for AppendBatch is NewRecordBatchFromBytes, and that constructor rejects negative deltas and counts before any success return; (R3) the one value read from nextOffset is what is patched into the batch header, stored in AppendResult.BaseOffset and copied by handleProduce into the success entry; (R4) the constructor compares the header's batch-length field with len(data) (single-batch framing). It does not decide int64 overflow or cross-restart arithmetic."
	r.NotCovered = "int64 overflow; gaps caused by failed flushes (C01.R3); offsets across restarts (C06)"
	m, err := c.Mod("root")
	if err != nil {
		r.unresolved("C02.load", "root module", err.Error())
		return
	}
	r.rule("C02.R5", "slices handed out by WriteBuffer are fresh: a shared backing array lets a later append overwrite batches parked for a flush, duplicating or reordering stored offsets", 1)
	checkBufferFresh(m, r, "C02.R5")
	r.rule("C02.R1", "who-may-write PartitionLog.nextOffset: NewPartitionLog, AppendBatch, RestoreFromS3 (guarded by last >= l.nextOffset)", 4)
	r.rule("C02.R2", "AppendBatch stores nextOffset' = load(nextOffset) + int64(batch.LastOffsetDelta) + 1; LastOffset = nextOffset'-1; NewRecordBatchFromBytes success return has passed LastOffsetDelta>=0 and MessageCount>=0; every AppendBatch argument comes from NewRecordBatchFromBytes", 4)
	r.rule("C02.R3", "the value loaded from nextOffset is the one given to PatchRecordBatchBaseOffset and stored in AppendResult.BaseOffset; handleProduce copies result.BaseOffset into the success entry", 3)
	r.rule("C02.R4", "a success return of NewRecordBatchFromBytes has compared the header batch-length field (bytes 8:12) with len(data)", 1)

	// ---- R1
	ws := checkWriterTable(m, r, "C02.R1", tPartitionLog, "nextOffset", false, map[string]string{
		pkgStorage + ".NewPartitionLog": "initial value from the metadata store",
		fnAppendBatch:                   "assignment under mu",
		"(*" + pkgStorage + ".PartitionLog).RestoreFromS3": "resume past the last restored segment, only grows",
	})
	for _, w := range ws {
		if funcName(w.Fn) == "(*"+pkgStorage+".PartitionLog).RestoreFromS3" {
			g := Guard{cl(atomCmp("last >= l.nextOffset", vmAny(), token.GEQ, vmField("storage.PartitionLog", "nextOffset")))}
			guardVerdict(m, r, "C02.R1", "RestoreFromS3 write of nextOffset only grows", w.Fn, w.In, g)
			// and the stored value is last+1 where last is the compared value
		}
	}

	// ---- R2 / R3 in AppendBatch
	if ab := needFn(m, r, "C02.R2", pkgStorage, "(*PartitionLog).AppendBatch"); ab != nil {
		stores := storesToField(ab, "storage.PartitionLog", "nextOffset")
		var loaded ssa.Value
		for i, st := range stores {
			terms, k := flattenSum(st.Val)
			okShape := k == 1 && len(terms) == 2
			var sawNext, sawDelta bool
			for _, t := range terms {
				if _, f, _, ok := fieldOf(t); ok && f == "nextOffset" {
					sawNext = true
					loaded = strip(t)
				} else if tt, f, _, ok := fieldOf(t); ok && f == "LastOffsetDelta" && tt == pkgStorage+".RecordBatch" {
					sawDelta = true
				}
			}
			key := fmt.Sprintf("AppendBatch nextOffset increment #%d", i+1)
			if w := narrowArith(st.Val); w != "" {
				r.viol("C02.R2", key+" is computed in 64 bits", m.Pos(st.Pos()), w)
			} else {
				r.ok("C02.R2", key+" is computed in 64 bits", m.Pos(st.Pos()), "no addition is performed in a narrower type before widening")
			}
			if okShape && sawNext && sawDelta {
				r.ok("C02.R2", key, m.Pos(st.Pos()), "new value = load(nextOffset) + int64(batch.LastOffsetDelta) + 1")
			} else {
				r.viol("C02.R2", key, m.Pos(st.Pos()), fmt.Sprintf("new nextOffset is %s (terms=%d const=%d), not load(nextOffset)+int64(batch.LastOffsetDelta)+1", describe(st.Val), len(terms), k))
			}
		}
		if len(stores) == 0 {
			r.unresolved("C02.R2", "AppendBatch nextOffset increment", "no store found")
		}
		// AppendResult fields
		resStores := map[string][]*ssa.Store{}
		for _, f := range []string{"BaseOffset", "LastOffset"} {
			resStores[f] = storesToField(ab, "storage.AppendResult", f)
		}
		for _, st := range resStores["LastOffset"] {
			terms, k := flattenSum(st.Val)
			ok := k == -1 && len(terms) == 1
			if ok {
				_, f, _, ok2 := fieldOf(terms[0])
				ok = ok2 && f == "nextOffset"
				if ok {
					// the load must come after the increment store
					if len(stores) > 0 {
						okAfter, _ := mustPassBefore(m, ab, terms[0].(ssa.Instruction), func(x ssa.Instruction) bool { return x == ssa.Instruction(stores[0]) })
						ok = okAfter
					}
				}
			}
			if ok {
				r.ok("C02.R2", "AppendResult.LastOffset = nextOffset' - 1", m.Pos(st.Pos()), "reads nextOffset after the increment and subtracts 1")
			} else {
				r.viol("C02.R2", "AppendResult.LastOffset = nextOffset' - 1", m.Pos(st.Pos()), "LastOffset is "+describe(st.Val))
			}
		}
		if len(resStores["LastOffset"]) == 0 {
			r.unresolved("C02.R2", "AppendResult.LastOffset = nextOffset' - 1", "store not found")
		}
		// R3
		for _, st := range resStores["BaseOffset"] {
			if loaded != nil && strip(st.Val) == loaded {
				r.ok("C02.R3", "AppendResult.BaseOffset is the loaded nextOffset", m.Pos(st.Pos()), "same SSA value as the increment's base term")
			} else {
				r.viol("C02.R3", "AppendResult.BaseOffset is the loaded nextOffset", m.Pos(st.Pos()), "BaseOffset is "+describe(st.Val)+", not the value read from nextOffset before the increment")
			}
		}
		if len(resStores["BaseOffset"]) == 0 {
			r.unresolved("C02.R3", "AppendResult.BaseOffset is the loaded nextOffset", "store not found")
		}
		patches := findCalls(ab, pkgStorage+".PatchRecordBatchBaseOffset")
		for _, p := range patches {
			if loaded != nil && strip(p.Common().Args[1]) == loaded {
				r.ok("C02.R3", "PatchRecordBatchBaseOffset gets the loaded nextOffset", m.Pos(p.Pos()), "same SSA value")
			} else {
				r.viol("C02.R3", "PatchRecordBatchBaseOffset gets the loaded nextOffset", m.Pos(p.Pos()), "patched base offset is "+describe(p.Common().Args[1]))
			}
		}
		if len(patches) == 0 {
			r.unresolved("C02.R3", "PatchRecordBatchBaseOffset gets the loaded nextOffset", "call not found")
		}
	}
	// handleProduce copies result.BaseOffset
	if hp := needFn(m, r, "C02.R3", pkgBroker, "(*handler).handleProduce"); hp != nil {
		n := 0
		for _, e := range produceEntries(m, hp) {
			if !e.success || e.site.Alloc == nil {
				continue
			}
			n++
			sts := fieldStores(e.site.Alloc)["BaseOffset"]
			ok := len(sts) > 0
			desc := "BaseOffset never set"
			for _, st := range sts {
				desc = describe(st.Val)
				t, f, base, ok2 := fieldOf(st.Val)
				if !(ok2 && f == "BaseOffset" && t == pkgStorage+".AppendResult" && allOrigins(base, vmCall(fnAppendBatch))) {
					ok = false
				}
			}
			key := fmt.Sprintf("handleProduce success entry #%d BaseOffset", n)
			if ok {
				r.ok("C02.R3", key, m.Pos(e.site.Call.Pos()), "copied from AppendBatch's result.BaseOffset")
			} else {
				r.viol("C02.R3", key, m.Pos(e.site.Call.Pos()), "response BaseOffset is "+desc+", not AppendBatch's result.BaseOffset")
			}
		}
	}
	// every AppendBatch argument comes from the constructor
	for _, cs := range callersOf(m, fnAppendBatch) {
		r.CallSites++
		r.fn(cs.caller)
		args := cs.in.Common().Args
		key := "AppendBatch argument in " + funcName(cs.caller)
		if len(args) >= 3 && allOrigins(args[2], vmCall(fnNewBatch)) {
			r.ok("C02.R2", key, m.Pos(cs.in.Pos()), "batch comes from NewRecordBatchFromBytes")
		} else {
			r.viol("C02.R2", key, m.Pos(cs.in.Pos()), "batch handed to AppendBatch is not produced by NewRecordBatchFromBytes: "+describe(args[len(args)-1]))
		}
	}

	// ---- constructor checks
	if nb := needFn(m, r, "C02.R2", pkgStorage, "NewRecordBatchFromBytes"); nb != nil {
		var deltaVal, countVal ssa.Value
		for _, st := range storesToField(nb, "storage.RecordBatch", "LastOffsetDelta") {
			deltaVal = st.Val
		}
		for _, st := range storesToField(nb, "storage.RecordBatch", "MessageCount") {
			countVal = st.Val
		}
		n := 0
		for _, b := range nb.Blocks {
			for _, in := range b.Instrs {
				ret, ok := in.(*ssa.Return)
				if !ok || len(ret.Results) != 2 || !isNilConst(ret.Results[1]) {
					continue
				}
				n++
				if deltaVal == nil || countVal == nil {
					r.undecided("C02.R2", "NewRecordBatchFromBytes success return", m.Pos(ret.Pos()), "could not identify the values stored in LastOffsetDelta/MessageCount")
					continue
				}
				g := Guard{
					cl(atomCmp("lastOffsetDelta>=0", vmExact(deltaVal), token.GEQ, vmConstInt(0))),
					cl(atomCmp("messageCount>=0", vmExact(countVal), token.GEQ, vmConstInt(0))),
				}
				guardVerdict(m, r, "C02.R2", fmt.Sprintf("NewRecordBatchFromBytes success return #%d rejects negative delta/count", n), nb, ret, g)
				// R4
				lenField := func(v ssa.Value) bool {
					c := callOrigin(v)
					if c == nil || !nameMatches(calleeName(&c.Call), "(encoding/binary.bigEndian).Uint32") {
						return false
					}
					sl, ok := c.Call.Args[len(c.Call.Args)-1].(*ssa.Slice)
					if !ok {
						return false
					}
					lo, ok1 := constInt(sl.Low)
					hi, ok2 := constInt(sl.High)
					return ok1 && ok2 && lo == 8 && hi == 12
				}
				derives := func(pred func(ssa.Value) bool) VM {
					return func(v ssa.Value) bool {
						ts, _ := flattenSum(v)
						for _, t := range ts {
							if pred(strip(t)) {
								return true
							}
						}
						return false
					}
				}
				isLenData := func(v ssa.Value) bool {
					c, ok := v.(*ssa.Call)
					return ok && calleeName(&c.Call) == "builtin.len"
				}
				g4 := Guard{cl(atomFn("batchLength(8:12) compared with len(data)", func(l Lit) bool {
					if l.Op == token.ILLEGAL {
						return false
					}
					a, b := derives(lenField), derives(isLenData)
					return (a(l.X) && b(l.Y)) || (a(l.Y) && b(l.X))
				}))}
				guardVerdict(m, r, "C02.R4", "NewRecordBatchFromBytes success return checks batch length", nb, ret, g4)
			}
		}
		if n == 0 {
			r.unresolved("C02.R2", "NewRecordBatchFromBytes success return", "no return with nil error")
		}
	}
}

// narrowArith reports an addition/subtraction/multiplication that is performed in a narrower integer
// type and only then widened (int64(delta+1)): the narrow operation can overflow although the wide
// result has room.
func narrowArith(v ssa.Value) string {
	out := ""
	var walk func(v ssa.Value, depth int)
	walk = func(v ssa.Value, depth int) {
		if depth > 8 || out != "" {
			return
		}
		switch x := v.(type) {
		case *ssa.Convert:
			db, ok1 := x.Type().Underlying().(*types.Basic)
			sb, ok2 := x.X.Type().Underlying().(*types.Basic)
			if ok1 && ok2 && intWidth(db) > intWidth(sb) && intWidth(sb) > 0 {
				if bo, ok := x.X.(*ssa.BinOp); ok && (bo.Op == token.ADD || bo.Op == token.SUB || bo.Op == token.MUL) {
					out = fmt.Sprintf("%s is evaluated in %s and only then widened to %s: it overflows for large client-chosen values", describe(bo), sb.Name(), db.Name())
					return
				}
			}
			walk(x.X, depth+1)
		case *ssa.BinOp:
			walk(x.X, depth+1)
			walk(x.Y, depth+1)
		case *ssa.ChangeType:
			walk(x.X, depth+1)
		}
	}
	walk(v, 0)
	return out
}
