package main

import (
	"go/token"
	"fmt"
	"go/types"
	"strings"

	"golang.org/x/tools/go/ssa"
)

func init() { register("C44", "other", checkC44) }

func checkC44(c *Ctx, r *Report) {
	r.Explanation = "Decides the forwarding structure of the dual S3 client, which is what makes a missing, lagging (objects are written once, so lagging means missing) or failing replica invisible: for every method of the storage.S3Client interface as implemented by dualS3Client — enumerated from the interface, so a new method is an obligation — (R1) a method other than DownloadSegment/DownloadIndex performs exactly one call, the same-named method on the primary (`write`) field with its own parameters in order, returns exactly that call's results and never touches the replica field; (R2) a download method first asks the replica with its own parameters, returns the replica's bytes only on the err == nil edge of that call, and on every other path returns the bytes of the same method on the primary with the same parameters (or no bytes once that call failed); (R3) the two fields are assigned only in newDualS3Client, write from the first and read from the second parameter, and the only caller passes the client built from the primary configuration first and the one built from the replica configuration second."
	r.NotCovered = "a replica that answers successfully with different bytes than the primary holds (cannot happen for write-once objects replicated whole, but is not decided here); the S3 SDK"
	m, err := c.Mod("root")
	if err != nil {
		r.unresolved("C44.load", "root module", err.Error())
		return
	}
	r.rule("C44.R1", "writes, deletes, listings and bucket checks are forwarded to the primary only", 6)
	r.rule("C44.R2", "downloads: replica bytes only on success, otherwise the primary's answer for the same request", 2)
	r.rule("C44.R3", "field wiring: write = primary, read = replica", 4)
	r.rule("C44.R4", "the S3 client behind either side reports a download as successful only after the body was read to its end without error: in awsS3Client.DownloadSegment / DownloadIndex the error of the body read (io.ReadAll / io.ReadFull / io.Copy) is compared with nil and never excused (no sentinel comparison, no errors.Is / errors.As) — the dual client falls back to the primary only on an error, so a truncated replica body returned with nil would be served as the object", 2)
	r.Explanation += " (R4) awsS3Client.DownloadSegment and DownloadIndex test the error of the response-body read against nil and otherwise only wrap, merge or return it (a body cut short must surface as an error, because an error is the only thing that makes the dual client ask the primary)."
	checkBodyReadComplete(m, r, "C44.R4")

	iface := m.Named(pkgStorage, "S3Client")
	dual := m.Named(pkgBroker, "dualS3Client")
	if iface == nil || dual == nil {
		r.unresolved("C44.R1", "types", "storage.S3Client or dualS3Client not found")
		return
	}
	it := iface.Underlying().(*types.Interface)
	ms := m.Prog.MethodSets.MethodSet(types.NewPointer(dual))
	for i := 0; i < it.NumMethods(); i++ {
		meth := it.Method(i)
		sel := ms.Lookup(meth.Pkg(), meth.Name())
		if sel == nil {
			r.unresolved("C44.R1", "dualS3Client."+meth.Name(), "not implemented")
			continue
		}
		fn := m.Prog.MethodValue(sel)
		if fn == nil || fn.Blocks == nil {
			r.unresolved("C44.R1", "dualS3Client."+meth.Name(), "no body")
			continue
		}
		r.fn(fn)
		type fwd struct {
			call  *ssa.Call
			field string
		}
		var calls []fwd
		problems := []string{}
		for _, call := range callsIn(fn) {
			cc := call.Common()
			if !cc.IsInvoke() {
				if _, isB := cc.Value.(*ssa.Builtin); isB {
					continue
				}
				// helper calls (logging, errors.Is, metrics) do not talk to a bucket; what decides is
				// which client methods are invoked and what each return hands back
				continue
			}
			_, f, base, ok := fieldOf(cc.Value)
			if !ok || canonBase(base) != ssa.Value(fn.Params[0]) {
				problems = append(problems, "invokes "+cc.Method.Name()+" on "+describe(cc.Value))
				continue
			}
			cv, isCall := call.(*ssa.Call)
			if !isCall {
				problems = append(problems, "go/defer of "+cc.Method.Name())
				continue
			}
			// same method, own parameters in order
			if cc.Method.Name() != meth.Name() {
				problems = append(problems, fmt.Sprintf("forwards to %s.%s instead of %s", f, cc.Method.Name(), meth.Name()))
			}
			for ai, a := range cc.Args {
				if ai+1 >= len(fn.Params) || strip(a) != ssa.Value(fn.Params[ai+1]) {
					problems = append(problems, fmt.Sprintf("argument %d of %s.%s is %s, not the method's own parameter", ai, f, cc.Method.Name(), describe(a)))
				}
			}
			calls = append(calls, fwd{cv, f})
		}
		isDownload := strings.HasPrefix(meth.Name(), "Download")
		key := "dualS3Client." + meth.Name()
		if !isDownload {
			rule := "C44.R1"
			key += " forwards to the primary only"
			if len(calls) != 1 || calls[0].field != "write" {
				var fs []string
				for _, c := range calls {
					fs = append(fs, c.field)
				}
				problems = append(problems, fmt.Sprintf("expected exactly one call on the write field, found calls on %v", fs))
			} else {
				for _, b := range fn.Blocks {
					if ret, ok := b.Instrs[len(b.Instrs)-1].(*ssa.Return); ok {
						if !returnsCallResults(ret, calls[0].call) {
							problems = append(problems, "returns something other than the primary's results at "+m.Pos(ret.Pos()))
						}
					}
				}
			}
			if len(problems) == 0 {
				r.ok(rule, key, m.Pos(fn.Pos()), "")
			} else {
				r.viol(rule, key, m.Pos(fn.Pos()), strings.Join(problems, "; "))
			}
			continue
		}
		// download methods
		rule := "C44.R2"
		key += " falls back to the primary unless the replica succeeded"
		var rd, wr *ssa.Call
		for _, c := range calls {
			switch c.field {
			case "read":
				if rd != nil {
					problems = append(problems, "more than one replica call")
				}
				rd = c.call
			case "write":
				if wr != nil {
					problems = append(problems, "more than one primary call")
				}
				wr = c.call
			default:
				problems = append(problems, "call on field "+c.field)
			}
		}
		if wr == nil {
			problems = append(problems, "no fallback call on the primary")
		}
		if len(problems) == 0 {
			for _, b := range fn.Blocks {
				ret, ok := b.Instrs[len(b.Instrs)-1].(*ssa.Return)
				if !ok {
					continue
				}
				if returnsCallResults(ret, wr) {
					continue
				}
				// the primary's bytes with a (possibly wrapped) error, or no bytes once the primary failed
				if ex, ok := strip(ret.Results[0]).(*ssa.Extract); ok && ex.Tuple == ssa.Value(wr) && ex.Index == 0 {
					continue
				}
				if isNilConst(ret.Results[0]) && !isNilConst(ret.Results[1]) {
					gp := Guard{cl(atomFn("primary err != nil", func(l Lit) bool {
						ex, ok := strip(l.X).(*ssa.Extract)
						return ok && ex.Tuple == ssa.Value(wr) && ex.Index == 1 && isNilConst(l.Y) && ((l.Op.String() == "!=" && !l.Neg) || (l.Op.String() == "==" && l.Neg))
					}))}
					if checkGuarded(m, fn, ret, gp).OK {
						continue
					}
				}
				// otherwise: (replica data, nil) guarded by the replica call's err == nil
				if rd == nil {
					problems = append(problems, "returns neither the primary's results nor replica data at "+m.Pos(ret.Pos()))
					continue
				}
				d0, okd := strip(ret.Results[0]).(*ssa.Extract)
				if !okd || d0.Tuple != ssa.Value(rd) || d0.Index != 0 || !isNilConst(ret.Results[1]) {
					problems = append(problems, "returns "+describe(ret.Results[0])+", "+describe(ret.Results[1])+" at "+m.Pos(ret.Pos())+": neither the primary's answer nor (replica bytes, nil)")
					continue
				}
				g := Guard{cl(atomFn("replica err == nil", func(l Lit) bool {
					ex, ok := strip(l.X).(*ssa.Extract)
					return ok && ex.Tuple == ssa.Value(rd) && ex.Index == 1 && isNilConst(l.Y) && ((l.Op.String() == "==" && !l.Neg) || (l.Op.String() == "!=" && l.Neg))
				}))}
				res := checkGuarded(m, fn, ret, g)
				if !res.OK {
					problems = append(problems, "replica bytes are returned without the replica call having succeeded: "+res.String())
				}
			}
		}
		if len(problems) == 0 {
			r.ok(rule, key, m.Pos(fn.Pos()), "")
		} else {
			r.viol(rule, key, m.Pos(fn.Pos()), strings.Join(problems, "; "))
		}
	}

	// ---- R3 wiring
	dualT := pkgBroker + ".dualS3Client"
	ctor := needFn(m, r, "C44.R3", pkgBroker, "newDualS3Client")
	for _, fld := range []struct {
		name  string
		param int
	}{{"write", 0}, {"read", 1}} {
		ws := fieldWriters(m, dualT, fld.name, false)
		key := "dualS3Client." + fld.name + " is set only by newDualS3Client, from parameter #" + fmt.Sprint(fld.param)
		var bad []string
		for _, w := range ws {
			if ctor == nil || w.Fn != ctor {
				bad = append(bad, "assigned in "+w.Fn.Name()+" at "+m.Pos(w.In.Pos()))
				continue
			}
			if strip(w.Val) != ssa.Value(ctor.Params[fld.param]) {
				bad = append(bad, "assigned "+describe(w.Val)+" at "+m.Pos(w.In.Pos()))
			}
		}
		switch {
		case len(ws) == 0:
			r.unresolved("C44.R3", key, "no assignment found")
		case len(bad) > 0:
			r.viol("C44.R3", key, "", strings.Join(bad, "; "))
		default:
			r.ok("C44.R3", key, "", "")
		}
	}
	if bc := needFn(m, r, "C44.R3", pkgBroker, "buildS3ConfigsFromEnv"); bc != nil {
		w, okw := envNamesOfField(bc, 0, "Bucket")
		rd, okr := envNamesOfField(bc, 1, "Bucket")
		key := "buildS3ConfigsFromEnv: result #0 is the primary bucket, result #1 the replica bucket (falling back to the primary)"
		hasRead := false
		for _, n := range rd {
			if n == "KAFSCALE_S3_READ_BUCKET" {
				hasRead = true
			}
		}
		if okw && okr && len(w) == 1 && w[0] == "KAFSCALE_S3_BUCKET" && hasRead {
			r.ok("C44.R3", key, m.Pos(bc.Pos()), fmt.Sprintf("#0 from %v, #1 from %v", w, rd))
		} else {
			r.viol("C44.R3", key, m.Pos(bc.Pos()), fmt.Sprintf("#0 bucket comes from %v (resolved %v), #1 from %v (resolved %v)", w, okw, rd, okr))
		}
	}
	if ctor != nil {
		sites := callersOf(m, pkgBroker+".newDualS3Client")
		if len(sites) == 0 {
			r.unresolved("C44.R3", "caller of newDualS3Client", "none")
		}
		for _, cs := range sites {
			args := cs.in.Common().Args
			cfgOf := func(v ssa.Value) (int, bool) {
				idx, found := -1, false
				for _, o := range origins(v) {
					ex, ok := strip(o).(*ssa.Extract)
					if !ok {
						return -1, false
					}
					nc, ok := ex.Tuple.(*ssa.Call)
					if !ok || !strings.HasSuffix(calleeName(&nc.Call), "storage.NewS3Client") {
						return -1, false
					}
					// the configuration argument: which result of buildS3ConfigsFromEnv
					for _, co := range origins(nc.Call.Args[1]) {
						cex, ok := strip(co).(*ssa.Extract)
						if !ok {
							return -1, false
						}
						cc, ok := cex.Tuple.(*ssa.Call)
						if !ok || !strings.HasSuffix(calleeName(&cc.Call), ".buildS3ConfigsFromEnv") {
							return -1, false
						}
						if found && idx != cex.Index {
							return -1, false
						}
						idx, found = cex.Index, true
					}
				}
				return idx, found
			}
			key := "buildS3Client passes the primary client first and the replica client second"
			i0, ok0 := cfgOf(args[0])
			i1, ok1 := cfgOf(args[1])
			if ok0 && ok1 && i0 == 0 && i1 == 1 {
				r.ok("C44.R3", key, m.Pos(cs.in.Pos()), "clients built from results #0 (write) and #1 (read) of buildS3ConfigsFromEnv")
			} else {
				r.viol("C44.R3", key, m.Pos(cs.in.Pos()), fmt.Sprintf("first argument built from configuration #%d (resolved %v), second from #%d (resolved %v); expected #0 and #1", i0, ok0, i1, ok1))
			}
		}
	}
}

// envNamesOfField: the environment variable names whose values can end up in field `field` of the
// struct returned as result #idx of fn.
func envNamesOfField(fn *ssa.Function, idx int, field string) (names []string, ok bool) {
	seen := map[string]bool{}
	ok = true
	n := 0
	for _, b := range fn.Blocks {
		ret, isRet := b.Instrs[len(b.Instrs)-1].(*ssa.Return)
		if !isRet || idx >= len(ret.Results) {
			continue
		}
		cands := origins(ret.Results[idx])
		if u, isU := strip(ret.Results[idx]).(*ssa.UnOp); isU {
			cands = append(cands, u)
		}
		for _, o := range cands {
			al, isAlloc := strip(o).(*ssa.Alloc)
			if !isAlloc {
				if u, isU := strip(o).(*ssa.UnOp); isU {
					al, isAlloc = u.X.(*ssa.Alloc)
				}
			}
			if !isAlloc {
				continue
			}
			for _, st := range fieldStores(al)[field] {
				n++
				for _, vo := range origins(st.Val) {
					c, isCall := strip(vo).(*ssa.Call)
					if !isCall || calleeName(&c.Call) != "os.Getenv" {
						ok = false
						continue
					}
					if name, isConst := constString(c.Call.Args[0]); isConst {
						if !seen[name] {
							seen[name] = true
							names = append(names, name)
						}
					} else {
						ok = false
					}
				}
			}
		}
	}
	return names, ok && n > 0
}

// returnsCallResults: the return hands back exactly the results of call c, in order.
func returnsCallResults(ret *ssa.Return, c *ssa.Call) bool {
	if c == nil {
		return false
	}
	n := 1
	if tup, ok := c.Type().(*types.Tuple); ok {
		n = tup.Len()
	}
	if len(ret.Results) != n {
		return false
	}
	if n == 1 {
		return strip(ret.Results[0]) == ssa.Value(c)
	}
	for i, rv := range ret.Results {
		ex, ok := strip(rv).(*ssa.Extract)
		if !ok || ex.Tuple != ssa.Value(c) || ex.Index != i {
			return false
		}
	}
	return true
}

// checkBodyReadComplete (C44.R4, added after a seeded change accepted io.ErrUnexpectedEOF as a
// legitimate short body in a new helper of the AWS client).
func checkBodyReadComplete(m *Module, r *Report, rule string) {
	readers := []string{"io.ReadAll", "io.ReadFull", "io.ReadAtLeast", "io.Copy", "io.CopyN", "io.CopyBuffer", "~bytes.Buffer).ReadFrom", "io/ioutil.ReadAll"}
	for _, name := range []string{"(*awsS3Client).DownloadSegment", "(*awsS3Client).DownloadIndex"} {
		fn := needFn(m, r, rule, pkgStorage, name)
		if fn == nil {
			continue
		}
		r.fn(fn)
		n := 0
		for _, call := range callsIn(fn) {
			if nameMatches(calleeName(call.Common()), readers...) {
				n++
			}
		}
		if n == 0 {
			r.unresolved(rule, name+": read of the response body", "no io.ReadAll / ReadFull / Copy call found (after helper folding)")
			continue
		}
		// Judged on the uses of the read's error value rather than by a path search: after folding a
		// helper that defers (Body.Close) the error travels through a spilled result, which a path
		// search cannot follow (negative control storage6: bounded retry around the GET). The error
		// may only be tested against nil, wrapped by fmt.Errorf, merged or returned; comparing it with
		// a sentinel or handing it to errors.Is / errors.As is how "some read failures are fine" looks.
		for _, call := range callsIn(fn) {
			if !nameMatches(calleeName(call.Common()), readers...) {
				continue
			}
			key := fmt.Sprintf("%s: the error of %s is checked against nil and never excused", name, calleeName(call.Common()))
			v := call.Value()
			var errs []ssa.Value
			if v != nil {
				for _, ref := range *v.Referrers() {
					if e, ok := ref.(*ssa.Extract); ok && isErrorType(e.Type()) {
						errs = append(errs, e)
					}
				}
			}
			if len(errs) == 0 {
				r.viol(rule, key, m.Pos(call.Pos()), "the error result of the body read is discarded: a body cut short is returned as the object")
				continue
			}
			nilTested, bad := false, ""
			seen := map[ssa.Value]bool{}
			var visit func(e ssa.Value, depth int)
			visit = func(e ssa.Value, depth int) {
				if seen[e] || depth > 6 {
					return
				}
				seen[e] = true
				for _, ref := range *e.Referrers() {
					switch x := ref.(type) {
					case *ssa.BinOp:
						if (x.Op == token.EQL || x.Op == token.NEQ) && (isNilConst(x.X) || isNilConst(x.Y)) {
							nilTested = true
						} else {
							bad = "compared with " + describe(x.X) + " / " + describe(x.Y) + " at " + m.Pos(x.Pos())
						}
					case *ssa.Phi:
						visit(x, depth+1)
					case *ssa.MakeInterface, *ssa.ChangeInterface:
						visit(x.(ssa.Value), depth+1)
					case *ssa.Call:
						if cn := calleeName(&x.Call); cn != "fmt.Errorf" {
							bad = "passed to " + cn + " at " + m.Pos(x.Pos())
						}
					case *ssa.Slice, *ssa.Store, *ssa.Return, *ssa.IndexAddr, *ssa.DebugRef:
					}
				}
			}
			for _, e := range errs {
				visit(e, 0)
			}
			switch {
			case bad != "":
				r.viol(rule, key, m.Pos(call.Pos()), "the read error is "+bad+": some failed reads are accepted, and bytes of a body that ended early are returned with a nil error — the dual client then never asks the primary")
			case !nilTested:
				r.viol(rule, key, m.Pos(call.Pos()), "the read error is never compared with nil")
			default:
				r.ok(rule, key, m.Pos(call.Pos()), "")
			}
		}
	}
}
