package main

import (
	"fmt"
	"go/token"
	"strings"

	"golang.org/x/tools/go/ssa"
)

func init() { register("C27", "other", checkC27) }

const pPrefix = "(*" + pkgProxy + ".proxy)."

// nestedMapUpdates: MapUpdate instructions whose map operand is (an element of) the local map
// variable rooted at `rootName` (failedPartitions[topic][partition] = true).
func nestedMapUpdatesOn(fn *ssa.Function, isRoot func(v ssa.Value) bool) []*ssa.MapUpdate {
	var out []*ssa.MapUpdate
	for _, b := range fn.Blocks {
		for _, in := range b.Instrs {
			mu, ok := in.(*ssa.MapUpdate)
			if !ok {
				continue
			}
			hit := false
			backSlice(mu.Map, false, func(v ssa.Value) {
				if isRoot(v) {
					hit = true
				}
			})
			if hit {
				out = append(out, mu)
			}
		}
	}
	return out
}

// sendNotRepeated: a path from the send call back to itself that does not advance a range loop
// (map iterator Next / slice range header) would transmit the same payload twice.
func sendNotRepeated(m *Module, r *Report, rule string, fn *ssa.Function, send ssa.CallInstruction, what string) {
	found, _, path := search(SearchSpec{Start: nextLoc(send),
		// the same send again, or any other call of the same transmit function (a "retry on a fresh
		// connection" next to the first send transmits the payload a second time just the same)
		Target: func(in ssa.Instruction) bool {
			if in == ssa.Instruction(send) {
				return true
			}
			ci, ok := in.(ssa.CallInstruction)
			return ok && calleeName(ci.Common()) == calleeName(send.Common())
		},
		Blocker: func(in ssa.Instruction) bool {
			if _, ok := in.(*ssa.Next); ok {
				return true
			}
			return in.Block().Comment == "rangeindex.loop"
		}})
	key := fmt.Sprintf("%s: %s is sent at most once per sub-request", fn.Name(), what)
	if found {
		r.viol(rule, key, m.Pos(send.Pos()), "the same payload can be transmitted again without moving to the next sub-request (a produce would be appended twice): "+renderPath(m, path))
	} else {
		r.ok(rule, key, m.Pos(send.Pos()), "")
	}
}

func checkC27(c *Ctx, r *Report) {
	r.Explanation = "Decides structural necessary conditions of 'the proxy answers every requested partition once and never writes a record twice': (R1) a produce partition is scheduled for another attempt only under part.ErrorCode == NOT_LEADER_OR_FOLLOWER taken from a decoded backend reply (every insertion into forwardProduce's failedPartitions set is control-dependent on that comparison, so a transport error or a malformed reply inserts nothing), the sub-requests of every attempt after the first are built from that set only, every send (forwardToBackend / WriteFrame) in fanOutProduce, forwardProduceRaw and fireAndForgetProduce is executed at most once per sub-request (no path back to the same send without advancing the range loop), and the generic reconnect-and-resend path of handleConnection is reachable only with header.APIKey != Produce; (R2) a partition entry with error code 0 can reach the merged produce or fetch reply only as a copy of an entry decoded from a backend reply — every other entry is a literal whose ErrorCode is a non-zero constant (or a parameter that is a non-zero constant at every call site); (R3) in the merge loops every partition of a decoded sub-reply is either recorded for retry or appended to the merged reply (no silent drop), every failed sub-request is answered for all its partitions, and what is left in the retry set after the last attempt is answered from the original request. It does not decide entry counts under malformed backend replies that repeat or omit partitions."
	r.NotCovered = "exact one-entry-per-partition counting when a backend reply itself repeats or omits partitions; ordering of entries; LFS rewriting (C31)"
	m, err := c.Mod("root")
	if err != nil {
		r.unresolved("C27.load", "root module", err.Error())
		return
	}
	r.rule("C27.R1", "produce retry only on NOT_LEADER_OR_FOLLOWER from a decoded reply; retry groups built from the failed set; each send at most once per sub-request; generic resend path excludes Produce", 8)
	r.rule("C27.R2", "error-code-0 entries in merged replies are copies of backend entries; synthesized entries carry non-zero constant codes", 6)
	r.rule("C27.R3", "merge loops neither drop partitions of a sub-reply nor of a failed sub-request; leftovers are answered after the last attempt", 5)

	const notLeader = 6
	isNotLeaderEq := func(respType string) Atom {
		return atomFn("part.ErrorCode == NOT_LEADER_OR_FOLLOWER", func(l Lit) bool {
			if l.Op != token.EQL {
				return false
			}
			x, y := l.X, l.Y
			if _, ok := constInt(x); ok {
				x, y = y, x
			}
			k, ok := constInt(y)
			if !ok || k != notLeader {
				return false
			}
			t, f, _, ok := fieldOf(x)
			return ok && f == "ErrorCode" && strings.HasSuffix(t, respType)
		})
	}

	// ---- forwardProduce
	if fp := needFn(m, r, "C27.R1", pkgProxy, "(*proxy).forwardProduce"); fp != nil {
		// the failedPartitions variable: the include argument of the re-grouping call
		regroup := findCalls(fp, pPrefix+"groupPartitionsByBroker")
		if len(regroup) != 1 {
			r.unresolved("C27.R1", "forwardProduce re-grouping call", fmt.Sprintf("found %d groupPartitionsByBroker calls", len(regroup)))
		} else {
			include := regroup[0].Common().Args[3]
			rootAllocs := map[ssa.Value]bool{}
			backSlice(include, false, func(v ssa.Value) {
				switch v.(type) {
				case *ssa.Alloc, *ssa.MakeMap, *ssa.Phi:
					rootAllocs[v] = true
				}
			})
			isRoot := func(v ssa.Value) bool { return rootAllocs[v] }
			ups := nestedMapUpdatesOn(fp, isRoot)
			nIns := 0
			for _, mu := range ups {
				// only the leaf insert (value true) schedules a partition; creating the inner map does not
				if _, isMake := strip(mu.Value).(*ssa.MakeMap); isMake {
					continue
				}
				nIns++
				guardVerdict(m, r, "C27.R1", "forwardProduce schedules a partition for retry only on NOT_LEADER_OR_FOLLOWER", fp, mu,
					Guard{cl(isNotLeaderEq("kmsg.ProduceResponseTopicPartition"))})
				// the partition id recorded is the one of the entry that carried the code
				if _, f, _, ok := fieldOf(mu.Key); ok && f == "Partition" {
					r.ok("C27.R1", "the retried partition is the one the broker rejected", m.Pos(mu.Pos()), describe(mu.Key))
				} else {
					r.viol("C27.R1", "the retried partition is the one the broker rejected", m.Pos(mu.Pos()), "key is "+describe(mu.Key))
				}
			}
			if nIns == 0 {
				r.unresolved("C27.R1", "forwardProduce retry-set insertions", "none found")
			}
			if isNilConst(include) {
				r.viol("C27.R1", "retry sub-requests are built from the failed set", m.Pos(regroup[0].Pos()), "groupPartitionsByBroker is called with a nil include set: every partition would be re-sent")
			} else if strip(regroup[0].Common().Args[2]) != ssa.Value(fp.Params[3]) {
				r.viol("C27.R1", "retry sub-requests are built from the failed set", m.Pos(regroup[0].Pos()), "re-grouping does not start from the full request")
			} else {
				r.ok("C27.R1", "retry sub-requests are built from the failed set", m.Pos(regroup[0].Pos()), "")
			}
			// the groups sent by fanOutProduce are the parameter (first attempt) or that re-grouping
			for _, fo := range findCalls(fp, pPrefix+"fanOutProduce") {
				okG := true
				for _, o := range origins(fo.Common().Args[3]) {
					if o == ssa.Value(fp.Params[5]) || o == regroup[0].Value() {
						continue
					}
					okG = false
				}
				if okG {
					r.ok("C27.R1", "every attempt sends the initial groups or the re-grouped failed set", m.Pos(fo.Pos()), "")
				} else {
					r.viol("C27.R1", "every attempt sends the initial groups or the re-grouped failed set", m.Pos(fo.Pos()), "groups are "+describe(fo.Common().Args[3]))
				}
			}
			// R3: leftovers answered: after the retry loop, the tail loop reads the same set
			tailReads := false
			for _, b := range fp.Blocks {
				for _, in := range b.Instrs {
					if lk, ok := in.(*ssa.Lookup); ok {
						hit := false
						backSlice(lk.X, false, func(v ssa.Value) {
							if isRoot(v) {
								hit = true
							}
						})
						if hit && lk.CommaOk {
							tailReads = true
						}
					}
				}
			}
			if tailReads {
				r.ok("C27.R3", "forwardProduce answers partitions still failed after the last attempt", m.Pos(fp.Pos()), "")
			} else {
				r.viol("C27.R3", "forwardProduce answers partitions still failed after the last attempt", m.Pos(fp.Pos()), "the retry set is never read back after the attempts: those partitions get no entry")
			}
		}
		mergeLoopComplete(m, r, fp, "kmsg.ProduceResponseTopicPartition", pkgProxy+".addErrorForAllPartitions")
	}
	if ff := needFn(m, r, "C27.R3", pkgProxy, "(*proxy).forwardFetch"); ff != nil {
		mergeLoopComplete(m, r, ff, "kmsg.FetchResponseTopicPartition", pkgProxy+".addFetchErrorForAllPartitions")
	}

	// ---- the regrouping filter itself (shared by first attempt: include == nil, and retries)
	for _, gspec := range []struct{ fn, elem string }{
		{"(*proxy).groupPartitionsByBroker", "kmsg.ProduceRequestTopicPartition"},
		{"(*proxy).groupFetchPartitionsByBroker", "kmsg.FetchRequestTopicPartition"},
	} {
		gp := needFn(m, r, "C27.R1", pkgProxy, gspec.fn)
		if gp == nil {
			continue
		}
		gname := gp.Name()
		include := gp.Params[3]
		// L = include[topic]
		var inner []ssa.Value
		for _, b := range gp.Blocks {
			for _, in := range b.Instrs {
				if lk, ok := in.(*ssa.Lookup); ok && strip(lk.X) == ssa.Value(include) {
					inner = append(inner, lk)
				}
			}
		}
		isInner := func(v ssa.Value) bool {
			for _, o := range origins(v) {
				for _, l := range inner {
					if strip(o) == l {
						return true
					}
				}
			}
			return false
		}
		onlyNilOrInner := func(v ssa.Value) bool {
			os := origins(v)
			if len(os) == 0 {
				return false
			}
			for _, o := range os {
				if isNilConst(o) {
					continue
				}
				okI := false
				for _, l := range inner {
					if strip(o) == l {
						okI = true
					}
				}
				if !okI {
					return false
				}
			}
			return true
		}
		noFilter := atomFn("include == nil (first attempt: everything is sent once)", func(l Lit) bool {
			return l.Op == token.EQL && isNilConst(l.Y) && strip(l.X) == ssa.Value(include)
		})
		member := atomFn("include[topic][partition] is set", func(l Lit) bool {
			if l.Op != token.ILLEGAL || l.Neg {
				return false
			}
			lk, ok := strip(l.X).(*ssa.Lookup)
			if !ok {
				return false
			}
			_, f, _, okf := fieldOf(lk.Index)
			return okf && f == "Partition" && onlyNilOrInner(lk.X)
		})
		innerNil := atomFn("per-topic set == nil (only when include == nil or the topic is absent, which is skipped)", func(l Lit) bool {
			return l.Op == token.EQL && isNilConst(l.Y) && onlyNilOrInner(l.X)
		})
		n := 0
		for _, site := range appendSitesT(gp, gspec.elem) {
			n++
			guardVerdict(m, r, "C27.R1", gname+": with a retry set, a partition is regrouped only if it is in the set", gp, site.At,
				Guard{cl(noFilter, member, innerNil)})
		}
		if n == 0 {
			r.unresolved("C27.R1", gname+" partition append", "not found")
		}
		// a topic absent from the retry set contributes nothing: the empty-inner-set test skips the topic
		okSkip := false
		for _, b := range gp.Blocks {
			ifi, ok := b.Instrs[len(b.Instrs)-1].(*ssa.If)
			if !ok {
				continue
			}
			l := litOf(ifi.Cond, true)
			isEmptyTest := false
			if l.Op == token.EQL {
				if k, okk := constInt(l.Y); okk && k == 0 {
					if lc, okc := strip(l.X).(*ssa.Call); okc && calleeName(&lc.Call) == "builtin.len" && isInner(lc.Call.Args[0]) {
						isEmptyTest = true
					}
				}
				if isNilConst(l.Y) && isInner(l.X) && !isNilConstInOrigins(l.X) {
					isEmptyTest = true
				}
			}
			if !isEmptyTest {
				continue
			}
			// from the "empty" edge no partition append is reachable before the topic loop advances
			found, _, _ := search(SearchSpec{Start: Loc{b.Succs[0], 0},
				Target:  func(in ssa.Instruction) bool { return isAppendOf(in, gspec.elem) },
				Blocker: func(in ssa.Instruction) bool { return in.Block().Comment == "rangeindex.loop" && in.Block().Dominates(b) }})
			if !found {
				okSkip = true
			}
		}
		if okSkip {
			r.ok("C27.R1", gname+": a topic absent from the retry set is skipped entirely", m.Pos(gp.Pos()), "")
		} else {
			r.viol("C27.R1", gname+": a topic absent from the retry set is skipped entirely", m.Pos(gp.Pos()), "no empty-set test on include[topic] that skips the topic: a topic without failed partitions gets a nil filter and is re-sent in full (its records are written twice)")
		}
	}

	// ---- sends
	for _, spec := range []struct{ fn, send, what string }{
		{"(*proxy).fanOutProduce", pPrefix + "forwardToBackend", "forwardToBackend"},
		{"(*proxy).forwardProduceRaw", pPrefix + "forwardToBackend", "forwardToBackend"},
		{"(*proxy).fireAndForgetProduce", pkgProtocol + ".WriteFrame", "WriteFrame"},
	} {
		fn := needFn(m, r, "C27.R1", pkgProxy, spec.fn)
		if fn == nil {
			continue
		}
		n := 0
		for _, f := range withAnon(fn) {
			for _, call := range findCalls(f, spec.send) {
				n++
				sendNotRepeated(m, r, "C27.R1", f, call, spec.what)
			}
		}
		if n == 0 {
			r.unresolved("C27.R1", fn.Name()+" send", "no "+spec.what+" call found")
		}
		// goroutines: a send inside `go func` in a loop is once per work item only if the closure
		// itself is created once per iteration: the `go` must be in a range loop body
	}
	// ---- generic resend excludes produce
	if hc := needFn(m, r, "C27.R1", pkgProxy, "(*proxy).handleConnection"); hc != nil {
		sends := findCalls(hc, pPrefix+"forwardToBackend")
		if len(sends) < 2 {
			r.add("C27.R1", "handleConnection generic forward path", m.Pos(hc.Pos()), Info, fmt.Sprintf("%d forwardToBackend calls", len(sends)))
		}
		for i, s := range sends {
			guardVerdict(m, r, "C27.R1", fmt.Sprintf("handleConnection generic forward #%d is not reachable for Produce", i+1), hc, s.(ssa.Instruction),
				Guard{cl(atomFn("header.APIKey != Produce", func(l Lit) bool {
					if l.Op != token.NEQ {
						return false
					}
					x, y := l.X, l.Y
					if _, ok := constInt(x); ok {
						x, y = y, x
					}
					k, ok := constInt(y)
					if !ok || k != 0 {
						return false
					}
					_, f, _, ok := fieldOf(x)
					return ok && f == "APIKey"
				})).re(pkgProtocol + ".ParseRequestHeader")})
		}
	}

	// ---- R2: provenance of appended partition entries
	for _, typ := range []string{"kmsg.ProduceResponseTopicPartition", "kmsg.FetchResponseTopicPartition"} {
		n := 0
		for _, fn := range m.FuncsInPkg(pkgProxy) {
			file := m.Fset.Position(fn.Pos()).Filename
			if strings.Contains(file, "lfs") {
				continue
			}
			for _, site := range appendSites(fn, "[]github.com/twmb/franz-go/pkg/"+typ) {
				n++
				r.fn(fn)
				key := fmt.Sprintf("%s appends %s", fn.Name(), typ[strings.Index(typ, ".")+1:])
				if site.Elem == nil {
					r.undecided("C27.R2", key, m.Pos(site.Call.Pos()), "spread append of partition entries")
					continue
				}
				// (i) literal with constant / parameter error code
				if site.Alloc != nil {
					fs := fieldStores(site.Alloc)
					codes := fs["ErrorCode"]
					if len(codes) == 0 {
						// is the local a copy of a backend entry (range variable)? whole-struct store
						whole := storesTo(site.Alloc)
						fromBackend := len(whole) > 0
						for _, w := range whole {
							if !entryFromBackend(w) {
								fromBackend = false
							}
						}
						if fromBackend {
							r.ok("C27.R2", key, m.Pos(site.Call.Pos()), "copy of an entry decoded from a backend reply")
						} else {
							r.viol("C27.R2", key, m.Pos(site.Call.Pos()), "an entry whose ErrorCode is never set (0 = success) is synthesized by the proxy")
						}
						continue
					}
					okCodes, why := true, ""
					for _, st := range codes {
						if k, ok := constInt(st.Val); ok {
							if k == 0 {
								okCodes, why = false, "ErrorCode 0 is written by the proxy itself"
							}
							continue
						}
						if p, ok := strip(st.Val).(*ssa.Parameter); ok {
							// every call site passes a non-zero constant
							for _, cs := range callersOf(m, funcName(fn)) {
								idx := -1
								for i, fp := range fn.Params {
									if fp == p {
										idx = i
									}
								}
								if idx < 0 || idx >= len(cs.in.Common().Args) {
									okCodes, why = false, "parameter not resolved at "+m.Pos(cs.in.Pos())
									continue
								}
								if k, ok := constInt(cs.in.Common().Args[idx]); !ok || k == 0 {
									okCodes, why = false, "call at "+m.Pos(cs.in.Pos())+" passes "+describe(cs.in.Common().Args[idx])+" as error code"
								}
							}
							continue
						}
						okCodes, why = false, "ErrorCode is "+describe(st.Val)
					}
					if okCodes {
						r.ok("C27.R2", key, m.Pos(site.Call.Pos()), "synthesized entry with a non-zero constant error code")
					} else {
						r.viol("C27.R2", key, m.Pos(site.Call.Pos()), why)
					}
					continue
				}
				if entryFromBackend(site.Elem) {
					r.ok("C27.R2", key, m.Pos(site.Call.Pos()), "copy of an entry decoded from a backend reply")
				} else {
					r.viol("C27.R2", key, m.Pos(site.Call.Pos()), "appended entry "+describe(site.Elem)+" is neither a backend entry nor an error literal")
				}
			}
		}
		if n == 0 {
			r.unresolved("C27.R2", "appends of "+typ, "none found")
		}
	}
}

// entryFromBackend: the value is an element of the Partitions list of a decoded backend response
// (a field chain … .subResp.Topics[i].Partitions[j]).
func entryFromBackend(v ssa.Value) bool {
	sawSub, sawParts := false, false
	backSlice(v, false, func(x ssa.Value) {
		if fa, ok := x.(*ssa.FieldAddr); ok {
			if _, f, _, ok := fieldAddrInfo(fa); ok {
				if f == "subResp" {
					sawSub = true
				}
				if f == "Partitions" {
					sawParts = true
				}
			}
		}
		if _, f, _, ok := fieldOf(x); ok {
			if f == "subResp" {
				sawSub = true
			}
			if f == "Partitions" {
				sawParts = true
			}
		}
	})
	return sawSub && sawParts
}

// mergeLoopComplete (R3): in the innermost loop over the partitions of a decoded sub-reply every
// iteration either records the partition for retry (map update) or appends it to the merged reply;
// the failed-sub-request branch answers through the all-partitions helper or records every partition.
func mergeLoopComplete(m *Module, r *Report, fn *ssa.Function, typ, errHelper string) {
	// loop bodies that load an element of a subResp … Partitions list
	n := 0
	for _, b := range fn.Blocks {
		if b.Comment != "rangeindex.body" {
			continue
		}
		isPartLoop := false
		for _, in := range b.Instrs {
			if ia, ok := in.(*ssa.IndexAddr); ok {
				if strings.HasSuffix(ia.Type().String(), typ) && entryFromBackend(ia) {
					isPartLoop = true
				}
			}
		}
		if !isPartLoop {
			continue
		}
		n++
		// the loop header is the idom-side predecessor with comment rangeindex.loop
		var header *ssa.BasicBlock
		for _, p := range b.Preds {
			if p.Comment == "rangeindex.loop" {
				header = p
			}
		}
		if header == nil {
			r.undecided("C27.R3", fn.Name()+": partition merge loop header", m.Pos(fn.Pos()), "loop header not found")
			continue
		}
		handled := func(in ssa.Instruction) bool {
			if _, ok := in.(*ssa.MapUpdate); ok {
				if _, isMake := strip(in.(*ssa.MapUpdate).Value).(*ssa.MakeMap); !isMake {
					return true
				}
			}
			if c, ok := in.(*ssa.Call); ok && calleeName(&c.Call) == "builtin.append" && strings.HasSuffix(c.Type().String(), typ) {
				return true
			}
			return false
		}
		found, _, path := search(SearchSpec{Start: Loc{b, 0},
			Target:  func(in ssa.Instruction) bool { return in.Block() == header },
			Blocker: handled})
		key := fn.Name() + ": every partition of a sub-reply is retried or merged"
		if found {
			r.viol("C27.R3", key, blockPosFull(m, b), "an iteration can finish without recording or appending the partition (silent drop): "+renderPath(m, path))
		} else {
			r.ok("C27.R3", key, blockPosFull(m, b), "")
		}
	}
	if n == 0 {
		r.unresolved("C27.R3", fn.Name()+": partition merge loop", "not found")
	}
	// failed sub-request branch: r.err != nil → helper call or retry-set insertions before `continue`
	for _, b := range fn.Blocks {
		ifi, ok := b.Instrs[len(b.Instrs)-1].(*ssa.If)
		if !ok {
			continue
		}
		l := litOf(ifi.Cond, true)
		if l.Op != token.NEQ || !isNilConst(l.Y) {
			continue
		}
		if _, f, _, ok := fieldOf(l.X); !ok || f != "err" {
			continue
		}
		// from the true edge, every path to the sub-results loop header passes the helper or a retry-set insertion
		var loopHeader *ssa.BasicBlock
		for d := b; d != nil; d = d.Idom() {
			if d.Comment == "rangeindex.loop" {
				loopHeader = d
				break
			}
		}
		if loopHeader == nil {
			continue
		}
		found, _, path := search(SearchSpec{Start: Loc{b.Succs[0], 0},
			Target: func(in ssa.Instruction) bool { return in.Block() == loopHeader },
			Blocker: func(in ssa.Instruction) bool {
				if isCallTo(in, errHelper) {
					return true
				}
				if mu, ok := in.(*ssa.MapUpdate); ok {
					if _, isMake := strip(mu.Value).(*ssa.MakeMap); !isMake {
						return true
					}
				}
				return false
			}})
		key := fn.Name() + ": a failed sub-request is answered or retried for all its partitions"
		if found {
			// zero-topic sub-requests legitimately skip the insertion loops: accept when the only
			// skipping edges are loop-exit edges of range loops over the sub-request
			if pathOnlySkipsEmptyRanges(path) {
				r.ok("C27.R3", key, ifPos(m, ifi), "answered per topic/partition of the sub-request (an empty sub-request has nothing to answer)")
			} else {
				r.viol("C27.R3", key, ifPos(m, ifi), "a transport failure can leave the sub-request's partitions without any entry: "+renderPath(m, path))
			}
		} else {
			r.ok("C27.R3", key, ifPos(m, ifi), "")
		}
	}
}

// pathOnlySkipsEmptyRanges: the witness avoids the handling instructions only by leaving range loops
// immediately (their bodies, not on the path, contain the handling).
func pathOnlySkipsEmptyRanges(path []*ssa.BasicBlock) bool {
	sawLoop := false
	for i, b := range path {
		// the exit edge of a range loop (second successor) taken right at its header
		if b.Comment == "rangeindex.loop" && i+1 < len(path) && len(b.Succs) == 2 && path[i+1] == b.Succs[1] && (i == 0 || path[i-1].Comment != "rangeindex.body") {
			sawLoop = true
		}
	}
	return sawLoop
}

func blockPosFull(m *Module, b *ssa.BasicBlock) string {
	for _, in := range b.Instrs {
		if in.Pos().IsValid() {
			return m.Pos(in.Pos())
		}
	}
	return "?"
}

func isNilConstInOrigins(v ssa.Value) bool {
	for _, o := range origins(v) {
		if isNilConst(o) {
			return true
		}
	}
	return false
}
