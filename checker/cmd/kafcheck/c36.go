package main

import (
	"fmt"
	"go/token"
	"strings"

	"golang.org/x/tools/go/ssa"
)

func init() { register("C36", "other", checkC36) }

const (
	pkgSQLServer    = sqlModPath + "/internal/server"
	pkgSQLDiscovery = sqlModPath + "/internal/discovery"
)

// derefOfField: v is *X.f (a load through a pointer-typed field f); returns f.
func derefOfField(v ssa.Value) (string, bool) {
	u, ok := strip(v).(*ssa.UnOp)
	if !ok || u.Op != token.MUL {
		return "", false
	}
	if _, f, _, ok := fieldOf(u.X); ok {
		return f, true
	}
	return "", false
}

// derefOfValue: v is *p for the given pointer value p.
func derefOfValue(v ssa.Value, p ssa.Value) bool {
	u, ok := strip(v).(*ssa.UnOp)
	return ok && u.Op == token.MUL && sameSource(u.X, p)
}

func checkC36(c *Ctx, r *Report) {
	r.Explanation = "Decides structural necessary conditions of 'SQL results equal direct filtering; segment skipping never drops a matching row': (R1) in segmentMatchesOffsets / segmentMatchesTimestamps a segment is rejected only by `*seg.Max < *min` or `*seg.Min > *max` (strict, statistic of the right kind paired with the bound of the right side), and every pointer that is dereferenced there was compared with nil on the path; both-statistics-nil and no-bounds return true; (R2) the per-record filters of handleSelect and handleAggregateSelect skip a record only on record.Timestamp < *timeMin, > *timeMax, record.Offset < *OffsetMin, > *OffsetMax — so a segment is pruned only when every one of its records would be skipped — and filterSegments is called with the very bound values the record filters use; filterSegments itself drops a segment only for another topic, another partition, or a negative answer of the two predicates, and appends the segment unchanged; (R3) statistics provenance: SegmentRef.MaxOffset is written only from next.BaseOffset-1 where next is findNextSegment of the same index (same topic and partition, checked there) after the list was sorted by (topic, partition, base offset), from the time-index footer when still nil, from a manifest entry's own max_offset, or by the clone helper; MinOffset is the segment's own base offset. LIMIT/TAIL/ORDER semantics and the correctness of the time-index builder are not decided."
	r.NotCovered = "limit / tail / order-by semantics; correctness of the time-index footer contents; join queries"
	m, err := c.Mod("sql")
	if err != nil {
		r.unresolved("C36.load", "sql module", err.Error())
		return
	}
	r.rule("C36.R1", "a segment is pruned only through stat.Max < min or stat.Min > max (strict, matching kinds), with nil checks before every dereference", 8)
	r.rule("C36.R2", "per-record filters use the four strict comparisons with the same bounds that are handed to filterSegments; filterSegments drops nothing else", 12)
	r.rule("C36.R3", "MaxOffset / MinOffset provenance (next base offset - 1 within the same partition of a sorted list; footer; clone)", 5)
	r.rule("C36.R5", "the time index builder's per-segment statistics are running extremes over every record (pruning on them never drops a matching row)", 4)
	checkSegmentStats(m, r)

	// ---- R1
	for _, spec := range []struct{ fn, minStat, maxStat string }{
		{"segmentMatchesOffsets", "MinOffset", "MaxOffset"},
		{"segmentMatchesTimestamps", "MinTimestamp", "MaxTimestamp"},
	} {
		fn := needFn(m, r, "C36.R1", pkgSQLServer, spec.fn)
		if fn == nil {
			continue
		}
		minB, maxB := fn.Params[1], fn.Params[2]
		nFalse := 0
		for _, b := range fn.Blocks {
			v, ok := constBoolReturn(b)
			if !ok || v {
				continue
			}
			nFalse++
			// the edge that enters this block
			key := fmt.Sprintf("%s: rejection #%d is a conservative comparison", spec.fn, nFalse)
			okEdge := false
			why := "no comparison found on the entering edge"
			for _, p := range b.Preds {
				ifi, ok := p.Instrs[len(p.Instrs)-1].(*ssa.If)
				if !ok {
					continue
				}
				truth := p.Succs[0] == b
				l := litOf(ifi.Cond, truth)
				x, y, op := l.X, l.Y, l.Op
				fx, okx := derefOfField(x)
				fy, oky := derefOfField(y)
				switch {
				case okx && fx == spec.maxStat && derefOfValue(y, minB) && op == token.LSS:
					okEdge = true
				case oky && fy == spec.maxStat && derefOfValue(x, minB) && op == token.GTR:
					okEdge = true
				case okx && fx == spec.minStat && derefOfValue(y, maxB) && op == token.GTR:
					okEdge = true
				case oky && fy == spec.minStat && derefOfValue(x, maxB) && op == token.LSS:
					okEdge = true
				default:
					why = "rejecting condition is " + l.String() + ": only `*" + spec.maxStat + " < *min` and `*" + spec.minStat + " > *max` are conservative (a non-strict or mis-paired comparison drops segments that hold matching rows)"
				}
			}
			if okEdge {
				r.ok("C36.R1", key, blockPosFull(m, b), "")
			} else {
				r.viol("C36.R1", key, blockPosFull(m, b), why)
			}
		}
		if nFalse == 0 {
			r.unresolved("C36.R1", spec.fn+" rejections", "no `return false` found")
		}
		// nil checks before dereference
		for _, b := range fn.Blocks {
			for _, in := range b.Instrs {
				u, ok := in.(*ssa.UnOp)
				if !ok || u.Op != token.MUL {
					continue
				}
				// dereference of a *int64 (bound parameter or stat field load)
				if !strings.HasSuffix(u.X.Type().String(), "*int64") {
					continue
				}
				if _, isFA := u.X.(*ssa.FieldAddr); isFA {
					continue // loading the pointer field itself
				}
				ptr := u.X
				key := fmt.Sprintf("%s: %s is checked against nil before it is dereferenced", spec.fn, describe(ptr))
				guardVerdict(m, r, "C36.R1", key, fn, u, Guard{cl(atomFn("ptr != nil", func(l Lit) bool {
					if l.Op != token.NEQ {
						return false
					}
					x, y := l.X, l.Y
					if isNilConst(x) {
						x, y = y, x
					}
					if !isNilConst(y) {
						return false
					}
					if sameSource(x, ptr) {
						return true
					}
					_, f1, _, ok1 := fieldOf(x)
					_, f2, _, ok2 := fieldOf(ptr)
					return ok1 && ok2 && f1 == f2
				}))})
			}
		}
		// no-bounds and no-stats return true
		for _, b := range fn.Blocks {
			if v, ok := constBoolReturn(b); ok && v {
				r.ok("C36.R1", spec.fn+": accepting return", blockPosFull(m, b), "")
			}
		}
	}

	// ---- R2 record filters
	type recCmp struct{ recField, bound string; op token.Token }
	wantCmp := map[string]token.Token{ // "recField|side" → operator that skips
		"Timestamp|min": token.LSS, "Timestamp|max": token.GTR, "Offset|min": token.LSS, "Offset|max": token.GTR,
	}
	boundPtr := map[string]map[string]ssa.Value{}
	for _, hn := range []string{"(*Server).handleSelect", "(*Server).handleAggregateSelect"} {
		fn := needFn(m, r, "C36.R2", pkgSQLServer, hn)
		if fn == nil {
			continue
		}
		seen := map[string]bool{}
		if boundPtr[fn.Name()] == nil {
			boundPtr[fn.Name()] = map[string]ssa.Value{}
		}
		for _, b := range fn.Blocks {
			ifi, ok := b.Instrs[len(b.Instrs)-1].(*ssa.If)
			if !ok {
				continue
			}
			bo, ok := ifi.Cond.(*ssa.BinOp)
			if !ok {
				continue
			}
			_, rf, _, okr := fieldOf(bo.X)
			if !okr || (rf != "Timestamp" && rf != "Offset") || !strings.HasSuffix(typeOfBase(bo.X), "decoder.Record") {
				continue
			}
			u, ok := strip(bo.Y).(*ssa.UnOp)
			if !ok || u.Op != token.MUL {
				continue
			}
			side := ""
			name := strings.ToLower(describe(u.X))
			switch {
			case strings.Contains(name, "min"):
				side = "min"
			case strings.Contains(name, "max"):
				side = "max"
			}
			if side == "" {
				continue
			}
			k := rf + "|" + side
			key := fmt.Sprintf("%s: record filter on %s against the %s bound", fn.Name(), rf, side)
			seen[k] = true
			boundPtr[fn.Name()][k] = u.X
			if bo.Op == wantCmp[k] {
				r.ok("C36.R2", key, ifPos(m, ifi), "skips on "+bo.Op.String())
			} else {
				r.viol("C36.R2", key, ifPos(m, ifi), "a record is skipped on "+bo.Op.String()+" (expected "+wantCmp[k].String()+"): rows equal to the bound are lost, or the record filter and the segment pruning disagree")
			}
		}
		for k := range wantCmp {
			if !seen[k] {
				r.viol("C36.R2", fmt.Sprintf("%s: record filter on %s", fn.Name(), strings.Replace(k, "|", " against the ", 1)+" bound"), m.Pos(fn.Pos()), "no per-record comparison found: segment pruning would then be the only filter and rows outside the bounds are returned")
			}
		}
	}
	// the bounds handed to filterSegments are the ones the record filter uses (handleSelect)
	if hs := m.Func(pkgSQLServer, "(*Server).handleSelect"); hs != nil {
		for _, call := range findCalls(hs, pkgSQLServer+".filterSegments") {
			a := call.Common().Args // parsed, segments, timeMin, timeMax
			okB := true
			why := ""
			for i, k := range []string{"Timestamp|min", "Timestamp|max"} {
				bp := boundPtr["handleSelect"][k]
				if bp == nil || !(sameSource(bp, a[2+i]) || strip(bp) == strip(a[2+i])) {
					okB, why = false, "argument "+describe(a[2+i])+" of filterSegments is not the "+k+" bound the record filter dereferences ("+describe(bp)+")"
				}
			}
			if !dependsOnParam(a[0], hs.Params[3]) {
				okB, why = false, "filterSegments gets a query other than the one being executed"
			}
			if okB {
				r.ok("C36.R2", "handleSelect: pruning and record filter use the same bounds", m.Pos(call.Pos()), "")
			} else {
				r.viol("C36.R2", "handleSelect: pruning and record filter use the same bounds", m.Pos(call.Pos()), why)
			}
		}
	}
	if fs := needFn(m, r, "C36.R2", pkgSQLServer, "filterSegments"); fs != nil {
		// every `continue` (edge back to the loop header that skips the append) is caused by one of the
		// four allowed tests
		var header *ssa.BasicBlock
		for _, b := range fs.Blocks {
			if b.Comment == "rangeindex.loop" {
				header = b
			}
		}
		appends := appendSitesT(fs, "discovery.SegmentRef")
		if header == nil || len(appends) != 1 {
			r.unresolved("C36.R2", "filterSegments loop", "range loop with one append not found")
		} else {
			// the scan visits every segment: the loop is left only when the list is exhausted (the
			// header's own exit). A `break` or `return` from the body abandons the segments not yet
			// looked at — sound only for an order the listing does not have (it is sorted by topic,
			// partition, base offset, so an out-of-range segment of one partition says nothing
			// about the next partition)
			{
				key := "filterSegments looks at every segment (the loop ends only when the list does)"
				bad := ""
				for _, b := range fs.Blocks {
					if b == header || !blockInLoop(header, b) {
						continue
					}
					for _, sc := range b.Succs {
						if sc != header && !blockInLoop(header, sc) {
							bad = "the loop is left from its body at " + blockPos(m, b) + " → " + blockPos(m, sc)
						}
					}
				}
				if bad == "" {
					r.ok("C36.R2", key, blockPosFull(m, header), "")
				} else {
					r.viol("C36.R2", key, blockPosFull(m, header), bad+": every later segment — including those of other partitions — is dropped unseen")
				}
			}
			nSkip := 0
			fam := fnFamily(m, fs)
			inFam := func(f *ssa.Function) bool {
				for _, x := range fam {
					if x == f {
						return true
					}
				}
				return false
			}
			// classify one skip literal; a negated call of a predicate helper that filterSegments owns is
			// opened up: inside it, every edge that leads to `return false` is a skip test of its own and
			// every other return hands back true or the verdict of one of the two segment predicates
			var classify func(fn *ssa.Function, ifi *ssa.If, l Lit, depth int)
			judgeHelper := func(h *ssa.Function, depth int) {
				for _, hb := range h.Blocks {
					if ret, ok := hb.Instrs[len(hb.Instrs)-1].(*ssa.Return); ok {
						v := strip(ret.Results[0])
						if c, isC := v.(*ssa.Const); isC {
							if c.Value != nil && c.Value.ExactString() == "false" {
								// the tests that lead here
								for _, pb := range hb.Preds {
									pif, ok := pb.Instrs[len(pb.Instrs)-1].(*ssa.If)
									if !ok {
										nSkip++
										r.viol("C36.R2", fmt.Sprintf("filterSegments: skip #%d is one of the four allowed tests", nSkip), m.Pos(ret.Pos()), "an unconditional `return false` in "+h.Name())
										continue
									}
									for si := range pb.Succs {
										if followJumps(pb.Succs[si]) == hb || pb.Succs[si] == hb {
											classify(h, pif, litOf(pif.Cond, si == 0), depth+1)
										}
									}
								}
							}
							continue
						}
						nSkip++
						key := fmt.Sprintf("filterSegments: skip #%d is one of the four allowed tests", nSkip)
						if cc, ok := v.(*ssa.Call); ok {
							n := calleeName(&cc.Call)
							if n == pkgSQLServer+".segmentMatchesOffsets" || n == pkgSQLServer+".segmentMatchesTimestamps" {
								r.ok("C36.R2", key, m.Pos(ret.Pos()), "verdict of "+n[strings.LastIndex(n, ".")+1:])
								continue
							}
						}
						r.viol("C36.R2", key, m.Pos(ret.Pos()), h.Name()+" decides on "+describe(v))
					}
				}
			}
			classify = func(fn *ssa.Function, ifi *ssa.If, l Lit, depth int) {
				okS := false
				desc := l.String()
				if l.Op == token.NEQ {
					_, f1, _, ok1 := fieldOf(l.X)
					_, f2, _, ok2 := fieldOf(l.Y)
					if ok1 && ok2 && f1 == f2 && f1 == "Topic" {
						okS = true
					}
					if ok1 && f1 == "Partition" {
						if f, okd := derefOfField(l.Y); okd && f == "Partition" {
							okS = true
						}
					}
				}
				if l.Op == token.ILLEGAL && l.Neg {
					if cc, ok := strip(l.X).(*ssa.Call); ok {
						n := calleeName(&cc.Call)
						if n == pkgSQLServer+".segmentMatchesOffsets" || n == pkgSQLServer+".segmentMatchesTimestamps" {
							okS = true
						} else if h, _ := calleeOf(&cc.Call); h != nil && h != fs && inFam(h) && depth < 3 {
							judgeHelper(h, depth)
							return
						}
					}
				}
				nSkip++
				key := fmt.Sprintf("filterSegments: skip #%d is one of the four allowed tests", nSkip)
				if okS {
					r.ok("C36.R2", key, ifPos(m, ifi), desc)
				} else {
					r.viol("C36.R2", key, ifPos(m, ifi), "a segment is dropped on "+desc)
				}
			}
			// in filterSegments: an edge back to the loop header that skips the append; with the
			// append inside an `if keep { … }`, the false edge of that test is the skip
			app := appends[0].Call
			for _, b := range fs.Blocks {
				ifi, ok := b.Instrs[len(b.Instrs)-1].(*ssa.If)
				if !ok || b == header {
					continue
				}
				for si := range b.Succs {
					if followJumps(b.Succs[si]) != header {
						continue
					}
					// does this edge really avoid the append?
					if b.Succs[si] == app.Block() {
						continue
					}
					classify(fs, ifi, litOf(ifi.Cond, si == 0), 0)
				}
			}
			// predicates receive the query's own bounds (arguments are resolved through an owned helper's
			// parameters to what filterSegments passes)
			resolve := func(fn *ssa.Function, v ssa.Value) ssa.Value {
				v = strip(v)
				p, ok := v.(*ssa.Parameter)
				if !ok || fn == fs {
					return v
				}
				for i, q := range fn.Params {
					if q == p {
						for _, cs := range callersOf(m, funcName(fn)) {
							if cs.caller == fs && i < len(cs.in.Common().Args) {
								return strip(cs.in.Common().Args[i])
							}
						}
					}
				}
				return v
			}
			for _, f := range fam {
				for _, call := range findCalls(f, pkgSQLServer+".segmentMatchesOffsets") {
					a := call.Common().Args
					_, f1, _, ok1 := fieldOf(a[1])
					_, f2, _, ok2 := fieldOf(a[2])
					if ok1 && ok2 && f1 == "OffsetMin" && f2 == "OffsetMax" {
						r.ok("C36.R2", "filterSegments: offset predicate gets (OffsetMin, OffsetMax)", m.Pos(call.Pos()), "")
					} else {
						r.viol("C36.R2", "filterSegments: offset predicate gets (OffsetMin, OffsetMax)", m.Pos(call.Pos()), describe(a[1])+", "+describe(a[2]))
					}
				}
				for _, call := range findCalls(f, pkgSQLServer+".segmentMatchesTimestamps") {
					a := call.Common().Args
					if resolve(f, a[1]) == ssa.Value(fs.Params[2]) && resolve(f, a[2]) == ssa.Value(fs.Params[3]) {
						r.ok("C36.R2", "filterSegments: time predicate gets (timeMin, timeMax)", m.Pos(call.Pos()), "")
					} else {
						r.viol("C36.R2", "filterSegments: time predicate gets (timeMin, timeMax)", m.Pos(call.Pos()), describe(a[1])+", "+describe(a[2]))
					}
				}
			}
		}
	}

	// ---- R3
	allowedWriters := map[string]string{}
	for _, w := range fieldWriters(m, pkgSQLDiscovery+".SegmentRef", "MaxOffset", false) {
		allowedWriters[funcName(w.Fn)] = w.Fn.Name()
		fnn := shortName(w.Fn)
		key := "MaxOffset written in " + fnn
		switch {
		case fnn == "ListCompleted" || fnn == "listCompleted":
			// value = &max, max = next.BaseOffset - 1, next = findNextSegment(segments, i); store into segments[i]
			okV := false
			why := "value is " + describe(w.Val)
			if al, ok := strip(w.Val).(*ssa.Alloc); ok {
				for _, sv := range storesTo(al) {
					terms, k := flattenSum(sv)
					if len(terms) == 1 && k == -1 {
						if _, f, _, okf := fieldOf(terms[0]); okf && f == "BaseOffset" && dependsOnCall(terms[0], pkgSQLDiscovery+".findNextSegment") {
							okV = true
						}
					}
				}
			}
			if okV {
				// same index
				st := w.In.(*ssa.Store)
				okIdx := false
				var idx ssa.Value
				backSlice(st.Addr, false, func(v ssa.Value) {
					if ia, ok := v.(*ssa.IndexAddr); ok {
						idx = ia.Index
					}
				})
				if fa, ok := st.Addr.(*ssa.FieldAddr); ok {
					if ia, ok := fa.X.(*ssa.IndexAddr); ok {
						idx = ia.Index
					}
				}
				for _, fc := range findCalls(w.Fn, pkgSQLDiscovery+".findNextSegment") {
					if idx != nil && strip(fc.Common().Args[1]) == strip(idx) {
						okIdx = true
					}
				}
				// sorted before
				sorted := false
				for _, sc := range findCalls(w.Fn, "sort.Slice", "sort.SliceStable", "slices.SortFunc", "slices.SortStableFunc", "sort.Sort", "sort.Stable") {
					if _, isCall := sc.(*ssa.Call); isCall && instrDominates(sc.(ssa.Instruction), w.In) {
						sorted = true // a deferred sort runs after the loop and does not count
					}
				}
				if okIdx && sorted {
					r.ok("C36.R3", key, m.Pos(w.In.Pos()), "next.BaseOffset-1 of findNextSegment(segments, i) stored into segments[i] after sort.Slice")
				} else {
					r.viol("C36.R3", key, m.Pos(w.In.Pos()), fmt.Sprintf("same-index=%v sorted-before=%v: the upper bound would come from an unrelated segment", okIdx, sorted))
				}
			} else {
				r.viol("C36.R3", key, m.Pos(w.In.Pos()), why+": only the next segment's base offset minus one is a sound upper bound")
			}
		case fnn == "enrich":
			g := Guard{cl(atomFn("MaxOffset == nil", func(l Lit) bool {
				_, f, _, ok := fieldOf(l.X)
				return l.Op == token.EQL && isNilConst(l.Y) && ok && f == "MaxOffset"
			}))}
			guardVerdict(m, r, "C36.R3", key+" only when still unknown", w.Fn, w.In, g)
		case fnn == "manifestEntriesToSegments":
			// the externally produced manifest states the segment's own statistics
			if _, f, _, ok := fieldOf(w.Val); ok && f == "MaxOffset" && strings.HasSuffix(typeOfBase(w.Val), "manifestEntry") {
				r.ok("C36.R3", key, m.Pos(w.In.Pos()), "copied from the manifest entry's own max_offset")
			} else {
				r.viol("C36.R3", key, m.Pos(w.In.Pos()), "value is "+describe(w.Val)+" (type "+typeOfBase(w.Val)+"), not the manifest entry's max_offset")
			}
		case strings.HasPrefix(strings.ToLower(fnn), "clone") || strings.HasPrefix(strings.ToLower(fnn), "copy"):
			r.ok("C36.R3", key, m.Pos(w.In.Pos()), "copy helper")
		default:
			r.viol("C36.R3", key, m.Pos(w.In.Pos()), "MaxOffset is assigned outside the confirmed writers (listing, time-index enrich, clone)")
		}
	}
	if len(allowedWriters) == 0 {
		r.unresolved("C36.R3", "writers of SegmentRef.MaxOffset", "none found")
	}
	if fnx := needFn(m, r, "C36.R3", pkgSQLDiscovery, "findNextSegment"); fnx != nil {
		// returns non-nil only after topic and partition equality
		okN := true
		for _, b := range fnx.Blocks {
			ret, ok := b.Instrs[len(b.Instrs)-1].(*ssa.Return)
			if !ok || isNilConst(ret.Results[0]) {
				continue
			}
			for _, f := range []string{"Topic", "Partition"} {
				ff := f
				res := checkGuarded(m, fnx, ret, Guard{cl(atomFn(ff+" equal", func(l Lit) bool {
					if l.Op != token.EQL {
						return false
					}
					_, f1, _, ok1 := fieldOf(l.X)
					_, f2, _, ok2 := fieldOf(l.Y)
					return ok1 && ok2 && f1 == ff && f2 == ff
				}))})
				if !res.OK {
					okN = false
				}
			}
			// the returned element is index+1
			okI := false
			backSlice(ret.Results[0], false, func(v ssa.Value) {
				if ia, ok := v.(*ssa.IndexAddr); ok {
					terms, k := flattenSum(ia.Index)
					if len(terms) == 1 && k == 1 && strip(terms[0]) == ssa.Value(fnx.Params[1]) {
						okI = true
					}
				}
			})
			if v, ok := ret.Results[0].(*ssa.IndexAddr); ok {
				terms, k := flattenSum(v.Index)
				if len(terms) == 1 && k == 1 && strip(terms[0]) == ssa.Value(fnx.Params[1]) {
					okI = true
				}
			}
			if !okI {
				okN = false
			}
		}
		if okN {
			r.ok("C36.R3", "findNextSegment returns the element at index+1 only for the same topic and partition", m.Pos(fnx.Pos()), "")
		} else {
			r.viol("C36.R3", "findNextSegment returns the element at index+1 only for the same topic and partition", m.Pos(fnx.Pos()), "a segment of another partition (or not the immediate successor) can be returned")
		}
	}
}

func typeOfBase(v ssa.Value) string {
	t, _, _, ok := fieldOf(v)
	if ok {
		return t
	}
	return ""
}

// checkSegmentStats: scanSegment returns (minTS, maxTS, minOffset, maxOffset, ok). Each is the running
// minimum / maximum of its field over all records: a loop-carried value that starts at an element of
// the slice and is replaced by the current element's field only on the edge where that field compared
// smaller (larger). Taking the first / last record instead is right only for monotone data.
func checkSegmentStats(m *Module, r *Report) {
	fn := needFn(m, r, "C36.R5", sqlModPath+"/internal/discovery", "(*TimeIndexBuilder).scanSegment")
	if fn == nil {
		return
	}
	spec := []struct {
		field string
		isMin bool
		name  string
	}{{"Timestamp", true, "minimum timestamp"}, {"Timestamp", false, "maximum timestamp"}, {"Offset", true, "minimum offset"}, {"Offset", false, "maximum offset"}}
	var ret *ssa.Return
	for _, b := range fn.Blocks {
		if x, ok := b.Instrs[len(b.Instrs)-1].(*ssa.Return); ok && len(x.Results) == 5 {
			if c, isC := x.Results[4].(*ssa.Const); isC && c.Value != nil && c.Value.String() == "true" {
				ret = x
			}
		}
	}
	if ret == nil {
		r.unresolved("C36.R5", "scanSegment: success return", "not found")
		return
	}
	fieldLoad := func(v ssa.Value, field string) (*ssa.UnOp, bool) {
		u, ok := strip(v).(*ssa.UnOp)
		if !ok || u.Op != token.MUL {
			return nil, false
		}
		fa, ok := u.X.(*ssa.FieldAddr)
		if !ok {
			return nil, false
		}
		_, f, _, ok := fieldAddrInfo(fa)
		return u, ok && f == field
	}
	for i, sp := range spec {
		key := "scanSegment result #" + fmt.Sprint(i) + " is the running " + sp.name + " over all records"
		P, ok := strip(ret.Results[i]).(*ssa.Phi)
		if !ok {
			r.viol("C36.R5", key, m.Pos(ret.Pos()), "the value is "+describe(ret.Results[i])+", not a loop-carried extreme: the first / last record bounds the range only when the field is monotone within the segment")
			continue
		}
		hdr := P.Block()
		why := ""
		nUpd := 0
		var walk func(v ssa.Value, pred *ssa.BasicBlock, si int, depth int)
		walk = func(v ssa.Value, pred *ssa.BasicBlock, si int, depth int) {
			if why != "" || depth > 6 {
				return
			}
			v = strip(v)
			if v == ssa.Value(P) {
				return
			}
			if ph, ok := v.(*ssa.Phi); ok && ph.Block() != hdr {
				for j, e := range ph.Edges {
					p := ph.Block().Preds[j]
					idx := 0
					for k, sb := range p.Succs {
						if sb == ph.Block() {
							idx = k
						}
					}
					walk(e, p, idx, depth+1)
				}
				return
			}
			// P = min(P, elem.F) is the same update in the builtin spelling
			if args, isMin, ok := minMaxCall(v); ok && len(args) == 2 {
				a, b := args[0], args[1]
				if strip(b) == ssa.Value(P) {
					a, b = b, a
				}
				if _, isF := fieldLoad(b, sp.field); strip(a) == ssa.Value(P) && isF {
					if isMin != sp.isMin {
						why = "updated with " + describe(v) + ", the opposite extreme"
						return
					}
					if hdr.Dominates(pred) {
						nUpd++
					}
					return
				}
			}
			leaf, isF := fieldLoad(v, sp.field)
			if !isF {
				why = "updated with " + describe(v) + ", which is not a record's " + sp.field
				return
			}
			if !hdr.Dominates(pred) {
				return // the initial value: some record's field
			}
			nUpd++
			g := Guard{cl(atomFn("elem."+sp.field+" compared with the running value", func(l Lit) bool {
				x, y, op := l.X, l.Y, l.Op
				if strip(x) == ssa.Value(P) {
					x, y, op = y, x, swapOp(op)
				}
				if strip(y) != ssa.Value(P) {
					return false
				}
				if !(strip(x) == ssa.Value(leaf) || sameFieldLoad(x, leaf)) {
					return false
				}
				if sp.isMin {
					return op == token.LSS || op == token.LEQ
				}
				return op == token.GTR || op == token.GEQ
			}))}
			if res := edgeGuarded(m, fn, pred, si, g); !res.OK {
				why = "the running value is replaced on an edge that did not compare the record's " + sp.field + " with it in the right direction: " + res.String()
			}
		}
		for j, e := range P.Edges {
			p := hdr.Preds[j]
			idx := 0
			for k, sb := range p.Succs {
				if sb == hdr {
					idx = k
				}
			}
			walk(e, p, idx, 0)
		}
		if why == "" && nUpd == 0 {
			why = "the value is never updated inside the loop"
		}
		if why == "" {
			r.ok("C36.R5", key, m.Pos(P.Pos()), fmt.Sprintf("%d guarded update edge(s)", nUpd))
		} else {
			r.viol("C36.R5", key, m.Pos(ret.Pos()), why)
		}
	}
}
