package main

import (
	"fmt"
	"go/token"
	"go/types"
	"sort"
	"strings"

	"golang.org/x/tools/go/ssa"
)

func init() { register("C42", "other", checkC42) }

// nondeterministic inputs that must not shape a rendered object
var c42Forbidden = []string{
	"time.Now", "time.Since", "time.Until", "math/rand.", "math/rand/v2.", "crypto/rand.", "github.com/google/uuid.",
	"k8s.io/apimachinery/pkg/util/uuid.", "k8s.io/apimachinery/pkg/util/rand.", "os.Getpid", "os.Hostname", "(*math/rand.",
}

// reads of something other than the cluster resource and the operator's environment
var c42ForeignReads = []string{
	"sigs.k8s.io/controller-runtime/pkg/client.Reader).Get", "sigs.k8s.io/controller-runtime/pkg/client.Reader).List",
	"sigs.k8s.io/controller-runtime/pkg/client.Client).Get", "sigs.k8s.io/controller-runtime/pkg/client.Client).List",
	"os.ReadFile", "os.Open", "net/http.", "(*net/http.",
}

func checkC42(c *Ctx, r *Report) {
	r.Explanation = "Decides structural necessary conditions of 'reconciling again leaves every generated object unchanged and objects depend only on the cluster resource and the operator environment', for every controllerutil.CreateOrUpdate mutate function in pkg/operator and everything it reaches (static calls, closures, interface calls by CHA): (R1) no call to a clock, random source, uuid generator, pid/hostname, and no read of the API server, a file or the network — os.Getenv/LookupEnv is the allowed environment; (R2) a range over a map may only fill maps, or append to a slice that is sorted on every path before the function returns, or feed nothing order-sensitive (no string accumulation, no builder writes, no store outside the loop's own locals) — map order must not leak into a rendered list; (R4) no load from the object's own memory that is not dominated by this pass's store to the same or an enclosing location (identity fields Name/Namespace and the ensure-map idiom excepted) — a guard or value taken from what the previous pass left makes the second pass differ from the first; (R3) overwrite, not accumulate: no append whose base, and no `x = x + …` whose operand, is memory of the very object being mutated (judged by the points-to engine, through helper functions that receive the object), so a second pass cannot grow a list the first pass already filled. Level 'other': API-server defaulting and admission changes between passes are outside, as is a second reconcile observing server-added fields."
	r.NotCovered = "fields defaulted or mutated by the API server between passes; equality of semantically equal but differently ordered values produced by dependencies; conditional assignments that keep a stale value when a spec field is cleared (history dependence across spec changes, not repeated reconciliation of the same spec)"
	m, err := c.Mod("root")
	if err != nil {
		r.unresolved("C42.load", "root module", err.Error())
		return
	}
	r.rule("C42.R1", "per mutate function: no clock / random / uuid / API-server / file / network input is reachable", 13)
	r.rule("C42.R2", "per mutate function, and for the operator package as a whole: map iteration order does not leak into rendered lists", 14)
	r.rule("C42.R3", "per mutate function: the object's own lists and counters are overwritten, never extended", 13)
	r.rule("C42.R5", "per mutate function: nothing reachable stores into a package variable or into memory read out of one", 13)
	r.rule("C42.R4", "per mutate function: no decision or value is taken from the object's previous state", 13)

	type mut struct {
		name    string
		closure *ssa.Function
		obj     ssa.Value
		pos     token.Pos
		host    *ssa.Function
	}
	var muts []mut
	for _, fn := range m.FuncsInPkg(pkgOperator) {
		for _, f := range withAnon(fn) {
			for _, call := range callsIn(f) {
				if !strings.HasSuffix(calleeName(call.Common()), "controllerutil.CreateOrUpdate") {
					continue
				}
				args := call.Common().Args
				var cl *ssa.Function
				if mc, ok := strip(args[3]).(*ssa.MakeClosure); ok {
					cl, _ = mc.Fn.(*ssa.Function)
				} else if fv, ok := strip(args[3]).(*ssa.Function); ok {
					cl = fv
				}
				objT := strip(args[2]).Type().String()
				name := fmt.Sprintf("%s (%s)", f.Name(), objT[strings.LastIndex(objT, "/")+1:])
				if cl == nil {
					r.unresolved("C42.R1", "mutate function of "+name, "not a closure: "+describe(args[3]))
					continue
				}
				muts = append(muts, mut{name, cl, args[2], call.Pos(), f})
			}
		}
	}
	if len(muts) == 0 {
		r.unresolved("C42.R1", "CreateOrUpdate calls", "none found in pkg/operator")
		return
	}
	r.Extra["mutate_functions"] = len(muts)
	// R2 package-wide: values computed before the mutate function runs (resolved endpoints, derived
	// names, merged snapshots) are captured by it, so a map-order leak anywhere in the operator package
	// can reach a rendered object. Every range over a map in pkg/operator obeys the same loop rule.
	{
		var leaks []string
		nRanges := 0
		for _, fn0 := range m.FuncsInPkg(pkgOperator) {
			for _, f := range withAnon(fn0) {
				for _, b := range f.Blocks {
					for _, in := range b.Instrs {
						rg, ok := in.(*ssa.Range)
						if !ok {
							continue
						}
						if _, isMap := rg.X.Type().Underlying().(*types.Map); !isMap {
							continue
						}
						nRanges++
						if why := mapRangeLeak(m, f, rg); why != "" {
							leaks = append(leaks, fmt.Sprintf("%s in %s: %s", m.Pos(rg.Pos()), f.Name(), why))
						}
					}
				}
			}
		}
		sort.Strings(leaks)
		key := "no range over a map in pkg/operator lets iteration order reach a list or string"
		r.Extra["map_ranges_in_operator_package"] = nRanges
		if len(leaks) == 0 {
			r.ok("C42.R2", key, "", fmt.Sprintf("%d map ranges inspected", nRanges))
		} else {
			r.viol("C42.R2", key, "", strings.Join(leaks, "; "))
		}
	}
	for _, mu := range muts {
		ri := reachFrom(m, []*ssa.Function{mu.closure})
		for f := range ri {
			r.fn(f)
		}
		// ---- R1
		var bad []string
		nCalls := 0
		envReads := 0
		for f := range ri {
			for _, call := range callsIn(f) {
				nCalls++
				n := calleeName(call.Common())
				for _, p := range c42Forbidden {
					if strings.HasPrefix(n, p) {
						bad = append(bad, fmt.Sprintf("%s at %s (%s)", n, m.Pos(call.Pos()), chainTo(ri, f)))
					}
				}
				for _, p := range c42ForeignReads {
					if strings.Contains(n, p) {
						bad = append(bad, fmt.Sprintf("%s at %s (%s): the rendered object would depend on more than the cluster resource and the environment", n, m.Pos(call.Pos()), chainTo(ri, f)))
					}
				}
				if n == "os.Getenv" || n == "os.LookupEnv" {
					envReads++
				}
			}
		}
		// the function that builds the object's identity and captures values for the closure: clock /
		// random sources there would flow into the object through captured variables
		for f := range reachFrom(m, []*ssa.Function{mu.host}) {
			if _, dup := ri[f]; dup {
				continue
			}
			for _, call := range callsIn(f) {
				nCalls++
				n := calleeName(call.Common())
				for _, p := range c42Forbidden {
					if strings.HasPrefix(n, p) {
						bad = append(bad, fmt.Sprintf("%s at %s in %s, the function that prepares the mutate closure's inputs", n, m.Pos(call.Pos()), f.Name()))
					}
				}
			}
		}
		r.CallSites += nCalls
		sort.Strings(bad)
		key := "mutate of " + mu.name + ": deterministic inputs only"
		if len(bad) == 0 {
			r.ok("C42.R1", key, m.Pos(mu.pos), fmt.Sprintf("%d functions, %d call sites, %d environment reads", len(ri), nCalls, envReads))
		} else {
			r.viol("C42.R1", key, m.Pos(mu.pos), strings.Join(bad, "; "))
		}

		// ---- R2
		var leaks []string
		nRanges := 0
		for f := range ri {
			for _, b := range f.Blocks {
				for _, in := range b.Instrs {
					rg, ok := in.(*ssa.Range)
					if !ok {
						continue
					}
					if _, isMap := rg.X.Type().Underlying().(*types.Map); !isMap {
						continue
					}
					nRanges++
					if why := mapRangeLeak(m, f, rg); why != "" {
						leaks = append(leaks, fmt.Sprintf("%s in %s: %s", m.Pos(rg.Pos()), f.Name(), why))
					}
				}
			}
		}
		sort.Strings(leaks)
		key = "mutate of " + mu.name + ": no map-order leak"
		if len(leaks) == 0 {
			r.ok("C42.R2", key, m.Pos(mu.pos), fmt.Sprintf("%d map ranges inspected", nRanges))
		} else {
			r.viol("C42.R2", key, m.Pos(mu.pos), strings.Join(leaks, "; "))
		}

		// ---- R5: rendering keeps nothing between passes: no store into a package variable, or into
		// memory read out of one (a shared "template" slice written through is state that the next pass,
		// and the next object, inherit)
		{
			var hits []string
			nSt := 0
			for f := range ri {
				for _, b := range f.Blocks {
					for _, in := range b.Instrs {
						st, ok := in.(*ssa.Store)
						if !ok {
							continue
						}
						if _, isLocal := st.Addr.(*ssa.Alloc); isLocal {
							continue
						}
						nSt++
						var g *ssa.Global
						if gg, ok := st.Addr.(*ssa.Global); ok {
							g = gg
						}
						for _, root := range addrRoots(st.Addr) {
							if gg, ok := root.(*ssa.Global); ok {
								g = gg
							}
						}
						if g != nil && g.Pkg != nil && m.isLocalPkg(g.Pkg.Pkg) {
							hits = append(hits, fmt.Sprintf("%s in %s writes memory of package variable %s", m.Pos(st.Pos()), f.Name(), g.Name()))
						}
					}
				}
			}
			sort.Strings(hits)
			key = "mutate of " + mu.name + ": writes no package-level state"
			if len(hits) == 0 {
				r.ok("C42.R5", key, m.Pos(mu.pos), fmt.Sprintf("%d stores inspected", nSt))
			} else {
				r.viol("C42.R5", key, m.Pos(mu.pos), strings.Join(hits, "; ")+": the value survives into the next reconcile, so the second pass renders something else than the first")
			}
		}

		// ---- R3
		objAllocs := map[ssa.Value]bool{}
		for _, o := range origins(mu.obj) {
			objAllocs[strip(o)] = true
		}
		eng := newPtsEngine(m, nil)
		eng.mark = func(v ssa.Value) bool { return objAllocs[v] }
		var sites []refSite
		for f := range ri {
			for _, b := range f.Blocks {
				for _, in := range b.Instrs {
					switch x := in.(type) {
					case *ssa.Call:
						if bi, ok := x.Call.Value.(*ssa.Builtin); ok && bi.Name() == "append" {
							if c0, ok := x.Call.Args[0].(*ssa.Const); ok && c0.IsNil() {
								continue
							}
							// a list this very pass has already overwritten (a dominating store to the
							// same field) is this pass's own value, not what an earlier pass left behind
							if u, ok := x.Call.Args[0].(*ssa.UnOp); ok && u.Op == token.MUL {
								fresh := false
								for _, b2 := range f.Blocks {
									for _, in2 := range b2.Instrs {
										if st, ok := in2.(*ssa.Store); ok && sameAddr(st.Addr, u.X) && instrDominates(st, u) {
											if _, isApp := strip(st.Val).(*ssa.Call); !isApp || !dependsOnSameLoad(st.Val, st.Addr) {
												fresh = true
											}
										}
									}
								}
								if fresh {
									continue
								}
							}
							sites = append(sites, refSite{f, in, x.Call.Args[0], "append to a list"})
						}
					case *ssa.Store:
						bo, ok := x.Val.(*ssa.BinOp)
						if !ok || bo.Op != token.ADD {
							continue
						}
						for _, side := range []ssa.Value{bo.X, bo.Y} {
							if u, ok := side.(*ssa.UnOp); ok && u.Op == token.MUL && sameAddr(u.X, x.Addr) {
								sites = append(sites, refSite{f, in, x.Addr, "accumulating assignment (x = x + …)"})
							}
						}
					}
				}
			}
		}
		// ---- R4 no read of the object's own previous state: a load from the object's memory must be
		// dominated by a store of this pass to the same (or an enclosing) location; identity fields
		// (Name, Namespace) set before CreateOrUpdate are exempt
		var stale []string
		nLoads := 0
		for f := range ri {
			for _, b := range f.Blocks {
				for _, in := range b.Instrs {
					u, ok := in.(*ssa.UnOp)
					if !ok || u.Op != token.MUL {
						continue
					}
					if _, isFA := u.X.(*ssa.FieldAddr); !isFA {
						if _, isIA := u.X.(*ssa.IndexAddr); !isIA {
							continue
						}
					}
					marked := false
					for o := range eng.query(u.X) {
						if o.mark {
							marked = true
						}
					}
					if !marked {
						continue
					}
					if fa, ok := u.X.(*ssa.FieldAddr); ok {
						if _, fname, _, ok := fieldAddrInfo(fa); ok && (fname == "Name" || fname == "Namespace") {
							continue
						}
					}
					// the ensure-map idiom (nil test, then keyed writes) keeps foreign keys and is idempotent
					if _, isMap := u.Type().Underlying().(*types.Map); isMap && u.Referrers() != nil {
						only := true
						for _, ref := range *u.Referrers() {
							switch y := ref.(type) {
							case *ssa.BinOp:
								if !(y.Op == token.EQL || y.Op == token.NEQ) || !(isNilConst(y.X) || isNilConst(y.Y)) {
									only = false
								}
							case *ssa.MapUpdate:
								if y.Map != ssa.Value(u) {
									only = false
								}
							case *ssa.DebugRef:
							default:
								only = false
							}
						}
						if only {
							continue
						}
					}
					nLoads++
					covered := false
					for _, b2 := range f.Blocks {
						for _, in2 := range b2.Instrs {
							if st, ok := in2.(*ssa.Store); ok && addrCovers(st.Addr, u.X) && instrDominates(st, u) && !dependsOnSameLoad(st.Val, st.Addr) {
								covered = true
							}
						}
					}
					if !covered {
						stale = append(stale, fmt.Sprintf("%s in %s: reads %s of the object before this pass has assigned it — the value is whatever the previous pass (or the API server) left there", m.Pos(u.Pos()), f.Name(), describe(u.X)))
					}
				}
			}
		}
		sort.Strings(stale)
		key = "mutate of " + mu.name + ": does not read the object's previous state"
		if len(stale) == 0 {
			r.ok("C42.R4", key, m.Pos(mu.pos), fmt.Sprintf("%d reads of object memory, each after this pass's own assignment", nLoads))
		} else {
			r.viol("C42.R4", key, m.Pos(mu.pos), strings.Join(stale, "; "))
		}

		// the closure's host function is where the object lives; helper obligations are judged over
		// the reachable set plus the closure itself
		reports, _ := judgeRefSites(m, eng, ri, sites, func(v ssa.Value) string { return "memory of the object being mutated" }, "extends")
		key = "mutate of " + mu.name + ": overwrite, not accumulate"
		if len(reports) == 0 {
			r.ok("C42.R3", key, m.Pos(mu.pos), fmt.Sprintf("%d append / accumulate sites judged", len(sites)))
		} else {
			r.viol("C42.R3", key, m.Pos(mu.pos), strings.Join(reports, "; "))
		}
	}
}

// sameAddr: two address expressions denote the same field / element of the same base.
func sameAddr(a, b ssa.Value) bool {
	if a == b {
		return true
	}
	switch x := a.(type) {
	case *ssa.FieldAddr:
		y, ok := b.(*ssa.FieldAddr)
		return ok && x.Field == y.Field && sameAddr(x.X, y.X)
	case *ssa.IndexAddr:
		y, ok := b.(*ssa.IndexAddr)
		return ok && x.Index == y.Index && sameAddr(x.X, y.X)
	case *ssa.UnOp:
		y, ok := b.(*ssa.UnOp)
		return ok && x.Op == y.Op && sameAddr(x.X, y.X)
	}
	return false
}

// mapRangeLeak: "" when iteration order of the ranged map cannot show in what the function produces.
func mapRangeLeak(m *Module, f *ssa.Function, rg *ssa.Range) string {
	// loop blocks: the header is the block of the Next instruction; body = blocks dominated by the
	// header's true successor that can reach the header
	var next *ssa.Next
	for _, ref := range *rg.Referrers() {
		if n, ok := ref.(*ssa.Next); ok {
			next = n
		}
	}
	if next == nil {
		return ""
	}
	header := next.Block()
	inLoop := func(b *ssa.BasicBlock) bool { return b != header && blockInLoop(header, b) }
	for _, b := range f.Blocks {
		if !inLoop(b) {
			continue
		}
		for _, in := range b.Instrs {
			switch x := in.(type) {
			case *ssa.MapUpdate:
				// filling a map is order-insensitive
			case *ssa.Store:
				// stores into loop-local temporaries (varargs arrays, composite literals) are fine
				base, _ := baseOf(x.Addr)
				if al, ok := base.(*ssa.Alloc); ok && inLoop(al.Block()) {
					continue
				}
				if al, ok := base.(*ssa.Alloc); ok && !al.Heap {
					// a local outside the loop that is overwritten each round: last-writer-wins depends on order
					return "assigns " + describe(x.Addr) + " inside the loop: the last iteration wins"
				}
				return "stores to " + describe(x.Addr) + " inside the loop"
			case *ssa.Call:
				n := calleeName(&x.Call)
				switch {
				case n == "builtin.append":
					// must be sorted before the function returns
					if !sortedBeforeReturn(f, header, x) {
						return "appends to a slice that is not sorted on every path to the return"
					}
				case strings.HasPrefix(n, "(*strings.Builder).Write"), strings.HasPrefix(n, "(*bytes.Buffer).Write"), strings.HasPrefix(n, "fmt.Fprint"):
					return "writes to a builder inside the loop (" + n + ")"
				}
			case *ssa.BinOp:
				if x.Op == token.ADD {
					if bt, ok := x.Type().Underlying().(*types.Basic); ok && bt.Kind() == types.String {
						// string accumulation through a loop-carried value
						for _, side := range []ssa.Value{x.X, x.Y} {
							if ph, ok := side.(*ssa.Phi); ok && ph.Block() == header {
								return "concatenates strings across iterations"
							}
						}
					}
				}
			}
		}
	}
	return ""
}

// sortedBeforeReturn: every path from the loop exit to a return passes a sort call whose argument
// derives from the appended slice.
func sortedBeforeReturn(f *ssa.Function, header *ssa.BasicBlock, app *ssa.Call) bool {
	isSort := func(t ssa.Instruction) bool {
		c, ok := t.(*ssa.Call)
		if !ok {
			return false
		}
		n := calleeName(&c.Call)
		if !(strings.HasPrefix(n, "sort.") || strings.HasPrefix(n, "slices.Sort")) || len(c.Call.Args) == 0 {
			return false
		}
		hit := false
		backSlice(c.Call.Args[0], false, func(v ssa.Value) {
			if v == ssa.Value(app) {
				hit = true
			}
		})
		return hit
	}
	// loop exit: the header's successor that is not in the loop
	for _, s := range header.Succs {
		if blockInLoop(header, s) && s != header {
			continue
		}
		found, _, _ := search(SearchSpec{Start: Loc{s, 0}, ExitIsTarget: true, Blocker: isSort})
		if found {
			return false
		}
	}
	return true
}

// dependsOnSameLoad: v is computed from a load of addr (x = append(x, …), x = x + …).
func dependsOnSameLoad(v, addr ssa.Value) bool {
	hit := false
	backSlice(v, false, func(w ssa.Value) {
		if u, ok := w.(*ssa.UnOp); ok && u.Op == token.MUL && sameAddr(u.X, addr) {
			hit = true
		}
	})
	return hit
}

// addrCovers: a store to `st` (re)defines the location `ld` — same location or an enclosing struct.
func addrCovers(st, ld ssa.Value) bool {
	for cur := ld; cur != nil; {
		if sameAddr(st, cur) {
			return true
		}
		switch x := cur.(type) {
		case *ssa.FieldAddr:
			cur = x.X
		case *ssa.IndexAddr:
			cur = x.X
		default:
			return false
		}
	}
	return false
}


// addrRoots: where the memory an address expression denotes comes from — the address chain is
// followed through field / element selection, slicing, conversions, φ and pointer loads down to a
// local, a parameter, a call result or a package variable (what is *stored* in the memory is not
// followed).
func addrRoots(v ssa.Value) []ssa.Value {
	seen := map[ssa.Value]bool{}
	var out []ssa.Value
	var walk func(v ssa.Value, depth int)
	walk = func(v ssa.Value, depth int) {
		if v == nil || seen[v] || depth > 12 {
			return
		}
		seen[v] = true
		switch x := v.(type) {
		case *ssa.FieldAddr:
			walk(x.X, depth+1)
		case *ssa.IndexAddr:
			walk(x.X, depth+1)
		case *ssa.Slice:
			walk(x.X, depth+1)
		case *ssa.Convert:
			walk(x.X, depth+1)
		case *ssa.ChangeType:
			walk(x.X, depth+1)
		case *ssa.Phi:
			for _, e := range x.Edges {
				walk(e, depth+1)
			}
		case *ssa.UnOp:
			if x.Op == token.MUL {
				if a, ok := x.X.(*ssa.Alloc); ok {
					// a pointer / slice kept in a local: where it was assigned from
					for _, sv := range storesTo(a) {
						walk(sv, depth+1)
					}
					return
				}
				walk(x.X, depth+1)
				return
			}
			out = append(out, v)
		default:
			out = append(out, v)
		}
	}
	walk(v, 0)
	return out
}
