package main

import (
	"fmt"
	"go/types"
	"strings"

	"golang.org/x/tools/go/ssa"
)

// checkBufferFresh: every slice returned by a method of *storage.WriteBuffer is a fresh allocation.
// The buffer keeps appending into b.batches' backing array after Drain (b.batches = b.batches[:0]),
// so a returned alias would be overwritten by later appends while PartitionLog still holds it as
// flushingBatches / hands it to BuildSegment.
func checkBufferFresh(m *Module, r *Report, rule string) {
	n := 0
	for _, fn := range m.FuncsInPkg(pkgStorage) {
		if fn.Parent() != nil || fn.Signature.Recv() == nil || !strings.HasSuffix(fn.Signature.Recv().Type().String(), "storage.WriteBuffer") {
			continue
		}
		res := fn.Signature.Results()
		for i := 0; i < res.Len(); i++ {
			if _, ok := res.At(i).Type().Underlying().(*types.Slice); !ok {
				continue
			}
			n++
			r.fn(fn)
			bad := ""
			for _, b := range fn.Blocks {
				for _, in := range b.Instrs {
					ret, ok := in.(*ssa.Return)
					if !ok || len(ret.Results) <= i {
						continue
					}
					if okf, why := freshBytesR(m, ret.Results[i], map[ssa.Value]bool{}, 0, infeasibleEdges(ret)); !okf {
						bad = fmt.Sprintf("return at %s yields %s, which aliases buffer-owned storage", m.Pos(ret.Pos()), why)
					}
				}
			}
			key := "slice returned by WriteBuffer." + fn.Name() + " is fresh"
			if bad == "" {
				r.ok(rule, key, m.Pos(fn.Pos()), "")
			} else {
				r.viol(rule, key, m.Pos(fn.Pos()), bad)
			}
		}
	}
	if n == 0 {
		r.unresolved(rule, "slice-returning methods of WriteBuffer", "none found")
	}
}
