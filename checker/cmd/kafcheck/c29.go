package main

import (
	"encoding/json"
	"fmt"
	"go/token"
	"go/types"
	"os"
	"os/exec"
	"path/filepath"
	"reflect"
	"sort"
	"strings"

	"golang.org/x/tools/go/ssa"
)

func init() { register("C29", "other", checkC29) }

const pkgLFS = rootModPath + "/pkg/lfs"

type detectorSpec struct {
	Found        bool     `json:"found"`
	MinLen       int64    `json:"min_len"`
	FirstByte    int64    `json:"first_byte"`
	Window       int64    `json:"window"`
	Marker       string   `json:"marker"`
	Domain       string   `json:"domain"`
	Unrecognised []string `json:"unrecognised"`
}

type sdkSpec struct {
	Detector detectorSpec `json:"detector"`
	Fields   []string     `json:"fields"`
	Required []string     `json:"required"`
	Optional []string     `json:"optional_default_none"`
}

// goDetectorSpec extracts the detector spec from the SSA of pkg/lfs.IsLfsEnvelope: rejecting
// branches (`return false` under a comparison on len(value) or value[0]), the window constant that
// bounds the searched prefix, and the marker handed to bytes.Contains.
func goDetectorSpec(fn *ssa.Function) detectorSpec {
	d := detectorSpec{Found: true, FirstByte: -1, Window: -1, Domain: "unknown"}
	val := fn.Params[0]
	isLenVal := func(v ssa.Value) bool {
		c, ok := strip(v).(*ssa.Call)
		return ok && calleeName(&c.Call) == "builtin.len" && strip(c.Call.Args[0]) == ssa.Value(val)
	}
	for _, b := range fn.Blocks {
		ifi, ok := b.Instrs[len(b.Instrs)-1].(*ssa.If)
		if !ok {
			continue
		}
		// which edge rejects?
		for si, truth := range []bool{true, false} {
			tgt := followJumps(b.Succs[si])
			if v, ok := constBoolReturn(tgt); !ok || v {
				continue
			}
			l := litOf(ifi.Cond, truth)
			x, y, op := l.X, l.Y, l.Op
			if _, isC := constInt(x); isC {
				x, y, op = y, x, swapOp(op)
			}
			k, isC := constInt(y)
			switch {
			case isC && isLenVal(x):
				switch op {
				case token.LSS:
					if k > d.MinLen {
						d.MinLen = k
					}
				case token.LEQ:
					if k+1 > d.MinLen {
						d.MinLen = k + 1
					}
				case token.EQL:
					if k == 0 && d.MinLen < 1 {
						d.MinLen = 1
					} else if k != 0 {
						d.Unrecognised = append(d.Unrecognised, l.String())
					}
				default:
					d.Unrecognised = append(d.Unrecognised, l.String())
				}
			case isC && op == token.NEQ:
				// value[0] != K
				if u, ok := strip(x).(*ssa.UnOp); ok && u.Op == token.MUL {
					if ia, ok := u.X.(*ssa.IndexAddr); ok && strip(ia.X) == ssa.Value(val) {
						if i, ok := constInt(ia.Index); ok && i == 0 {
							d.FirstByte = k
							continue
						}
					}
				}
				d.Unrecognised = append(d.Unrecognised, l.String())
			default:
				d.Unrecognised = append(d.Unrecognised, l.String())
			}
		}
	}
	for _, call := range callsIn(fn) {
		n := calleeName(call.Common())
		switch n {
		case "bytes.Contains":
			d.Domain = "bytes"
			if cv, ok := call.Common().Args[1].(*ssa.Convert); ok {
				if s, ok := constString(cv.X); ok {
					d.Marker = s
				}
			}
			if sl, ok := strip(call.Common().Args[0]).(*ssa.Slice); ok && strip(sl.X) == ssa.Value(val) && sl.Low == nil && sl.High != nil {
				// the bound is min(K, len(value)) in either spelling: a phi of the two, or builtin min
				var bounds []ssa.Value
				for _, o := range origins(sl.High) {
					if args, isMin, ok := minMaxCall(o); ok && isMin {
						for _, a := range args {
							bounds = append(bounds, origins(a)...)
						}
					} else {
						bounds = append(bounds, o)
					}
				}
				for _, o := range bounds {
					if k, ok := constInt(o); ok {
						d.Window = k
					} else if !isLenVal(o) {
						d.Unrecognised = append(d.Unrecognised, "window bound "+describe(o))
					}
				}
			} else {
				d.Unrecognised = append(d.Unrecognised, "search domain "+describe(call.Common().Args[0]))
			}
		case "strings.Contains", "bytes.Index", "strings.Index":
			d.Domain = "text"
			d.Unrecognised = append(d.Unrecognised, "search through "+n)
		case "builtin.len", "builtin.min":
		default:
			d.Unrecognised = append(d.Unrecognised, "call "+n)
		}
	}
	// the final return is the search result
	for _, b := range fn.Blocks {
		if ret, ok := b.Instrs[len(b.Instrs)-1].(*ssa.Return); ok {
			if _, isC := strip(ret.Results[0]).(*ssa.Const); isC {
				continue
			}
			if c := callOrigin(ret.Results[0]); c == nil || calleeName(&c.Call) != "bytes.Contains" {
				d.Unrecognised = append(d.Unrecognised, "return "+describe(ret.Results[0]))
			}
		}
	}
	return d
}

func jsonTags(n *types.Named) (tags []string, omitempty map[string]bool, fieldOfTag map[string]string) {
	omitempty = map[string]bool{}
	fieldOfTag = map[string]string{}
	st, ok := n.Underlying().(*types.Struct)
	if !ok {
		return
	}
	for i := 0; i < st.NumFields(); i++ {
		tag := reflect.StructTag(st.Tag(i)).Get("json")
		name := strings.Split(tag, ",")[0]
		if name == "" || name == "-" {
			continue
		}
		tags = append(tags, name)
		fieldOfTag[name] = st.Field(i).Name()
		if strings.Contains(tag, ",omitempty") {
			omitempty[name] = true
		}
	}
	return
}

// requiredByGo: the fields whose zero value makes fn return an error (Version==0 || Bucket=="" …).
func requiredByGo(fn *ssa.Function) []string {
	set := map[string]bool{}
	for _, b := range fn.Blocks {
		ifi, ok := b.Instrs[len(b.Instrs)-1].(*ssa.If)
		if !ok {
			continue
		}
		l := litOf(ifi.Cond, true)
		if l.Op != token.EQL {
			continue
		}
		x, y := l.X, l.Y
		if _, isC := strip(x).(*ssa.Const); isC {
			x, y = y, x
		}
		k, isC := strip(y).(*ssa.Const)
		if !isC {
			continue
		}
		zero := k.Value == nil || k.Value.ExactString() == "0" || k.Value.ExactString() == `""`
		if !zero {
			continue
		}
		if _, f, _, ok := fieldOf(x); ok {
			set[f] = true
		}
	}
	var out []string
	for f := range set {
		out = append(out, f)
	}
	sort.Strings(out)
	return out
}

func checkC29(c *Ctx, r *Report) {
	r.Explanation = "Decides table-agreement conditions necessary for 'envelopes round-trip and all three SDKs agree on what is an envelope': (T1) the detector spec {minimum length, first byte, window, marker, search domain} extracted from the Go detector (SSA of pkg/lfs.IsLfsEnvelope), the Python detector (ast of lfs_sdk/envelope.py) and the JavaScript detector (tokenised js/src/envelope.ts) is identical, every rejecting condition of each detector is one the extractor understands, and the search is over bytes (a UTF-8 decode that replaces invalid sequences keeps the ASCII marker intact and is equivalent; a decode that drops bytes is not); (T2) the field tagged with the marker key is the first field of lfs.Envelope and EncodeEnvelope returns json.Marshal of the envelope itself, so the marker sits at offset 1, inside the window; (T3) the required-field sets of EncodeEnvelope, DecodeEnvelope and the two SDK decoders are equal; (T4) the JSON keys the Go struct can emit are exactly the fields the Python dataclass (which rejects unknown keys) and the TypeScript interface declare, with the same optional set. T1 exposed two disagreeing inputs repaired by 2f3ca91. JSON value round-trip (escaping, number ranges) belongs to encoding/json and is not decided."
	r.NotCovered = "value-level JSON round trip (escaping of unicode keys, 64-bit sizes in JavaScript numbers); the Java and browser SDKs"
	m, err := c.Mod("root")
	if err != nil {
		r.unresolved("C29.load", "root module", err.Error())
		return
	}
	r.rule("C29.T1", "detector specs of Go, Python and JavaScript agree and contain no unrecognised condition", 5)
	r.rule("C29.T2", "the marker key is the first JSON field of lfs.Envelope and EncodeEnvelope marshals the envelope directly", 2)
	r.rule("C29.T3", "required-field sets agree across EncodeEnvelope, DecodeEnvelope, decode_envelope and decodeEnvelope", 3)
	r.rule("C29.T4", "JSON key sets and optional sets agree across the Go struct, the Python dataclass and the TypeScript interface", 2)

	// ---- SDK specs
	var sdk map[string]sdkSpec
	scan := filepath.Join(verifRoot, "tools", "sdkscan.py")
	args := []string{scan, c.Repo}
	var tmpFiles []string
	for abs, content := range c.Overlay {
		if !strings.HasSuffix(abs, ".py") && !strings.HasSuffix(abs, ".ts") {
			continue
		}
		rel, err := filepath.Rel(c.Repo, abs)
		if err != nil {
			continue
		}
		tf, err := os.CreateTemp("", "kafcheck-sdk-*")
		if err != nil {
			continue
		}
		tf.Write(content)
		tf.Close()
		tmpFiles = append(tmpFiles, tf.Name())
		args = append(args, rel+"="+tf.Name())
	}
	outb, err := exec.Command("python3", args...).Output()
	for _, f := range tmpFiles {
		os.Remove(f)
	}
	if err != nil {
		r.unresolved("C29.T1", "tools/sdkscan.py", "extractor failed: "+err.Error())
		return
	}
	if err := json.Unmarshal(outb, &sdk); err != nil {
		r.unresolved("C29.T1", "tools/sdkscan.py", "bad extractor output: "+err.Error())
		return
	}
	// overlay support for the SDK files (sensitivity controls edit them in memory): not available for
	// non-Go files, so SDK controls are expressed on the Go side only.

	fn := needFn(m, r, "C29.T1", pkgLFS, "IsLfsEnvelope")
	if fn == nil {
		return
	}
	gd := goDetectorSpec(fn)
	specs := map[string]detectorSpec{"go": gd, "python": sdk["python"].Detector, "javascript": sdk["ts"].Detector}
	r.Extra["detector_specs"] = specs
	for _, lang := range []string{"go", "python", "javascript"} {
		d := specs[lang]
		key := lang + " detector is fully understood"
		switch {
		case !d.Found:
			r.unresolved("C29.T1", key, "detector function not found")
		case len(d.Unrecognised) > 0:
			r.undecided("C29.T1", key, "", "conditions outside the spec vocabulary: "+strings.Join(d.Unrecognised, " | "))
		case d.FirstByte < 0 || d.Window < 0 || d.Marker == "":
			r.undecided("C29.T1", key, "", fmt.Sprintf("incomplete spec %+v", d))
		default:
			r.ok("C29.T1", key, "", fmt.Sprintf("min_len=%d first_byte=%d window=%d marker=%s domain=%s", d.MinLen, d.FirstByte, d.Window, d.Marker, d.Domain))
		}
		keyD := lang + " detector searches bytes"
		switch d.Domain {
		case "bytes", "utf8-replace":
			r.ok("C29.T1", keyD, "", d.Domain)
		default:
			r.viol("C29.T1", keyD, "", "search domain is "+d.Domain+": a decode that drops or rejects bytes changes which values contain the marker")
		}
	}
	norm := func(d detectorSpec) string {
		// the marker itself needs len(marker)+1 bytes: smaller minimum lengths are equivalent
		eff := d.MinLen
		if floor := int64(len(d.Marker)) + 1; eff < floor {
			eff = floor
		}
		return fmt.Sprintf("min_len=%d first_byte=%d window=%d marker=%s", eff, d.FirstByte, d.Window, d.Marker)
	}
	for _, lang := range []string{"python", "javascript"} {
		key := "go and " + lang + " detectors accept the same byte strings"
		if norm(specs["go"]) == norm(specs[lang]) {
			r.ok("C29.T1", key, m.Pos(fn.Pos()), norm(specs["go"]))
		} else {
			r.viol("C29.T1", key, m.Pos(fn.Pos()), "go: "+norm(specs["go"])+" — "+lang+": "+norm(specs[lang])+": a value between the two specs is an envelope for one library and plain data for the other")
		}
	}

	// ---- T2
	env := m.Named(pkgLFS, "Envelope")
	if env == nil {
		r.unresolved("C29.T2", "lfs.Envelope", "type not found")
		return
	}
	tags, omit, fieldOfTag := jsonTags(env)
	marker := strings.Trim(gd.Marker, `"`)
	if len(tags) > 0 && tags[0] == marker && !omit[marker] {
		off := int64(1)
		if off+int64(len(gd.Marker)) <= gd.Window {
			r.ok("C29.T2", "marker key is the first, always-emitted field of lfs.Envelope", m.Pos(env.Obj().Pos()), fmt.Sprintf("json.Marshal emits %s at offset 1, window %d", gd.Marker, gd.Window))
		} else {
			r.viol("C29.T2", "marker key is the first, always-emitted field of lfs.Envelope", m.Pos(env.Obj().Pos()), "marker does not fit in the window")
		}
	} else {
		r.viol("C29.T2", "marker key is the first, always-emitted field of lfs.Envelope", m.Pos(env.Obj().Pos()),
			fmt.Sprintf("field order is %v: fields emitted before %q (bucket, key … of arbitrary length) can push the marker out of the %d-byte window, so produced envelopes are not recognised", tags, marker, gd.Window))
	}
	if ee := needFn(m, r, "C29.T2", pkgLFS, "EncodeEnvelope"); ee != nil {
		okM := false
		for _, call := range findCalls(ee, "encoding/json.Marshal") {
			if mi, ok := call.Common().Args[0].(*ssa.MakeInterface); ok && types.Identical(mi.X.Type(), env) {
				okM = true
			}
		}
		// … on every path: each byte slice EncodeEnvelope can return is that call's result (a second,
		// hand-written encoder next to it has its own idea of escaping and field order)
		why := ""
		for _, b := range ee.Blocks {
			ret, ok := b.Instrs[len(b.Instrs)-1].(*ssa.Return)
			if !ok || len(ret.Results) == 0 {
				continue
			}
			for _, o := range origins(ret.Results[0]) {
				if isNilConst(o) {
					continue
				}
				if c := callOrigin(o); c == nil || calleeName(&c.Call) != "encoding/json.Marshal" {
					why = "the bytes returned at " + m.Pos(ret.Pos()) + " are " + describe(o) + ", not json.Marshal's result: a second encoder can disagree with the decoders on escaping and field order"
				}
			}
		}
		if okM && why != "" {
			r.viol("C29.T2", "EncodeEnvelope marshals the Envelope value itself", m.Pos(ee.Pos()), why)
		} else if okM {
			r.ok("C29.T2", "EncodeEnvelope marshals the Envelope value itself", m.Pos(ee.Pos()), "")
		} else {
			r.viol("C29.T2", "EncodeEnvelope marshals the Envelope value itself", m.Pos(ee.Pos()), "the encoded value is not json.Marshal(Envelope): a wrapper or map changes key order")
		}
	}

	// ---- T3
	toTags := func(fields []string) []string {
		var out []string
		for _, f := range fields {
			for tag, fld := range fieldOfTag {
				if fld == f {
					out = append(out, tag)
				}
			}
		}
		sort.Strings(out)
		return out
	}
	var goReq []string
	for _, name := range []string{"DecodeEnvelope", "EncodeEnvelope"} {
		f := needFn(m, r, "C29.T3", pkgLFS, name)
		if f == nil {
			continue
		}
		req := toTags(requiredByGo(f))
		if name == "DecodeEnvelope" {
			goReq = req
		} else {
			if strings.Join(req, ",") == strings.Join(goReq, ",") {
				r.ok("C29.T3", "EncodeEnvelope and DecodeEnvelope require the same fields", m.Pos(f.Pos()), strings.Join(req, ","))
			} else {
				r.viol("C29.T3", "EncodeEnvelope and DecodeEnvelope require the same fields", m.Pos(f.Pos()), fmt.Sprintf("encode requires %v, decode requires %v: an envelope the proxy emits could be rejected on read", req, goReq))
			}
		}
	}
	for lang, sp := range map[string]sdkSpec{"python": sdk["python"], "javascript": sdk["ts"]} {
		req := append([]string(nil), sp.Required...)
		sort.Strings(req)
		key := "go and " + lang + " decoders require the same fields"
		if strings.Join(req, ",") == strings.Join(goReq, ",") {
			r.ok("C29.T3", key, "", strings.Join(req, ","))
		} else {
			r.viol("C29.T3", key, "", fmt.Sprintf("go requires %v, %s requires %v", goReq, lang, req))
		}
	}

	// ---- T4
	goTags := append([]string(nil), tags...)
	sort.Strings(goTags)
	var goOpt []string
	for t := range omit {
		goOpt = append(goOpt, t)
	}
	sort.Strings(goOpt)
	for lang, sp := range map[string]sdkSpec{"python": sdk["python"], "javascript": sdk["ts"]} {
		f := append([]string(nil), sp.Fields...)
		sort.Strings(f)
		o := append([]string(nil), sp.Optional...)
		sort.Strings(o)
		key := "go and " + lang + " declare the same envelope keys and optional set"
		if strings.Join(f, ",") == strings.Join(goTags, ",") && strings.Join(o, ",") == strings.Join(goOpt, ",") {
			r.ok("C29.T4", key, "", strings.Join(f, ","))
		} else {
			r.viol("C29.T4", key, "", fmt.Sprintf("go keys %v (optional %v) vs %s keys %v (optional %v): a key only one side knows is dropped or rejected on decode", goTags, goOpt, lang, f, o))
		}
	}
}
