package main

import (
	"fmt"
	"go/token"
	"strings"

	"golang.org/x/tools/go/ssa"
)

func init() { register("C33", "other", checkC33) }

const (
	icebergMod = "github.com/KafScale/platform/addons/processors/iceberg-processor"
	skelMod    = "github.com/KafScale/platform/addons/processors/skeleton"
)

// innermostRangeHeader: the closest dominating rangeindex.loop block of an instruction.
func innermostRangeHeader(in ssa.Instruction) *ssa.BasicBlock {
	for d := in.Block(); d != nil; d = d.Idom() {
		if d.Comment == "rangeindex.loop" {
			return d
		}
	}
	return nil
}

func checkC33(c *Ctx, r *Report) {
	r.Explanation = "Decides structural necessary conditions of 'processors deliver every record at least once before checkpointing', for the Iceberg, SQL and skeleton processors: (R1) inside the loop over a partition's segments, the error branch of LoadOffset, Decode, LFS resolution and sink.Write never reaches the loop header again — a failed segment ends the cycle, so no later segment can be written and checkpointed past it; (R2) CommitOffset is reached only after sink.Write returned nil in the same iteration, and the committed offset is the Offset of the last element of the very slice that was written; (R3) every LoadOffset implementation answers 'nothing committed' with the constant -1 (never 0), matching filterRecords' strict record.Offset > committed comparison, so offset 0 is not dropped; (R4) the segment listers return an error of the footer check instead of treating the segment as absent; (R5) the threshold given to filterRecords is the Offset field of a per-iteration local whose only assignment is the result of LoadOffset, LoadOffset is asked about the Topic and Partition of the decoded segment (or of the lease both were compared with), and it cannot be skipped between the loop header and the filter — a checkpoint cached across segments or lease changes would filter one partition's records with another's offset. R1, R3 and R4 exposed the defects repaired by 083d87e, ea05310 and 3b76e55. Ordering of the listing itself and at-least-once across lease hand-over are not decided."
	r.NotCovered = "that ListCompleted returns a partition's segments in offset order; lease hand-over between processor instances; sink idempotence"
	r.rule("C33.R1", "a failed LoadOffset / Decode / LFS / sink.Write leaves the segment loop (no path back to the loop header)", 10)
	r.rule("C33.R2", "CommitOffset only after a successful Write of this iteration; committed offset = last written record's offset", 6)
	r.rule("C33.R3", "LoadOffset implementations return -1 when nothing is stored; filterRecords compares strictly", 7)
	r.rule("C33.R4", "listers return footer-check errors", 2)
	r.rule("C33.R5", "the filter threshold is the checkpoint loaded for this segment's topic/partition in this iteration", 1)
	r.rule("C33.R6", "in strict schema mode a validator error ends the cycle: the only way from a Validate error back into the record loop (the record is dropped, the segment is written and checkpointed without it) is the branch on which Mode() != ModeStrict", 1)
	r.Explanation += " (R6) in the Iceberg processor a schema-validator error leads back into the record loop (the record is dropped) only over the edge on which Mode() != ModeStrict."
	checkStrictValidation(c, r, "C33.R6")

	type proc struct {
		mod, path, label string
		lfs              bool
	}
	procs := []proc{
		{"iceberg", icebergMod, "iceberg", true},
		{"sql", sqlModPath, "sql", false},
		{"skeleton", skelMod, "skeleton", false},
	}
	for _, p := range procs {
		m, err := c.Mod(p.mod)
		if err != nil {
			r.unresolved("C33.load", p.mod+" module", err.Error())
			continue
		}
		pkgP := p.path + "/internal/processor"
		run := needFn(m, r, "C33.R1", pkgP, "(*Processor).Run")
		if run == nil {
			continue
		}
		load := findCalls(run, "~checkpoint.Store).LoadOffset")
		if len(load) != 1 {
			r.unresolved("C33.R1", p.label+" Run: LoadOffset call", fmt.Sprintf("found %d", len(load)))
			continue
		}
		header := innermostRangeHeader(load[0])
		if header == nil {
			r.unresolved("C33.R1", p.label+" Run: segment loop", "LoadOffset is not inside a range loop")
			continue
		}
		steps := []struct{ callee, what string }{
			{"~checkpoint.Store).LoadOffset", "LoadOffset"},
			{"~decoder.Decoder).Decode", "Decode"},
			{"~sink.Writer).Write", "sink.Write"},
		}
		if p.lfs {
			steps = append(steps, struct{ callee, what string }{"~processor.Processor).resolveLfsRecords", "resolveLfsRecords"})
		}
		var writeCall ssa.CallInstruction
		for _, st := range steps {
			calls := findCalls(run, st.callee)
			if len(calls) == 0 {
				r.unresolved("C33.R1", p.label+" Run: "+st.what+" call", "not found")
				continue
			}
			for _, call := range calls {
				if innermostRangeHeader(call) != header {
					continue
				}
				if st.what == "sink.Write" {
					writeCall = call
				}
				_, errB := errEdges(call)
				key := fmt.Sprintf("%s Run: a failed %s ends the partition's cycle", p.label, st.what)
				if errB == nil {
					r.viol("C33.R1", key, m.Pos(call.Pos()), "the error of "+st.what+" is not checked")
					continue
				}
				// reaching the header again within the same listing = "carry on with the next segment";
				// a new poll cycle (which re-lists and re-reads the checkpoint) is fine
				found, _, path := search(SearchSpec{Start: Loc{errB, 0}, Target: func(in ssa.Instruction) bool { return in.Block() == header },
					Blocker: func(in ssa.Instruction) bool { return isCallTo(in, "~discovery.Lister).ListCompleted") }})
				if found {
					r.viol("C33.R1", key, m.Pos(call.Pos()), "after the failure the loop goes on with the next segment, whose records are then written and checkpointed past the failed one: "+renderPath(m, path))
				} else {
					r.ok("C33.R1", key, m.Pos(call.Pos()), "")
				}
			}
		}
		// ---- R2
		commits := findCalls(run, "~checkpoint.Store).CommitOffset")
		if len(commits) == 0 || writeCall == nil {
			r.unresolved("C33.R2", p.label+" Run: CommitOffset / Write", "not found")
		}
		for _, cm := range commits {
			guardVerdict(m, r, "C33.R2", p.label+" Run: CommitOffset only after this iteration's Write succeeded", run, cm.(ssa.Instruction),
				Guard{cl(atomErrNil("~sink.Writer).Write")).re("~sink.Writer).Write", "~checkpoint.Store).LoadOffset")})
			if writeCall == nil {
				continue
			}
			written := writeCall.Common().Args[1]
			// committed Offset = (written[len(written)-1]).Offset
			var lit *ssa.Alloc
			backSlice(cm.Common().Args[1], false, func(v ssa.Value) {
				if a, ok := v.(*ssa.Alloc); ok && strings.HasSuffix(a.Type().String(), "checkpoint.OffsetState") {
					lit = a
				}
			})
			key := p.label + " Run: the committed offset is the last written record's offset"
			if lit == nil {
				r.undecided("C33.R2", key, m.Pos(cm.Pos()), "OffsetState is not a local literal")
				continue
			}
			fs := fieldStores(lit)
			okOff := false
			why := "Offset is not set exactly once"
			if len(fs["Offset"]) == 1 {
				v := fs["Offset"][0].Val
				why = "Offset is " + describe(v)
				if _, f, _, ok := fieldOf(v); ok && f == "Offset" {
					// the element it is read from: written[len(written)-1]
					backSlice(v, false, func(x ssa.Value) {
						ia, ok := x.(*ssa.IndexAddr)
						if !ok || !sameSliceValue(ia.X, written) {
							return
						}
						terms, k := flattenSum(ia.Index)
						if len(terms) == 1 && k == -1 {
							if lc, ok := strip(terms[0]).(*ssa.Call); ok && calleeName(&lc.Call) == "builtin.len" && sameSliceValue(lc.Call.Args[0], written) {
								okOff = true
							}
						}
					})
					if !okOff {
						why = "Offset is read from " + describe(v) + ", not from the last element of the slice handed to sink.Write"
					}
				}
			}
			if okOff {
				r.ok("C33.R2", key, m.Pos(cm.Pos()), "")
			} else {
				r.viol("C33.R2", key, m.Pos(cm.Pos()), why)
			}
		}
		// ---- R5 the filter threshold is the checkpoint loaded for this very segment, in this iteration
		for _, fc := range findCalls(run, pkgP+".filterRecords") {
			key := p.label + " Run: records are filtered against the checkpoint loaded for this segment in this iteration"
			thr := fc.Common().Args[1]
			why := ""
			// the threshold is the Offset field of a local that holds nothing but LoadOffset's result
			var holder *ssa.Alloc
			for _, o := range origins(thr) {
				u, ok := strip(o).(*ssa.UnOp)
				if !ok {
					if fl, ok2 := strip(o).(*ssa.Field); ok2 {
						if ex, ok3 := fl.X.(*ssa.Extract); ok3 && ex.Tuple == ssa.Value(load[0].(*ssa.Call)) {
							continue
						}
					}
					why = "threshold " + describe(o) + " is not read from the checkpoint state"
					break
				}
				fa, ok := u.X.(*ssa.FieldAddr)
				if !ok {
					why = "threshold " + describe(o) + " is not the Offset field of the loaded state"
					break
				}
				if _, f, _, okf := fieldAddrInfo(fa); !okf || f != "Offset" {
					why = "threshold is field " + describe(fa) + ", not Offset"
					break
				}
				al, ok := fa.X.(*ssa.Alloc)
				if !ok {
					kind := fmt.Sprintf("%T", fa.X)
					if _, isPhi := fa.X.(*ssa.Phi); isPhi {
						kind = "a value carried from one loop iteration to the next"
					}
					why = "the state the threshold is read from is " + kind + ", not a per-iteration local: it can carry a checkpoint loaded earlier, for another partition or before a lease change"
					break
				}
				holder = al
			}
			if why == "" && holder != nil {
				nStore := 0
				for _, ref := range *holder.Referrers() {
					switch x := ref.(type) {
					case *ssa.Store:
						if x.Addr == ssa.Value(holder) {
							nStore++
							ex, ok := x.Val.(*ssa.Extract)
							if !ok || ex.Tuple != ssa.Value(load[0].(*ssa.Call)) || ex.Index != 0 {
								why = "the state local is assigned " + describe(x.Val) + ", not LoadOffset's result"
							}
						}
					case *ssa.FieldAddr:
						if faIsWrite(x) {
							why = "field " + describe(x) + " of the loaded state is overwritten at " + m.Pos(x.Pos())
						}
					}
				}
				if nStore != 1 && why == "" {
					why = fmt.Sprintf("the state local is assigned %d times", nStore)
				}
				if holder.Block() == nil || !header.Dominates(holder.Block()) || holder.Block() == header {
					if why == "" && !blockInLoop(header, holder.Block()) {
						why = "the state local lives outside the segment loop: its value survives from one segment (and lease) to the next"
					}
				}
			}
			// LoadOffset is asked about this segment's topic and partition
			if why == "" {
				la := load[0].Common().Args
				var decode ssa.CallInstruction
				for _, d := range findCalls(run, "~decoder.Decoder).Decode") {
					decode = d
				}
				if decode == nil {
					why = "no Decode call to compare the segment with"
				} else {
					da := decode.Common().Args
					segOf := func(v ssa.Value, field string) ssa.Value {
						_, f, base, ok := fieldOf(v)
						if !ok || f != field {
							return nil
						}
						return canonBase(base)
					}
					lt, lp := segOf(la[len(la)-2], "Topic"), segOf(la[len(la)-1], "Partition")
					sameSeg := false
					for _, a := range da {
						if _, f, base, ok := fieldOf(a); ok && f == "SegmentKey" && lt != nil && canonBase(base) == lt {
							sameSeg = true
						}
					}
					if !sameSeg && lt != nil && lt == lp {
						// or the lease the segment was matched against: both fields compared with the
						// decoded segment's inside Run
						var segBase ssa.Value
						for _, a := range da {
							if _, f, base, ok := fieldOf(a); ok && f == "SegmentKey" {
								segBase = canonBase(base)
							}
						}
						eq := map[string]bool{}
						for _, b := range run.Blocks {
							for _, in := range b.Instrs {
								bo, ok := in.(*ssa.BinOp)
								if !ok || (bo.Op != token.NEQ && bo.Op != token.EQL) {
									continue
								}
								_, fx, bx, okx := fieldOf(bo.X)
								_, fy, by, oky := fieldOf(bo.Y)
								if !okx || !oky || fx != fy {
									continue
								}
								cx, cy := canonBase(bx), canonBase(by)
								if segBase != nil && ((cx == segBase && cy == lt) || (cy == segBase && cx == lt)) {
									eq[fx] = true
								}
							}
						}
						sameSeg = eq["Topic"] && eq["Partition"]
					}
					if lt == nil || lp == nil || lt != lp || !sameSeg {
						why = "LoadOffset is not called with the Topic and Partition of the segment that is decoded"
					}
				}
			}
			// and it cannot be skipped on the way from the loop header to the filter
			if why == "" {
				if found, _, path := search(SearchSpec{Start: Loc{header, 0}, Target: func(t ssa.Instruction) bool { return t == fc.(ssa.Instruction) },
					Blocker: func(t ssa.Instruction) bool { return t == load[0].(ssa.Instruction) }}); found {
					why = "LoadOffset can be skipped on the way to the filter: " + renderPath(m, path)
				}
			}
			if why == "" {
				r.ok("C33.R5", key, m.Pos(fc.Pos()), "")
			} else {
				r.viol("C33.R5", key, m.Pos(fc.Pos()), why)
			}
		}
		// filterRecords strictness
		if fr := needFn(m, r, "C33.R3", pkgP, "filterRecords"); fr != nil {
			okF := false
			for _, b := range fr.Blocks {
				if ifi, ok := b.Instrs[len(b.Instrs)-1].(*ssa.If); ok {
					l := litOf(ifi.Cond, true)
					if _, f, _, okf := fieldOf(l.X); okf && f == "Offset" && strip(l.Y) == ssa.Value(fr.Params[1]) {
						if l.Op == token.GTR {
							okF = true
						} else {
							r.viol("C33.R3", p.label+": filterRecords keeps records with offset > committed", ifPos(m, ifi), "comparison is "+l.Op.String()+": with the -1 sentinel a >= would re-deliver the last committed record, a different comparison drops records")
						}
					}
				}
			}
			if okF {
				r.ok("C33.R3", p.label+": filterRecords keeps records with offset > committed", m.Pos(fr.Pos()), "")
			} else {
				r.viol("C33.R3", p.label+": filterRecords keeps records with offset > committed", m.Pos(fr.Pos()), "no comparison `record.Offset > committed` against the unmodified committed offset decides what is kept")
			}
		}
		// ---- R3 stores
		pkgC := p.path + "/internal/checkpoint"
		nImpl := 0
		for _, fn := range m.FuncsInPkg(pkgC) {
			if fn.Name() != "LoadOffset" || fn.Signature.Recv() == nil {
				continue
			}
			nImpl++
			r.fn(fn)
			recv := fn.Signature.Recv().Type().String()
			recv = recv[strings.LastIndex(recv, ".")+1:]
			nConst := 0
			for _, b := range fn.Blocks {
				ret, ok := b.Instrs[len(b.Instrs)-1].(*ssa.Return)
				if !ok || !alwaysNil(ret.Results[1]) {
					continue
				}
				var lit *ssa.Alloc
				backSlice(ret.Results[0], false, func(v ssa.Value) {
					if a, ok := v.(*ssa.Alloc); ok && strings.HasSuffix(a.Type().String(), "checkpoint.OffsetState") {
						lit = a
					}
				})
				key := fmt.Sprintf("%s %s.LoadOffset: 'nothing committed' is -1", p.label, recv)
				if lit == nil {
					r.undecided("C33.R3", key, m.Pos(ret.Pos()), "returned state is not a literal")
					continue
				}
				fs := fieldStores(lit)
				if len(fs["Offset"]) == 0 {
					nConst++
					r.viol("C33.R3", key, m.Pos(ret.Pos()), "Offset is left at 0: records are filtered with offset > committed, so offset 0 would never be delivered")
					continue
				}
				if k, ok := constInt(fs["Offset"][0].Val); ok {
					nConst++
					if k == -1 {
						r.ok("C33.R3", key, m.Pos(ret.Pos()), "")
					} else {
						r.viol("C33.R3", key, m.Pos(ret.Pos()), fmt.Sprintf("constant %d is returned for an empty checkpoint: offset 0 would never be delivered", k))
					}
				}
			}
			if nConst == 0 {
				r.viol("C33.R3", fmt.Sprintf("%s %s.LoadOffset: 'nothing committed' is -1", p.label, recv), m.Pos(fn.Pos()), "no branch returns the -1 sentinel")
			}
		}
		if nImpl == 0 {
			r.unresolved("C33.R3", p.label+" LoadOffset implementations", "none found")
		}
		// ---- R4
		pkgD := p.path + "/internal/discovery"
		for _, fn := range m.FuncsInPkg(pkgD) {
			for _, call := range findCalls(fn, "~discovery.s3Lister).hasFooterMagic") {
				_, errB := errEdges(call)
				key := p.label + " " + fn.Name() + ": a footer-check error is returned, not turned into 'segment absent'"
				if errB == nil {
					r.viol("C33.R4", key, m.Pos(call.Pos()), "the error of hasFooterMagic is not checked on its own (e.g. `err != nil || !ok`): a transient read error hides the segment while later ones stay listed")
					continue
				}
				found, tgt, path := search(SearchSpec{Start: Loc{errB, 0}, ExitIsTarget: true,
					Target: func(in ssa.Instruction) bool {
						_, isNext := in.(*ssa.Next)
						return isNext || in.Block().Comment == "rangeindex.loop"
					}})
				bad := ""
				if found {
					if ret, ok := tgt.(*ssa.Return); ok {
						if alwaysNil(ret.Results[len(ret.Results)-1]) {
							bad = "the error branch returns a nil error"
						}
					} else {
						bad = "the error branch continues with the next entry: " + renderPath(m, path)
					}
				}
				if bad == "" {
					r.ok("C33.R4", key, m.Pos(call.Pos()), "")
				} else {
					r.viol("C33.R4", key, m.Pos(call.Pos()), bad)
				}
			}
		}
	}
}

// sameSliceValue: the two values are the same SSA value or loads of the same local.
func sameSliceValue(a, b ssa.Value) bool {
	a, b = strip(a), strip(b)
	if a == b {
		return true
	}
	ua, ok1 := a.(*ssa.UnOp)
	ub, ok2 := b.(*ssa.UnOp)
	return ok1 && ok2 && ua.X == ub.X
}

// blockInLoop: b belongs to the natural loop of header (header dominates b and b reaches header).
func blockInLoop(header, b *ssa.BasicBlock) bool {
	if b == nil || !header.Dominates(b) {
		return false
	}
	seen := map[*ssa.BasicBlock]bool{}
	var dfs func(x *ssa.BasicBlock) bool
	dfs = func(x *ssa.BasicBlock) bool {
		if x == header {
			return true
		}
		if seen[x] {
			return false
		}
		seen[x] = true
		for _, s := range x.Succs {
			if dfs(s) {
				return true
			}
		}
		return false
	}
	for _, s := range b.Succs {
		if dfs(s) {
			return true
		}
	}
	return false
}

// checkStrictValidation (C33.R6, added after a seeded change let strict mode drop a record whose
// validation timed out): dropping a record is the lenient mode's documented behaviour only.
func checkStrictValidation(c *Ctx, r *Report, rule string) {
	m, err := c.Mod("iceberg")
	if err != nil {
		r.unresolved(rule, "iceberg module", err.Error())
		return
	}
	notStrict := atomFn("Mode() != ModeStrict", func(l Lit) bool {
		if l.Op != token.NEQ {
			return false
		}
		isMode := func(v ssa.Value) bool { return dependsOnCall(v, "~schema.Validator).Mode") }
		isStrict := func(v ssa.Value) bool { s, ok := constString(v); return ok && s == "strict" }
		return (isMode(l.X) && isStrict(l.Y)) || (isMode(l.Y) && isStrict(l.X))
	})
	n := 0
	for _, fn := range m.FuncsInPkg(icebergMod + "/internal/processor") {
		for _, call := range findCalls(fn, "~schema.Validator).Validate") {
			header := innermostRangeHeader(call)
			if header == nil {
				continue
			}
			n++
			r.fn(fn)
			key := "a Validate error in " + shortName(fn) + " drops the record only when the mode is not strict"
			_, errB := errEdges(call)
			if errB == nil {
				r.viol(rule, key, m.Pos(call.Pos()), "the error of Validate is not checked")
				continue
			}
			lenient := passEdges(fn, []Atom{notStrict})
			found, _, path := search(SearchSpec{Start: Loc{errB, 0},
				Removed: func(b *ssa.BasicBlock, si int) bool { _, ok := lenient[edge{b, si}]; return ok },
				Target:  func(in ssa.Instruction) bool { return in.Block() == header }})
			if found {
				r.viol(rule, key, m.Pos(call.Pos()), "after a validator error the record loop continues without the mode having been found non-strict — the record is left out of what is written, and the checkpoint moves past it: "+renderPath(m, path))
			} else {
				r.ok(rule, key, m.Pos(call.Pos()), "")
			}
		}
	}
	if n == 0 {
		r.unresolved(rule, "Validate call inside a record loop", "not found in the iceberg processor package")
	}
}
