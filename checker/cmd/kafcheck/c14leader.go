package main

import (
	"go/token"

	"golang.org/x/tools/go/ssa"
)

// checkLeaderAfterDelete (C14.R5): "the leader named in any reply is a current member" needs the
// leader to be cleared or re-elected whenever a member is removed.
func checkLeaderAfterDelete(m *Module, r *Report, rule string) {
	n := 0
	for _, w := range fieldWriters(m, tGroupState, "members", true) {
		if w.Kind != "delete" {
			continue
		}
		n++
		fn := w.Fn
		r.fn(fn)
		call := w.In.(*ssa.Call)
		key := call.Call.Args[1]
		// edges on which "leaderID != k" is known for the deleted key
		notLeader := passEdges(fn, []Atom{atomFn("leaderID != deleted key", func(l Lit) bool {
			if l.Op != token.NEQ {
				return false
			}
			_, f1, _, ok1 := fieldOf(l.X)
			_, f2, _, ok2 := fieldOf(l.Y)
			if ok1 && f1 == "leaderID" {
				return vkeySame(l.Y, key)
			}
			if ok2 && f2 == "leaderID" {
				return vkeySame(l.X, key)
			}
			return false
		})})
		found, _, path := search(SearchSpec{Start: nextLoc(w.In), ExitIsTarget: true,
			Removed: func(b *ssa.BasicBlock, si int) bool { _, ok := notLeader[edge{b, si}]; return ok },
			Blocker: func(in ssa.Instruction) bool {
				if st, ok := in.(*ssa.Store); ok {
					if fa, ok := st.Addr.(*ssa.FieldAddr); ok {
						if t, f, _, ok := fieldAddrInfo(fa); ok && t == tGroupState && f == "leaderID" {
							return true
						}
					}
				}
				if isCallTo(in, gstate+"ensureLeader") {
					return true
				}
				if c2, ok := in.(*ssa.Call); ok && calleeName(&c2.Call) == "builtin.delete" {
					if _, f, _, ok := fieldOf(c2.Call.Args[0]); ok && f == "groups" {
						return true
					}
				}
				return false
			}})
		k := "leader handled after delete(members) in " + funcName(fn)
		if found {
			r.viol(rule, k, m.Pos(w.In.Pos()), "a member can be removed while it stays recorded as leader: return reachable without clearing leaderID, ensureLeader(), or a leaderID != key check: "+renderPath(m, path))
		} else {
			r.ok(rule, k, m.Pos(w.In.Pos()), "")
		}
	}
	if n == 0 {
		r.unresolved(rule, "delete(members) sites", "none found")
	}
	// startRebalance must re-validate the leader on its non-empty path unconditionally:
	// ensureLeader() checks membership itself, a `leaderID == ""` pre-check would skip that.
	if sr := m.Func(pkgBrokerLib, "(*groupState).startRebalance"); sr != nil {
		r.fn(sr)
		gen := storesToField(sr, "broker.groupState", "generationID")
		if len(gen) == 0 {
			r.unresolved(rule, "startRebalance re-validates the leader", "generation bump not found")
			return
		}
		ok, path := mustPassAfter(m, gen[0], func(in ssa.Instruction) bool { return isCallTo(in, gstate+"ensureLeader") })
		if ok {
			r.ok(rule, "startRebalance re-validates the leader", m.Pos(gen[0].Pos()), "ensureLeader() on every path after the generation bump")
		} else {
			r.viol(rule, "startRebalance re-validates the leader", m.Pos(gen[0].Pos()), "after the generation bump a return is reachable without ensureLeader(): "+path)
		}
	}
}

// vkeySame: two values denote the same key (same SSA value, or loads of the same local/field).
func vkeySame(a, b ssa.Value) bool {
	if strip(a) == strip(b) {
		return true
	}
	_, fa, ba, oka := fieldOf(a)
	_, fb, bb, okb := fieldOf(b)
	if oka && okb && fa == fb && strip(ba) == strip(bb) {
		return true
	}
	return vkey(a) == vkey(b)
}
